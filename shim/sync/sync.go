//go:build go1.21

// Package sync is a drop-in replacement for the subset of package sync used by
// the instrumented ipfs-cluster files.
//
//   - Blocking acquisitions first pass a scheduling point of the E1 controlled
//     scheduler (a no-op when no scheduler is installed).
//   - Mutex and RWMutex are built on channels: a goroutine waiting for one of
//     them is *durably* blocked in the sense of testing/synctest, so a bubble's
//     fake clock keeps advancing while a lock is held across a sleep or a
//     timer wait (with package sync's mutexes such a bubble would hang for
//     ever: real time would resolve the wait, fake time cannot).
//     Semantics are those of package sync (writer-preferring RWMutex, no
//     reentrancy); the race detector sees the same happens-before edges
//     (unlock -> lock) through the channel and internal mutex operations.
//
// Everything else delegates to the real primitives.
package sync

import (
	realsync "sync"
	"sync/atomic"

	"github.com/ipfs/ipfs-cluster/verifshim/sched"
)

// Pass-through types.
type (
	Map    = realsync.Map
	Once   = realsync.Once
	Pool   = realsync.Pool
	Cond   = realsync.Cond
	Locker = realsync.Locker
)

// NewCond is sync.NewCond.
func NewCond(l Locker) *Cond { return realsync.NewCond(l) }

// RWMutex is an instrumented, durably blocking reader/writer lock.
type RWMutex struct {
	s       realsync.Mutex // guards the fields below; never held while blocking
	writer  bool
	readers int
	// announced: under the scheduler, a writer that found readers inside has
	// made its Lock call known and waits (at a second scheduling point) for
	// them to leave. As with package sync, no new reader is admitted from
	// this moment on, so a reader that takes the read lock again while it
	// already holds it deadlocks with that writer. (The scheduler only lets a
	// thread pass a point whose operation would not block, so without this
	// step a writer would never be "waiting" and that deadlock could not be
	// explored.)
	announced bool
	wq        []chan struct{} // waiting writers, FIFO
	rq        []chan struct{} // waiting readers
}

func (m *RWMutex) tryLock() bool {
	if m.writer || m.readers > 0 || m.announced {
		return false
	}
	m.writer = true
	return true
}

func (m *RWMutex) tryRLock() bool {
	if m.writer || m.announced || len(m.wq) > 0 {
		return false
	}
	m.readers++
	return true
}

// Lock locks for writing.
func (m *RWMutex) Lock() {
	sched.Point(sched.OpLock, (*announcer)(m), 1)
	m.s.Lock()
	if m.tryLock() {
		m.s.Unlock()
		return
	}
	if sched.Active() && !m.writer && !m.announced && len(m.wq) == 0 {
		// readers inside: announce, then wait for them under the scheduler
		m.announced = true
		m.s.Unlock()
		sched.Point(sched.OpLock, (*drainer)(m), 1)
		m.s.Lock()
		m.announced = false
		if m.tryLock() {
			m.s.Unlock()
			return
		}
		// the scheduler was switched off while we were parked: plain blocking
	}
	ch := make(chan struct{})
	m.wq = append(m.wq, ch)
	m.s.Unlock()
	<-ch // ownership is handed over by the releaser
}

// RLock locks for reading.
func (m *RWMutex) RLock() {
	sched.Point(sched.OpRLock, m, 1)
	m.s.Lock()
	if m.tryRLock() {
		m.s.Unlock()
		return
	}
	ch := make(chan struct{})
	m.rq = append(m.rq, ch)
	m.s.Unlock()
	<-ch
}

// wake hands the lock over; called with m.s held and the lock free of writers.
func (m *RWMutex) wake() {
	if m.readers == 0 && len(m.wq) > 0 {
		ch := m.wq[0]
		m.wq = m.wq[1:]
		m.writer = true
		close(ch)
		return
	}
	if len(m.wq) == 0 {
		for _, ch := range m.rq {
			m.readers++
			close(ch)
		}
		m.rq = nil
	}
}

// Unlock unlocks a write lock.
func (m *RWMutex) Unlock() {
	m.s.Lock()
	if !m.writer {
		m.s.Unlock()
		panic("sync: Unlock of unlocked RWMutex")
	}
	m.writer = false
	// readers that queued behind this writer go first when no writer waits;
	// otherwise the next writer
	if len(m.wq) == 0 {
		m.wake()
	} else if len(m.rq) > 0 {
		// like package sync: readers blocked by the departing writer are
		// admitted before the next writer
		for _, ch := range m.rq {
			m.readers++
			close(ch)
		}
		m.rq = nil
	} else {
		m.wake()
	}
	m.s.Unlock()
}

// RUnlock unlocks a read lock.
func (m *RWMutex) RUnlock() {
	m.s.Lock()
	if m.readers <= 0 {
		m.s.Unlock()
		panic("sync: RUnlock of unlocked RWMutex")
	}
	m.readers--
	if m.readers == 0 {
		m.wake()
	}
	m.s.Unlock()
}

// TryLock tries to lock for writing.
func (m *RWMutex) TryLock() bool {
	m.s.Lock()
	defer m.s.Unlock()
	return m.tryLock()
}

// TryRLock tries to lock for reading.
func (m *RWMutex) TryRLock() bool {
	m.s.Lock()
	defer m.s.Unlock()
	return m.tryRLock()
}

type rlocker RWMutex

func (r *rlocker) Lock()   { (*RWMutex)(r).RLock() }
func (r *rlocker) Unlock() { (*RWMutex)(r).RUnlock() }

// RLocker returns a Locker for the read side.
func (m *RWMutex) RLocker() Locker { return (*rlocker)(m) }

// Enabled implements sched.Res: would the operation complete without blocking?
func (m *RWMutex) Enabled(k sched.OpKind) bool {
	m.s.Lock()
	defer m.s.Unlock()
	if k == sched.OpRLock {
		return !m.writer && !m.announced && len(m.wq) == 0
	}
	return !m.writer && !m.announced && m.readers == 0
}

// announcer: the first point of RWMutex.Lock. The call can be made (and, if
// readers are inside, announced) whenever no other writer holds or has
// announced itself.
type announcer RWMutex

func (a *announcer) Enabled(sched.OpKind) bool {
	m := (*RWMutex)(a)
	m.s.Lock()
	defer m.s.Unlock()
	return !m.writer && !m.announced && len(m.wq) == 0
}

// drainer: the second point of an announced writer: the readers have left.
type drainer RWMutex

func (d *drainer) Enabled(sched.OpKind) bool {
	m := (*RWMutex)(d)
	m.s.Lock()
	defer m.s.Unlock()
	return m.readers == 0
}

// Mutex is an instrumented, durably blocking mutual exclusion lock.
type Mutex struct{ rw RWMutex }

func (m *Mutex) Lock() {
	sched.Point(sched.OpLock, m, 1)
	m.rw.s.Lock()
	if m.rw.tryLock() {
		m.rw.s.Unlock()
		return
	}
	ch := make(chan struct{})
	m.rw.wq = append(m.rw.wq, ch)
	m.rw.s.Unlock()
	<-ch
}
func (m *Mutex) Unlock()       { m.rw.Unlock() }
func (m *Mutex) TryLock() bool { return m.rw.TryLock() }

// Enabled implements sched.Res.
func (m *Mutex) Enabled(sched.OpKind) bool { return m.rw.Enabled(sched.OpLock) }

// WaitGroup is an instrumented sync.WaitGroup.
type WaitGroup struct {
	w realsync.WaitGroup
	n atomic.Int64
}

// The shadow counter is only maintained while a scheduler is installed, so
// that the free-running race pass sees no synchronisation beyond package sync's.
func (w *WaitGroup) Add(d int) {
	if sched.Installed() {
		w.n.Add(int64(d))
	}
	w.w.Add(d)
}
func (w *WaitGroup) Done() {
	if sched.Installed() {
		w.n.Add(-1)
	}
	w.w.Done()
}
func (w *WaitGroup) Wait() { sched.Point(sched.OpWait, w, 1); w.w.Wait() }

// Enabled implements sched.Res.
func (w *WaitGroup) Enabled(sched.OpKind) bool { return w.n.Load() <= 0 }
