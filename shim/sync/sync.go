//go:build go1.21

// Package sync is a drop-in replacement for the subset of package sync used by
// the instrumented ipfs-cluster files.  Blocking acquisitions first pass a
// scheduling point; everything else delegates to the real primitives, so with
// no scheduler installed the behaviour (including what the race detector sees)
// is that of package sync.
package sync

import (
	realsync "sync"
	"sync/atomic"

	"github.com/ipfs/ipfs-cluster/verifshim/sched"
)

// Pass-through types.
type (
	Map    = realsync.Map
	Once   = realsync.Once
	Pool   = realsync.Pool
	Cond   = realsync.Cond
	Locker = realsync.Locker
)

// NewCond is sync.NewCond.
func NewCond(l Locker) *Cond { return realsync.NewCond(l) }

// Mutex is an instrumented sync.Mutex.
type Mutex struct{ m realsync.Mutex }

func (m *Mutex) Lock()         { sched.Point(sched.OpLock, m, 1); m.m.Lock() }
func (m *Mutex) Unlock()       { m.m.Unlock() }
func (m *Mutex) TryLock() bool { return m.m.TryLock() }

// Enabled implements sched.Res.
func (m *Mutex) Enabled(sched.OpKind) bool {
	if m.m.TryLock() {
		m.m.Unlock()
		return true
	}
	return false
}

// RWMutex is an instrumented sync.RWMutex.
type RWMutex struct{ m realsync.RWMutex }

func (m *RWMutex) Lock()           { sched.Point(sched.OpLock, m, 1); m.m.Lock() }
func (m *RWMutex) Unlock()         { m.m.Unlock() }
func (m *RWMutex) RLock()          { sched.Point(sched.OpRLock, m, 1); m.m.RLock() }
func (m *RWMutex) RUnlock()        { m.m.RUnlock() }
func (m *RWMutex) TryLock() bool   { return m.m.TryLock() }
func (m *RWMutex) TryRLock() bool  { return m.m.TryRLock() }
func (m *RWMutex) RLocker() Locker { return m.m.RLocker() }

// Enabled implements sched.Res.
func (m *RWMutex) Enabled(k sched.OpKind) bool {
	if k == sched.OpRLock {
		if m.m.TryRLock() {
			m.m.RUnlock()
			return true
		}
		return false
	}
	if m.m.TryLock() {
		m.m.Unlock()
		return true
	}
	return false
}

// WaitGroup is an instrumented sync.WaitGroup.
type WaitGroup struct {
	w realsync.WaitGroup
	n atomic.Int64
}

// The shadow counter is only maintained while a scheduler is installed, so
// that the free-running race pass sees no synchronisation beyond package sync's.
func (w *WaitGroup) Add(d int) {
	if sched.Installed() {
		w.n.Add(int64(d))
	}
	w.w.Add(d)
}
func (w *WaitGroup) Done() {
	if sched.Installed() {
		w.n.Add(-1)
	}
	w.w.Done()
}
func (w *WaitGroup) Wait() { sched.Point(sched.OpWait, w, 1); w.w.Wait() }

// Enabled implements sched.Res.
func (w *WaitGroup) Enabled(sched.OpKind) bool { return w.n.Load() <= 0 }
