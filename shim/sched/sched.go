//go:build go1.21

// Package sched is the controlled scheduler behind the E1 engine.  It is
// mapped into the ipfs-cluster module as a virtual package
// (github.com/ipfs/ipfs-cluster/verifshim/sched) by a build overlay, so that
// the sync shim and the channel points inserted into instrumented files can
// reach it.  With no scheduler installed every Point is a no-op and the shim
// types behave exactly like package sync (this is how the free-running -race
// pass runs the same binaries).
package sched

import (
	"bytes"
	"fmt"
	"runtime"
	"sort"
	"strconv"
	realsync "sync"
	"sync/atomic"
)

// OpKind classifies a scheduling point.
type OpKind int

// Kinds of scheduling points.
const (
	OpLock OpKind = iota
	OpRLock
	OpWait
	OpChan  // before a channel operation / select: always enabled
	OpAfter // after a channel operation completed: always enabled
	OpStart // first point of a driver thread
	OpYield // explicit yield inside a retry loop
)

func (k OpKind) String() string {
	return [...]string{"lock", "rlock", "wgwait", "chan", "after", "start", "yield"}[k]
}

// Res is implemented by shim objects whose availability gates a point.
type Res interface {
	// Enabled reports whether the operation would complete without blocking.
	// It is only called while every managed goroutine is parked.
	Enabled(k OpKind) bool
}

type request struct {
	kind  OpKind
	res   Res
	label string
}

// Thread is a managed goroutine.
type Thread struct {
	Name     string
	goid     uint64
	grant    chan struct{}
	pending  *request
	finished bool
	driver   bool
	steps    int
}

// Step is one decision of an execution.
type Step struct {
	Enabled        []string // canonical order
	Choice         int
	Label          string // label of the point the chosen thread was parked at
	Kind           string
	RunningEnabled bool // the previously running thread was still enabled
}

// Sched controls one execution.
type Sched struct {
	mu       realsync.Mutex
	active   atomic.Bool
	threads  []*Thread
	byGoid   map[uint64]*Thread
	nameCnt  map[string]int
	last     *Thread
	Steps    []Step
	Horizon  int
	Deadlock bool
	Capped   bool
}

var cur atomic.Pointer[Sched]

// Installed reports whether a scheduler exists for the current execution.
func Installed() bool { return cur.Load() != nil }

// Active reports whether a scheduler is installed and intercepting points.
func Active() bool {
	s := cur.Load()
	return s != nil && s.active.Load()
}

// New creates a scheduler and installs it (inactive: points pass through
// until Activate is called).
func New() *Sched {
	s := &Sched{byGoid: map[uint64]*Thread{}, nameCnt: map[string]int{}, Horizon: 5000}
	cur.Store(s)
	return s
}

// Uninstall removes the scheduler and releases every parked goroutine.
func (s *Sched) Uninstall() {
	s.Deactivate()
	cur.CompareAndSwap(s, nil)
}

// Activate starts intercepting points.
func (s *Sched) Activate() { s.active.Store(true) }

// Deactivate stops intercepting and releases every parked goroutine, which
// then proceeds with plain blocking semantics.
func (s *Sched) Deactivate() {
	s.active.Store(false)
	s.mu.Lock()
	for _, t := range s.threads {
		if t.pending != nil {
			t.pending = nil
			t.grant <- struct{}{}
		}
	}
	s.mu.Unlock()
}

func goid() uint64 {
	var buf [64]byte
	n := runtime.Stack(buf[:], false)
	// "goroutine 123 ["
	b := buf[10:n]
	i := bytes.IndexByte(b, ' ')
	id, _ := strconv.ParseUint(string(b[:i]), 10, 64)
	return id
}

func caller(skip int) string {
	_, file, line, ok := runtime.Caller(skip)
	if !ok {
		return "?"
	}
	// keep the last two path elements
	n := 0
	for i := len(file) - 1; i >= 0; i-- {
		if file[i] == '/' {
			n++
			if n == 2 {
				file = file[i+1:]
				break
			}
		}
	}
	return file + ":" + strconv.Itoa(line)
}

// Point is a scheduling point. skip is the number of frames between the
// instrumented call site and this function (1 = direct caller).
func Point(kind OpKind, res Res, skip int) {
	s := cur.Load()
	if s == nil || !s.active.Load() {
		return
	}
	s.point(kind, res, caller(skip+2))
}

// P is the form inserted by the source rewriter before/after channel
// operations: P(0) before, P(1) after.
func P(after int) {
	s := cur.Load()
	if s == nil || !s.active.Load() {
		return
	}
	k := OpChan
	if after == 1 {
		k = OpAfter
	}
	s.point(k, nil, caller(2))
}

func (s *Sched) point(kind OpKind, res Res, label string) {
	g := goid()
	s.mu.Lock()
	if !s.active.Load() {
		s.mu.Unlock()
		return
	}
	t := s.byGoid[g]
	if t == nil {
		base := "w@" + label
		n := s.nameCnt[base]
		s.nameCnt[base] = n + 1
		t = &Thread{Name: base + "#" + strconv.Itoa(n), goid: g, grant: make(chan struct{}, 1)}
		s.byGoid[g] = t
		s.threads = append(s.threads, t)
	}
	t.pending = &request{kind: kind, res: res, label: label}
	s.mu.Unlock()
	<-t.grant
}

// Go starts a driver thread inside the current bubble. The thread parks at an
// OpStart point before running f.
func (s *Sched) Go(name string, f func()) {
	t := &Thread{Name: name, grant: make(chan struct{}, 1), driver: true}
	s.mu.Lock()
	s.threads = append(s.threads, t)
	s.mu.Unlock()
	go func() {
		g := goid()
		s.mu.Lock()
		t.goid = g
		s.byGoid[g] = t
		s.mu.Unlock()
		defer func() {
			s.mu.Lock()
			t.finished = true
			s.mu.Unlock()
		}()
		Point(OpStart, nil, 0)
		f()
	}()
}

func (t *Thread) enabled() bool {
	if t.pending == nil || t.finished {
		return false
	}
	if t.pending.res == nil {
		return true
	}
	return t.pending.res.Enabled(t.pending.kind)
}

// Chooser decides which of n enabled threads runs at decision i.
type Chooser func(i int, n int) int

// Run drives the execution until no thread is enabled. wait must be
// synctest.Wait (passed in so this package does not import testing).
// It returns nil when every driver thread finished.
func (s *Sched) Run(wait func(), choose Chooser) error {
	for {
		wait()
		s.mu.Lock()
		var en []*Thread
		for _, t := range s.threads {
			if t.enabled() {
				en = append(en, t)
			}
		}
		// canonical order: last running first (if enabled), then by name
		sort.SliceStable(en, func(i, j int) bool {
			if (en[i] == s.last) != (en[j] == s.last) {
				return en[i] == s.last
			}
			return en[i].Name < en[j].Name
		})
		if len(en) == 0 {
			unfinished := []string{}
			for _, t := range s.threads {
				if t.driver && !t.finished {
					where := "blocked outside a scheduling point"
					if t.pending != nil {
						where = "blocked at " + t.pending.kind.String() + " " + t.pending.label
					}
					unfinished = append(unfinished, t.Name+" "+where)
				}
			}
			s.mu.Unlock()
			if len(unfinished) > 0 {
				s.Deadlock = true
				return fmt.Errorf("deadlock: no enabled thread; unfinished: %v", unfinished)
			}
			return nil
		}
		if len(s.Steps) >= s.Horizon {
			s.Capped = true
			s.mu.Unlock()
			return fmt.Errorf("horizon of %d scheduling decisions exceeded (livelock?)", s.Horizon)
		}
		names := make([]string, len(en))
		for i, t := range en {
			names[i] = t.Name
		}
		i := len(s.Steps)
		s.mu.Unlock()
		c := choose(i, len(en))
		if c < 0 || c >= len(en) {
			return fmt.Errorf("replay divergence: choice %d out of range (%d enabled) at decision %d", c, len(en), i)
		}
		s.mu.Lock()
		t := en[c]
		s.Steps = append(s.Steps, Step{Enabled: names, Choice: c, Label: t.pending.label, Kind: t.pending.kind.String(),
			RunningEnabled: s.last != nil && en[0] == s.last})
		s.last = t
		t.pending = nil
		t.steps++
		s.mu.Unlock()
		t.grant <- struct{}{}
	}
}

// Trace renders the executed schedule.
func (s *Sched) Trace() []string {
	var out []string
	for i, st := range s.Steps {
		out = append(out, fmt.Sprintf("%d: %s %s @%s (enabled %v)", i, st.Enabled[st.Choice], st.Kind, st.Label, st.Enabled))
	}
	return out
}
