package ipfscluster

// Virtual file (build overlay of the C03 harness only; not part of the
// repository): gives the harness the allocation entry point every request
// goes through, with all of its inputs.

import (
	"context"

	cid "github.com/ipfs/go-cid"
	"github.com/ipfs/ipfs-cluster/api"
	peer "github.com/libp2p/go-libp2p-core/peer"
)

// VerifAllocate calls (*Cluster).allocate.
func (c *Cluster) VerifAllocate(ctx context.Context, hash cid.Cid, currentPin *api.Pin, rplMin, rplMax int, excluded, priority []peer.ID) ([]peer.ID, error) {
	return c.allocate(ctx, hash, currentPin, rplMin, rplMax, excluded, priority)
}
