// Package libp2pquic is a stand-in for go-libp2p-quic-transport, whose
// dependency quic-go@v0.21.1 deliberately refuses to compile with Go >= 1.18.
// ipfs-cluster only references NewTransport as a libp2p option; no harness
// enables a code path that would call it.
package libp2pquic

import "errors"

// NewTransport has a constructor shape libp2p's reflection-based option
// accepts; it always fails.
func NewTransport() (interface{}, error) {
	return nil, errors.New("quic transport stubbed out in the verification harness")
}
