#!/bin/bash
# Offline setup: build helper tools and warm the Go build cache for every harness.
set -e
cd "$(dirname "$0")"
export GOFLAGS=-mod=mod GOPROXY=off GOSUMDB=off GOTOOLCHAIN=local
./tools/prep.sh
mkdir -p tools/bin
if [ -d tools/mkoverlay ]; then (cd tools/mkoverlay && go1.26 build -o ../bin/mkoverlay .); fi
cd harness
for d in c[0-9][0-9]; do
  [ -d "$d" ] || continue
  go1.26 test -c -vet=off -o /dev/null "./$d" >/dev/null 2>&1 || echo "warn: $d did not prebuild"
done
echo setup done
