#!/bin/bash
# Offline setup: build helper tools and warm the Go build cache for every harness
# (plain and, where a check has a race pass, -race).
cd "$(dirname "$0")"
export GOFLAGS=-mod=mod GOPROXY=off GOSUMDB=off GOTOOLCHAIN=local
mkdir -p tools/bin evidence replays
(cd tools/mkoverlay && go1.26 build -o ../bin/mkoverlay .) || { echo "mkoverlay build failed"; exit 1; }
rc=0
for d in harness/c[0-9][0-9]; do
  id=$(basename "$d" | tr a-z A-Z)
  VERIF_BUILD_ONLY=1 ./vcheck "$id" quick || { echo "warn: $id did not prebuild"; rc=1; }
done
echo setup done
exit $rc
