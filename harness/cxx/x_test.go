package cxx

import (
	"context"
	"testing"
	"testing/synctest"
	"time"
	"fmt"

	"verif/harness/lib/clus"
)

func TestCRDT2(t *testing.T) {
	for i := 0; i < 3; i++ {
	st := time.Now()
	clus.Bubble(t, func(t *testing.T) {
		ctx := context.Background()
		mn, hosts := clus.NewMocknetUnconnected(ctx, 0, 2)
		var peers []*clus.CRDTPeer
		for j, h := range hosts {
			p, err := clus.NewCRDTPeer(ctx, h, clus.NewFaultStore(), false, nil)
			if err != nil { t.Fatal(j, err) }
			peers = append(peers, p)
		}
		mn.ConnectAllButSelf()
		t0 := time.Now()
		for _, p := range peers { <-p.Cons.Ready(ctx) }
		fmt.Println("ready after fake", time.Since(t0))
		va := clus.PinAlphabet()
		fmt.Println("logpin", peers[0].Cons.LogPin(ctx, va[1].Make(clus.Cid("a"))), peers[1].Cons.LogPin(ctx, va[3].Make(clus.Cid("b"))))
		synctest.Wait()
		time.Sleep(2*time.Second)
		synctest.Wait()
		for _, p := range peers {
			s, _ := p.Cons.State(ctx)
			l, _ := s.List(ctx)
			fmt.Println(len(l), len(p.Rec.Snapshot()))
		}
		for _, p := range peers { p.Stop(); p.Host.Close() }
	})
	fmt.Println("wall", time.Since(st))
	}
}
