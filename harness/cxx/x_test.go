package cxx

import (
	"context"
	"testing"
	"testing/synctest"
	"time"
	"fmt"
	"os"

	"verif/harness/lib/clus"
	"github.com/ipfs/ipfs-cluster/api"
	peer "github.com/libp2p/go-libp2p-core/peer"
)

func TestRaft3(t *testing.T) {
	for i := 0; i < 3; i++ {
	st := time.Now()
	synctest.Test(t, func(t *testing.T) {
		ctx := context.Background()
		_, hosts := clus.NewMocknet(ctx, 0, 3)
		var ids []peer.ID
		for _, h := range hosts { ids = append(ids, h.ID()) }
		var peers []*clus.RaftPeer
		for j, h := range hosts {
			d, _ := os.MkdirTemp("/var/tmp", "raft")
			defer os.RemoveAll(d)
			p, err := clus.NewRaftPeer(h, d, ids, false, nil)
			if err != nil { t.Fatal(j, err) }
			peers = append(peers, p)
		}
		t0 := time.Now()
		for _, p := range peers { <-p.Cons.Ready(ctx) }
		fmt.Println("ready after fake", time.Since(t0))
		l, _ := peers[0].Cons.Leader(ctx)
		fmt.Println("leader", l)
		pin := api.PinCid(clus.Cid("a")); pin.Name="x"
		err := peers[1].Cons.LogPin(ctx, pin)
		fmt.Println("logpin", err)
		synctest.Wait()
		time.Sleep(2*time.Second)
		for _, p := range peers {
			s, _ := p.Cons.State(ctx)
			l, _ := s.List(ctx)
			fmt.Println(len(l), len(p.Rec.Snapshot()))
		}
		for _, p := range peers { p.Cons.Shutdown(ctx); p.Host.Close() }
	})
	fmt.Println("wall", time.Since(st))
	}
}
