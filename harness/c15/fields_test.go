package c15

import (
	"encoding/json"
	"fmt"
	"go/ast"
	"go/parser"
	"go/token"
	"go/types"
	"path/filepath"
	"reflect"
	"sort"
	"strings"
	"time"
)

// kind is the semantic kind of a leaf setting; it decides which values are
// well-formed for it (only well-formed, non-zero values carry a "must be
// reproduced" obligation) and how canonical forms are compared.
type kind string

const (
	kDur       kind = "duration"
	kStr       kind = "string"
	kMaddr     kind = "multiaddr"
	kPath      kind = "path"
	kSecret    kind = "secret"
	kPrivKey   kind = "privkey"
	kPeerID    kind = "peerid"
	kEnum      kind = "enum"
	kInt       kind = "int"
	kUint      kind = "uint"
	kFloat     kind = "float"
	kBool      kind = "bool"
	kStrList   kind = "strings"
	kMaddrList kind = "multiaddrs"
	kPeerList  kind = "peers"
	kFloatList kind = "floats"
	kMapSS     kind = "map[string]string"
	kMapSL     kind = "map[string][]string"
	kAny       kind = "unknown"
)

type field struct {
	path      []string // JSON path inside the section
	goPath    []string // Go field names (environment variable name)
	gotype    string   // Go type expression of the JSON struct field
	omitempty bool
	hidden    bool
	kind      kind
	bits      int  // for kUint: 32/64
	flexList  bool // ipfsconfig.Strings: a bare string is a one-element list
}

func (f *field) key() string { return strings.Join(f.path, ".") }
func (f *field) String() string {
	s := fmt.Sprintf("%s (%s; %s", f.key(), f.gotype, f.kind)
	if f.omitempty {
		s += "; omitempty"
	}
	if f.hidden {
		s += "; hidden"
	}
	return s + ")"
}
func (f *field) envName(prefix string) string {
	return strings.ToUpper(prefix + "_" + strings.Join(f.goPath, "_"))
}

// notPersisted lists settings that the section's JSON struct carries but the
// section intentionally does not store (documented; see R.Assume in TestMain).
var notPersisted = map[string]bool{
	"cluster|id":          true,
	"cluster|private_key": true,
}

// parseFields reads the JSON struct of a section from the source tree.
func parseFields(file, root string) ([]*field, error) {
	fset := token.NewFileSet()
	af, err := parser.ParseFile(fset, file, nil, 0)
	if err != nil {
		return nil, err
	}
	structs := map[string]*ast.StructType{}
	for _, d := range af.Decls {
		gd, ok := d.(*ast.GenDecl)
		if !ok || gd.Tok != token.TYPE {
			continue
		}
		for _, sp := range gd.Specs {
			ts := sp.(*ast.TypeSpec)
			if st, ok := ts.Type.(*ast.StructType); ok {
				structs[ts.Name.Name] = st
			}
		}
	}
	st, ok := structs[root]
	if !ok {
		return nil, fmt.Errorf("%s: struct type %s not found", file, root)
	}
	var out []*field
	var walk func(st *ast.StructType, jp, gp []string, depth int) error
	walk = func(st *ast.StructType, jp, gp []string, depth int) error {
		if depth > 4 {
			return fmt.Errorf("%s: nesting too deep", file)
		}
		for _, fl := range st.Fields.List {
			tag := reflect.StructTag("")
			if fl.Tag != nil {
				tag = reflect.StructTag(strings.Trim(fl.Tag.Value, "`"))
			}
			jt := strings.Split(tag.Get("json"), ",")
			typ := types.ExprString(fl.Type)
			for _, nm := range fl.Names {
				if !nm.IsExported() {
					continue
				}
				jn := jt[0]
				if jn == "-" {
					continue
				}
				if jn == "" {
					jn = nm.Name
				}
				gn := nm.Name
				if ec := tag.Get("envconfig"); ec != "" {
					gn = ec
				}
				np := append(append([]string{}, jp...), jn)
				ng := append(append([]string{}, gp...), gn)
				if inner, ok := structs[strings.TrimPrefix(typ, "*")]; ok {
					if err := walk(inner, np, ng, depth+1); err != nil {
						return err
					}
					continue
				}
				f := &field{path: np, goPath: ng, gotype: typ, hidden: tag.Get("hidden") == "true"}
				for _, o := range jt[1:] {
					if o == "omitempty" {
						f.omitempty = true
					}
				}
				out = append(out, f)
			}
		}
		return nil
	}
	if err := walk(st, nil, nil, 0); err != nil {
		return nil, err
	}
	return out, nil
}

func hasSuffix(s string, l ...string) bool {
	for _, x := range l {
		if strings.HasSuffix(s, x) {
			return true
		}
	}
	return false
}

// classify assigns the semantic kind from the Go type, the JSON name and the
// value the default configuration displays for the setting.
func (f *field) classify(def interface{}) {
	n := f.path[len(f.path)-1]
	switch strings.TrimPrefix(f.gotype, "*") {
	case "string":
		ds, _ := def.(string)
		_, derr := time.ParseDuration(ds)
		switch {
		case n == "secret":
			f.kind = kSecret
		case n == "private_key":
			f.kind = kPrivKey
		case n == "id":
			f.kind = kPeerID
		case (ds != "" && derr == nil) || hasSuffix(n, "_timeout", "_interval", "_delay", "_ttl", "_age", "_period", "_sleep"):
			f.kind = kDur
		case strings.Contains(n, "multiaddress") || hasSuffix(n, "_endpoint"):
			f.kind = kMaddr
		case hasSuffix(n, "_file", "_folder") || n == "folder" || n == "dir" || n == "value_dir":
			f.kind = kPath
		case hasSuffix(n, "_type"):
			f.kind = kEnum
		default:
			f.kind = kStr
		}
	case "int", "int64", "int32", "options.FileLoadingMode":
		f.kind = kInt
	case "uint", "uint64":
		f.kind, f.bits = kUint, 64
	case "uint32":
		f.kind, f.bits = kUint, 32
	case "float64":
		f.kind = kFloat
	case "bool":
		f.kind = kBool
	case "[]string", "ipfsconfig.Strings":
		f.flexList = f.gotype == "ipfsconfig.Strings"
		switch {
		case strings.Contains(n, "multiaddress") || n == "peer_addresses":
			f.kind = kMaddrList
		case strings.Contains(n, "peerset") || strings.Contains(n, "peers"):
			f.kind = kPeerList
		default:
			f.kind = kStrList
		}
	case "[]float64":
		f.kind = kFloatList
	case "map[string]string":
		f.kind = kMapSS
	case "map[string][]string":
		f.kind = kMapSL
	default:
		f.kind = kAny
	}
}

// ---------------------------------------------------------------- values

// value is one element of a value alphabet.
type value struct {
	label string      // stable name used in signatures and violation keys
	v     interface{} // JSON value (decoded form)
	class string      // coarse class used in violation keys
	small bool        // member of the reduced alphabet used for pairs in the quick tier
}

func (v value) json() string { b, _ := json.Marshal(v.v); return string(b) }

var (
	durVals = []value{
		{"dur:0s", "0s", "zero", true}, {"dur:1ns", "1ns", "pos", false}, {"dur:1s", "1s", "pos", true},
		{"dur:90m", "90m", "pos", false}, {"dur:-1s", "-1s", "neg", true}, {"dur:abc", "abc", "garbage", true},
	}
	strVals = []value{
		{"str:empty", "", "zero", true}, {"str:x", "x", "str", true}, {"str:unicode", "ünï-世界", "str", false},
	}
	maddrVals = []value{
		{"maddr:tcp", "/ip4/127.0.0.1/tcp/1234", "str", true}, {"maddr:dns", "/dns4/example.com/tcp/443", "str", false},
		{"maddr:garbage", "/garbage/xx", "garbage", true},
	}
	pathVals = []value{
		{"path:rel", "rel/file.x", "str", false}, {"path:abs", "/abs/dir/file.x", "str", false}, {"path:dotdot", "a/../b", "str", false},
	}
	intVals = []value{
		{"int:0", 0.0, "zero", true}, {"int:1", 1.0, "pos", true}, {"int:-1", -1.0, "neg", true}, {"int:-2", -2.0, "neg", false},
		{"int:2", 2.0, "pos", false}, {"int:4095", 4095.0, "pos", false}, {"int:4096", 4096.0, "pos", false},
		{"int:maxint32", 2147483647.0, "pos", false},
	}
	uintVals = []value{
		{"uint:0", 0.0, "zero", true}, {"uint:1", 1.0, "pos", true}, {"uint:2", 2.0, "pos", false}, {"uint:-1", -1.0, "garbage", true},
		{"uint:maxuint32", 4294967295.0, "pos", false}, {"uint:maxuint32+1", 4294967296.0, "pos", false},
	}
	floatVals = []value{
		{"float:0", 0.0, "zero", true}, {"float:0.5", 0.5, "pos", true}, {"float:1", 1.0, "pos", false}, {"float:-1", -1.0, "neg", true},
		{"float:1e9", 1e9, "pos", false}, {"float:0.999", 0.999, "pos", false},
	}
	boolVals = []value{{"bool:true", true, "true", true}, {"bool:false", false, "false", true}}
	// wrong-typed / structural JSON applied to every setting
	shapeVals = []value{
		{"json:null", nil, "zero", false}, {"json:emptylist", []interface{}{}, "zero", false}, {"json:emptyobj", map[string]interface{}{}, "zero", false},
		{"json:number5", 5.0, "pos", false}, {"json:string-x", "x", "str", false}, {"json:true", true, "true", false},
	}
)

func listVal(label, class string, small bool, el ...string) value {
	l := make([]interface{}, len(el))
	for i, e := range el {
		l[i] = e
	}
	return value{label, l, class, small}
}

// alphabet returns the values tried for a setting (singles: the full list;
// pairs use the members marked small, or everything in the thorough tier).
func (s *section) alphabet(f *field) []value {
	var out []value
	add := func(vs ...value) { out = append(out, vs...) }
	switch f.kind {
	case kDur, kStr, kMaddr, kPath, kSecret, kPrivKey, kPeerID, kEnum:
		// every string setting sees every string alphabet: a duration setting
		// must survive a multiaddr, a path setting a duration, ...
		add(durVals...)
		add(strVals...)
		add(maddrVals...)
		add(pathVals...)
		switch f.kind {
		case kSecret:
			add(value{"secret:marker2", mk.secret2, "str", true}, value{"secret:upper", strings.ToUpper(mk.secret2), "str", false},
				value{"secret:short", "abcd", "garbage", false}, value{"secret:nothex", strings.Repeat("zz", 32), "garbage", false})
		case kPrivKey:
			add(value{"privkey:marker", mk.privKey, "str", true}, value{"privkey:other", mk.privKey2, "str", false},
				value{"privkey:notbase64", "!!!", "garbage", false}, value{"privkey:notakey", "AAAA", "garbage", false})
		case kPeerID:
			add(value{"peerid:matching", mk.peerID, "str", true}, value{"peerid:other", mk.peerID2, "str", false}, value{"peerid:garbage", "Qmgarbage", "garbage", false})
		case kEnum:
			add(value{"enum:freespace", "freespace", "str", true}, value{"enum:reposize", "reposize", "str", true}, value{"enum:bogus", "bogus", "str", false})
		case kPath:
			if strings.Contains(f.key(), "cert") {
				add(value{"path:tls-cert", mk.certFile, "str", true}, value{"path:tls-cert-relative", "tls/cert.pem", "str", true})
			}
			if strings.Contains(f.key(), "key") {
				add(value{"path:tls-key", mk.keyFile, "str", true}, value{"path:tls-key-relative", "tls/key.pem", "str", true})
			}
		}
	case kInt:
		add(intVals...)
	case kUint:
		add(uintVals...)
	case kFloat:
		add(floatVals...)
	case kBool:
		add(boolVals...)
	case kStrList:
		add(listVal("list:empty", "zero", true), listVal("list:x", "list", true, "x"), listVal("list:x,y", "list", false, "x", "y"), listVal("list:emptystring", "list", false, ""))
	case kMaddrList:
		add(listVal("list:empty", "zero", true), listVal("maddrs:tcp", "list", true, "/ip4/127.0.0.1/tcp/1234"),
			listVal("maddrs:tcp,dns", "list", false, "/ip4/127.0.0.1/tcp/1234", "/dns4/example.com/tcp/443"),
			listVal("maddrs:garbage", "garbage", true, "/garbage/xx"), listVal("maddrs:tcp,garbage", "garbage", false, "/ip4/127.0.0.1/tcp/1234", "/garbage/xx"),
			value{"maddrs:barestring", "/ip4/127.0.0.1/tcp/1234", "list", false})
	case kPeerList:
		add(listVal("list:empty", "zero", true), listVal("peers:one", "list", true, mk.peerID), listVal("peers:two", "list", false, mk.peerID, mk.peerID2),
			listVal("peers:star", "list", true, "*"), listVal("peers:star,one", "list", false, "*", mk.peerID),
			listVal("peers:garbage", "garbage", true, "Qmgarbage"), listVal("peers:one,garbage", "garbage", false, mk.peerID, "Qmgarbage"))
	case kFloatList:
		add(value{"list:empty", []interface{}{}, "zero", true}, value{"floats:1.5", []interface{}{1.5}, "list", true}, value{"floats:1,2", []interface{}{1.0, 2.0}, "list", false})
	case kMapSS:
		add(value{"map:empty", map[string]interface{}{}, "zero", true},
			value{"map:user-pass", map[string]interface{}{mk.user: mk.pass}, "map", true},
			value{"map:two", map[string]interface{}{mk.user: mk.pass, "u2": "p2"}, "map", false},
			value{"map:emptyvalue", map[string]interface{}{"u": ""}, "map", false})
	case kMapSL:
		add(value{"map:empty", map[string]interface{}{}, "zero", true},
			value{"map:K-v", map[string]interface{}{"K": []interface{}{"v"}}, "map", true},
			value{"map:two", map[string]interface{}{"K": []interface{}{"v", "w"}, "L": []interface{}{}}, "map", false})
	default:
		add(intVals[:3]...)
		add(strVals...)
		add(boolVals...)
	}
	// wrong-typed JSON (skip those already present with the same JSON form)
	seen := map[string]bool{}
	for _, v := range out {
		seen[v.json()] = true
	}
	for _, v := range shapeVals {
		if !seen[v.json()] {
			out = append(out, v)
			seen[v.json()] = true
		}
	}
	return out
}

func smallOnly(vs []value) []value {
	var out []value
	for _, v := range vs {
		if v.small {
			out = append(out, v)
		}
	}
	return out
}

// ------------------------------------------------------------ JSON trees

func deepCopy(x interface{}) interface{} {
	switch t := x.(type) {
	case map[string]interface{}:
		m := make(map[string]interface{}, len(t))
		for k, v := range t {
			m[k] = deepCopy(v)
		}
		return m
	case []interface{}:
		l := make([]interface{}, len(t))
		for i, v := range t {
			l[i] = deepCopy(v)
		}
		return l
	}
	return x
}

func getPath(m map[string]interface{}, path []string) (interface{}, bool) {
	var cur interface{} = m
	for _, p := range path {
		mm, ok := cur.(map[string]interface{})
		if !ok {
			return nil, false
		}
		cur, ok = mm[p]
		if !ok {
			return nil, false
		}
	}
	return cur, true
}

func setPath(m map[string]interface{}, path []string, v interface{}) {
	cur := m
	for _, p := range path[:len(path)-1] {
		nx, ok := cur[p].(map[string]interface{})
		if !ok {
			nx = map[string]interface{}{}
			cur[p] = nx
		}
		cur = nx
	}
	cur[path[len(path)-1]] = deepCopy(v)
}

func mustJSON(x interface{}) []byte {
	b, err := json.Marshal(x)
	if err != nil {
		panic(err)
	}
	return b
}

func parseObj(b []byte) (map[string]interface{}, error) {
	var m map[string]interface{}
	err := json.Unmarshal(b, &m)
	return m, err
}

// leafKeys flattens a JSON object down to the leaves named by the field table
// (nested struct settings) and returns the dotted keys.
func leafKeys(m map[string]interface{}, nested map[string]bool, prefix string) []string {
	var out []string
	for k, v := range m {
		full := k
		if prefix != "" {
			full = prefix + "." + k
		}
		if mm, ok := v.(map[string]interface{}); ok && nested[full] {
			out = append(out, leafKeys(mm, nested, full)...)
			continue
		}
		out = append(out, full)
	}
	sort.Strings(out)
	return out
}

// init derives the field table and the base JSON of the section.
func (s *section) init() error {
	fs, err := parseFields(filepath.Join(repoRoot(), s.file), s.jsonType)
	if err != nil {
		return err
	}
	c := s.newCfg()
	if err := c.Default(); err != nil {
		return fmt.Errorf("%s.Default: %v", s.name, err)
	}
	disp, err := c.ToDisplayJSON()
	if err != nil {
		return fmt.Errorf("%s.ToDisplayJSON(default): %v", s.name, err)
	}
	dm, err := parseObj(disp)
	if err != nil {
		return fmt.Errorf("%s display JSON: %v", s.name, err)
	}
	nested := map[string]bool{}
	for _, f := range fs {
		for i := 1; i < len(f.path); i++ {
			nested[strings.Join(f.path[:i], ".")] = true
		}
	}
	// cross-check: the struct fields read from the source are exactly the keys
	// the running code displays.
	var src []string
	for _, f := range fs {
		src = append(src, f.key())
	}
	sort.Strings(src)
	got := leafKeys(dm, nested, "")
	gotSet := map[string]bool{}
	for _, k := range got {
		gotSet[k] = true
	}
	srcSet := map[string]*field{}
	for _, f := range fs {
		srcSet[f.key()] = f
	}
	mismatch := false
	for _, k := range got {
		if srcSet[k] == nil {
			mismatch = true
		}
	}
	for k, f := range srcSet {
		// DisplayJSON shows omitempty settings of the top level only
		if !gotSet[k] && !(f.omitempty && len(f.path) > 1) {
			mismatch = true
		}
	}
	if mismatch {
		return fmt.Errorf("%s: settings read from %s (%v) differ from the keys of ToDisplayJSON (%v): the check does not understand this section", s.name, s.file, src, got)
	}
	for _, f := range fs {
		d, _ := getPath(dm, f.path)
		f.classify(d)
	}
	s.fields = fs

	base, err := c.ToJSON()
	if err != nil {
		return fmt.Errorf("%s.ToJSON(default): %v", s.name, err)
	}
	bm, err := parseObj(base)
	if err != nil {
		return err
	}
	if s.name == "cluster" {
		// Default() draws a random secret: pin it to the marker.
		bm["secret"] = mk.secret
		// the default peername is the hostname: pin it too for stable output
		bm["peername"] = "c15-peer"
	}
	s.base = mustJSON(bm)

	if s.name == "restapi" {
		rm := deepCopy(bm).(map[string]interface{})
		rm["id"] = mk.peerID
		rm["private_key"] = mk.privKey
		rm["libp2p_listen_multiaddress"] = []interface{}{"/ip4/127.0.0.1/tcp/9097"}
		rm["basic_auth_credentials"] = map[string]interface{}{mk.user: mk.pass}
		rm["ssl_cert_file"] = mk.certFile
		rm["ssl_key_file"] = mk.keyFile
		rm["headers"] = map[string]interface{}{"X-C15": []interface{}{"v"}}
		rm["http_log_file"] = "http.log"
		s.rich = mustJSON(rm)
	}
	if s.name == "cluster" {
		rm := deepCopy(bm).(map[string]interface{})
		rm["peer_addresses"] = []interface{}{"/ip4/10.0.0.7/tcp/9096/p2p/" + mk.peerID2}
		rm["peerstore_file"] = "peers.list"
		rm["follower_mode"] = true
		rm["private_key"] = mk.privKey // legacy location of the key
		rm["id"] = mk.peerID
		s.rich = mustJSON(rm)
	}
	return nil
}
