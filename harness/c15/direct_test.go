package c15

import (
	"bytes"
	"fmt"
	"reflect"
	"strings"
	"testing"
	"time"

	"github.com/ipfs/ipfs-cluster/config"
	"verif/harness/lib/ev"
)

// "A value that validation rejects is refused at load time": every exported
// leaf of every Config struct (nested option structs included) is set directly
// to each value of its Go kind's alphabet. When Validate() then rejects the
// struct, the struct is saved with ToJSON and the saved form is loaded: the
// loader must refuse it, unless the value is a zero (zero = "use the default")
// or the saved form does not carry the setting at all.

type leaf struct {
	name  string
	index [][]int // one []int per pointer hop
	typ   reflect.Type
}

var durType = reflect.TypeOf(time.Duration(0))

func leavesOf(t reflect.Type, prefix string, idx [][]int, cur []int, depth int, out *[]leaf) {
	if depth > 3 {
		return
	}
	for i := 0; i < t.NumField(); i++ {
		sf := t.Field(i)
		if sf.PkgPath != "" || (sf.Anonymous && sf.Name == "Saver") {
			continue
		}
		name := sf.Name
		if prefix != "" {
			name = prefix + "." + sf.Name
		}
		ci := append(append([]int{}, cur...), i)
		ft := sf.Type
		switch {
		case ft == durType:
			*out = append(*out, leaf{name, append(append([][]int{}, idx...), ci), ft})
		case ft.Kind() == reflect.Struct:
			leavesOf(ft, name, idx, ci, depth+1, out)
		case ft.Kind() == reflect.Ptr && ft.Elem().Kind() == reflect.Struct:
			*out = append(*out, leaf{name, append(append([][]int{}, idx...), ci), ft}) // the pointer itself (nil)
			leavesOf(ft.Elem(), name, append(append([][]int{}, idx...), ci), nil, depth+1, out)
		default:
			switch ft.Kind() {
			case reflect.Int, reflect.Int8, reflect.Int16, reflect.Int32, reflect.Int64,
				reflect.Uint, reflect.Uint8, reflect.Uint16, reflect.Uint32, reflect.Uint64,
				reflect.Float32, reflect.Float64, reflect.Bool, reflect.String,
				reflect.Slice, reflect.Map, reflect.Interface:
				*out = append(*out, leaf{name, append(append([][]int{}, idx...), ci), ft})
			}
		}
	}
}

// locate returns the addressable reflect.Value of the leaf inside c, or an
// invalid Value when a pointer on the way is nil.
func locate(c interface{}, l leaf) reflect.Value {
	v := reflect.ValueOf(c).Elem()
	for hop, ix := range l.index {
		if hop > 0 {
			if v.Kind() != reflect.Ptr || v.IsNil() {
				return reflect.Value{}
			}
			v = v.Elem()
		}
		v = v.FieldByIndex(ix)
	}
	return v
}

type goVal struct {
	label string
	v     reflect.Value
}

func goAlphabet(t reflect.Type) []goVal {
	mk := func(label string, x interface{}) goVal {
		return goVal{label, reflect.ValueOf(x).Convert(t)}
	}
	switch {
	case t == durType:
		return []goVal{mk("0", time.Duration(0)), mk("1ns", time.Nanosecond), mk("1s", time.Second), mk("90m", 90*time.Minute), mk("-1s", -time.Second)}
	}
	switch t.Kind() {
	case reflect.Int, reflect.Int64, reflect.Int32:
		return []goVal{mk("0", 0), mk("1", 1), mk("-1", -1), mk("-2", -2), mk("4095", 4095), mk("maxint32", 2147483647)}
	case reflect.Int8, reflect.Int16:
		return []goVal{mk("0", 0), mk("1", 1), mk("-1", -1), mk("100", 100)}
	case reflect.Uint, reflect.Uint64, reflect.Uint32:
		return []goVal{mk("0", 0), mk("1", 1), mk("maxint32", 2147483647)}
	case reflect.Uint8, reflect.Uint16:
		return []goVal{mk("0", 0), mk("1", 1), mk("200", 200)}
	case reflect.Float32, reflect.Float64:
		return []goVal{mk("0", 0.0), mk("0.5", 0.5), mk("1", 1.0), mk("-1", -1.0), mk("1e9", 1e9)}
	case reflect.Bool:
		return []goVal{mk("true", true), mk("false", false)}
	case reflect.String:
		return []goVal{mk("empty", ""), mk("x", "x")}
	case reflect.Slice:
		return []goVal{{"nil", reflect.Zero(t)}, {"empty", reflect.MakeSlice(t, 0, 0)}}
	case reflect.Map:
		return []goVal{{"nil", reflect.Zero(t)}, {"empty", reflect.MakeMap(t)}}
	case reflect.Interface, reflect.Ptr:
		return []goVal{{"nil", reflect.Zero(t)}}
	}
	return nil
}

type setting struct {
	l leaf
	v goVal
}

func goZero(v reflect.Value) bool {
	if v.IsZero() {
		return true
	}
	switch v.Kind() {
	case reflect.Slice, reflect.Map:
		return v.Len() == 0
	}
	return false
}

// directCase returns true when Validate() rejected the struct.
func (s *section) directCase(sec *ev.Section, sets []setting) (rejected bool) {
	var names, classes []string
	for _, st := range sets {
		names = append(names, st.l.name+"="+st.v.label)
	}
	label := strings.Join(names, " & ")
	out := "valid"
	defer func() {
		R.Outcome(sec, out)
		R.Eval(sec, s.name+"|direct|"+label+"|"+out, true)
	}()

	c := s.newCfg()
	if err := c.Default(); err != nil {
		out = "default-error"
		return false
	}
	var panics []string
	var j0 []byte
	guard("ToJSON", &panics, func() { j0, _ = c.ToJSON() })
	allZero := true
	var fields []string
	for _, st := range sets {
		v := locate(c, st.l)
		if !v.IsValid() || !v.CanSet() {
			out = "unreachable"
			return false
		}
		v.Set(st.v.v)
		if !goZero(st.v.v) {
			allZero = false
		}
		fields = append(fields, st.l.name)
		if goZero(st.v.v) {
			classes = append(classes, "zero")
		} else {
			classes = append(classes, "nonzero")
		}
	}
	key := func(symptom string) string {
		return vkey(s, strings.Join(fields, "+"), symptom, strings.Join(classes, "+"), "direct")
	}
	var verr error
	guard("Validate", &panics, func() { verr = c.Validate() })
	if len(panics) > 0 {
		out = "panic"
		violate(key("panic:Validate"), map[string]interface{}{"section": s.name, "set_on_struct": label, "panic": panics,
			"expected": "Validate() reports an error, it never crashes"})
		return
	}
	if verr == nil {
		return
	}
	rejected = true
	out = "validate-rejects"
	var jb []byte
	var jerr error
	guard("ToJSON", &panics, func() { jb, jerr = c.ToJSON() })
	if len(panics) > 0 || jerr != nil || jb == nil {
		out = "validate-rejects/unsavable" // nothing reaches a file: no obligation (observation)
		return
	}
	if bytes.Equal(jb, j0) {
		out = "validate-rejects/not-in-saved-form"
		return
	}
	c2 := s.newCfg()
	var lerr error
	guard("LoadJSON", &panics, func() { lerr = c2.LoadJSON(jb) })
	switch {
	case len(panics) > 0:
		out = "panic"
		violate(key("panic:LoadJSON"), map[string]interface{}{"section": s.name, "set_on_struct": label, "saved": trunc(jb), "panic": panics,
			"expected": "an error, never a crash"})
	case lerr != nil:
		out = "validate-rejects/load-refuses"
	case allZero:
		out = "validate-rejects/zero-means-default"
	default:
		out = "validate-rejects/load-accepts"
		violate(key("validate-rejects-load-accepts"), map[string]interface{}{
			"section": s.name, "set_on_struct": label, "validate_error": verr.Error(), "saved": trunc(jb),
			"expected": "LoadJSON refuses the saved form of a configuration that Validate() rejects (non-zero value)"})
	}
	return
}

func TestDirectSet(t *testing.T) {
	total := 0
	for _, s := range sections {
		sec := R.Sec(s.name + "/direct")
		c := s.newCfg()
		c.Default()
		var ls []leaf
		leavesOf(reflect.TypeOf(c).Elem(), "", nil, nil, 0, &ls)
		var all []setting
		for _, l := range ls {
			if !locate(c, l).IsValid() {
				continue
			}
			for _, v := range goAlphabet(l.typ) {
				all = append(all, setting{l, v})
			}
		}
		n := 0
		aloneRejected := map[string]bool{}
		for _, st := range all {
			if s.directCase(sec, []setting{st}) {
				aloneRejected[st.l.name+"="+st.v.label] = true
			}
			n++
		}
		// pairs of top-level leaves (conditional validation such as
		// enable_stats + reporting_interval needs two settings)
		// Only pairs of non-zero values that are each valid alone say something
		// new: a zero falls back to the default on load, and a member that is
		// rejected alone was judged alone.
		var top []setting
		for _, st := range all {
			if goZero(st.v.v) || aloneRejected[st.l.name+"="+st.v.label] {
				continue
			}
			if !strings.Contains(st.l.name, ".") || thorough() {
				top = append(top, st)
			}
		}
		for i := 0; i < len(top); i++ {
			for j := i + 1; j < len(top); j++ {
				if top[i].l.name == top[j].l.name || strings.HasPrefix(top[j].l.name, top[i].l.name+".") {
					continue
				}
				s.directCase(sec, []setting{top[i], top[j]})
				n++
			}
		}
		sec.Bounds["struct_leaves"] = len(ls)
		sec.Bounds["cases"] = n
		sec.Bounds["pairs"] = map[bool]string{true: "all leaves", false: "top-level leaves"}[thorough()]
		total += n
	}
	R.Note("direct_cases", total)
	R.SampleTagged("direct", 1, map[string]interface{}{"section": "metrics", "set_on_struct": "EnableStats=true & ReportingInterval=-1s",
		"procedure": "Default(); set fields by reflection; Validate() rejects -> ToJSON -> LoadJSON on a fresh config must return an error"})
	_ = fmt.Sprint
	_ = config.Cluster
}
