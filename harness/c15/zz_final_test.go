package c15

import (
	"fmt"
	"sort"
	"testing"
)

// (iv) reach of the display check: every section that has hidden settings (and
// the Manager's aggregate, scanned in the file modes) must have displayed
// configurations that really carried the marker secrets; otherwise the check
// lost its reach and says so (exit 2) instead of passing vacuously.
func TestZZDisplayReach(t *testing.T) {
	sec := R.Sec("display")
	want := map[string][]string{}
	for _, s := range sections {
		for _, f := range s.fields {
			if !f.hidden {
				continue
			}
			switch f.kind {
			case kSecret:
				want[s.name] = append(want[s.name], "cluster-secret")
			case kPrivKey:
				want[s.name] = append(want[s.name], "private-key")
			case kMapSS:
				want[s.name] = append(want[s.name], "basic-auth-password", "basic-auth-user")
			default:
				// a hidden setting of a kind this check has no marker for
				R.Broken("hidden setting %s.%s of kind %s: no marker defined, extend the check", s.name, f.key(), f.kind)
			}
		}
	}
	want["manager"] = []string{"cluster-secret", "private-key", "basic-auth-password", "basic-auth-user"}
	var names []string
	for n := range want {
		names = append(names, n)
	}
	sort.Strings(names)
	for _, n := range names {
		for _, m := range want[n] {
			c := leakStats[n]["input-carried:"+m]
			if c == 0 {
				R.Broken("no displayed configuration of section %s carried the marker %s", n, m)
			}
			sec.Bounds[n+":"+m] = c
		}
	}
	tot := 0
	for n, st := range leakStats {
		tot += st["displays-scanned"]
		_ = n
	}
	sec.Bounds["displays_scanned"] = tot
	sec.Bounds["sections_with_hidden_settings"] = names
	R.Note("display_reach", leakStats)
	R.Eval(sec, fmt.Sprintf("display-reach|%v", names), false)

	// observations: malformed values accepted silently (not alarmed)
	R.Note("observations_malformed_values_accepted", obsNotes)
}
