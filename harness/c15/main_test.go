// Package c15 checks property C15 of ipfs-cluster: every component
// configuration section saves and loads losslessly, validates totally and
// never shows secrets in its displayable form.
//
// Engine: E3 small-scope, bounded-exhaustive. The field table of every section
// is derived at run time from the section's JSON struct in the source tree under
// test (go/parser over $VERIF_REPO, cross-checked against the keys of the
// default ToDisplayJSON output), so a setting added later is covered without
// touching this check.
package c15

import (
	"encoding/json"
	"fmt"
	"os"
	"path/filepath"
	"sort"
	"strings"
	"testing"
	"time"

	logging "github.com/ipfs/go-log/v2"

	ipfscluster "github.com/ipfs/ipfs-cluster"
	"github.com/ipfs/ipfs-cluster/api/ipfsproxy"
	"github.com/ipfs/ipfs-cluster/api/rest"
	"github.com/ipfs/ipfs-cluster/config"
	"github.com/ipfs/ipfs-cluster/consensus/crdt"
	"github.com/ipfs/ipfs-cluster/consensus/raft"
	"github.com/ipfs/ipfs-cluster/datastore/badger"
	"github.com/ipfs/ipfs-cluster/datastore/leveldb"
	"github.com/ipfs/ipfs-cluster/informer/disk"
	"github.com/ipfs/ipfs-cluster/informer/numpin"
	"github.com/ipfs/ipfs-cluster/ipfsconn/ipfshttp"
	"github.com/ipfs/ipfs-cluster/monitor/pubsubmon"
	"github.com/ipfs/ipfs-cluster/observations"
	"github.com/ipfs/ipfs-cluster/pintracker/stateless"

	"verif/harness/lib/ev"
)

var R *ev.Run

// section describes one of the 14 component configuration sections.
type section struct {
	name      string             // section key in the file ("cluster", "raft", ...)
	stype     config.SectionType // where the Manager files it
	fileKey   string             // top-level key of the service.json for stype
	file      string             // source file (relative to the repo) holding the JSON struct
	jsonType  string             // name of the root JSON struct type in that file
	envPrefix string             // CLUSTER[_<SECTION>] (documented convention)
	newCfg    func() config.ComponentConfig

	fields []*field // leaf settings, from the source + default display JSON
	base   []byte   // ToJSON of Default() (cluster: with the marker secret)
	rich   []byte   // optional second base with the optional groups filled in
}

var sections = []*section{
	{name: "cluster", stype: config.Cluster, fileKey: "cluster", file: "cluster_config.go", jsonType: "configJSON", envPrefix: "CLUSTER",
		newCfg: func() config.ComponentConfig { return &ipfscluster.Config{} }},
	{name: "raft", stype: config.Consensus, fileKey: "consensus", file: "consensus/raft/config.go", jsonType: "jsonConfig", envPrefix: "CLUSTER_RAFT",
		newCfg: func() config.ComponentConfig { return &raft.Config{} }},
	{name: "crdt", stype: config.Consensus, fileKey: "consensus", file: "consensus/crdt/config.go", jsonType: "jsonConfig", envPrefix: "CLUSTER_CRDT",
		newCfg: func() config.ComponentConfig { return &crdt.Config{} }},
	{name: "restapi", stype: config.API, fileKey: "api", file: "api/rest/config.go", jsonType: "jsonConfig", envPrefix: "CLUSTER_RESTAPI",
		newCfg: func() config.ComponentConfig { return &rest.Config{} }},
	{name: "ipfsproxy", stype: config.API, fileKey: "api", file: "api/ipfsproxy/config.go", jsonType: "jsonConfig", envPrefix: "CLUSTER_IPFSPROXY",
		newCfg: func() config.ComponentConfig { return &ipfsproxy.Config{} }},
	{name: "ipfshttp", stype: config.IPFSConn, fileKey: "ipfs_connector", file: "ipfsconn/ipfshttp/config.go", jsonType: "jsonConfig", envPrefix: "CLUSTER_IPFSHTTP",
		newCfg: func() config.ComponentConfig { return &ipfshttp.Config{} }},
	{name: "stateless", stype: config.PinTracker, fileKey: "pin_tracker", file: "pintracker/stateless/config.go", jsonType: "jsonConfig", envPrefix: "CLUSTER_STATELESS",
		newCfg: func() config.ComponentConfig { return &stateless.Config{} }},
	{name: "pubsubmon", stype: config.Monitor, fileKey: "monitor", file: "monitor/pubsubmon/config.go", jsonType: "jsonConfig", envPrefix: "CLUSTER_PUBSUBMON",
		newCfg: func() config.ComponentConfig { return &pubsubmon.Config{} }},
	{name: "disk", stype: config.Informer, fileKey: "informer", file: "informer/disk/config.go", jsonType: "jsonConfig", envPrefix: "CLUSTER_DISK",
		newCfg: func() config.ComponentConfig { return &disk.Config{} }},
	{name: "numpin", stype: config.Informer, fileKey: "informer", file: "informer/numpin/config.go", jsonType: "jsonConfig", envPrefix: "CLUSTER_NUMPIN",
		newCfg: func() config.ComponentConfig { return &numpin.Config{} }},
	{name: "metrics", stype: config.Observations, fileKey: "observations", file: "observations/config.go", jsonType: "jsonMetricsConfig", envPrefix: "CLUSTER_METRICS",
		newCfg: func() config.ComponentConfig { return &observations.MetricsConfig{} }},
	{name: "tracing", stype: config.Observations, fileKey: "observations", file: "observations/config.go", jsonType: "jsonTracingConfig", envPrefix: "CLUSTER_TRACING",
		newCfg: func() config.ComponentConfig { return &observations.TracingConfig{} }},
	{name: "badger", stype: config.Datastore, fileKey: "datastore", file: "datastore/badger/config.go", jsonType: "jsonConfig", envPrefix: "CLUSTER_BADGER",
		newCfg: func() config.ComponentConfig { return &badger.Config{} }},
	{name: "leveldb", stype: config.Datastore, fileKey: "datastore", file: "datastore/leveldb/config.go", jsonType: "jsonConfig", envPrefix: "CLUSTER_LEVELDB",
		newCfg: func() config.ComponentConfig { return &leveldb.Config{} }},
}

func sectionByName(n string) *section {
	for _, s := range sections {
		if s.name == n {
			return s
		}
	}
	return nil
}

func repoRoot() string {
	if r := os.Getenv("VERIF_REPO"); r != "" {
		return r
	}
	return "/repo"
}

var scratch string

func TestMain(m *testing.M) {
	R = ev.New("C15", "exploration")
	R.Rule("bounded-exhaustive: for each of the 14 config sections the leaf settings are read from the section's JSON struct in the source under test; " +
		"every setting x every value of its kind's alphabet (plus wrong-typed JSON and cross-kind strings) is applied one at a time to the default JSON, to a sparse JSON holding only that setting, " +
		"through the CLUSTER_<SECTION>_<FIELD> environment variable, through the whole file via config.Manager, and (Go values) directly on the Config struct; then all pairs of settings within a section (quick tier: the reduced alphabet of the values marked small, JSON and env modes; " +
		"thorough tier: full alphabets, both bases, plus pairs inside the whole file and triples in sections of <= 8 settings). " +
		"A case = (section, mode, setting=value[, setting=value]); all cases are distinct by construction; a case is non-trivial when it deviates from the default in at least one setting " +
		"(base/default round trips are counted as trivial).")
	R.Assume("envconfig's documented naming (PREFIX_GOFIELDNAME upper-cased, nested structs joined with _) is the meaning of 'values supplied through environment variables'")
	R.Assume("cluster.id and cluster.private_key are legacy keys (identity moved to identity.json in 0.11.0, CHANGELOG) and are intentionally not persisted by the cluster section")
	R.Assume("Manager source (remote HTTP configuration) is exercised against an in-process HTTP server only: the check works offline")

	if rp := os.Getenv("VERIF_REPLAY"); rp != "" {
		var art struct {
			Key string `json:"key"`
		}
		b, err := os.ReadFile(rp)
		if err == nil {
			err = json.Unmarshal(b, &art)
		}
		if err != nil || art.Key == "" {
			R.Broken("cannot read replay artefact %s: %v", rp, err)
			os.Exit(R.Finish())
		}
		replayKey = art.Key
		fmt.Printf("REPLAY: re-running the enumeration, reporting only %s\n", replayKey)
	}

	// The code under test logs every rejected load; keep stderr quiet.
	logging.SetAllLoggers(logging.LevelFatal)
	// Manager.Shutdown waits for one save-ticker period per component.
	config.ConfigSaveInterval = time.Millisecond

	// no CLUSTER_* variable may leak in from the caller's environment
	for _, e := range os.Environ() {
		k := strings.SplitN(e, "=", 2)[0]
		if strings.HasPrefix(k, "CLUSTER_") {
			os.Unsetenv(k)
		}
	}

	base := os.Getenv("VERIF_SCRATCH")
	if base == "" {
		base = "/var/tmp"
	}
	os.MkdirAll(base, 0o755)
	d, err := os.MkdirTemp(base, "c15-")
	if err != nil {
		R.Broken("cannot create scratch dir: %v", err)
		os.Exit(R.Finish())
	}
	scratch = d

	code := 0
	func() {
		defer os.RemoveAll(scratch)
		if err := setup(); err != nil {
			R.Broken("setup: %v", err)
			return
		}
		code = m.Run()
	}()
	os.RemoveAll(scratch)
	if code != 0 {
		R.Broken("a Test function failed or panicked (exit %d): this is a harness failure, not a verdict", code)
	}
	os.Exit(R.Finish())
}

// setup builds markers, the TLS pair, the field tables and the base JSONs.
func setup() error {
	if err := makeMarkers(); err != nil {
		return err
	}
	if err := makeTLSPair(filepath.Join(scratch, "tls")); err != nil {
		return err
	}
	// Relative paths: sections loaded on their own get the relative base
	// directory "conf" (what a daemon started with `-c conf` hands them),
	// sections loaded through a Manager from bytes get "."; the process
	// works from the scratch directory and the same TLS pair sits under
	// both, so that "tls/cert.pem" is a well-formed value in either mode.
	if err := os.MkdirAll(filepath.Join(scratch, "conf", "tls"), 0o700); err != nil {
		return err
	}
	for _, f := range []string{"cert.pem", "key.pem"} {
		b, err := os.ReadFile(filepath.Join(scratch, "tls", f))
		if err != nil {
			return err
		}
		if err := os.WriteFile(filepath.Join(scratch, "conf", "tls", f), b, 0o600); err != nil {
			return err
		}
	}
	if err := os.Chdir(scratch); err != nil {
		return err
	}
	for _, s := range sections {
		if err := s.init(); err != nil {
			return err
		}
	}
	// evidence: the field tables the run worked from
	tab := map[string][]string{}
	total := 0
	for _, s := range sections {
		var l []string
		for _, f := range s.fields {
			l = append(l, f.String())
			total++
		}
		sort.Strings(l)
		tab[s.name] = l
	}
	R.Note("field_table", tab)
	R.Note("settings_total", total)
	return nil
}

func pairBudget() time.Duration {
	if ev.Thorough() {
		return 15 * time.Minute
	}
	return 35 * time.Second
}

func thorough() bool { return ev.Thorough() }

// replayKey: with `vcheck C15 <tier> --replay <artefact>` the enumeration is
// run again (it is deterministic and short) and only the violation recorded
// in the artefact is reported.
var replayKey string

func violate(key string, detail interface{}) {
	if replayKey != "" && key != replayKey {
		return
	}
	R.Violation(key, detail)
}
