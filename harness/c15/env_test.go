package c15

import (
	"fmt"
	"strings"
	"testing"
)

// (iii) the same values through ApplyEnvVars: CLUSTER_<SECTION>_<FIELD> set
// over a configuration loaded from the base JSON.
func TestEnvSingles(t *testing.T) {
	total := 0
	for _, s := range sections {
		for _, b := range s.bases() {
			bname, base := b[0].(string), b[1].([]byte)
			tr := newTracker(s, "env-"+bname)
			rerun := func(saved []byte) result { return s.runComponent(saved, nil) }
			n := 0
			names := map[string]bool{}
			for _, f := range s.fields {
				name := f.envName(s.envPrefix)
				names[name] = true
				for _, v := range s.alphabet(f) {
					if strings.HasPrefix(v.label, "json:") || (v.label == "maddrs:barestring" && !f.flexList) {
						continue // wrong-typed JSON has no environment counterpart
					}
					es, ok := envString(f, v.v)
					if !ok {
						continue
					}
					in := fmt.Sprintf("%s=%q applied over the %s JSON", name, es, bname)
					tr.judge([]dev{{f, v}}, in, s.runComponent(base, map[string]string{name: es}), rerun)
					n++
				}
			}
			tr.finish()
			tr.sec.Bounds["variables"] = len(names)
			tr.sec.Bounds["cases"] = n
			total += n
		}
	}
	R.Note("env_single_cases", total)
}

// all pairs of variables within a section (reduced alphabets; thorough: full).
func TestEnvPairs(t *testing.T) {
	total := 0
	for _, s := range sections {
		// single verdicts of the env mode are needed to judge pairs
		st := newTracker(s, "env-default")
		st.sec = R.Sec(s.name + "/env-pairs")
		rerun := func(saved []byte) result { return s.runComponent(saved, nil) }
		type ev1 struct {
			f  *field
			v  value
			es string
		}
		alpha := make([][]ev1, len(s.fields))
		for i, f := range s.fields {
			vs := s.alphabet(f)
			if !thorough() {
				vs = smallOnly(vs)
			}
			for _, v := range vs {
				if strings.HasPrefix(v.label, "json:") || (v.label == "maddrs:barestring" && !f.flexList) {
					continue
				}
				if es, ok := envString(f, v.v); ok {
					alpha[i] = append(alpha[i], ev1{f, v, es})
				}
			}
		}
		// singles first (quietly: they were judged in TestEnvSingles) to fill st.single
		for i := range s.fields {
			for _, a := range alpha[i] {
				res := s.runComponent(s.base, map[string]string{a.f.envName(s.envPrefix): a.es})
				if len(res.panics) == 0 && res.loadErr == nil && res.sec != nil {
					st.single[a.f.key()+"="+a.v.label] = st.reflectStatus(dev{a.f, a.v}, res)
				}
			}
		}
		n := 0
		for i := 0; i < len(s.fields); i++ {
			for j := i + 1; j < len(s.fields); j++ {
				for _, a := range alpha[i] {
					for _, b := range alpha[j] {
						na, nb := a.f.envName(s.envPrefix), b.f.envName(s.envPrefix)
						in := fmt.Sprintf("%s=%q %s=%q applied over the default JSON", na, a.es, nb, b.es)
						st.judge([]dev{{a.f, a.v}, {b.f, b.v}}, in, s.runComponent(s.base, map[string]string{na: a.es, nb: b.es}), rerun)
						n++
					}
				}
			}
		}
		st.sec.Bounds["cases"] = n
		total += n
	}
	R.Note("env_pair_cases", total)
}
