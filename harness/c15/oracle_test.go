package c15

import (
	"bytes"
	"encoding/base64"
	"encoding/hex"
	"encoding/json"
	"fmt"
	"math"
	"os"
	"path/filepath"
	"reflect"
	"sort"
	"strconv"
	"strings"
	"time"

	crypto "github.com/libp2p/go-libp2p-core/crypto"
	peer "github.com/libp2p/go-libp2p-core/peer"
	ma "github.com/multiformats/go-multiaddr"

	"github.com/ipfs/ipfs-cluster/config"

	"verif/harness/lib/ev"
)

// dev is one deviation from the base: setting f gets value v.
type dev struct {
	f *field
	v value
}

// result is what one load observed.
type result struct {
	panics      []string // "<call>: <panic value>"
	loadErr     error    // LoadJSON (or ApplyEnvVars) refused
	validateErr error    // Validate() after an accepted load
	saved       []byte   // ToJSON output (component: the section; file: whole file)
	savedErr    error
	sec         map[string]interface{} // the section's object inside saved
	disp        []byte                 // ToDisplayJSON output
	dispErr     error
	dispSec     map[string]interface{}
}

func guard(call string, panics *[]string, f func()) {
	defer func() {
		if r := recover(); r != nil {
			*panics = append(*panics, fmt.Sprintf("%s: %v", call, r))
		}
	}()
	f()
}

// runComponent loads J into a fresh component config; when env is non-nil the
// variables are set and ApplyEnvVars is called after the load.
// componentBaseDir: the (relative) configuration folder handed to a section
// that is loaded on its own.
const componentBaseDir = "conf"

func (s *section) runComponent(J []byte, env map[string]string) (res result) {
	c := s.newCfg()
	c.SetBaseDir(componentBaseDir)
	guard("LoadJSON", &res.panics, func() { res.loadErr = c.LoadJSON(J) })
	if len(res.panics) > 0 || res.loadErr != nil {
		return
	}
	if env != nil {
		for k, v := range env {
			os.Setenv(k, v)
		}
		guard("ApplyEnvVars", &res.panics, func() { res.loadErr = c.ApplyEnvVars() })
		for k := range env {
			os.Unsetenv(k)
		}
		if len(res.panics) > 0 || res.loadErr != nil {
			return
		}
	}
	observe(c, &res)
	if res.saved != nil {
		res.sec, _ = parseObj(res.saved)
	}
	if res.disp != nil {
		res.dispSec, _ = parseObj(res.disp)
	}
	return
}

type cfgLike interface {
	Validate() error
	ToJSON() ([]byte, error)
	ToDisplayJSON() ([]byte, error)
}

func observe(c cfgLike, res *result) {
	guard("Validate", &res.panics, func() { res.validateErr = c.Validate() })
	guard("ToJSON", &res.panics, func() { res.saved, res.savedErr = c.ToJSON() })
	guard("ToDisplayJSON", &res.panics, func() { res.disp, res.dispErr = c.ToDisplayJSON() })
}

// ---- whole file through config.Manager

// unregistered: sections whose component newManager leaves out (partial
// registration is how the service binary builds its Manager: only the chosen
// consensus and datastore components are registered; the file may still hold
// the other sections, which ToJSON preserves verbatim).
var unregistered map[string]bool

func newManager() (*config.Manager, map[string]config.ComponentConfig) {
	m := config.NewManager()
	cs := map[string]config.ComponentConfig{}
	for _, s := range sections {
		if unregistered[s.name] {
			continue
		}
		c := s.newCfg()
		cs[s.name] = c
		m.RegisterComponent(s.stype, c)
	}
	return m, cs
}

// fileDoc assembles a whole service.json from the sections' base JSON, with
// overrides (section name -> section JSON; nil = leave the section out).
func fileDoc(over map[string][]byte, drop map[string]bool) []byte {
	doc := map[string]interface{}{}
	for _, s := range sections {
		if drop[s.name] {
			continue
		}
		b := s.base
		if o, ok := over[s.name]; ok {
			b = o
		}
		raw := json.RawMessage(b)
		if s.stype == config.Cluster {
			doc[s.fileKey] = raw
			continue
		}
		grp, _ := doc[s.fileKey].(map[string]interface{})
		if grp == nil {
			grp = map[string]interface{}{}
			doc[s.fileKey] = grp
		}
		grp[s.name] = raw
	}
	return mustJSON(doc)
}

func sectionOf(file map[string]interface{}, s *section) map[string]interface{} {
	if file == nil {
		return nil
	}
	if s.stype == config.Cluster {
		m, _ := file[s.fileKey].(map[string]interface{})
		return m
	}
	grp, _ := file[s.fileKey].(map[string]interface{})
	m, _ := grp[s.name].(map[string]interface{})
	return m
}

// runFile loads a whole file through a fresh Manager with all 14 sections
// registered. s selects the section whose object is extracted for comparison.
func runFile(s *section, file []byte, env map[string]string) (res result) {
	m, _ := newManager()
	defer func() { guard("Manager.Shutdown", &res.panics, m.Shutdown) }()
	guard("Manager.LoadJSON", &res.panics, func() { res.loadErr = m.LoadJSON(file) })
	if len(res.panics) > 0 || res.loadErr != nil {
		return
	}
	// the daemon loads with Manager.LoadJSONFileAndEnv: the environment pass
	// always follows the file, with or without variables set
	for k, v := range env {
		os.Setenv(k, v)
	}
	guard("Manager.ApplyEnvVars", &res.panics, func() { res.loadErr = m.ApplyEnvVars() })
	for k := range env {
		os.Unsetenv(k)
	}
	if len(res.panics) > 0 || res.loadErr != nil {
		return
	}
	observe(m, &res)
	if res.saved != nil && s != nil {
		fm, _ := parseObj(res.saved)
		res.sec = sectionOf(fm, s)
	}
	if res.disp != nil && s != nil {
		fm, _ := parseObj(res.disp)
		res.dispSec = sectionOf(fm, s)
	}
	return
}

// ------------------------------------------------------ value predicates

func asList(f *field, v interface{}) ([]interface{}, bool) {
	switch t := v.(type) {
	case nil:
		return []interface{}{}, true
	case []interface{}:
		return t, true
	case string:
		if f.flexList {
			if t == "" {
				return []interface{}{}, true
			}
			return []interface{}{t}, true
		}
	}
	return nil, false
}

// zeroLike: values for which the property's "zero means: use the default"
// convention (numeric and duration zero) applies, plus JSON's notions of
// "nothing there" (null, "", [], {}). They carry no must-be-reproduced obligation.
func zeroLike(f *field, v interface{}) bool {
	switch t := v.(type) {
	case nil:
		return true
	case string:
		if t == "" {
			return true
		}
		if f.kind == kDur {
			if d, err := time.ParseDuration(t); err == nil && d == 0 {
				return true
			}
		}
	case float64:
		return t == 0
	case []interface{}:
		return len(t) == 0
	case map[string]interface{}:
		return len(t) == 0
	}
	return false
}

func isInt(x float64) bool { return x == math.Trunc(x) && math.Abs(x) < 1<<53 }

// wellFormed: is v a well-formed value for a setting of this kind? (It may
// still be out of the valid range.)
func wellFormed(f *field, v interface{}) bool {
	switch f.kind {
	case kDur, kStr, kMaddr, kPath, kSecret, kPrivKey, kPeerID, kEnum:
		s, ok := v.(string)
		if !ok {
			return false
		}
		switch f.kind {
		case kDur:
			_, err := time.ParseDuration(s)
			return err == nil
		case kMaddr:
			_, err := ma.NewMultiaddr(s)
			return err == nil
		case kPeerID:
			_, err := peer.Decode(s)
			return err == nil
		case kSecret:
			b, err := hex.DecodeString(s)
			return err == nil && len(b) == 32
		case kPrivKey:
			b, err := base64.StdEncoding.DecodeString(s)
			if err != nil {
				return false
			}
			_, err = crypto.UnmarshalPrivateKey(b)
			return err == nil
		}
		return true
	case kInt:
		x, ok := v.(float64)
		return ok && isInt(x)
	case kUint:
		x, ok := v.(float64)
		return ok && isInt(x) && x >= 0 && (f.bits == 64 || x < 1<<32)
	case kFloat:
		_, ok := v.(float64)
		return ok
	case kBool:
		_, ok := v.(bool)
		return ok
	case kStrList, kMaddrList, kPeerList:
		l, ok := asList(f, v)
		if !ok {
			return false
		}
		for _, e := range l {
			s, ok := e.(string)
			if !ok {
				return false
			}
			switch f.kind {
			case kMaddrList:
				if _, err := ma.NewMultiaddr(s); err != nil {
					return false
				}
			case kPeerList:
				if s == "*" && strings.Contains(f.key(), "trusted") {
					continue // crdt: "*" = trust every peer
				}
				if _, err := peer.Decode(s); err != nil {
					return false
				}
			}
		}
		return true
	case kFloatList:
		l, ok := v.([]interface{})
		if !ok {
			return false
		}
		for _, e := range l {
			if _, ok := e.(float64); !ok {
				return false
			}
		}
		return true
	case kMapSS:
		m, ok := v.(map[string]interface{})
		if !ok {
			return false
		}
		for _, e := range m {
			if _, ok := e.(string); !ok {
				return false
			}
		}
		return true
	case kMapSL:
		m, ok := v.(map[string]interface{})
		if !ok {
			return false
		}
		for _, e := range m {
			l, ok := e.([]interface{})
			if !ok {
				return false
			}
			for _, x := range l {
				if _, ok := x.(string); !ok {
					return false
				}
			}
		}
		return true
	}
	return false
}

// equiv: does the saved value o reproduce the input v, comparing canonical
// forms (durations by value, multiaddrs by parsed equality, paths cleaned,
// hex case-insensitively, a one-element list and its bare string, "*" in a
// trusted-peers list subsuming the rest).
func equiv(f *field, v, o interface{}) bool {
	switch f.kind {
	case kInt, kUint, kFloat:
		a, ok1 := v.(float64)
		b, ok2 := o.(float64)
		return ok1 && ok2 && a == b
	case kBool:
		a, ok1 := v.(bool)
		b, ok2 := o.(bool)
		return ok1 && ok2 && a == b
	case kDur, kStr, kMaddr, kPath, kSecret, kPrivKey, kPeerID, kEnum:
		a, ok1 := v.(string)
		b, ok2 := o.(string)
		if !ok1 || !ok2 {
			return false
		}
		return equivStr(f.kind, a, b)
	case kStrList, kMaddrList, kPeerList:
		a, ok1 := asList(f, v)
		b, ok2 := asList(&field{flexList: true}, o)
		if !ok1 || !ok2 {
			return false
		}
		if f.kind == kPeerList && strings.Contains(f.key(), "trusted") {
			for _, e := range a {
				if e == "*" {
					return len(b) == 1 && b[0] == "*"
				}
			}
		}
		if len(a) != len(b) {
			return false
		}
		ek := kStr
		if f.kind == kMaddrList {
			ek = kMaddr
		} else if f.kind == kPeerList {
			ek = kPeerID
		}
		for i := range a {
			x, ok1 := a[i].(string)
			y, ok2 := b[i].(string)
			if !ok1 || !ok2 || !equivStr(ek, x, y) {
				return false
			}
		}
		return true
	}
	return reflect.DeepEqual(v, o)
}

func equivStr(k kind, a, b string) bool {
	if a == b {
		return true
	}
	switch k {
	case kDur:
		x, e1 := time.ParseDuration(a)
		y, e2 := time.ParseDuration(b)
		return e1 == nil && e2 == nil && x == y
	case kMaddr:
		x, e1 := ma.NewMultiaddr(a)
		y, e2 := ma.NewMultiaddr(b)
		return e1 == nil && e2 == nil && x.Equal(y)
	case kPath:
		return filepath.Clean(a) == filepath.Clean(b)
	case kSecret:
		x, e1 := hex.DecodeString(a)
		y, e2 := hex.DecodeString(b)
		return e1 == nil && e2 == nil && bytes.Equal(x, y)
	case kPeerID:
		x, e1 := peer.Decode(a)
		y, e2 := peer.Decode(b)
		return e1 == nil && e2 == nil && x == y
	}
	return false
}

// canon gives a canonical text for a well-formed value (distinctness test of
// the injectivity rule).
func canon(f *field, v interface{}) string {
	if s, ok := v.(string); ok {
		switch f.kind {
		case kDur:
			if d, err := time.ParseDuration(s); err == nil {
				return d.String()
			}
		case kMaddr:
			if m, err := ma.NewMultiaddr(s); err == nil {
				return m.String()
			}
		case kPath:
			return filepath.Clean(s)
		case kSecret:
			return strings.ToLower(s)
		}
	}
	return string(mustJSON(v))
}

// ------------------------------------------------------------- the oracle

type status string

const (
	stOK           status = "reproduced"
	stZero         status = "zero-means-default"
	stGarbage      status = "malformed-accepted" // observation, not a violation
	stNotPersisted status = "not-persisted-by-design"
	stReplaced     status = "replaced"
	stAbsent       status = "absent-from-saved" // resolved by the injectivity rule
)

// tracker keeps, per section and mode, what is needed across cases.
type tracker struct {
	s      *section
	sec    *ev.Section
	mode   string
	absent map[string]map[string]string // field -> canonical value -> label (accepted, well-formed, non-zero, missing from saved)
	single map[string]status            // "field=label" -> status observed in the single run (for pairs)
	garb   map[string]bool              // field=label accepted although malformed
	// pairBad: "field=label|other=label" pairs in which field was not
	// reproduced (so that a triple containing the pair is not reported again)
	pairBad map[string]bool
}

func newTracker(s *section, mode string) *tracker {
	return &tracker{s: s, sec: R.Sec(s.name + "/" + mode), mode: mode, absent: map[string]map[string]string{}, single: map[string]status{}, garb: map[string]bool{}, pairBad: map[string]bool{}}
}

func vkey(s *section, fieldKey, symptom, class, mode string) string {
	return strings.Join([]string{"C15", s.name, fieldKey, symptom, class, mode}, "|")
}

func devNames(devs []dev) (fields, labels, classes string) {
	var f, l, c []string
	for _, d := range devs {
		f = append(f, d.f.key())
		l = append(l, d.f.key()+"="+d.v.label)
		c = append(c, cls(d))
	}
	if len(devs) == 0 {
		return "-", "base", "-"
	}
	return strings.Join(f, "+"), strings.Join(l, " & "), strings.Join(c, "+")
}

// cls is the coarse value class used in violation keys.
func cls(d dev) string {
	switch {
	case zeroLike(d.f, d.v.v):
		return "zero"
	case !wellFormed(d.f, d.v.v):
		return "garbage"
	}
	switch x := d.v.v.(type) {
	case bool:
		return strconv.FormatBool(x)
	case float64:
		if x < 0 {
			return "neg"
		}
		return "pos"
	case string:
		if d.f.kind == kDur {
			if dd, err := time.ParseDuration(x); err == nil && dd < 0 {
				return "neg"
			} else if err == nil {
				return "pos"
			}
		}
		return "str"
	case []interface{}:
		return "list"
	case map[string]interface{}:
		return "map"
	}
	return d.v.class
}

func trunc(b []byte) string {
	if len(b) > 6000 {
		return string(b[:6000]) + "...(truncated)"
	}
	return string(b)
}

func errStr(e error) string {
	if e == nil {
		return ""
	}
	return e.Error()
}

// judge applies the property to one case. input is the JSON (or env
// description) that was loaded, rerun loads a saved document again.
func (t *tracker) judge(devs []dev, input string, res result, rerun func(saved []byte) result) {
	s := t.s
	fields, labels, classes := devNames(devs)
	detail := func(extra map[string]interface{}) map[string]interface{} {
		d := map[string]interface{}{"section": s.name, "mode": t.mode, "case": labels, "input": input}
		for k, v := range extra {
			d[k] = v
		}
		return d
	}
	nontrivial := len(devs) > 0
	out := "accepted"
	defer func() {
		R.Outcome(t.sec, out)
		R.Eval(t.sec, s.name+"|"+t.mode+"|"+labels+"|"+out, nontrivial)
		if nontrivial && (out == "accepted" || out == "rejected") {
			in := input
			if len(in) > 300 {
				in = in[:300] + "..."
			}
			R.SampleTagged(t.mode+"/"+out, 1, map[string]interface{}{"section": s.name, "case": labels, "input": in, "outcome": out, "load_error": errStr(res.loadErr)})
		}
	}()

	if len(res.panics) > 0 {
		out = "panic"
		call := strings.SplitN(res.panics[0], ":", 2)[0]
		violate(vkey(s, fields, "panic:"+call, classes, t.mode), detail(map[string]interface{}{"panic": res.panics, "expected": "an error or success, never a panic"}))
		return
	}
	if res.loadErr != nil {
		out = "rejected"
		return
	}
	// accepted by the loader
	if res.validateErr != nil {
		out = "accepted-but-invalid"
		violate(vkey(s, fields, "accepted-invalid", classes, t.mode), detail(map[string]interface{}{
			"expected": "a configuration the loader accepts passes Validate()", "validate_error": errStr(res.validateErr)}))
		return
	}
	if res.savedErr != nil || res.sec == nil {
		out = "accepted-but-unsavable"
		violate(vkey(s, fields, "tojson-error", classes, t.mode), detail(map[string]interface{}{
			"expected": "an accepted configuration can be saved", "tojson_error": errStr(res.savedErr)}))
		return
	}
	if res.dispErr != nil || res.disp == nil {
		out = "accepted-but-undisplayable"
		violate(vkey(s, fields, "display-error", classes, t.mode), detail(map[string]interface{}{
			"expected": "an accepted configuration can be displayed", "display_error": errStr(res.dispErr)}))
	} else {
		t.checkLeak(res.disp, labels, input)
	}

	// every non-zero well-formed input value is reproduced in canonical form
	for i, d := range devs {
		st := t.reflectStatus(d, res)
		skey := d.f.key() + "=" + d.v.label
		if len(devs) == 1 {
			t.single[skey] = st
		}
		switch st {
		case stGarbage:
			t.garb[skey] = true
			R.Outcome(t.sec, "malformed-value-accepted")
		case stAbsent:
			if len(devs) == 1 {
				m := t.absent[d.f.key()]
				if m == nil {
					m = map[string]string{}
					t.absent[d.f.key()] = m
				}
				m[canon(d.f, d.v.v)] = d.v.label
			}
		}
		bad := st == stReplaced
		pairNote := ""
		if len(devs) >= 2 {
			prev, seen := t.single[skey]
			var others []string
			for j, o := range devs {
				if j != i {
					others = append(others, o.f.key()+"="+cls(o))
				}
			}
			pairNote = "|pair:" + strings.Join(others, "+")
			if seen && prev == st {
				bad = false // same verdict as the single run: reported (or cleared) there
			} else if seen && prev == stOK && st == stAbsent {
				bad = true // reproduced alone, lost next to the other setting
			}
			if bad && t.pairBad != nil {
				for j, o := range devs {
					if j == i {
						continue
					}
					pk := skey + "|" + o.f.key() + "=" + o.v.label
					if len(devs) == 2 {
						t.pairBad[pk] = true
					} else if t.pairBad[pk] {
						bad = false // already reported for the pair inside this triple
					}
				}
			}
		}
		if bad {
			out = "accepted-not-reproduced"
			o, _ := getPath(res.sec, d.f.path)
			violate(vkey(s, d.f.key(), "not-reflected", cls(d), t.mode)+pairNote, detail(map[string]interface{}{
				"setting": d.f.key(), "given": d.v.v, "saved_value": o,
				"expected": "the loader accepted the configuration, so the saved form carries this well-formed non-zero value (canonical form)",
				"saved":    trunc(res.saved)}))
		}
	}

	// saving and loading again reproduces the saved form exactly
	r2 := rerun(res.saved)
	switch {
	case len(r2.panics) > 0:
		out = "reload-panic"
		violate(vkey(s, fields, "panic:reload", classes, t.mode), detail(map[string]interface{}{"panic": r2.panics, "saved": trunc(res.saved)}))
	case r2.loadErr != nil:
		out = "reload-rejected"
		violate(vkey(s, fields, "reload-error", classes, t.mode), detail(map[string]interface{}{
			"expected": "what ToJSON saved loads again", "reload_error": errStr(r2.loadErr), "saved": trunc(res.saved)}))
	case r2.savedErr != nil:
		out = "reload-unsavable"
		violate(vkey(s, fields, "reload-tojson-error", classes, t.mode), detail(map[string]interface{}{"tojson_error": errStr(r2.savedErr), "saved": trunc(res.saved)}))
	case !bytes.Equal(r2.saved, res.saved):
		var a, b interface{}
		json.Unmarshal(res.saved, &a)
		json.Unmarshal(r2.saved, &b)
		if !reflect.DeepEqual(a, b) {
			out = "reload-differs"
			violate(vkey(s, fields, "reload-differs", classes, t.mode), detail(map[string]interface{}{
				"expected": "LoadJSON(ToJSON()) then ToJSON() gives the same document", "saved": trunc(res.saved), "saved_again": trunc(r2.saved),
				"differing_keys": diffKeys(a, b, "")}))
		}
	}
}

func diffKeys(a, b interface{}, prefix string) []string {
	am, ok1 := a.(map[string]interface{})
	bm, ok2 := b.(map[string]interface{})
	if !ok1 || !ok2 {
		if !reflect.DeepEqual(a, b) {
			return []string{prefix}
		}
		return nil
	}
	keys := map[string]bool{}
	for k := range am {
		keys[k] = true
	}
	for k := range bm {
		keys[k] = true
	}
	var ks []string
	for k := range keys {
		ks = append(ks, k)
	}
	sort.Strings(ks)
	var out []string
	for _, k := range ks {
		p := k
		if prefix != "" {
			p = prefix + "." + k
		}
		out = append(out, diffKeys(am[k], bm[k], p)...)
	}
	return out
}

func (t *tracker) reflectStatus(d dev, res result) status {
	f := d.f
	if notPersisted[t.s.name+"|"+f.key()] {
		return stNotPersisted
	}
	v := d.v.v
	if zeroLike(f, v) {
		return stZero
	}
	if !wellFormed(f, v) {
		return stGarbage
	}
	if o, ok := getPath(res.sec, f.path); ok {
		if equiv(f, v, o) {
			return stOK
		}
		return stReplaced
	}
	// omitted from the saved form: the display form shows omitted settings too
	if !f.hidden {
		if dv, ok := getPath(res.dispSec, f.path); ok && equiv(f, v, dv) {
			return stOK
		}
	}
	if f.kind == kBool {
		return stReplaced // true given, saved form says false (omitted)
	}
	return stAbsent
}

// finish applies the injectivity rule: a setting omitted from the saved form
// stands for one value (its default). If two different accepted well-formed
// non-zero values are both omitted, at least one of them was dropped.
func (t *tracker) finish() {
	var fs []string
	for f := range t.absent {
		fs = append(fs, f)
	}
	sort.Strings(fs)
	for _, f := range fs {
		m := t.absent[f]
		if len(m) < 2 {
			continue
		}
		var labels []string
		for _, l := range m {
			labels = append(labels, l)
		}
		sort.Strings(labels)
		violate(vkey(t.s, f, "dropped", "any", t.mode), map[string]interface{}{
			"section": t.s.name, "mode": t.mode, "setting": f, "values_all_accepted_and_all_missing_from_saved_form": labels,
			"expected": "distinct accepted values of a setting give distinct saved configurations (a setting left out of the saved form can only stand for its default)"})
	}
	var g []string
	for k := range t.garb {
		g = append(g, k)
	}
	sort.Strings(g)
	for _, k := range g {
		fl := strings.SplitN(k, "=", 2)
		m := obsNotes[t.s.name]
		if m == nil {
			m = map[string][]string{}
			obsNotes[t.s.name] = m
		}
		dup := false
		for _, x := range m[fl[0]] {
			if x == fl[1] {
				dup = true
			}
		}
		if !dup {
			m[fl[0]] = append(m[fl[0]], fl[1])
			sort.Strings(m[fl[0]])
		}
	}
}

// observations: malformed values the loaders accept silently (recorded, not
// alarmed: the property speaks about well-formed settings).
var obsNotes = map[string]map[string][]string{}

// leakStats: per section, how many displays were scanned and how many of them
// belonged to a configuration whose input carried a given marker (reach).
var leakStats = map[string]map[string]int{}

func (t *tracker) checkLeak(disp []byte, labels, input string) {
	name := strings.SplitN(t.s.name, ":", 2)[0]
	if strings.HasPrefix(t.mode, "file") {
		name = "manager" // the aggregate display of the whole file
	}
	st := leakStats[name]
	if st == nil {
		st = map[string]int{}
		leakStats[name] = st
	}
	st["displays-scanned"]++
	if _, err := parseObj(disp); err != nil {
		violate(vkey(t.s, "display-error", "not-json", "-", t.mode), map[string]interface{}{"section": t.s.name, "case": labels, "input": input, "display": trunc(disp)})
	}
	seen := map[string]bool{}
	for _, m := range secretMarkers() {
		if !seen[m[0]] && strings.Contains(input, m[1]) {
			seen[m[0]] = true
			st["input-carried:"+m[0]]++
		}
	}
	for _, m := range secretMarkers() {
		if bytes.Contains(disp, []byte(m[1])) {
			ks := t.s
			if strings.HasPrefix(t.mode, "file") {
				ks = &section{name: "manager"} // the aggregate display
			}
			violate(vkey(ks, "display-leak", m[0], "-", t.mode), map[string]interface{}{
				"section": t.s.name, "mode": t.mode, "case": labels, "input": input, "leaked": m[0], "needle": m[1],
				"expected": "ToDisplayJSON never contains the cluster secret, private keys or API credentials", "display": trunc(disp)})
		}
	}
}

// ----------------------------------------------------------- env strings

func fmtNum(x float64) string { return strconv.FormatFloat(x, 'f', -1, 64) }

// envString renders a value the way a user would put it in the environment.
func envString(f *field, v interface{}) (string, bool) {
	switch t := v.(type) {
	case string:
		if (f.kind == kStrList || f.kind == kMaddrList || f.kind == kPeerList) && strings.Contains(t, ",") {
			return "", false
		}
		return t, true
	case float64:
		return fmtNum(t), true
	case bool:
		return strconv.FormatBool(t), true
	case []interface{}:
		var parts []string
		for _, e := range t {
			switch x := e.(type) {
			case string:
				if strings.Contains(x, ",") || x == "" {
					return "", false
				}
				parts = append(parts, x)
			case float64:
				parts = append(parts, fmtNum(x))
			default:
				return "", false
			}
		}
		return strings.Join(parts, ","), true
	case map[string]interface{}:
		var ks []string
		for k := range t {
			ks = append(ks, k)
		}
		sort.Strings(ks)
		var parts []string
		for _, k := range ks {
			switch x := t[k].(type) {
			case string:
				if strings.ContainsAny(x, ",:") || strings.ContainsAny(k, ",:") || x == "" {
					return "", false
				}
				parts = append(parts, k+":"+x)
			case []interface{}:
				if len(x) != 1 {
					return "", false
				}
				s, ok := x[0].(string)
				if !ok || strings.ContainsAny(s, ",:") {
					return "", false
				}
				parts = append(parts, k+":"+s)
			default:
				return "", false
			}
		}
		return strings.Join(parts, ","), true
	}
	return "", false
}
