package c15

import (
	"fmt"
	"sort"
	"testing"

	"verif/harness/lib/ev"
)

// (i) Default() => Validate() ok, for every section and the Manager.
func TestDefaultsValid(t *testing.T) {
	sec := R.Sec("defaults")
	sec.Bounds["sections"] = len(sections)
	for _, s := range sections {
		var panics []string
		var derr, verr error
		c := s.newCfg()
		guard("Default", &panics, func() { derr = c.Default() })
		if len(panics) == 0 && derr == nil {
			guard("Validate", &panics, func() { verr = c.Validate() })
		}
		out := "valid"
		switch {
		case len(panics) > 0:
			out = "panic"
			violate(vkey(s, "-", "panic:Default", "-", "default"), map[string]interface{}{"section": s.name, "panic": panics})
		case derr != nil || verr != nil:
			out = "invalid"
			violate(vkey(s, "-", "default-invalid", "-", "default"), map[string]interface{}{
				"section": s.name, "default_error": errStr(derr), "validate_error": errStr(verr), "expected": "the default configuration is valid"})
		}
		R.Outcome(sec, out)
		R.Eval(sec, s.name+"|default|"+out, false)
	}
	// Manager: Default() of everything registered, then Validate()
	m, _ := newManager()
	var panics []string
	var derr, verr error
	guard("Manager.Default", &panics, func() { derr = m.Default() })
	guard("Manager.Validate", &panics, func() { verr = m.Validate() })
	guard("Manager.Shutdown", &panics, m.Shutdown)
	ms := &section{name: "manager"}
	if len(panics) > 0 {
		violate(vkey(ms, "-", "panic:Default", "-", "default"), map[string]interface{}{"panic": panics})
	} else if derr != nil || verr != nil {
		violate(vkey(ms, "-", "default-invalid", "-", "default"), map[string]interface{}{"default_error": errStr(derr), "validate_error": errStr(verr)})
	}
	R.Eval(sec, "manager|default", false)
}

func (s *section) bases() [][2]interface{} {
	out := [][2]interface{}{{"default", s.base}}
	if s.rich != nil {
		out = append(out, [2]interface{}{"rich", s.rich})
	}
	// the default JSON with every boolean setting the other way round (so that
	// a later false has a true to override), where the loader accepts that
	if fb := s.flippedBase(); fb != nil {
		out = append(out, [2]interface{}{"bools-flipped", fb})
	}
	return out
}

func (s *section) flippedBase() []byte {
	m, err := parseObj(s.base)
	if err != nil {
		return nil
	}
	n := 0
	var walk func(x map[string]interface{})
	walk = func(x map[string]interface{}) {
		for k, v := range x {
			switch t := v.(type) {
			case bool:
				x[k] = !t
				n++
			case map[string]interface{}:
				walk(t)
			}
		}
	}
	walk(m)
	// booleans the default JSON omits (omitempty false) become true
	for _, f := range s.fields {
		if f.kind == kBool {
			if _, ok := getPath(m, f.path); !ok {
				setPath(m, f.path, true)
				n++
			}
		}
	}
	if n == 0 {
		return nil
	}
	b := mustJSON(m)
	if res := s.runComponent(b, nil); res.loadErr != nil || len(res.panics) > 0 || res.validateErr != nil {
		return nil
	}
	return b
}

// (ii) one setting at a time over the default JSON (and over the rich base
// where a section has optional groups), and alone in an otherwise empty JSON.
func TestJSONSingles(t *testing.T) {
	total := 0
	for _, s := range sections {
		for _, b := range s.bases() {
			bname, base := b[0].(string), b[1].([]byte)
			tr := newTracker(s, "json-"+bname)
			bm, err := parseObj(base)
			if err != nil {
				t.Fatal(err)
			}
			rerun := func(saved []byte) result { return s.runComponent(saved, nil) }
			// the base itself
			tr.judge(nil, string(base), s.runComponent(base, nil), rerun)
			n := 0
			for _, f := range s.fields {
				for _, v := range s.alphabet(f) {
					m := deepCopy(bm).(map[string]interface{})
					setPath(m, f.path, v.v)
					J := mustJSON(m)
					tr.judge([]dev{{f, v}}, string(J), s.runComponent(J, nil), rerun)
					n++
				}
			}
			tr.finish()
			tr.sec.Bounds["settings"] = len(s.fields)
			tr.sec.Bounds["cases"] = n
			total += n
			singleTrackers[s.name+"/"+bname] = tr
		}
		// sparse: {setting: value} and nothing else
		tr := newTracker(s, "json-sparse")
		rerun := func(saved []byte) result { return s.runComponent(saved, nil) }
		tr.judge(nil, "{}", s.runComponent([]byte("{}"), nil), rerun)
		n := 0
		for _, f := range s.fields {
			for _, v := range s.alphabet(f) {
				m := map[string]interface{}{}
				setPath(m, f.path, v.v)
				J := mustJSON(m)
				tr.judge([]dev{{f, v}}, string(J), s.runComponent(J, nil), rerun)
				n++
			}
		}
		tr.finish()
		tr.sec.Bounds["cases"] = n
		total += n
	}
	R.Note("json_single_cases", total)
}

var singleTrackers = map[string]*tracker{}

// all pairs of settings within a section. Quick tier: reduced alphabets;
// thorough tier: the full alphabets.
func TestJSONPairs(t *testing.T) {
	total := 0
	budget := ev.NewBudget(pairBudget())
	for _, s := range sections {
		for _, b := range s.bases() {
			bname, base := b[0].(string), b[1].([]byte)
			if bname != "default" && !ev.Thorough() {
				continue
			}
			tr := singleTrackers[s.name+"/"+bname]
			if tr == nil {
				t.Fatal("TestJSONSingles must run first")
			}
			// same single verdicts, its own evidence section
			secName := s.name + "/json-pairs"
			if bname != "default" {
				secName += "-" + bname
			}
			pt := &tracker{s: s, sec: R.Sec(secName), mode: "json-" + bname, absent: map[string]map[string]string{}, single: tr.single, garb: map[string]bool{}, pairBad: tr.pairBad}
			bm, _ := parseObj(base)
			rerun := func(saved []byte) result { return s.runComponent(saved, nil) }
			alpha := make([][]value, len(s.fields))
			for i, f := range s.fields {
				alpha[i] = s.alphabet(f)
				if !ev.Thorough() {
					alpha[i] = smallOnly(alpha[i])
				}
			}
			n, cut := 0, false
		outer:
			for i := 0; i < len(s.fields); i++ {
				for j := i + 1; j < len(s.fields); j++ {
					if budget.Exceeded() {
						cut = true
						break outer
					}
					for _, v := range alpha[i] {
						for _, w := range alpha[j] {
							m := deepCopy(bm).(map[string]interface{})
							setPath(m, s.fields[i].path, v.v)
							setPath(m, s.fields[j].path, w.v)
							J := mustJSON(m)
							pt.judge([]dev{{s.fields[i], v}, {s.fields[j], w}}, string(J), s.runComponent(J, nil), rerun)
							n++
						}
					}
				}
			}
			pt.sec.Bounds["settings"] = len(s.fields)
			pt.sec.Bounds["alphabet"] = map[bool]string{true: "full", false: "reduced (values marked small)"}[ev.Thorough()]
			pt.sec.Bounds["cases"] = n
			if cut {
				pt.sec.Exhaustive = false
				pt.sec.CapHit = "pair budget"
				R.NotExhaustive(fmt.Sprintf("pair enumeration of section %s (%s base) cut by the time budget after %d cases", s.name, bname, n))
			}
			total += n
		}
	}
	R.Note("json_pair_cases", total)
}

func sortedKeys(m map[string][]string) []string {
	var ks []string
	for k := range m {
		ks = append(ks, k)
	}
	sort.Strings(ks)
	return ks
}

// Thorough only: all triples of settings (reduced alphabets) in the sections
// small enough for it.
func TestJSONTriples(t *testing.T) {
	if !ev.Thorough() {
		return
	}
	total := 0
	for _, s := range sections {
		if len(s.fields) > 8 {
			continue
		}
		tr := singleTrackers[s.name+"/default"]
		pt := &tracker{s: s, sec: R.Sec(s.name + "/json-triples"), mode: "json-default", absent: map[string]map[string]string{}, single: tr.single, garb: map[string]bool{}, pairBad: tr.pairBad}
		bm, _ := parseObj(s.base)
		rerun := func(saved []byte) result { return s.runComponent(saved, nil) }
		alpha := make([][]value, len(s.fields))
		for i, f := range s.fields {
			alpha[i] = smallOnly(s.alphabet(f))
		}
		n := 0
		for i := 0; i < len(s.fields); i++ {
			for j := i + 1; j < len(s.fields); j++ {
				for k := j + 1; k < len(s.fields); k++ {
					for _, u := range alpha[i] {
						for _, v := range alpha[j] {
							for _, w := range alpha[k] {
								m := deepCopy(bm).(map[string]interface{})
								setPath(m, s.fields[i].path, u.v)
								setPath(m, s.fields[j].path, v.v)
								setPath(m, s.fields[k].path, w.v)
								J := mustJSON(m)
								pt.judge([]dev{{s.fields[i], u}, {s.fields[j], v}, {s.fields[k], w}}, string(J), s.runComponent(J, nil), rerun)
								n++
							}
						}
					}
				}
			}
		}
		pt.sec.Bounds["cases"] = n
		total += n
	}
	R.Note("json_triple_cases", total)
}
