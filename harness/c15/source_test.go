package c15

import (
	"encoding/json"
	"fmt"
	"net/http"
	"net/http/httptest"
	"testing"
)

// TestFileSourced: a service.json whose only setting is "source": the
// configuration is fetched from that URL (here an in-process server: the check
// stays offline). The loader accepts it => saving reproduces it (a file with
// the source and nothing else), loading the saved file gives the same again,
// and the components hold what a Manager loading the remote body directly
// holds. Remote bodies the loader must refuse (another source, not found, not
// JSON) give an error, never a crash.
func TestFileSourced(t *testing.T) {
	sec := R.Sec("file-sourced")
	rich := map[string][]byte{}
	for _, s := range sections {
		if s.rich != nil {
			rich[s.name] = s.rich
		}
	}
	bodies := map[string][]byte{
		"/default":  fileDoc(nil, nil),
		"/rich":     fileDoc(rich, nil),
		"/redirect": []byte(`{"source":"http://127.0.0.1:1/other"}`),
		"/garbage":  []byte("{"),
		"/empty":    []byte("{}"),
	}
	srv := httptest.NewServer(http.HandlerFunc(func(w http.ResponseWriter, r *http.Request) {
		b, ok := bodies[r.URL.Path]
		if !ok {
			http.NotFound(w, r)
			return
		}
		w.Write(b)
	}))
	defer srv.Close()
	// comparable view of what the components hold: every section's own JSON
	view := func(file []byte) (map[string]string, result) {
		m, cs := newManager()
		var res result
		defer func() { guard("Manager.Shutdown", &res.panics, m.Shutdown) }()
		guard("Manager.LoadJSON", &res.panics, func() { res.loadErr = m.LoadJSON(file) })
		if len(res.panics) > 0 || res.loadErr != nil {
			return nil, res
		}
		guard("Manager.ApplyEnvVars", &res.panics, func() { res.loadErr = m.ApplyEnvVars() })
		if len(res.panics) > 0 || res.loadErr != nil {
			return nil, res
		}
		out := map[string]string{"<manager.Source>": m.Source}
		for name, c := range cs {
			b, err := c.ToJSON()
			out[name] = string(b) + fmt.Sprint(err)
		}
		guard("Manager.ToJSON", &res.panics, func() { res.saved, res.savedErr = m.ToJSON() })
		return out, res
	}
	n := 0
	for _, path := range []string{"/default", "/rich", "/redirect", "/garbage", "/empty", "/missing"} {
		url := srv.URL + path
		file := []byte(fmt.Sprintf(`{"source":%q}`, url))
		got, res := view(file)
		n++
		label := "remote=" + path
		bad := func(sym string, extra map[string]interface{}) {
			extra["file"] = string(file)
			extra["remote_body"] = string(bodies[path])
			violate("C15|manager:sourced|"+label+"|"+sym, extra)
		}
		outcome := "accepted"
		switch {
		case len(res.panics) > 0:
			outcome = "panic"
			bad("panic", map[string]interface{}{"panic": res.panics})
		case res.loadErr != nil:
			outcome = "rejected"
			if path == "/default" || path == "/rich" {
				bad("valid-remote-rejected", map[string]interface{}{"error": res.loadErr.Error()})
			}
		default:
			if path == "/redirect" || path == "/garbage" || path == "/missing" {
				outcome = "accepted-what-must-be-refused"
				bad("remote-that-must-be-refused-accepted", map[string]interface{}{})
				break
			}
			// differential: the same body loaded directly
			direct, dres := view(bodies[path])
			if dres.loadErr != nil || len(dres.panics) > 0 {
				break // the body itself is not loadable on its own (e.g. {}): nothing to compare
			}
			for k, v := range direct {
				if k != "<manager.Source>" && got[k] != v {
					outcome = "components-differ-from-remote"
					bad("components-differ-from-remote", map[string]interface{}{"section": k, "sourced": got[k], "remote_loaded_directly": v})
					break
				}
			}
			if got["<manager.Source>"] != url {
				outcome = "source-not-kept"
				bad("source-not-kept", map[string]interface{}{"Manager.Source": got["<manager.Source>"], "expected": url})
			}
			var saved map[string]json.RawMessage
			if res.savedErr != nil || json.Unmarshal(res.saved, &saved) != nil {
				outcome = "unsavable"
				bad("tojson-error", map[string]interface{}{"error": fmt.Sprint(res.savedErr)})
				break
			}
			var su string
			json.Unmarshal(saved["source"], &su)
			if len(saved) != 1 || su != url {
				outcome = "source-setting-not-reproduced"
				bad("not-reflected", map[string]interface{}{"saved": string(res.saved), "expected": string(file)})
				break
			}
			again, ares := view(res.saved)
			if ares.loadErr != nil || len(ares.panics) > 0 || fmt.Sprint(again) != fmt.Sprint(got) {
				outcome = "reload-differs"
				bad("reload-differs", map[string]interface{}{"saved": string(res.saved), "reload_error": fmt.Sprint(ares.loadErr)})
			}
		}
		R.Eval(sec, "sourced|"+label+"|"+outcome, true)
		R.Outcome(sec, outcome)
	}
	sec.Bounds["files"] = fmt.Sprintf("%d: source pointing at the default file, the rich file, a file that names another source, a non-JSON body, an empty object, a missing document", n)
}
