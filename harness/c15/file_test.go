package c15

import (
	"encoding/json"
	"fmt"
	"reflect"
	"strings"
	"testing"
)

// The whole file through config.Manager with all 14 sections registered: every
// single-setting deviation of every section inside an otherwise default file.
func TestFileSingles(t *testing.T) {
	total := 0
	for _, s := range sections {
		for _, b := range s.bases() {
			bname, base := b[0].(string), b[1].([]byte)
			tr := newTracker(s, "file-"+bname)
			bm, err := parseObj(base)
			if err != nil {
				t.Fatal(err)
			}
			rerun := func(saved []byte) result { return runFile(s, saved, nil) }
			f0 := fileDoc(map[string][]byte{s.name: base}, nil)
			tr.judge(nil, string(f0), runFile(s, f0, nil), rerun)
			n := 0
			for _, f := range s.fields {
				for _, v := range s.alphabet(f) {
					m := deepCopy(bm).(map[string]interface{})
					setPath(m, f.path, v.v)
					file := fileDoc(map[string][]byte{s.name: mustJSON(m)}, nil)
					in := fmt.Sprintf("service.json = defaults of all 14 sections, section %s = %s", s.name, mustJSON(m))
					tr.judge([]dev{{f, v}}, in, runFile(s, file, nil), rerun)
					n++
				}
			}
			tr.finish()
			tr.sec.Bounds["cases"] = n
			total += n
		}
	}
	R.Note("file_single_cases", total)
}

// Environment variables through Manager.ApplyEnvVars over the default file.
func TestFileEnv(t *testing.T) {
	total := 0
	f0 := fileDoc(nil, nil)
	for _, s := range sections {
		tr := newTracker(s, "file-env")
		rerun := func(saved []byte) result { return runFile(s, saved, nil) }
		n := 0
		for _, f := range s.fields {
			name := f.envName(s.envPrefix)
			vs := s.alphabet(f)
			if !thorough() {
				vs = smallOnly(vs)
			}
			for _, v := range vs {
				if strings.HasPrefix(v.label, "json:") || (v.label == "maddrs:barestring" && !f.flexList) {
					continue
				}
				es, ok := envString(f, v.v)
				if !ok {
					continue
				}
				in := fmt.Sprintf("%s=%q applied by Manager.ApplyEnvVars over the default file", name, es)
				tr.judge([]dev{{f, v}}, in, runFile(s, f0, map[string]string{name: es}), rerun)
				n++
			}
		}
		tr.finish()
		tr.sec.Bounds["cases"] = n
		total += n
	}
	R.Note("file_env_cases", total)
}

// A section left out of the file stands for its defaults; the file with all
// sections, with each one missing, and with only the cluster section.
func TestFileShapes(t *testing.T) {
	sec := R.Sec("file-shapes")
	ms := &section{name: "manager"}
	tr := &tracker{s: ms, sec: sec, mode: "file-shape", absent: map[string]map[string]string{}, single: map[string]status{}, garb: map[string]bool{}, pairBad: map[string]bool{}}
	rerun := func(saved []byte) result { r := runFile(nil, saved, nil); r.sec = map[string]interface{}{}; return r }
	run := func(label string, file []byte) {
		res := runFile(nil, file, nil)
		if res.saved != nil {
			res.sec = map[string]interface{}{}
		}
		ms.name = "manager:" + label
		tr.judge(nil, string(file), res, rerun)
		if len(unregistered) > 0 && res.saved != nil {
			// What a Manager without some components saves must still hold
			// those components' settings: a Manager that has them registered
			// reads from the saved file what it reads from the original.
			unreg := unregistered
			unregistered = nil
			a := runFile(nil, file, nil)
			b := runFile(nil, res.saved, nil)
			unregistered = unreg
			if a.saved != nil {
				fa, _ := parseObj(a.saved)
				fb := map[string]interface{}{}
				if b.saved != nil {
					fb, _ = parseObj(b.saved)
				}
				for _, s := range sections {
					if !unreg[s.name] {
						continue
					}
					R.Eval(sec, "kept-by-partial-manager|"+label+"|"+s.name, true)
					if !reflect.DeepEqual(sectionOf(fa, s), sectionOf(fb, s)) {
						R.Violation("C15|file-shape|saved-by-a-manager-without-the-component|settings-of-the-unregistered-section-lost|"+s.name, map[string]interface{}{
							"case": label, "section": s.name, "full_manager_reads_from_original": sectionOf(fa, s), "full_manager_reads_from_saved": sectionOf(fb, s),
							"load_error_of_saved": fmt.Sprint(b.loadErr)})
					}
				}
			}
		}
	}
	run("all-sections", fileDoc(nil, nil))
	rich := map[string][]byte{}
	for _, s := range sections {
		if s.rich != nil {
			rich[s.name] = s.rich
		}
	}
	run("all-sections-rich", fileDoc(rich, nil))
	for _, s := range sections {
		run("without-"+s.name, fileDoc(rich, map[string]bool{s.name: true}))
	}
	// the whole (rich) file loaded by a Manager on which one component, or
	// every component but the cluster one, is not registered
	for _, s := range sections {
		unregistered = map[string]bool{s.name: true}
		run("component-not-registered:"+s.name, fileDoc(rich, nil))
	}
	unregistered = map[string]bool{}
	for _, s := range sections {
		if s.name != "cluster" {
			unregistered[s.name] = true
		}
	}
	run("only-cluster-registered", fileDoc(rich, nil))
	unregistered = nil
	only := map[string]bool{}
	for _, s := range sections {
		if s.name != "cluster" {
			only[s.name] = true
		}
	}
	run("cluster-only", fileDoc(nil, only))
	// a section (or a whole group of sections) present in the file with a
	// value that is not a settings object
	for _, s := range sections {
		for _, v := range []string{"null", "{}", "[]", "5", `"x"`, "true"} {
			run("section-is-"+v+":"+s.name, fileDoc(map[string][]byte{s.name: []byte(v)}, nil))
		}
	}
	for _, g := range []string{"cluster", "consensus", "api", "ipfs_connector", "pin_tracker", "monitor", "allocator", "informer", "observations", "datastore"} {
		for _, v := range []string{"null", "{}", "[]", "5"} {
			var doc map[string]json.RawMessage
			json.Unmarshal(fileDoc(rich, nil), &doc)
			doc[g] = json.RawMessage(v)
			run("group-is-"+v+":"+g, mustJSON(doc))
		}
	}
	run("empty-object", []byte("{}"))
	run("not-json", []byte("{"))
	run("unknown-section", []byte(`{"cluster":`+string(sectionByName("cluster").base)+`,"consensus":{"nosuch":{"a":1}}}`))
	sec.Bounds["files"] = int(sec.Evals)
}

// Thorough only: pairs of settings within a section, inside the whole file
// (reduced alphabets).
func TestFilePairs(t *testing.T) {
	if !thorough() {
		return
	}
	total := 0
	for _, s := range sections {
		// single verdicts of the file mode
		pt := newTracker(s, "file-default")
		pt.sec = R.Sec(s.name + "/file-pairs")
		bm, _ := parseObj(s.base)
		rerun := func(saved []byte) result { return runFile(s, saved, nil) }
		alpha := make([][]value, len(s.fields))
		for i, f := range s.fields {
			alpha[i] = smallOnly(s.alphabet(f))
			for _, v := range alpha[i] {
				m := deepCopy(bm).(map[string]interface{})
				setPath(m, f.path, v.v)
				res := runFile(s, fileDoc(map[string][]byte{s.name: mustJSON(m)}, nil), nil)
				if len(res.panics) == 0 && res.loadErr == nil && res.sec != nil {
					pt.single[f.key()+"="+v.label] = pt.reflectStatus(dev{f, v}, res)
				}
			}
		}
		n := 0
		for i := 0; i < len(s.fields); i++ {
			for j := i + 1; j < len(s.fields); j++ {
				for _, v := range alpha[i] {
					for _, w := range alpha[j] {
						m := deepCopy(bm).(map[string]interface{})
						setPath(m, s.fields[i].path, v.v)
						setPath(m, s.fields[j].path, w.v)
						file := fileDoc(map[string][]byte{s.name: mustJSON(m)}, nil)
						in := fmt.Sprintf("service.json = defaults of all 14 sections, section %s = %s", s.name, mustJSON(m))
						pt.judge([]dev{{s.fields[i], v}, {s.fields[j], w}}, in, runFile(s, file, nil), rerun)
						n++
					}
				}
			}
		}
		pt.sec.Bounds["cases"] = n
		total += n
	}
	R.Note("file_pair_cases", total)
}
