package c15

import (
	"bytes"
	"crypto/ecdsa"
	"crypto/elliptic"
	"crypto/rand"
	"crypto/x509"
	"crypto/x509/pkix"
	"encoding/base64"
	"encoding/pem"
	"math/big"
	"os"
	"path/filepath"
	"strings"
	"time"

	crypto "github.com/libp2p/go-libp2p-core/crypto"
	peer "github.com/libp2p/go-libp2p-core/peer"
)

// mk holds the marker secrets: fixed, recognisable values that must never
// show up in any ToDisplayJSON output.
var mk struct {
	secret, secret2   string // 32-byte cluster secrets, hex
	privKey, privKey2 string // libp2p private keys, base64 (as written in the config)
	peerID, peerID2   string // matching peer IDs
	user, pass        string // basic-auth credentials
	certFile, keyFile string // a real TLS pair in the scratch dir (paths are not secrets)
}

func detKey(seedByte byte) (string, string, error) {
	seed := bytes.Repeat([]byte{seedByte}, 64)
	priv, _, err := crypto.GenerateEd25519Key(bytes.NewReader(seed))
	if err != nil {
		return "", "", err
	}
	b, err := crypto.MarshalPrivateKey(priv)
	if err != nil {
		return "", "", err
	}
	id, err := peer.IDFromPrivateKey(priv)
	if err != nil {
		return "", "", err
	}
	return base64.StdEncoding.EncodeToString(b), peer.Encode(id), nil
}

func makeMarkers() error {
	mk.secret = strings.Repeat("c15a", 16)
	mk.secret2 = strings.Repeat("5ec2e7", 10) + "c15b"
	mk.user = "c15-marker-user"
	mk.pass = "c15-marker-Passw0rd"
	var err error
	if mk.privKey, mk.peerID, err = detKey(0x15); err != nil {
		return err
	}
	if mk.privKey2, mk.peerID2, err = detKey(0x51); err != nil {
		return err
	}
	return nil
}

// secretMarkers returns (name, needle) pairs searched for in display output.
// Long markers are also searched by halves so that a truncated or re-wrapped
// leak is still seen.
func secretMarkers() [][2]string {
	half := func(s string) string { return s[len(s)/4 : len(s)/4+len(s)/2] }
	return [][2]string{
		{"cluster-secret", mk.secret}, {"cluster-secret", half(mk.secret)},
		{"cluster-secret", mk.secret2}, {"cluster-secret", half(mk.secret2)},
		{"private-key", mk.privKey}, {"private-key", half(mk.privKey)},
		{"private-key", mk.privKey2}, {"private-key", half(mk.privKey2)},
		{"basic-auth-password", mk.pass},
		{"basic-auth-user", mk.user},
	}
}

func makeTLSPair(dir string) error {
	if err := os.MkdirAll(dir, 0o700); err != nil {
		return err
	}
	key, err := ecdsa.GenerateKey(elliptic.P256(), rand.Reader)
	if err != nil {
		return err
	}
	tmpl := &x509.Certificate{
		SerialNumber: big.NewInt(15),
		Subject:      pkix.Name{CommonName: "c15"},
		NotBefore:    time.Unix(0, 0),
		NotAfter:     time.Unix(1<<33, 0),
		KeyUsage:     x509.KeyUsageDigitalSignature,
	}
	der, err := x509.CreateCertificate(rand.Reader, tmpl, tmpl, &key.PublicKey, key)
	if err != nil {
		return err
	}
	kb, err := x509.MarshalECPrivateKey(key)
	if err != nil {
		return err
	}
	mk.certFile = filepath.Join(dir, "cert.pem")
	mk.keyFile = filepath.Join(dir, "key.pem")
	if err := os.WriteFile(mk.certFile, pem.EncodeToMemory(&pem.Block{Type: "CERTIFICATE", Bytes: der}), 0o600); err != nil {
		return err
	}
	return os.WriteFile(mk.keyFile, pem.EncodeToMemory(&pem.Block{Type: "EC PRIVATE KEY", Bytes: kb}), 0o600)
}
