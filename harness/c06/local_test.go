package c06

import (
	"context"
	"fmt"
	"os"
	"sort"
	"strconv"
	"strings"
	"sync"
	"sync/atomic"
	"testing"
	"testing/synctest"
	"time"

	"github.com/ipfs/ipfs-cluster/api"
	"github.com/ipfs/ipfs-cluster/pintracker/stateless"
	"github.com/ipfs/ipfs-cluster/state"

	cid "github.com/ipfs/go-cid"
	peer "github.com/libp2p/go-libp2p-core/peer"

	"verif/harness/lib/clus"
	"verif/harness/lib/ev"
)

// ---------------------------------------------------------------------------
// alphabets
// ---------------------------------------------------------------------------

type kind int

const (
	kAbsent kind = iota
	kLocalRec
	kLocalDirect
	kEverywhere
	kRemote
	kMeta
	nKinds
)

var kindName = [...]string{"absent", "local-recursive", "local-direct", "everywhere", "remote", "meta"}

type content int

const (
	iUnpinned content = iota
	iRecursive
	iDirect
	nContents
)

var contentName = [...]string{"unpinned", "recursive", "direct"}

type op int

const (
	oNone op = iota
	oPinOK
	oPinFail
	oUnpinOK
	oUnpinFail
	oPinParked
	oPinQueued
	oUnpinParked
	// extra histories that exist only for one pinset kind: Track() of the
	// remote / meta pin object itself.
	oTrackRemoteOK
	oTrackRemoteFail
	oTrackMeta
	// two instructions for the same CID: a pin allocated here fails, then the
	// CID is re-allocated elsewhere (Track of the remote pin, which succeeds)
	oPinFailThenRemote
	nOps
	// refused by a full queue (fullqueue_test.go only; not part of allLetters)
	oPinRefused   = nOps
	oUnpinRefused = nOps + 1
)

var opName = [...]string{"none", "pin-ok", "pin-failed", "unpin-ok", "unpin-failed", "pin-parked", "pin-queued",
	"unpin-parked", "track-remote-ok", "track-remote-failed", "track-meta", "pin-failed-then-track-remote-ok", "pin-refused-queue-full", "unpin-refused-queue-full"}

func (o op) isPinOp() bool {
	return o == oPinOK || o == oPinFail || o == oPinParked || o == oPinQueued
}

// tracked-pin class of a pin operation (which pin object Track() received).
type tpClass int

const (
	tpNone tpClass = iota
	tpEverywhere
	tpLocalRec
	tpLocalDirect
)

func tpOf(k kind) tpClass {
	switch k {
	case kLocalRec:
		return tpLocalRec
	case kLocalDirect:
		return tpLocalDirect
	}
	return tpEverywhere
}

// letter = what is really executed on the tracker for one CID.
type letter struct {
	O  op
	TP tpClass
}

// fact = what the harness edits at observation time for one CID.
type fact struct {
	K kind
	I content
}

type sit struct {
	K kind
	I content
	O op
}

func (s sit) String() string {
	return kindName[s.K] + "/" + contentName[s.I] + "/" + opName[s.O]
}

func allLetters() []letter {
	var out []letter
	for o := op(0); o < nOps; o++ {
		if o.isPinOp() || o == oPinFailThenRemote {
			for _, tp := range []tpClass{tpEverywhere, tpLocalRec, tpLocalDirect} {
				out = append(out, letter{o, tp})
			}
			continue
		}
		out = append(out, letter{o, tpNone})
	}
	return out
}

// factsFor lists the (kind, content) facts compatible with an executed letter.
func factsFor(l letter, mode string) []fact {
	reduced := mode == "reduced" || mode == "reduced3"
	if mode == "reduced3" && l.O >= oTrackRemoteOK {
		return nil // quick triples: the eight operations of the property only
	}
	var out []fact
	for k := kind(0); k < nKinds; k++ {
		switch {
		case l.O.isPinOp():
			if tpOf(k) != l.TP {
				continue
			}
		case l.O == oTrackRemoteOK || l.O == oTrackRemoteFail || l.O == oPinFailThenRemote:
			if k != kRemote {
				continue
			}
		case l.O == oTrackMeta:
			if k != kMeta {
				continue
			}
		}
		for i := content(0); i < nContents; i++ {
			if reduced && !reducedFact(fact{k, i}) && !(l.O == oTrackMeta && i == iUnpinned) {
				continue
			}
			out = append(out, fact{k, i})
		}
	}
	return out
}

// reducedFact is the representative (kind, content) sub-alphabet used by the
// quick tier for triples (pin operations then only exist with the
// everywhere-recursive tracked pin).
func reducedFact(f fact) bool {
	switch f {
	case fact{kAbsent, iUnpinned}, fact{kEverywhere, iRecursive}, fact{kEverywhere, iUnpinned},
		fact{kRemote, iUnpinned}:
		return true
	}
	return false
}

const reducedDoc = "reduced alphabet: absent/unpinned, everywhere/recursive, everywhere/unpinned, remote/unpinned (meta/unpinned only with Track(meta pin)); pin operations with the everywhere-recursive tracked pin only"

// ---------------------------------------------------------------------------
// statuses and filters (own tables: the oracle does not use the code's Match
// or String)
// ---------------------------------------------------------------------------

var singles = []api.TrackerStatus{
	api.TrackerStatusClusterError, api.TrackerStatusPinError, api.TrackerStatusUnpinError,
	api.TrackerStatusPinned, api.TrackerStatusPinning, api.TrackerStatusUnpinning,
	api.TrackerStatusUnpinned, api.TrackerStatusRemote, api.TrackerStatusPinQueued,
	api.TrackerStatusUnpinQueued, api.TrackerStatusSharded, api.TrackerStatusUnexpectedlyUnpinned,
}

var singleName = map[api.TrackerStatus]string{
	api.TrackerStatusUndefined:            "undefined",
	api.TrackerStatusClusterError:         "cluster_error",
	api.TrackerStatusPinError:             "pin_error",
	api.TrackerStatusUnpinError:           "unpin_error",
	api.TrackerStatusPinned:               "pinned",
	api.TrackerStatusPinning:              "pinning",
	api.TrackerStatusUnpinning:            "unpinning",
	api.TrackerStatusUnpinned:             "unpinned",
	api.TrackerStatusRemote:               "remote",
	api.TrackerStatusPinQueued:            "pin_queued",
	api.TrackerStatusUnpinQueued:          "unpin_queued",
	api.TrackerStatusSharded:              "sharded",
	api.TrackerStatusUnexpectedlyUnpinned: "unexpectedly_unpinned",
}

const absent api.TrackerStatus = -1 // "not in the listing"

func stName(st api.TrackerStatus) string {
	if st == absent {
		return "absent"
	}
	if n, ok := singleName[st]; ok {
		return n
	}
	var parts []string
	rest := st
	for _, s := range singles {
		if st&s != 0 {
			parts = append(parts, singleName[s])
			rest &^= s
		}
	}
	if rest != 0 {
		parts = append(parts, "bits:"+strconv.Itoa(int(rest)))
	}
	return strings.Join(parts, "+")
}

// filterKey is the part of a violation key naming a filter: the filter itself
// for singles and the named composites, its size otherwise.
func filterKey(f api.TrackerStatus) string {
	switch f {
	case 0:
		return "all"
	case api.TrackerStatusError:
		return "error"
	case api.TrackerStatusQueued:
		return "queued"
	}
	if _, ok := singleName[f]; ok {
		return singleName[f]
	}
	n := 0
	for _, s := range singles {
		if f&s != 0 {
			n++
		}
	}
	return "union-of-" + strconv.Itoa(n)
}

// matches is the property's "restricted to the filter": a status matches a
// filter when it is one of the filter's statuses; the empty filter is "all".
func matches(st, f api.TrackerStatus) bool { return f == 0 || st&f != 0 }

const allBits = api.TrackerStatus(0x1ffe) // the 12 single statuses

func quickFilters() []api.TrackerStatus {
	out := []api.TrackerStatus{0}
	out = append(out, singles...)
	for i := 0; i < len(singles); i++ {
		for j := i + 1; j < len(singles); j++ {
			out = append(out, singles[i]|singles[j]) // includes the composite "queued"
		}
	}
	out = append(out, api.TrackerStatusError, allBits)
	return out
}

func everyFilter() []api.TrackerStatus {
	out := make([]api.TrackerStatus, 0, 4096)
	for m := 0; m < 4096; m++ {
		out = append(out, api.TrackerStatus(m<<1))
	}
	return out
}

// singleFilters: "all" and each single status.
func singleFilters() []api.TrackerStatus {
	return append([]api.TrackerStatus{0}, singles...)
}

func basicFilters() []api.TrackerStatus {
	out := []api.TrackerStatus{0}
	out = append(out, singles...)
	out = append(out, api.TrackerStatusError, api.TrackerStatusQueued, allBits)
	return out
}

// ---------------------------------------------------------------------------
// oracle, from the property text
// ---------------------------------------------------------------------------

const errClass = api.TrackerStatusClusterError | api.TrackerStatusPinError | api.TrackerStatusUnpinError |
	api.TrackerStatusUnexpectedlyUnpinned

// acceptable returns the set of statuses the property text allows for a
// situation (union of every clause of the text that applies; where two
// clauses apply the text gives no precedence and the oracle accepts both).
func acceptable(s sit) api.TrackerStatus {
	var m api.TrackerStatus
	switch s.K {
	case kAbsent:
		m |= api.TrackerStatusUnpinned // "unpinned (or absent from the listing) when not in the pinset"
	case kRemote:
		m |= api.TrackerStatusRemote // "remote when allocated elsewhere"
	case kMeta:
		m |= api.TrackerStatusSharded // "sharded for meta entries"
	default:
		direct := s.K == kLocalDirect
		switch {
		case !direct && s.I == iRecursive, direct && s.I == iDirect:
			m |= api.TrackerStatusPinned // "pinned exactly when IPFS holds the expected pin"
		case direct && s.I == iRecursive:
			// a recursive pin where a direct one is expected: the text does
			// not say whether that is "the expected pin"; silent.
			m |= api.TrackerStatusPinned | errClass
		default:
			m |= errClass // "an error status whenever the item should be pinned here and is not"
		}
	}
	switch s.O {
	case oUnpinFail:
		// "an error status whenever ... its last pin or unpin failed": the
		// item was to be removed, the daemon refused and still holds whatever
		// it held: nothing but an error status is truthful (in particular not
		// "unpinned", although the item is not in the pinset any more)
		m = errClass
	case oPinFail, oTrackRemoteFail, oPinRefused, oUnpinRefused:
		m |= errClass // "... or its last pin or unpin failed"
	case oPinParked, oPinQueued:
		m |= api.TrackerStatusPinning | api.TrackerStatusPinQueued // "queued or in-progress only while an operation is pending"
	case oUnpinParked:
		m |= api.TrackerStatusUnpinning | api.TrackerStatusUnpinQueued
	}
	return m
}

// ---------------------------------------------------------------------------
// driving the real tracker
// ---------------------------------------------------------------------------

var (
	selfID  = clus.PID(0)
	otherID = clus.PID(1)
)

func pinFor(k kind, c cid.Cid) *api.Pin {
	p := api.PinCid(c)
	switch k {
	case kLocalRec:
		p.Allocations = []peer.ID{selfID}
		p.ReplicationFactorMin, p.ReplicationFactorMax = 1, 1
	case kLocalDirect:
		p.Allocations = []peer.ID{selfID}
		p.ReplicationFactorMin, p.ReplicationFactorMax = 1, 1
		p.Mode = api.PinModeDirect
		p.MaxDepth = 0
	case kEverywhere:
		p.ReplicationFactorMin, p.ReplicationFactorMax = -1, -1
	case kRemote:
		p.Allocations = []peer.ID{otherID}
		p.ReplicationFactorMin, p.ReplicationFactorMax = 1, 1
	case kMeta:
		// as the sharding adder writes it: user replication factors, no
		// allocations, reference to the cluster DAG, depth 0.
		p.Type = api.MetaType
		ref := clus.Cid("clusterdag-of-" + c.String())
		p.Reference = &ref
		p.MaxDepth = 0
		p.ReplicationFactorMin, p.ReplicationFactorMax = 1, 1
	}
	return p
}

func trackedPin(tp tpClass, c cid.Cid) *api.Pin {
	switch tp {
	case tpLocalRec:
		return pinFor(kLocalRec, c)
	case tpLocalDirect:
		return pinFor(kLocalDirect, c)
	}
	return pinFor(kEverywhere, c)
}

func ipfsStatus(i content) api.IPFSPinStatus {
	switch i {
	case iRecursive:
		return api.IPFSPinStatusRecursive
	case iDirect:
		return api.IPFSPinStatusDirect
	}
	return api.IPFSPinStatusUnpinned
}

type env struct {
	ctx   context.Context
	sh    *clus.Shared
	model *clus.IPFS
	tr    *stateless.Tracker
	names []string  // CID labels, helper "z" last when present
	cids  []cid.Cid // same order
	ops   []op      // executed operation per CID (helper: pin-parked)
	nUser int       // CIDs that belong to the vector (without the helper)
	cur   []fact    // facts currently installed
	label map[string]int
}

// queueSize is max_pin_queue_size of the trackers built by newTracker.
var queueSize = 16

func newTracker(model *clus.IPFS, st state.State, workers int) *stateless.Tracker {
	cfg := &stateless.Config{}
	cfg.Default()
	cfg.ConcurrentPins = workers
	cfg.MaxPinQueueSize = queueSize
	tr := stateless.New(cfg, selfID, "p0", func(context.Context) (state.ReadOnly, error) { return st, nil })
	var svc interface{} = &clus.IPFSSvc{M: model}
	if realConn {
		var closer func()
		svc, closer = clus.RealIPFSService(model)
		realClosers.Store(tr, closer)
	}
	tr.SetClient(clus.LocalRPC(map[string]interface{}{"IPFSConnector": svc}))
	return tr
}

var cidNames = []string{"a", "b", "c"}

// drive really runs the tracker to the operation-table state described by
// letters. It must be called inside a bubble. It returns an error when the
// harness could not reach the intended state (a broken check, not a verdict).
// failAs, when set, is the error a failing daemon call surfaces as
// (context.Canceled is what ipfshttp.Connector returns when its own timeout
// gives up on a call: a failure like any other for the tracker).
var failAs error

func drive(letters []letter) (*env, error) {
	e := &env{ctx: context.Background(), sh: clus.NewShared(nil), model: clus.NewIPFS(), label: map[string]int{}}
	e.model.FailErr = failAs
	parked, queued := 0, 0
	for _, l := range letters {
		if l.O == oPinParked {
			parked++
		}
		if l.O == oPinQueued {
			queued++
		}
	}
	workers := parked
	if workers == 0 {
		workers = 1
	}
	for i, l := range letters {
		e.names = append(e.names, cidNames[i])
		e.cids = append(e.cids, clus.Cid(cidNames[i]))
		e.ops = append(e.ops, l.O)
	}
	e.nUser = len(letters)
	tps := make([]tpClass, len(letters))
	for i, l := range letters {
		tps[i] = l.TP
	}
	if queued > 0 && parked == 0 {
		// something must occupy the only pin worker
		e.names = append(e.names, "z")
		e.cids = append(e.cids, clus.Cid("z"))
		e.ops = append(e.ops, oPinParked)
		tps = append(tps, tpEverywhere)
	}
	for i, c := range e.cids {
		e.label[c.String()] = i
	}
	e.cur = make([]fact, len(e.cids))
	for i := range e.cur {
		e.cur[i] = fact{-1, -1} // nothing installed yet
	}

	script := map[string]clus.Action{} // "pin:<cid>" / "unpin:<cid>"
	e.model.Decide = func(c *clus.Call) clus.Action {
		if a, ok := script[c.Kind+":"+c.Cid]; ok {
			return a
		}
		return clus.Apply
	}
	e.tr = newTracker(e.model, e.sh.State, workers)

	var issueErr error
	issue := func(i int) {
		c := e.cids[i]
		var err error
		switch e.ops[i] {
		case oPinOK:
			script["pin:"+c.String()] = clus.Apply
			err = e.tr.Track(e.ctx, trackedPin(tps[i], c))
		case oPinFail:
			script["pin:"+c.String()] = clus.Fail
			err = e.tr.Track(e.ctx, trackedPin(tps[i], c))
		case oPinParked, oPinQueued:
			script["pin:"+c.String()] = clus.Park
			err = e.tr.Track(e.ctx, trackedPin(tps[i], c))
		case oUnpinOK:
			script["unpin:"+c.String()] = clus.Apply
			err = e.tr.Untrack(e.ctx, c)
		case oUnpinFail:
			script["unpin:"+c.String()] = clus.Fail
			err = e.tr.Untrack(e.ctx, c)
		case oUnpinParked:
			script["unpin:"+c.String()] = clus.Park
			err = e.tr.Untrack(e.ctx, c)
		case oPinFailThenRemote:
			script["pin:"+c.String()] = clus.Fail
			err = e.tr.Track(e.ctx, trackedPin(tps[i], c))
			synctest.Wait()
			if err == nil {
				script["unpin:"+c.String()] = clus.Apply
				err = e.tr.Track(e.ctx, pinFor(kRemote, c))
			}
		case oTrackRemoteOK:
			script["unpin:"+c.String()] = clus.Apply
			err = e.tr.Track(e.ctx, pinFor(kRemote, c))
		case oTrackRemoteFail:
			// the daemon holds the item, so getting rid of it takes an unpin
			// (which fails)
			e.model.Set(c, api.IPFSPinStatusRecursive)
			script["unpin:"+c.String()] = clus.Fail
			err = e.tr.Track(e.ctx, pinFor(kRemote, c))
		case oTrackMeta:
			err = e.tr.Track(e.ctx, pinFor(kMeta, c))
		}
		if err != nil && issueErr == nil {
			issueErr = fmt.Errorf("%s on %s: %v", opName[e.ops[i]], e.names[i], err)
		}
		synctest.Wait()
	}
	// 1. operations that complete; 2. parked ones (the helper first);
	// 3. pins queued behind the busy workers.
	for i := range e.cids {
		switch e.ops[i] {
		case oPinOK, oPinFail, oUnpinOK, oUnpinFail, oTrackRemoteOK, oTrackRemoteFail, oTrackMeta, oPinFailThenRemote:
			issue(i)
		}
	}
	if len(e.cids) > e.nUser {
		issue(len(e.cids) - 1)
	}
	for i := 0; i < e.nUser; i++ {
		if e.ops[i] == oPinParked || e.ops[i] == oUnpinParked {
			issue(i)
		}
	}
	for i := 0; i < e.nUser; i++ {
		if e.ops[i] == oPinQueued {
			issue(i)
		}
	}
	if issueErr != nil {
		return e, issueErr
	}
	// Was the intended history really produced? Judged on the daemon's side.
	log := e.model.CallLog()
	has := func(kind string, c cid.Cid, outcomes ...string) bool {
		for _, l := range log {
			for _, o := range outcomes {
				if l == kind+":"+c.String()+":"+o {
					return true
				}
			}
		}
		return false
	}
	any := func(kind string, c cid.Cid) bool {
		for _, l := range log {
			if strings.HasPrefix(l, kind+":"+c.String()+":") {
				return true
			}
		}
		return false
	}
	firstUnpinParked := true
	for i, c := range e.cids {
		ok := true
		switch e.ops[i] {
		case oNone, oTrackMeta:
			ok = !any("pin", c) && !any("unpin", c)
		case oPinOK:
			ok = has("pin", c, "ok", "noop")
		case oPinFail:
			ok = has("pin", c, "error")
		case oPinFailThenRemote:
			ok = has("pin", c, "error")
		case oTrackRemoteOK:
			// (how the tracker gets rid of a remote item is its business:
			// an unpin call that succeeded, or none because nothing is held)
			ok = has("unpin", c, "ok", "noop") || !any("unpin", c)
		case oUnpinOK:
			ok = has("unpin", c, "ok", "noop")
		case oUnpinFail, oTrackRemoteFail:
			ok = has("unpin", c, "error")
		case oPinParked:
			ok = has("pin", c, "parked")
		case oPinQueued:
			ok = !any("pin", c)
		case oUnpinParked:
			// one unpin worker: the first is in progress, later ones wait
			// in the queue; both are pending operations.
			if firstUnpinParked {
				ok = has("unpin", c, "parked")
				firstUnpinParked = false
			} else {
				ok = !any("unpin", c)
			}
		}
		if !ok {
			return e, fmt.Errorf("history %s for %s not reached; daemon log %v", opName[e.ops[i]], e.names[i], log)
		}
	}
	return e, nil
}

func (e *env) close() {
	for _, c := range e.model.Parked() {
		e.model.Complete(c, clus.Fail)
		synctest.Wait()
	}
	// queued pins run now and park again
	for n := 0; n < 8; n++ {
		p := e.model.Parked()
		if len(p) == 0 {
			break
		}
		for _, c := range p {
			e.model.Complete(c, clus.Fail)
		}
		synctest.Wait()
	}
	e.tr.Shutdown(e.ctx)
	closeReal(e.tr)
	synctest.Wait()
}

// install edits pinset and daemon content to the given facts (helper CID is
// kept everywhere/unpinned).
func (e *env) install(fs []fact) {
	for i := range e.cids {
		f := fact{kEverywhere, iUnpinned}
		if i < e.nUser {
			f = fs[i]
		}
		if e.cur[i] == f {
			continue
		}
		if f.K != e.cur[i].K {
			if f.K == kAbsent {
				if err := e.sh.State.Rm(e.ctx, e.cids[i]); err != nil {
					panic(err)
				}
			} else if err := e.sh.State.Add(e.ctx, pinFor(f.K, e.cids[i])); err != nil {
				panic(err)
			}
		}
		e.model.Set(e.cids[i], ipfsStatus(f.I))
		e.cur[i] = f
	}
}

func (e *env) sitOf(i int) sit { return sit{e.cur[i].K, e.cur[i].I, e.ops[i]} }

func (e *env) vector() []string {
	var v []string
	for i := range e.cids {
		v = append(v, e.names[i]+"="+e.sitOf(i).String())
	}
	return v
}

// ---------------------------------------------------------------------------
// observation + verdict
// ---------------------------------------------------------------------------

type counters struct {
	statusCalls, listCalls, vectors atomic.Int64
}

var cnt counters

func (e *env) status(i int) (st api.TrackerStatus, panicked interface{}) {
	defer func() {
		if r := recover(); r != nil {
			panicked = r
		}
	}()
	cnt.statusCalls.Add(1)
	pi := e.tr.Status(e.ctx, e.cids[i])
	if pi == nil {
		return absent, nil
	}
	return pi.Status, nil
}

type listing struct {
	st    []api.TrackerStatus // per CID index; absent when not listed
	dup   []string
	stray []string
}

func (e *env) list(f api.TrackerStatus) (l listing, panicked interface{}) {
	defer func() {
		if r := recover(); r != nil {
			panicked = r
		}
	}()
	cnt.listCalls.Add(1)
	l.st = make([]api.TrackerStatus, len(e.cids))
	for i := range l.st {
		l.st[i] = absent
	}
	for _, pi := range e.tr.StatusAll(e.ctx, f) {
		if pi == nil {
			l.stray = append(l.stray, "nil entry")
			continue
		}
		i, ok := e.label[pi.Cid.String()]
		if !ok {
			l.stray = append(l.stray, pi.Cid.String())
			continue
		}
		if l.st[i] != absent {
			l.dup = append(l.dup, e.names[i])
		}
		l.st[i] = pi.Status
	}
	return l, nil
}

// observe evaluates the installed situation vector against the three clauses.
func (e *env) observe(sec *ev.Section, filters []api.TrackerStatus, sigMode string) {
	cnt.vectors.Add(1)
	detail := func(extra map[string]interface{}) map[string]interface{} {
		d := map[string]interface{}{"vector": e.vector(), "peer": "p0 (self), other peer p1",
			"how": "operation table produced by Track/Untrack on the real stateless.Tracker against the model daemon; pinset (dsstate) and daemon pin table then set to the vector's facts"}
		for k, v := range extra {
			d[k] = v
		}
		return d
	}
	n := len(e.cids)
	S := make([]api.TrackerStatus, n)
	for i := range e.cids {
		st, p := e.status(i)
		if p != nil {
			R.Violation("C06|local|panic|Status", detail(map[string]interface{}{"cid": e.names[i], "panic": fmt.Sprint(p)}))
			return
		}
		S[i] = st
	}
	all, p := e.list(0)
	if p != nil {
		R.Violation("C06|local|panic|StatusAll", detail(map[string]interface{}{"filter": "all", "panic": fmt.Sprint(p)}))
		return
	}
	for _, d := range all.dup {
		R.Violation("C06|local|listing|duplicate-entry", detail(map[string]interface{}{"cid": d}))
	}
	for _, d := range all.stray {
		R.Violation("C06|local|listing|stray-entry", detail(map[string]interface{}{"entry": d}))
	}
	nontrivial := false
	for i := range e.cids {
		s := e.sitOf(i)
		if s.K != kAbsent || s.O != oNone {
			nontrivial = true
		}
		tag := "kind=" + kindName[s.K] + "|ipfs=" + contentName[s.I] + "|op=" + opName[s.O]
		L := all.st[i]
		// (i) the two views agree
		if !(S[i] == L || (L == absent && S[i] == api.TrackerStatusUnpinned)) {
			R.Violation("C06|local|views-disagree|"+tag+"|status="+stName(S[i])+"|listing="+stName(L),
				detail(map[string]interface{}{"cid": e.names[i], "Status(cid)": stName(S[i]), "StatusAll(all)[cid]": stName(L),
					"expected": "the same status in both views (unpinned may be absent from the listing)"}))
		}
		// (ii) each view is truthful
		acc := acceptable(s)
		if S[i] == absent || S[i]&acc == 0 || S[i]&^acc != 0 {
			R.Violation("C06|local|untruthful|view=status|"+tag+"|got="+stName(S[i]),
				detail(map[string]interface{}{"cid": e.names[i], "observed": stName(S[i]), "allowed by the property text": stName(acc)}))
		}
		okL := (L == absent && acc&api.TrackerStatusUnpinned != 0) || (L != absent && L&acc != 0 && L&^acc == 0)
		if !okL {
			R.Violation("C06|local|untruthful|view=listing|"+tag+"|got="+stName(L),
				detail(map[string]interface{}{"cid": e.names[i], "observed": stName(L), "allowed by the property text": stName(acc) + " (absent allowed only where unpinned is)"}))
		}
		R.Outcome(sec, opName[s.O]+"->"+stName(S[i]))
	}
	// (iii) the filter law
	for _, f := range filters {
		if f == 0 {
			continue
		}
		lf, p := e.list(f)
		if p != nil {
			R.Violation("C06|local|panic|StatusAll", detail(map[string]interface{}{"filter": stName(f), "panic": fmt.Sprint(p)}))
			return
		}
		if len(lf.dup) > 0 {
			R.Violation("C06|local|listing|duplicate-entry", detail(map[string]interface{}{"cid": lf.dup, "filter": stName(f)}))
		}
		if len(lf.stray) > 0 {
			R.Violation("C06|local|listing|stray-entry", detail(map[string]interface{}{"entry": lf.stray, "filter": stName(f)}))
		}
		for i := range e.cids {
			want := absent
			if all.st[i] != absent && matches(all.st[i], f) {
				want = all.st[i]
			}
			got := lf.st[i]
			if got == want {
				continue
			}
			s := e.sitOf(i)
			tag := "kind=" + kindName[s.K] + "|ipfs=" + contentName[s.I] + "|op=" + opName[s.O]
			what := "changed:" + stName(want) + "->" + stName(got)
			if want == absent {
				what = "extra:" + stName(got)
			} else if got == absent {
				what = "missing:" + stName(want)
			}
			R.Violation("C06|local|filter-law|filter="+filterKey(f)+"|"+what,
				detail(map[string]interface{}{"cid": e.names[i], "situation": tag, "filter": stName(f), "StatusAll(all)[cid]": stName(all.st[i]),
					"StatusAll(filter)[cid]": stName(got), "expected": stName(want)}))
		}
	}
	// evidence
	var sig string
	switch sigMode {
	case "vector":
		parts := make([]string, n)
		for i := range e.cids {
			parts[i] = e.sitOf(i).String() + ">" + stName(S[i]) + "," + stName(all.st[i])
		}
		sig = sec.Name + "|" + strings.Join(parts, ";")
	default:
		parts := make([]string, n)
		for i := range e.cids {
			parts[i] = opName[e.ops[i]] + ">" + stName(S[i]) + "," + stName(all.st[i])
		}
		sort.Strings(parts)
		sig = sec.Name + "|" + strings.Join(parts, ";")
	}
	R.Eval(sec, sig, nontrivial)
	if nontrivial {
		R.SampleTagged(sec.Name, 3, map[string]interface{}{"vector": e.vector(), "Status": names(S), "StatusAll(all)": names(all.st)})
	}
}

func names(l []api.TrackerStatus) []string {
	out := make([]string, len(l))
	for i, s := range l {
		out[i] = stName(s)
	}
	return out
}

// ---------------------------------------------------------------------------
// enumeration
// ---------------------------------------------------------------------------

// letterVectors enumerates every vector of n letters.
func letterVectors(n int, letters []letter) [][]letter {
	var out [][]letter
	cur := make([]letter, n)
	var rec func(i int)
	rec = func(i int) {
		if i == n {
			out = append(out, append([]letter{}, cur...))
			return
		}
		for _, l := range letters {
			cur[i] = l
			rec(i + 1)
		}
	}
	rec(0)
	return out
}

// within bounds a section's budget by what is left of the run's overall budget
// (thorough tier: 27 minutes).
var runStart = time.Now()

func within(d time.Duration) time.Duration {
	left := 27*time.Minute - time.Since(runStart)
	if left < time.Second {
		left = time.Second
	}
	if d > left {
		return left
	}
	return d
}

func shards() int {
	if s, err := strconv.Atoi(os.Getenv("C06_SHARDS")); err == nil && s > 0 {
		return s
	}
	if ev.Thorough() {
		return 8
	}
	return 4
}

// explore runs every letter vector of length n (operation tables really
// produced) and, inside, every compatible fact vector.
func explore(t *testing.T, secName string, n int, mode string, filters []api.TrackerStatus, sigMode string, budget time.Duration) {
	sec := R.Sec(secName)
	var letters []letter
	for _, l := range allLetters() {
		if len(factsFor(l, mode)) > 0 {
			letters = append(letters, l)
		}
	}
	lvs := letterVectors(n, letters)
	sec.Bounds["cids"] = n
	sec.Bounds["executed_operation_vectors"] = len(lvs)
	sec.Bounds["filters_per_vector"] = len(filters)
	if mode == "reduced3" {
		sec.Bounds["facts"] = reducedDoc + "; without the Track(remote/meta pin) histories"
	} else if mode == "reduced" {
		sec.Bounds["facts"] = reducedDoc
	} else {
		sec.Bounds["facts"] = "all 6 pinset kinds x 3 IPFS contents per CID"
	}
	sec.Bounds["operations"] = "none, pin ok, pin failed, unpin ok, unpin failed, pin parked (in progress), pin queued behind a parked one, unpin parked; plus Track(remote pin) ok/failed and Track(meta pin)"
	// one task = one executed operation vector x one fact of the first CID
	// (a fresh tracker per task), so that the shards stay busy.
	type task struct{ lv, f0 int }
	var tasks []task
	for k, lv := range lvs {
		for j := range factsFor(lv[0], mode) {
			tasks = append(tasks, task{k, j})
		}
	}
	sec.Bounds["tracker_executions"] = len(tasks)
	bud := ev.NewBudget(budget)
	var next atomic.Int64
	var capped atomic.Bool
	var wg sync.WaitGroup
	var brokenOnce sync.Once
	for w := 0; w < shards(); w++ {
		wg.Add(1)
		go func() {
			defer wg.Done()
			for {
				k := int(next.Add(1)) - 1
				if k >= len(tasks) {
					return
				}
				if bud.Exceeded() {
					capped.Store(true)
					return
				}
				lv := lvs[tasks[k].lv]
				synctest.Test(t, func(t *testing.T) {
					e, err := drive(lv)
					if err != nil {
						brokenOnce.Do(func() { R.Broken("%s: %v", secName, err) })
						e.close()
						return
					}
					fsets := make([][]fact, n)
					for i, l := range lv {
						fsets[i] = factsFor(l, mode)
					}
					fsets[0] = fsets[0][tasks[k].f0 : tasks[k].f0+1]
					cur := make([]fact, n)
					var rec func(i int)
					rec = func(i int) {
						if i == n {
							e.install(cur)
							e.observe(sec, filters, sigMode)
							return
						}
						for _, f := range fsets[i] {
							cur[i] = f
							rec(i + 1)
						}
					}
					rec(0)
					e.close()
				})
			}
		}()
	}
	wg.Wait()
	if capped.Load() {
		sec.Exhaustive = false
		sec.CapHit = fmt.Sprintf("wall budget %s reached: fewer than %d of %d tracker executions explored", budget, next.Load(), len(tasks))
		R.NotExhaustive(secName + ": " + sec.CapHit)
	}
}

func TestLocalSingles(t *testing.T) {
	if ev.Thorough() {
		// every single-CID situation under every one of the 2^12 filters
		explore(t, "local-singles", 1, "full", everyFilter(), "vector", within(8*time.Minute))
		return
	}
	explore(t, "local-singles", 1, "full", quickFilters(), "vector", 60*time.Second)
	// every union of statuses on the representative facts
	explore(t, "local-singles-every-union", 1, "reduced", everyFilter(), "vector", 60*time.Second)
}

// The single-CID table once more with daemon failures surfacing as
// context.Canceled (the connector gave up; the operation was not cancelled).
func TestLocalSinglesConnectorGaveUp(t *testing.T) {
	failAs = context.Canceled
	defer func() { failAs = nil }()
	explore(t, "local-singles(failures=connector-gave-up)", 1, "full", quickFilters(), "vector", within(60*time.Second))
}

func TestLocalPairs(t *testing.T) {
	if ev.Thorough() {
		explore(t, "local-pairs", 2, "full", quickFilters(), "vector", within(8*time.Minute))
		// every one of the 2^12 filters on pairs over the representative facts
		explore(t, "local-pairs-every-union", 2, "reduced", everyFilter(), "vector", within(8*time.Minute))
		return
	}
	explore(t, "local-pairs", 2, "full", basicFilters(), "vector", 60*time.Second)
}

func TestLocalTriples(t *testing.T) {
	if ev.Thorough() {
		explore(t, "local-triples", 3, "full", basicFilters(), "class", within(20*time.Minute))
		return
	}
	explore(t, "local-triples", 3, "reduced3", singleFilters(), "class", 60*time.Second)
}

func TestZLocalNotes(t *testing.T) {
	R.Note("tracker_Status_calls", cnt.statusCalls.Load())
	R.Note("tracker_StatusAll_calls", cnt.listCalls.Load())
	R.Note("situation_vectors", cnt.vectors.Load())
}
