package c06

// An instruction refused because the tracker's queue is full is a failed
// operation: "an error status whenever ... its last pin or unpin failed", and
// "queued or in-progress only while an operation is pending". The queue is
// made full for real: one worker, max_pin_queue_size 1, the worker kept busy
// by a parked daemon call and one more instruction waiting in the queue.

import (
	"context"
	"fmt"
	"testing"
	"testing/synctest"

	"verif/harness/lib/clus"
)

func TestLocalFullQueue(t *testing.T) {
	sec := R.Sec("local-full-queue")
	sec.Bounds["situations"] = "pin refused (3 tracked-pin classes) and unpin refused by a full queue x every compatible (pinset kind, IPFS content) fact, observed while the queue is still full and again after everything drained"
	queueSize = 1
	defer func() { queueSize = 16 }()
	type variant struct {
		o  op
		tp tpClass
	}
	vs := []variant{{oPinRefused, tpEverywhere}, {oPinRefused, tpLocalRec}, {oPinRefused, tpLocalDirect}, {oUnpinRefused, tpNone}}
	for _, v := range vs {
		var facts []fact
		for k := kind(0); k < nKinds; k++ {
			if v.o == oPinRefused && tpOf(k) != v.tp {
				continue
			}
			if v.o == oPinRefused && (k == kAbsent || k == kRemote || k == kMeta) {
				continue
			}
			for i := content(0); i < nContents; i++ {
				facts = append(facts, fact{k, i})
			}
		}
		synctest.Test(t, func(t *testing.T) {
			e := &env{ctx: context.Background(), sh: clus.NewShared(nil), model: clus.NewIPFS(), label: map[string]int{}}
			e.names = []string{"a", "y", "z"}
			for _, n := range e.names {
				e.cids = append(e.cids, clus.Cid(n))
			}
			helper := oPinParked
			if v.o == oUnpinRefused {
				helper = oUnpinParked
			}
			e.ops = []op{v.o, helper, helper}
			if v.o == oPinRefused {
				e.ops[1] = oPinQueued
			}
			e.nUser = 1
			for i, c := range e.cids {
				e.label[c.String()] = i
			}
			e.cur = make([]fact, len(e.cids))
			for i := range e.cur {
				e.cur[i] = fact{-1, -1}
			}
			park := true
			e.model.Decide = func(c *clus.Call) clus.Action {
				if park && (c.Kind == "pin" || c.Kind == "unpin") {
					return clus.Park
				}
				return clus.Apply
			}
			e.tr = newTracker(e.model, e.sh.State, 1)
			defer e.close()
			do := func(i int) error {
				var err error
				if v.o == oPinRefused {
					tp := tpEverywhere
					if i == 0 {
						tp = v.tp
					}
					err = e.tr.Track(e.ctx, trackedPin(tp, e.cids[i]))
				} else {
					err = e.tr.Untrack(e.ctx, e.cids[i])
				}
				synctest.Wait()
				return err
			}
			if err := do(2); err != nil { // occupies the worker
				R.Broken("full-queue: helper z: %v", err)
				return
			}
			if err := do(1); err != nil { // fills the queue
				R.Broken("full-queue: helper y: %v", err)
				return
			}
			if len(e.model.Parked()) != 1 {
				R.Broken("full-queue: expected exactly one parked daemon call, got %d", len(e.model.Parked()))
				return
			}
			if err := do(0); err == nil {
				R.Broken("full-queue: the instruction for a was accepted although worker and queue are occupied (%s)", opName[v.o])
				return
			}
			for _, f := range facts {
				e.install([]fact{f})
				e.observe(sec, singleFilters(), "vector")
			}
			// drain: every daemon call now succeeds
			park = false
			for n := 0; n < 8 && len(e.model.Parked()) > 0; n++ {
				for _, c := range e.model.Parked() {
					e.model.Complete(c, clus.Apply)
				}
				synctest.Wait()
			}
			done := oPinOK
			if v.o == oUnpinRefused {
				done = oUnpinOK
			}
			e.ops[1], e.ops[2] = done, done
			for i := range e.cur {
				e.cur[i] = fact{-1, -1}
			}
			for _, f := range facts {
				e.install([]fact{f})
				e.observe(sec, singleFilters(), "vector")
			}
		})
		_ = fmt.Sprint
	}
}
