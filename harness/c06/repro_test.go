package c06

import (
	"context"
	"testing"
	"testing/synctest"

	"github.com/ipfs/ipfs-cluster/api"

	"verif/harness/lib/clus"
)

// TestReproCandidates is the minimal direct reproduction of the defects the
// tables report on the tree as first checked (see FINDINGS.md). It gives no
// verdict (the tables do); it writes what the real tracker answers into the
// evidence notes so that the reproduction can be read without the tables.
func TestReproCandidates(t *testing.T) {
	type row struct {
		Name, Pinset, IPFS, Status, Listing string
		InPinErrorListing, InUnexpListing   bool
	}
	var rows []row
	run := func(name string, k kind, i content) {
		synctest.Test(t, func(t *testing.T) {
			ctx := context.Background()
			sh := clus.NewShared(nil)
			model := clus.NewIPFS()
			tr := newTracker(model, sh.State, 1)
			c := clus.Cid("a")
			if err := sh.State.Add(ctx, pinFor(k, c)); err != nil {
				t.Fatal(err)
			}
			model.Set(c, ipfsStatus(i))
			r := row{Name: name, Pinset: kindName[k], IPFS: contentName[i], Listing: "absent"}
			r.Status = stName(tr.Status(ctx, c).Status)
			for _, pi := range tr.StatusAll(ctx, api.TrackerStatusUndefined) {
				if pi.Cid == c {
					r.Listing = stName(pi.Status)
				}
			}
			r.InPinErrorListing = len(tr.StatusAll(ctx, api.TrackerStatusPinError)) > 0
			r.InUnexpListing = len(tr.StatusAll(ctx, api.TrackerStatusUnexpectedlyUnpinned)) > 0
			rows = append(rows, r)
			tr.Shutdown(ctx)
			synctest.Wait()
		})
	}
	// DESIGN §6 row C06: a direct-mode pin that IS pinned direct.
	run("direct pin held direct", kLocalDirect, iDirect)
	// same root cause, other direction: direct expected, daemon holds it recursive.
	run("direct pin held recursive", kLocalDirect, iRecursive)
	// the two views name the same fact differently.
	run("recursive pin not held", kEverywhere, iUnpinned)
	R.Note("direct_reproductions", rows)
}
