package c06

// The local sections drive the tracker over the model daemon at the
// IPFSConnector component interface (clus.IPFS), which already answers
// PinLsCid "for the expected mode". That level cannot see a defect in the
// real connector's translation of those calls to the daemon's HTTP API (for
// instance a PinLsCid that forgets the type= filter, so that a direct pin
// passes for the recursive one the pinset asks for). This file puts the REAL
// ipfshttp.Connector between the tracker and the model: the model daemon is
// served over HTTP (net.Pipe connections inside the bubble) with go-ipfs's
// pin/ls, pin/add, pin/rm semantics, and the same single-CID exploration and
// the same oracle are run again.

import (
	"sync"
	"testing"
	"time"

	"github.com/ipfs/ipfs-cluster/pintracker/stateless"

	"verif/harness/lib/clus"
	"verif/harness/lib/ev"
)

// realConn switches newTracker to the real connector (set by the tests of
// this file only; tests run sequentially).
var realConn bool

var realClosers sync.Map // *stateless.Tracker -> func()

func closeReal(tr *stateless.Tracker) {
	if f, ok := realClosers.LoadAndDelete(tr); ok {
		f.(func())()
	}
}

// ---------------------------------------------------------------- tests

// TestRealConnectorSingles: every single-CID situation again, with the real
// ipfshttp.Connector in the path (sections "realconn-*"). Same oracle.
func TestRealConnectorSingles(t *testing.T) {
	realConn = true
	defer func() { realConn = false }()
	if ev.Thorough() {
		explore(t, "realconn-singles", 1, "full", basicFilters(), "vector", within(8*time.Minute))
		explore(t, "realconn-pairs", 2, "reduced", singleFilters(), "vector", within(8*time.Minute))
		return
	}
	explore(t, "realconn-singles", 1, "full", singleFilters(), "vector", 90*time.Second)
}

// The same single-CID table with injected daemon failures looking like a
// gateway's answer (502, HTML body) instead of go-ipfs's JSON error.
func TestRealConnectorSinglesGatewayErrors(t *testing.T) {
	clus.RealFailShape = "nonjson502"
	defer func() { clus.RealFailShape = "" }()
	realConn = true
	defer func() { realConn = false }()
	explore(t, "realconn-singles(failures=502-html)", 1, "full", singleFilters(), "vector", within(90*time.Second))
}
