// Package c06 decides C06 (reported pin status is truthful and consistent
// between its two views) by exhaustive finite tables on the real
// stateless.Tracker (local view) and on real Cluster peers over a mocknet
// (cluster-wide view), inside testing/synctest bubbles.
package c06

import (
	"testing"

	"verif/harness/lib/ev"
)

var R *ev.Run

func TestMain(m *testing.M) {
	R = ev.New("C06", "exploration")
	R.Rule("local view: one evaluation = one situation vector (per CID: pinset kind x IPFS content x last operation, the operation table produced by really driving the tracker with Track/Untrack against the model daemon) observed with Status(c) for every c and StatusAll(f) for every filter f of the tier's filter set; cluster view: one evaluation = one (allocation vector, per-peer IPFS facts, reachability, querying peer) configuration observed with Cluster.Status(c) and Cluster.StatusAll(f). A case is non-trivial when at least one CID is in the pinset or has an operation recorded; distinct_nontrivial counts distinct (situation vector -> observed statuses) signatures for singles and pairs, and distinct multisets of per-CID outcome classes for triples and the cluster view")
	R.Assume("the model IPFS daemon (lib/clus) answers PinLsCid/PinLs like ipfshttp.Connector over go-ipfs: PinLsCid(type derived from the pin's max depth) reports unpinned when the CID is pinned with another type; PinLs(\"recursive\") lists only recursive pins")
	R.Assume("the shared pinset is an in-memory dsstate edited directly by the harness (members agree on the pinset); consensus is the recording in-memory component")
	R.Assume("pin operations of a situation are issued with the pin object of the situation's pinset kind when that kind is pinned here, otherwise (absent/remote/meta) with an everywhere-recursive pin: the tracker was driven before the pinset changed")
	ev.Main(m.Run, R)
}
