package c06

import (
	"context"
	"fmt"
	"sort"
	"strings"
	"sync"
	"sync/atomic"
	"testing"
	"testing/synctest"
	"time"

	ipfscluster "github.com/ipfs/ipfs-cluster"
	"github.com/ipfs/ipfs-cluster/api"

	cid "github.com/ipfs/go-cid"
	host "github.com/libp2p/go-libp2p-core/host"
	peer "github.com/libp2p/go-libp2p-core/peer"
	mocknet "github.com/libp2p/go-libp2p/p2p/net/mock"

	"verif/harness/lib/clus"
	"verif/harness/lib/ev"
)

// ---------------------------------------------------------------------------
// cluster-wide view: real Cluster peers over one mocknet sharing one pinset
// ---------------------------------------------------------------------------

// pfact is what holds at one peer for the CID under observation.
type pfact int

const (
	pHolds   pfact = iota // the daemon holds the recursive pin
	pMissing              // the daemon does not hold it
	pFailed               // the peer's last pin of it failed (and the daemon does not hold it)
	nPFacts
)

var pfactName = [...]string{"holds", "missing", "pin-failed"}

// alloc: -1 = not in the pinset, 0 = everywhere (-1/-1), else bit mask of the
// allocated peers.
type alloc int

func (a alloc) name(n int) string {
	switch {
	case a < 0:
		return "absent"
	case a == 0:
		return "everywhere"
	}
	var ps []string
	for i := 0; i < n; i++ {
		if int(a)&(1<<i) != 0 {
			ps = append(ps, fmt.Sprintf("p%d", i))
		}
	}
	return "alloc[" + strings.Join(ps, ",") + "]"
}

func (a alloc) has(i int) bool { return a == 0 || (a > 0 && int(a)&(1<<i) != 0) }

type cworld struct {
	ctx    context.Context
	n      int
	mn     mocknet.Mocknet
	hosts  []host.Host
	ids    []peer.ID
	sh     *clus.Shared
	peers  []*clus.Peer
	models []*clus.IPFS
	idx    map[string]int // peer.Encode(id) -> index
}

func newWorld(n int) (*cworld, error) {
	w := &cworld{ctx: context.Background(), n: n, idx: map[string]int{}}
	w.mn, w.hosts = clus.NewMocknet(w.ctx, 0, n)
	for i, h := range w.hosts {
		w.ids = append(w.ids, h.ID())
		w.idx[peer.Encode(h.ID())] = i
	}
	w.sh = clus.NewShared(w.ids)
	for i, h := range w.hosts {
		m := clus.NewIPFS()
		p, err := clus.NewPeer(w.ctx, &clus.PeerParts{Host: h, Shared: w.sh, Consensus: clus.NewMemConsensus(h.ID(), w.sh), IPFS: m,
			Cfg: func(c *ipfscluster.Config) { c.PeerWatchInterval = time.Hour; c.MonitorPingInterval = time.Hour }})
		if err != nil {
			return w, fmt.Errorf("peer %d: %v", i, err)
		}
		<-p.C.Ready()
		w.peers = append(w.peers, p)
		w.models = append(w.models, m)
	}
	synctest.Wait()
	return w, nil
}

func (w *cworld) stop() {
	for _, p := range w.peers {
		p.Stop()
	}
	for _, h := range w.hosts {
		h.Close()
	}
	synctest.Wait()
}

// isolate cuts peer u off from every other peer (u<0: nobody).
func (w *cworld) isolate(u int) error {
	if u < 0 {
		return nil
	}
	for i := range w.ids {
		if i == u {
			continue
		}
		if err := w.mn.DisconnectPeers(w.ids[i], w.ids[u]); err != nil {
			return err
		}
		if err := w.mn.UnlinkPeers(w.ids[i], w.ids[u]); err != nil {
			return err
		}
	}
	synctest.Wait()
	return nil
}

func (w *cworld) pin(c cid.Cid, a alloc) *api.Pin {
	p := api.PinCid(c)
	p.Name = "n-" + a.name(w.n)
	if a == 0 {
		p.ReplicationFactorMin, p.ReplicationFactorMax = -1, -1
		return p
	}
	for i := 0; i < w.n; i++ {
		if a.has(i) {
			p.Allocations = append(p.Allocations, w.ids[i])
		}
	}
	p.ReplicationFactorMin, p.ReplicationFactorMax = len(p.Allocations), len(p.Allocations)
	return p
}

// cconf is one configuration of the cluster-wide view.
type cconf struct {
	N     int
	Alloc []alloc   // per CID
	Facts []pfact   // per peer (the same for every CID)
	U     int       // isolated peer, -1 none
	cids  []cid.Cid // a, b
}

func (c cconf) String() string {
	var as, fs []string
	for _, a := range c.Alloc {
		as = append(as, a.name(c.N))
	}
	for i, f := range c.Facts {
		fs = append(fs, fmt.Sprintf("p%d:%s", i, pfactName[f]))
	}
	u := "none"
	if c.U >= 0 {
		u = fmt.Sprintf("p%d", c.U)
	}
	return fmt.Sprintf("peers=%d pins=%s facts=%s isolated=%s", c.N, strings.Join(as, ","), strings.Join(fs, ","), u)
}

// setup installs pinset, daemon contents and the failed operations.
func (w *cworld) setup(cf cconf) error {
	for k, c := range cf.cids {
		a := cf.Alloc[k]
		if a >= 0 {
			if err := w.sh.State.Add(w.ctx, w.pin(c, a)); err != nil {
				return err
			}
		}
		for i := 0; i < w.n; i++ {
			switch cf.Facts[i] {
			case pHolds:
				w.models[i].Set(c, api.IPFSPinStatusRecursive)
			case pMissing:
				w.models[i].Set(c, api.IPFSPinStatusUnpinned)
			case pFailed:
				w.models[i].Set(c, api.IPFSPinStatusUnpinned)
				if a >= 0 && a.has(i) {
					// really drive peer i's tracker into a failed pin
					key := "pin:" + c.String()
					m := w.models[i]
					prev := m.Decide
					m.Decide = func(call *clus.Call) clus.Action {
						if call.Kind+":"+call.Cid == key {
							return clus.Fail
						}
						if prev != nil {
							return prev(call)
						}
						return clus.Apply
					}
					if err := w.peers[i].Parts.Tracker.Track(w.ctx, w.pin(c, a)); err != nil {
						return err
					}
					synctest.Wait()
				}
			}
		}
	}
	return nil
}

// reset undoes setup: empties the pinset, clears every recorded operation by
// really running a successful unpin, and empties the daemons.
func (w *cworld) reset(cf cconf) error {
	for k, c := range cf.cids {
		if cf.Alloc[k] >= 0 {
			if err := w.sh.State.Rm(w.ctx, c); err != nil {
				return err
			}
		}
		for i := 0; i < w.n; i++ {
			w.models[i].Decide = nil
			if cf.Facts[i] == pFailed && cf.Alloc[k] >= 0 && cf.Alloc[k].has(i) {
				if err := w.peers[i].Parts.Tracker.Untrack(w.ctx, c); err != nil {
					return err
				}
				synctest.Wait()
			}
			w.models[i].Set(c, api.IPFSPinStatusUnpinned)
		}
	}
	return nil
}

// ownStatus / ownListing: the peer's own report, taken directly from its
// tracker (no network).
func (w *cworld) ownStatus(i int, c cid.Cid) api.TrackerStatus {
	pi := w.peers[i].Parts.Tracker.Status(w.ctx, c)
	if pi == nil {
		return absent
	}
	return pi.Status
}

func (w *cworld) ownListing(i int, f api.TrackerStatus) map[string]api.TrackerStatus {
	out := map[string]api.TrackerStatus{}
	for _, pi := range w.peers[i].Parts.Tracker.StatusAll(w.ctx, f) {
		out[pi.Cid.String()] = pi.Status
	}
	return out
}

func clusterFilters() []api.TrackerStatus {
	if ev.Thorough() {
		return basicFilters()
	}
	return []api.TrackerStatus{0, api.TrackerStatusPinned, api.TrackerStatusRemote, api.TrackerStatusClusterError,
		api.TrackerStatusPinError, api.TrackerStatusUnexpectedlyUnpinned, api.TrackerStatusUnpinned, api.TrackerStatusError}
}

var cstat struct{ statusCalls, listCalls atomic.Int64 }

// checkConf observes one configuration from querying peer q.
func (w *cworld) checkConf(sec *ev.Section, cf cconf, q int) {
	detail := func(extra map[string]interface{}) map[string]interface{} {
		d := map[string]interface{}{"configuration": cf.String(), "querying_peer": fmt.Sprintf("p%d", q)}
		for k, v := range extra {
			d[k] = v
		}
		return d
	}
	reach := func(m int) bool { return m == q || (cf.U != q && cf.U != m) }
	role := func(a alloc, m int) string {
		r := "non-allocated"
		if a < 0 {
			r = "member"
		} else if a.has(m) {
			r = "allocated"
		}
		if !reach(m) {
			r += "-unreachable"
		}
		return r
	}
	pmap := func(g *api.GlobalPinInfo) map[string]string {
		out := map[string]string{}
		for k, v := range g.PeerMap {
			name := k
			if i, ok := w.idx[k]; ok {
				name = fmt.Sprintf("p%d", i)
			}
			out[name] = stName(v.Status)
		}
		return out
	}
	var obsSig []string

	// ---- Cluster.Status(c)
	for k, c := range cf.cids {
		a := cf.Alloc[k]
		var g *api.GlobalPinInfo
		var err error
		var pan interface{}
		func() {
			defer func() { pan = recover() }()
			cstat.statusCalls.Add(1)
			g, err = w.peers[q].C.Status(w.ctx, c)
		}()
		if pan != nil {
			R.Violation("C06|cluster|panic|Status", detail(map[string]interface{}{"panic": fmt.Sprint(pan)}))
			continue
		}
		if err != nil || g == nil {
			R.Violation("C06|cluster|status|call-failed|"+a.name(cf.N), detail(map[string]interface{}{"error": fmt.Sprint(err)}))
			continue
		}
		seen := map[int]bool{}
		for key, short := range g.PeerMap {
			m, ok := w.idx[key]
			if !ok {
				R.Violation("C06|cluster|status|non-member-in-peer-map", detail(map[string]interface{}{"cid": cidNames[k], "entry": key}))
				continue
			}
			seen[m] = true
			var want api.TrackerStatus
			rl := role(a, m)
			switch {
			case a < 0:
				want = api.TrackerStatusUnpinned
			case !a.has(m):
				want = api.TrackerStatusRemote
			case !reach(m):
				want = api.TrackerStatusClusterError
			default:
				want = w.ownStatus(m, c)
			}
			if short.Status != want {
				R.Violation("C06|cluster|status|"+rl+"|want="+stName(want)+"|got="+stName(short.Status),
					detail(map[string]interface{}{"cid": cidNames[k], "peer": fmt.Sprintf("p%d", m), "peer_map": pmap(g),
						"expected": "allocated peers carry their own report (cluster_error if unreachable), other members remote, every member unpinned for a CID that is not in the pinset"}))
			}
			// the own report itself must be truthful
			if a >= 0 && a.has(m) && reach(m) {
				f := cf.Facts[m]
				okT := (f == pHolds && short.Status == api.TrackerStatusPinned) || (f != pHolds && short.Status&errClass != 0)
				if !okT {
					R.Violation("C06|cluster|status|untruthful|"+pfactName[f]+"|got="+stName(short.Status),
						detail(map[string]interface{}{"cid": cidNames[k], "peer": fmt.Sprintf("p%d", m), "peer_map": pmap(g)}))
				}
			}
		}
		for m := 0; m < w.n; m++ {
			if !seen[m] {
				R.Violation("C06|cluster|status|"+role(a, m)+"|missing-from-peer-map",
					detail(map[string]interface{}{"cid": cidNames[k], "peer": fmt.Sprintf("p%d", m), "peer_map": pmap(g)}))
			}
		}
		if g.Cid != c {
			R.Violation("C06|cluster|status|wrong-cid", detail(map[string]interface{}{"cid": cidNames[k], "got": g.Cid.String()}))
		}
		pm := pmap(g)
		var ks []string
		for p := range pm {
			ks = append(ks, p+"="+pm[p])
		}
		sort.Strings(ks)
		obsSig = append(obsSig, strings.Join(ks, ","))
	}

	// ---- Cluster.StatusAll(f)
	label := map[string]int{}
	for k, c := range cf.cids {
		label[c.String()] = k
	}
	for _, f := range clusterFilters() {
		var gs []*api.GlobalPinInfo
		var err error
		var pan interface{}
		func() {
			defer func() { pan = recover() }()
			cstat.listCalls.Add(1)
			gs, err = w.peers[q].C.StatusAll(w.ctx, f)
		}()
		if pan != nil {
			R.Violation("C06|cluster|panic|StatusAll", detail(map[string]interface{}{"filter": stName(f), "panic": fmt.Sprint(pan)}))
			continue
		}
		if err != nil {
			R.Violation("C06|cluster|listing|call-failed", detail(map[string]interface{}{"filter": stName(f), "error": fmt.Sprint(err)}))
			continue
		}
		own := make([]map[string]api.TrackerStatus, w.n)
		for m := 0; m < w.n; m++ {
			own[m] = w.ownListing(m, f)
		}
		listed := map[int]*api.GlobalPinInfo{}
		for _, g := range gs {
			k, ok := label[g.Cid.String()]
			if !ok {
				R.Violation("C06|cluster|listing|stray-cid", detail(map[string]interface{}{"filter": stName(f), "cid": g.Cid.String()}))
				continue
			}
			if listed[k] != nil {
				R.Violation("C06|cluster|listing|cid-listed-twice", detail(map[string]interface{}{"filter": stName(f), "cid": cidNames[k]}))
				continue
			}
			listed[k] = g
		}
		for k, c := range cf.cids {
			a := cf.Alloc[k]
			g := listed[k]
			got := map[int]api.TrackerStatus{}
			if g != nil {
				for key, short := range g.PeerMap {
					m, ok := w.idx[key]
					if !ok {
						R.Violation("C06|cluster|listing|non-member-in-peer-map", detail(map[string]interface{}{"cid": cidNames[k], "entry": key}))
						continue
					}
					got[m] = short.Status
				}
			}
			for m := 0; m < w.n; m++ {
				st, have := got[m]
				if !have {
					st = absent
				}
				rl := role(a, m)
				if reach(m) {
					// own report, restricted to the filter
					want, ok := own[m][c.String()]
					if !ok {
						want = absent
					}
					if want == api.TrackerStatusUnpinned && st == absent || want == absent && st == api.TrackerStatusUnpinned {
						continue
					}
					if st != want {
						R.Violation("C06|cluster|listing|filter="+filterKey(f)+"|"+rl+"|want="+stName(want)+"|got="+stName(st),
							detail(map[string]interface{}{"cid": cidNames[k], "peer": fmt.Sprintf("p%d", m), "filter": stName(f),
								"expected": "the peer's own report (its tracker's StatusAll(filter) entry)"}))
					}
					// roles, on the unfiltered listing
					if f == 0 && a >= 0 && !a.has(m) && st != api.TrackerStatusRemote {
						R.Violation("C06|cluster|listing|filter=all|"+rl+"|want=remote|got="+stName(st),
							detail(map[string]interface{}{"cid": cidNames[k], "peer": fmt.Sprintf("p%d", m)}))
					}
					if f == 0 && a < 0 && st != absent && st != api.TrackerStatusUnpinned {
						R.Violation("C06|cluster|listing|filter=all|"+rl+"|want=unpinned-or-absent|got="+stName(st),
							detail(map[string]interface{}{"cid": cidNames[k], "peer": fmt.Sprintf("p%d", m)}))
					}
					continue
				}
				// unreachable member: nothing but cluster_error can be said
				// about it; an allocated one must carry it on every listed CID.
				if have && st != api.TrackerStatusClusterError && !(a >= 0 && !a.has(m) && st == api.TrackerStatusRemote) {
					R.Violation("C06|cluster|listing|filter="+filterKey(f)+"|"+rl+"|want=cluster_error|got="+stName(st),
						detail(map[string]interface{}{"cid": cidNames[k], "peer": fmt.Sprintf("p%d", m), "filter": stName(f)}))
				}
				if !have && g != nil && a >= 0 && a.has(m) {
					R.Violation("C06|cluster|listing|filter="+filterKey(f)+"|"+rl+"|want=cluster_error|got=absent",
						detail(map[string]interface{}{"cid": cidNames[k], "peer": fmt.Sprintf("p%d", m), "filter": stName(f), "peer_map": pmap(g)}))
				}
			}
			if f == 0 && a >= 0 && g == nil {
				R.Violation("C06|cluster|listing|filter=all|pinset-entry-not-listed|"+a.name(cf.N), detail(map[string]interface{}{"cid": cidNames[k]}))
			}
		}
	}
	R.Outcome(sec, "isolated="+fmt.Sprint(cf.U >= 0)+"/query-from-isolated="+fmt.Sprint(cf.U == q))
	nontrivial := false
	for _, a := range cf.Alloc {
		if a >= 0 {
			nontrivial = true
		}
	}
	R.Eval(sec, sec.Name+"|"+cf.String()+"|q="+fmt.Sprint(q)+"|"+strings.Join(obsSig, ";"), nontrivial)
	if nontrivial && cf.U >= 0 {
		R.SampleTagged(sec.Name, 3, map[string]interface{}{"configuration": cf.String(), "query_from": fmt.Sprintf("p%d", q), "Cluster.Status peer maps": obsSig})
	}
}

func allocs(n int) []alloc {
	out := []alloc{-1, 0}
	for m := 1; m < 1<<n; m++ {
		out = append(out, alloc(m))
	}
	return out
}

func factVectors(n int) [][]pfact {
	var out [][]pfact
	cur := make([]pfact, n)
	var rec func(i int)
	rec = func(i int) {
		if i == n {
			out = append(out, append([]pfact{}, cur...))
			return
		}
		for f := pfact(0); f < nPFacts; f++ {
			cur[i] = f
			rec(i + 1)
		}
	}
	rec(0)
	return out
}

func exploreCluster(t *testing.T, secName string, n, ncids int, budget time.Duration) {
	sec := R.Sec(secName)
	sec.Bounds["peers"] = n
	sec.Bounds["cids"] = ncids
	sec.Bounds["allocations_per_cid"] = "absent, everywhere (-1/-1), every non-empty subset of the peers"
	sec.Bounds["facts_per_peer"] = "daemon holds the pin / does not / last pin failed (allocated peers only)"
	sec.Bounds["reachability"] = "nobody isolated, or exactly one peer cut off from all others (mocknet unlink+disconnect); queried from every peer, the isolated one included"
	sec.Bounds["filters"] = len(clusterFilters())
	bud := ev.NewBudget(budget)
	as := allocs(n)
	var avs [][]alloc
	if ncids == 1 {
		for _, a := range as {
			avs = append(avs, []alloc{a})
		}
	} else {
		for _, a := range as {
			for _, b := range as {
				avs = append(avs, []alloc{a, b})
			}
		}
	}
	cids := []cid.Cid{clus.Cid("a"), clus.Cid("b")}[:ncids]
	// one task = one world (isolated peer u, allocation vector); inside, every
	// per-peer fact vector is installed, observed from every peer and undone.
	type ctask struct {
		av []alloc
		u  int
	}
	var tasks []ctask
	nconf := 0
	valid := func(av []alloc, fv []pfact) bool {
		// a failed pin only exists on a peer that is allocated for some CID
		for i, f := range fv {
			if f != pFailed {
				continue
			}
			anyAlloc := false
			for _, a := range av {
				if a >= 0 && a.has(i) {
					anyAlloc = true
				}
			}
			if !anyAlloc {
				return false
			}
		}
		return true
	}
	fvs := factVectors(n)
	for _, av := range avs {
		for u := -1; u < n; u++ {
			tasks = append(tasks, ctask{av, u})
			for _, fv := range fvs {
				if valid(av, fv) {
					nconf++
				}
			}
		}
	}
	sec.Bounds["configurations"] = nconf
	sec.Bounds["observations"] = nconf * n
	var next atomic.Int64
	var capped atomic.Bool
	var brokenOnce sync.Once
	var wg sync.WaitGroup
	for s := 0; s < shards(); s++ {
		wg.Add(1)
		go func() {
			defer wg.Done()
			for {
				k := int(next.Add(1)) - 1
				if k >= len(tasks) {
					return
				}
				if bud.Exceeded() {
					capped.Store(true)
					return
				}
				tk := tasks[k]
				clus.Bubble(t, func(t *testing.T) {
					w, err := newWorld(n)
					if err == nil {
						err = w.isolate(tk.u)
					}
					for _, fv := range fvs {
						if err != nil {
							break
						}
						if !valid(tk.av, fv) {
							continue
						}
						cf := cconf{N: n, Alloc: tk.av, Facts: fv, U: tk.u, cids: cids}
						if err = w.setup(cf); err != nil {
							break
						}
						for q := 0; q < n; q++ {
							w.checkConf(sec, cf, q)
						}
						err = w.reset(cf)
					}
					if err != nil {
						brokenOnce.Do(func() { R.Broken("%s: %v", secName, err) })
					}
					w.stop()
				})
			}
		}()
	}
	wg.Wait()
	if capped.Load() {
		sec.Exhaustive = false
		sec.CapHit = fmt.Sprintf("wall budget %s reached: fewer than %d of %d worlds explored", budget, next.Load(), len(tasks))
		R.NotExhaustive(secName + ": " + sec.CapHit)
	}
}

func TestClusterView3(t *testing.T) {
	exploreCluster(t, "cluster-3-peers-1-cid", 3, 1, within(3*time.Minute))
}

func TestClusterView2(t *testing.T) {
	exploreCluster(t, "cluster-2-peers-2-cids", 2, 2, within(3*time.Minute))
}

func TestClusterView3Pairs(t *testing.T) {
	if !ev.Thorough() {
		t.Skip("thorough tier only")
	}
	exploreCluster(t, "cluster-3-peers-2-cids", 3, 2, within(8*time.Minute))
}

func TestZClusterNotes(t *testing.T) {
	R.Note("Cluster_Status_calls", cstat.statusCalls.Load())
	R.Note("Cluster_StatusAll_calls", cstat.listCalls.Load())
}
