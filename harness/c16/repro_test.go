package c16

// Minimal direct reproductions of the two confirmed findings, independent of
// the bubble / pipe / script machinery: the real Connector against a plain
// httptest server on a real TCP socket, real time. Not part of the verdict
// (skipped unless C16_REPRO=1). Run with
//
//	S=/var/tmp/c16-scratch; mkdir -p $S; cp /verif/harness/go.mod $S/go.mod
//	LC_ALL=C sort -u /repo/go.sum /verif/harness/go.sum.extra > $S/go.sum
//	cd /verif/harness && C16_REPRO=1 GOFLAGS=-mod=mod GOPROXY=off GOSUMDB=off GOTOOLCHAIN=local \
//	  go1.26 test -modfile $S/go.mod -vet=off -count=1 -run TestRepro -v ./c16
//
// (that overwrites /verif/evidence/C16.json with an empty run: re-run vcheck).
//
// Violation keys of the check: finding 1 = C16|Pin|*|add:trailer-error*|nil-*,
// finding 2 = C16|Pin|*|update:stall|no-return.

import (
	"context"
	"fmt"
	"net/http"
	"net/http/httptest"
	"os"
	"strings"
	"sync"
	"testing"
	"time"

	cid "github.com/ipfs/go-cid"
	"github.com/ipfs/ipfs-cluster/api"
	"github.com/ipfs/ipfs-cluster/ipfsconn/ipfshttp"
	ma "github.com/multiformats/go-multiaddr"
)

func reproConnector(t *testing.T, srv *httptest.Server) *ipfshttp.Connector {
	hp := strings.TrimPrefix(srv.URL, "http://")
	parts := strings.Split(hp, ":")
	cfg := &ipfshttp.Config{}
	cfg.Default()
	cfg.NodeAddr = ma.StringCast(fmt.Sprintf("/ip4/%s/tcp/%s", parts[0], parts[1]))
	cfg.ConnectSwarmsDelay = 0
	cfg.PinTimeout = 200 * time.Millisecond
	cfg.IPFSRequestTimeout = 200 * time.Millisecond
	c, err := ipfshttp.NewConnector(cfg)
	if err != nil {
		t.Fatal(err)
	}
	return c
}

// Finding 1: go-ipfs reports an error that happens after streaming began by
// ending the body cleanly and setting the X-Stream-Error trailer. Pin returns
// nil although nothing was pinned.
func TestReproStreamErrorTrailer(t *testing.T) {
	if os.Getenv("C16_REPRO") == "" {
		t.Skip()
	}
	var mu sync.Mutex
	pinned := map[string]bool{}
	srv := httptest.NewServer(http.HandlerFunc(func(w http.ResponseWriter, r *http.Request) {
		switch r.URL.Path {
		case "/api/v0/pin/ls":
			mu.Lock()
			ok := pinned[r.URL.Query().Get("arg")]
			mu.Unlock()
			if !ok {
				w.WriteHeader(500)
				fmt.Fprintf(w, `{"Message":"path '%s' is not pinned","Code":0,"Type":"error"}`, r.URL.Query().Get("arg"))
				return
			}
			fmt.Fprintf(w, `{"Keys":{"%s":{"Type":"recursive"}}}`, r.URL.Query().Get("arg"))
		case "/api/v0/pin/add":
			w.Header().Set("Trailer", "X-Stream-Error")
			w.WriteHeader(200)
			fmt.Fprintln(w, `{"Pins":null,"Progress":1}`)
			w.(http.Flusher).Flush()
			// the fetch fails: nothing is pinned, the error goes in the trailer
			w.Header().Set("X-Stream-Error", "pin: context deadline exceeded")
		}
	}))
	defer srv.Close()
	conn := reproConnector(t, srv)
	defer conn.Shutdown(context.Background())
	c, _ := cid.Decode(cidTarget)
	err := conn.Pin(context.Background(), api.PinCid(c))
	mu.Lock()
	held := pinned[cidTarget]
	mu.Unlock()
	t.Logf("Pin returned %v; daemon holds the pin: %v", err, held)
	if err == nil && !held {
		t.Log("REPRODUCED: Pin reported success, the daemon pinned nothing")
	} else {
		t.Error("not reproduced")
	}
}

// Finding 2: with an update source that is recursively pinned, Pin issues
// pin/update without any timeout or watchdog: a daemon that stalls makes Pin
// block forever (here: still blocked after 15x PinTimeout).
func TestReproPinUpdateHang(t *testing.T) {
	if os.Getenv("C16_REPRO") == "" {
		t.Skip()
	}
	release := make(chan struct{})
	srv := httptest.NewServer(http.HandlerFunc(func(w http.ResponseWriter, r *http.Request) {
		switch r.URL.Path {
		case "/api/v0/pin/ls":
			arg := r.URL.Query().Get("arg")
			if arg == cidSource {
				fmt.Fprintf(w, `{"Keys":{"%s":{"Type":"recursive"}}}`, arg)
				return
			}
			w.WriteHeader(500)
			fmt.Fprintf(w, `{"Message":"path '%s' is not pinned","Code":0,"Type":"error"}`, arg)
		case "/api/v0/pin/update":
			select { // stall
			case <-release:
			case <-r.Context().Done():
			}
		}
	}))
	defer srv.Close()
	defer close(release)
	conn := reproConnector(t, srv)
	defer conn.Shutdown(context.Background())
	c, _ := cid.Decode(cidTarget)
	from, _ := cid.Decode(cidSource)
	done := make(chan error, 1)
	go func() { done <- conn.Pin(context.Background(), api.PinWithOpts(c, api.PinOptions{PinUpdate: from})) }()
	select {
	case err := <-done:
		t.Errorf("not reproduced: Pin returned %v", err)
	case <-time.After(3 * time.Second):
		t.Log("REPRODUCED: Pin still blocked after 3s with PinTimeout=IPFSRequestTimeout=200ms")
	}
}
