package c16

// A scripted fake IPFS daemon: a real net/http server on an in-memory
// listener made of net.Pipe connections (durably blocking, so usable inside a
// testing/synctest bubble), whose handlers implement a small model of the
// go-ipfs pin table and consult a per-request-kind behaviour script.

import (
	"context"
	"encoding/json"
	"errors"
	"fmt"
	"net"
	"net/http"
	"sort"
	"strconv"
	"sync"
	"time"

	dspinner "github.com/ipfs/go-ipfs-pinner/dspinner"
	ipldpinner "github.com/ipfs/go-ipfs-pinner/ipldpinner"
)

// ---------------------------------------------------------------- listener

type pipeListener struct {
	ch   chan net.Conn
	done chan struct{}
	once sync.Once
}

func newPipeListener() *pipeListener {
	return &pipeListener{ch: make(chan net.Conn), done: make(chan struct{})}
}

func (l *pipeListener) Accept() (net.Conn, error) {
	select {
	case c := <-l.ch:
		return c, nil
	case <-l.done:
		return nil, net.ErrClosed
	}
}
func (l *pipeListener) Close() error   { l.once.Do(func() { close(l.done) }); return nil }
func (l *pipeListener) Addr() net.Addr { return pipeAddr{} }

type pipeAddr struct{}

func (pipeAddr) Network() string { return "pipe" }
func (pipeAddr) String() string  { return "pipe" }

// dial hands one end of a fresh pipe to Accept and returns the other.
func (l *pipeListener) dial(ctx context.Context) (net.Conn, error) {
	c, s := net.Pipe()
	select {
	case l.ch <- s:
		return c, nil
	case <-l.done:
		c.Close()
		s.Close()
		return nil, errors.New("connection refused (daemon down)")
	case <-ctx.Done():
		c.Close()
		s.Close()
		return nil, ctx.Err()
	}
}

// ---------------------------------------------------------------- model

// pinEntry is one explicit pin of the model daemon.
type pinEntry struct {
	Mode  string `json:"mode"`  // "direct" | "recursive"
	Depth int    `json:"depth"` // recursive only: -1 unlimited, else max-depth
}

// table is the model pin table: explicit pins plus a static DAG (parent ->
// children) from which indirect pins follow.
type table struct {
	pins  map[string]pinEntry
	links map[string][]string
}

func newTable() *table { return &table{pins: map[string]pinEntry{}, links: map[string][]string{}} }

func (t *table) indirectThrough(c string) string {
	parents := make([]string, 0, len(t.links))
	for p := range t.links {
		parents = append(parents, p)
	}
	sort.Strings(parents)
	for _, p := range parents {
		if e, ok := t.pins[p]; ok && e.Mode == "recursive" {
			for _, ch := range t.links[p] {
				if ch == c {
					return p
				}
			}
		}
	}
	return ""
}

// state: "recursive" | "direct" | "indirect" | "unpinned" (go-ipfs precedence).
func (t *table) state(c string) string {
	if e, ok := t.pins[c]; ok {
		return e.Mode
	}
	if t.indirectThrough(c) != "" {
		return "indirect"
	}
	return "unpinned"
}

type ipfsErrBody struct {
	Message string
	Code    int
	Type    string
}

func errJSON(msg string) []byte {
	b, _ := json.Marshal(ipfsErrBody{Message: msg, Code: 0, Type: "error"})
	return b
}

// The two upstream "not pinned" messages Unpin must tolerate.
func notPinnedMsgs() []string {
	a, b := dspinner.ErrNotPinned.Error(), ipldpinner.ErrNotPinned.Error()
	if a == b {
		return []string{a}
	}
	return []string{a, b}
}

// ---------------------------------------------------------------- daemon

// reqRec is one request as seen by the daemon.
type reqRec struct {
	Kind      string            `json:"kind"` // ls | ls-src | connect | update | add | rm | other
	Endpoint  string            `json:"endpoint"`
	Query     map[string]string `json:"query"`
	Args      []string          `json:"args"`
	Beh       string            `json:"behaviour"`
	At        time.Duration     `json:"at"`
	LastProg  time.Duration     `json:"last_progress_at"` // add: fake time of the last progress *increase* sent (or arrival)
	SrcState  string            `json:"source_state_at_arrival,omitempty"`
	TgtState  string            `json:"target_state_at_arrival,omitempty"`
	Success   bool              `json:"success"`   // honest answer, model operation succeeded, response completely written
	Tolerated bool              `json:"tolerated"` // rm only: honest "not pinned" answer
	ModelErr  string            `json:"model_error,omitempty"`
	Refused   bool              `json:"refused,omitempty"` // add: the model refused up front, the scripted stream plan never started
}

type daemon struct {
	mu     sync.Mutex
	tbl    *table
	script map[string]string
	target string
	source string
	T      time.Duration // PinTimeout, scales the progress plans
	t0     time.Time
	reqs   []*reqRec
	cons   map[string]bool
	done   chan struct{}
	npMsg  string // "not pinned" message variant used by honest pin/rm
}

func newDaemon(tbl *table, script map[string]string, target, source string, T time.Duration) *daemon {
	return &daemon{tbl: tbl, script: script, target: target, source: source, T: T,
		t0: time.Now(), cons: map[string]bool{}, done: make(chan struct{}), npMsg: notPinnedMsgs()[0]}
}

// behaviour domains per request kind; index 0 is the honest daemon.
var (
	plainBehs = []string{"honest", "err500", "nonjson500", "drop", "drop-mid", "stall"}
	lsBehs    = append(append([]string{}, plainBehs...), "garbage200")
)

func addBehs(thorough bool) []string {
	b := []string{"honest", "progress-ok", "slow-steady-ok", "err500", "nonjson500", "drop", "drop-mid",
		"stall", "headers-stall", "progress-stall", "noincrease-forever", "noincrease-stall", "trailer-error", "garbage200"}
	if thorough {
		b = append(b, "progress1-stall", "progress10-stall", "late-progress-stall", "commit-then-drop", "decreasing-forever", "trailer-error-noprogress")
	}
	return b
}

func rmBehs() []string {
	b := append([]string{}, plainBehs...)
	if len(notPinnedMsgs()) > 1 {
		b = append(b, "honest-ipld")
	}
	return b
}

type progLine struct {
	after time.Duration
	prog  int
}

// addPlan describes the streamed answer of pin/add.
type addPlan struct {
	pre    string     // "" | err500 | nonjson500 | drop | stall
	lines  []progLine // progress lines, each sent `after` the previous event
	repeat *progLine  // then this line forever
	end    string     // ok | stall | abort | trailer | garbage | commit-abort
}

func (d *daemon) planFor(beh string) addPlan {
	s := time.Second
	T := d.T
	switch beh {
	case "honest":
		return addPlan{end: "ok"}
	case "progress-ok":
		return addPlan{lines: []progLine{{s, 1}, {s, 2}, {s, 3}}, end: "ok"}
	case "slow-steady-ok": // a gap below the timeout between increases, longer than 2x timeout overall
		return addPlan{lines: []progLine{{T * 3 / 4, 1}, {T * 3 / 4, 2}, {T * 3 / 4, 3}, {T * 3 / 4, 4}}, end: "ok"}
	case "err500", "nonjson500", "drop", "stall":
		return addPlan{pre: beh}
	case "drop-mid":
		return addPlan{lines: []progLine{{s, 1}, {s, 2}}, end: "abort"}
	case "headers-stall":
		return addPlan{end: "stall"}
	case "progress-stall":
		return addPlan{lines: []progLine{{s, 1}, {s, 2}, {s, 3}}, end: "stall"}
	case "progress1-stall":
		return addPlan{lines: []progLine{{s, 1}}, end: "stall"}
	case "progress10-stall":
		l := []progLine{}
		for i := 1; i <= 10; i++ {
			l = append(l, progLine{s, i})
		}
		return addPlan{lines: l, end: "stall"}
	case "late-progress-stall": // one increase shortly before the first watchdog tick, then nothing
		return addPlan{lines: []progLine{{T - s, 1}}, end: "stall"}
	case "noincrease-forever":
		return addPlan{lines: []progLine{{s, 2}}, repeat: &progLine{T / 4, 2}}
	case "decreasing-forever":
		return addPlan{lines: []progLine{{s, 5}}, repeat: &progLine{T / 4, 1}}
	case "noincrease-stall":
		return addPlan{lines: []progLine{{s, 2}, {s, 2}, {s, 2}, {s, 0}}, end: "stall"}
	case "trailer-error":
		return addPlan{lines: []progLine{{s, 1}, {s, 2}}, end: "trailer"}
	case "trailer-error-noprogress":
		return addPlan{lines: []progLine{{s, 0}}, end: "trailer"}
	case "garbage200":
		return addPlan{end: "garbage"}
	case "commit-then-drop":
		return addPlan{lines: []progLine{{s, 1}}, end: "commit-abort"}
	}
	panic("unknown add behaviour " + beh)
}

func (d *daemon) since() time.Duration { return time.Since(d.t0) }

// wait sleeps in fake time; false if the client went away or the daemon stops.
func (d *daemon) wait(r *http.Request, dur time.Duration) bool {
	tm := time.NewTimer(dur)
	defer tm.Stop()
	select {
	case <-tm.C:
		return true
	case <-r.Context().Done():
		return false
	case <-d.done:
		return false
	}
}

func (d *daemon) stall(r *http.Request) {
	select {
	case <-r.Context().Done():
	case <-d.done:
	}
}

func flush(w http.ResponseWriter) {
	if f, ok := w.(http.Flusher); ok {
		f.Flush()
	}
}

func (d *daemon) kindOf(endp string, args []string) string {
	switch endp {
	case "pin/ls":
		if len(args) == 1 && d.source != "" && args[0] == d.source {
			if d.source != d.target {
				return "ls-src"
			}
			for _, r := range d.reqs { // self-update: the second pin/ls is the source probe
				if r.Kind == "ls" {
					return "ls-src"
				}
			}
		}
		return "ls"
	case "swarm/connect":
		return "connect"
	case "pin/update":
		return "update"
	case "pin/add":
		return "add"
	case "pin/rm":
		return "rm"
	}
	return "other"
}

func boolParam(q map[string]string, name string, def bool) bool {
	v, ok := q[name]
	if !ok {
		return def
	}
	b, err := strconv.ParseBool(v)
	if err != nil {
		return def
	}
	return b
}

// honest computes the model answer of a non-streaming request. commit=false
// is a dry run. It returns status, body, whether the model operation
// succeeded and (for rm) whether the failure is the "not pinned" one.
func (d *daemon) honest(rec *reqRec, commit bool) (int, []byte, bool, bool) {
	q, args := rec.Query, rec.Args
	t := d.tbl
	switch rec.Kind {
	case "ls", "ls-src":
		typ := q["type"]
		if typ == "" {
			typ = "all"
		}
		if len(args) == 0 {
			keys := map[string]map[string]string{}
			for c, e := range t.pins {
				if typ == "all" || typ == e.Mode {
					keys[c] = map[string]string{"Type": e.Mode}
				}
			}
			b, _ := json.Marshal(map[string]interface{}{"Keys": keys})
			return 200, b, true, false
		}
		c := args[0]
		st := t.state(c)
		if st != "unpinned" && (typ == "all" || typ == st) {
			ty := st
			if st == "indirect" {
				ty = "indirect through " + t.indirectThrough(c)
			}
			b, _ := json.Marshal(map[string]interface{}{"Keys": map[string]interface{}{c: map[string]string{"Type": ty}}})
			return 200, b, true, false
		}
		rec.ModelErr = "not pinned (under type filter " + typ + ")"
		// an honest, complete answer: the model operation (a query) succeeded
		return 500, errJSON(fmt.Sprintf("path '%s' is not pinned", c)), true, false
	case "connect":
		b, _ := json.Marshal(map[string]interface{}{"Strings": []string{"connect success"}})
		return 200, b, true, false
	case "rm":
		if len(args) != 1 {
			return 500, errJSON("argument \"ipfs-path\" is required"), false, false
		}
		c := args[0]
		rec.TgtState = t.state(c)
		e, ok := t.pins[c]
		if !ok {
			rec.ModelErr = "not pinned"
			return 500, errJSON(d.npMsg), false, true
		}
		if e.Mode == "recursive" && !boolParam(q, "recursive", true) {
			rec.ModelErr = "pinned recursively"
			return 500, errJSON(c + " is pinned recursively"), false, false
		}
		if commit {
			delete(t.pins, c)
		}
		b, _ := json.Marshal(map[string]interface{}{"Pins": []string{c}})
		return 200, b, true, false
	case "update":
		if len(args) != 2 {
			return 500, errJSON("argument \"to-path\" is required"), false, false
		}
		from, to := args[0], args[1]
		rec.SrcState, rec.TgtState = t.state(from), t.state(to)
		if e, ok := t.pins[from]; !ok || e.Mode != "recursive" {
			rec.ModelErr = "from not recursively pinned"
			return 500, errJSON("'from' cid was not recursively pinned already"), false, false
		}
		if commit {
			t.pins[to] = pinEntry{Mode: "recursive", Depth: -1}
			if boolParam(q, "unpin", true) && from != to { // upstream default: unpin=true
				delete(t.pins, from)
			}
		}
		b, _ := json.Marshal(map[string]interface{}{"Pins": []string{from, to}})
		return 200, b, true, false
	}
	return 404, []byte("404 page not found"), false, false
}

// addModel applies pin/add to the model. It returns an error message when the
// daemon refuses.
func (d *daemon) addModel(rec *reqRec, commit bool) string {
	if len(rec.Args) != 1 {
		return "argument \"ipfs-path\" is required"
	}
	c := rec.Args[0]
	t := d.tbl
	recursive := boolParam(rec.Query, "recursive", true)
	cur, has := t.pins[c]
	if !recursive {
		if has && cur.Mode == "recursive" {
			return c + " already pinned recursively"
		}
		if commit {
			t.pins[c] = pinEntry{Mode: "direct", Depth: 0}
		}
		return ""
	}
	depth := -1
	if v, ok := rec.Query["max-depth"]; ok {
		n, err := strconv.Atoi(v)
		if err != nil || n < 0 {
			return "bad max-depth"
		}
		depth = n
	}
	if has && cur.Mode == "recursive" && (cur.Depth == -1 || (depth != -1 && cur.Depth >= depth)) {
		return "" // already covered
	}
	if commit {
		t.pins[c] = pinEntry{Mode: "recursive", Depth: depth}
	}
	return ""
}

func (d *daemon) ServeHTTP(w http.ResponseWriter, r *http.Request) {
	const prefix = "/api/v0/"
	endp := r.URL.Path
	if len(endp) >= len(prefix) && endp[:len(prefix)] == prefix {
		endp = endp[len(prefix):]
	}
	vals := r.URL.Query()
	q := map[string]string{}
	for k, v := range vals {
		if k != "arg" && len(v) > 0 {
			q[k] = v[0]
		}
	}
	args := append([]string{}, vals["arg"]...)

	d.mu.Lock()
	kind := d.kindOf(endp, args)
	beh, ok := d.script[kind]
	if !ok {
		beh = "honest"
	}
	d.cons[kind] = true
	rec := &reqRec{Kind: kind, Endpoint: endp, Query: q, Args: args, Beh: beh, At: d.since()}
	rec.LastProg = rec.At
	if kind == "add" && len(args) == 1 {
		rec.TgtState = d.tbl.state(args[0])
	}
	d.reqs = append(d.reqs, rec)
	d.mu.Unlock()

	if r.Method != http.MethodPost { // go-ipfs >= 0.5 only accepts POST
		w.WriteHeader(http.StatusMethodNotAllowed)
		return
	}
	if kind == "add" {
		d.serveAdd(w, r, rec)
		return
	}

	switch beh {
	case "err500":
		w.Header().Set("Content-Type", "application/json")
		w.WriteHeader(500)
		w.Write(errJSON("merkledag: internal daemon failure"))
	case "nonjson500":
		w.WriteHeader(500)
		w.Write([]byte("internal server error: upstream proxy says no\n"))
	case "drop":
		panic(http.ErrAbortHandler)
	case "drop-mid":
		d.mu.Lock()
		_, body, _, _ := d.honest(rec, false)
		rec.ModelErr = ""
		d.mu.Unlock()
		w.Header().Set("Content-Type", "application/json")
		w.WriteHeader(200)
		w.Write(body[:len(body)/2])
		flush(w)
		panic(http.ErrAbortHandler)
	case "stall":
		d.stall(r)
	case "garbage200":
		w.WriteHeader(200)
		w.Write([]byte("<html>not json at all</html>"))
	case "honest", "honest-ipld":
		d.mu.Lock()
		if beh == "honest-ipld" {
			d.npMsg = notPinnedMsgs()[len(notPinnedMsgs())-1]
		}
		code, body, succ, tol := d.honest(rec, true)
		d.mu.Unlock()
		w.Header().Set("Content-Type", "application/json")
		w.WriteHeader(code)
		_, err := w.Write(body)
		d.mu.Lock()
		rec.Success = succ && err == nil
		rec.Tolerated = tol && err == nil
		d.mu.Unlock()
	default:
		panic("unknown behaviour " + beh + " for " + kind)
	}
}

func (d *daemon) serveAdd(w http.ResponseWriter, r *http.Request, rec *reqRec) {
	plan := d.planFor(rec.Beh)
	switch plan.pre {
	case "err500":
		w.Header().Set("Content-Type", "application/json")
		w.WriteHeader(500)
		w.Write(errJSON("merkledag: internal daemon failure"))
		return
	case "nonjson500":
		w.WriteHeader(500)
		w.Write([]byte("internal server error: upstream proxy says no\n"))
		return
	case "drop":
		panic(http.ErrAbortHandler)
	case "stall":
		d.stall(r)
		return
	}
	// Refusals known up front (already pinned recursively, bad arguments) are
	// sent as a plain error before any streaming, like go-ipfs does.
	d.mu.Lock()
	refusal := d.addModel(rec, false)
	d.mu.Unlock()
	if refusal != "" {
		d.mu.Lock()
		rec.ModelErr = refusal
		rec.Refused = true
		d.mu.Unlock()
		w.Header().Set("Content-Type", "application/json")
		w.WriteHeader(500)
		w.Write(errJSON(refusal))
		return
	}
	if plan.end == "garbage" {
		w.WriteHeader(200)
		w.Write([]byte("<html>not json at all</html>"))
		return
	}
	w.Header().Set("Content-Type", "application/json")
	w.Header().Set("Trailer", "X-Stream-Error")
	w.WriteHeader(200)
	flush(w)
	last := -1
	line := func(l progLine) bool {
		if !d.wait(r, l.after) {
			return false
		}
		b, _ := json.Marshal(map[string]interface{}{"Pins": nil, "Progress": l.prog})
		if _, err := w.Write(append(b, '\n')); err != nil {
			return false
		}
		flush(w)
		if l.prog > last {
			if last >= 0 || l.prog > 0 {
				d.mu.Lock()
				rec.LastProg = d.since()
				d.mu.Unlock()
			}
			last = l.prog
		}
		return true
	}
	for _, l := range plan.lines {
		if !line(l) {
			return
		}
	}
	if plan.repeat != nil {
		for line(*plan.repeat) {
		}
		return
	}
	switch plan.end {
	case "stall":
		d.stall(r)
	case "abort":
		panic(http.ErrAbortHandler)
	case "trailer":
		// go-ipfs-cmds: an error after streaming began ends the body cleanly
		// and is reported in the X-Stream-Error trailer. Nothing is pinned.
		w.Header().Set("X-Stream-Error", "pin: context deadline exceeded")
	case "ok", "commit-abort":
		if r.Context().Err() != nil { // the client gave up: go-ipfs aborts the pin
			return
		}
		d.mu.Lock()
		d.addModel(rec, true)
		d.mu.Unlock()
		if plan.end == "commit-abort" {
			panic(http.ErrAbortHandler)
		}
		b, _ := json.Marshal(map[string]interface{}{"Pins": rec.Args})
		_, err := w.Write(append(b, '\n'))
		flush(w)
		d.mu.Lock()
		rec.Success = err == nil
		d.mu.Unlock()
	}
}
