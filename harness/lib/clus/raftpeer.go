package clus

import (
	"context"
	"errors"
	"sync/atomic"
	"time"

	ipfscluster "github.com/ipfs/ipfs-cluster"
	"github.com/ipfs/ipfs-cluster/api"
	"github.com/ipfs/ipfs-cluster/consensus/raft"
	"github.com/ipfs/ipfs-cluster/datastore/inmem"

	ds "github.com/ipfs/go-datastore"
	host "github.com/libp2p/go-libp2p-core/host"
	peer "github.com/libp2p/go-libp2p-core/peer"
	protocol "github.com/libp2p/go-libp2p-core/protocol"
	rpc "github.com/libp2p/go-libp2p-gorpc"
)

// RPCProto is the protocol id used by component-level harness RPC.
const RPCProto = protocol.ID("/verif/rpc/1")

// ConsSvc exposes a Consensus component as the "Consensus" RPC service with the
// signatures of ipfs-cluster's ConsensusRPCAPI (needed for leader redirects).
//
// Fault injection for the redirect path: while FailN > 0 each LogPin/LogUnpin
// call decrements it and returns an error, either without doing anything or,
// with FailAfter set, after the operation was really carried out (the
// response is lost).
type ConsSvc struct {
	C         ipfscluster.Consensus
	FailN     atomic.Int32
	FailAfter atomic.Bool
	Failed    atomic.Int32 // calls answered with the injected error
}

func (s *ConsSvc) inject(do func() error) error {
	if s.FailN.Load() > 0 {
		s.FailN.Add(-1)
		s.Failed.Add(1)
		if s.FailAfter.Load() {
			do()
		}
		return errors.New("injected: cluster RPC to the leader failed")
	}
	return do()
}

func (s *ConsSvc) LogPin(ctx context.Context, in *api.Pin, out *struct{}) error {
	return s.inject(func() error { return s.C.LogPin(ctx, in) })
}
func (s *ConsSvc) LogUnpin(ctx context.Context, in *api.Pin, out *struct{}) error {
	return s.inject(func() error { return s.C.LogUnpin(ctx, in) })
}
func (s *ConsSvc) AddPeer(ctx context.Context, in peer.ID, out *struct{}) error {
	return s.C.AddPeer(ctx, in)
}
func (s *ConsSvc) RmPeer(ctx context.Context, in peer.ID, out *struct{}) error {
	return s.C.RmPeer(ctx, in)
}
func (s *ConsSvc) Peers(ctx context.Context, in struct{}, out *[]peer.ID) error {
	p, err := s.C.Peers(ctx)
	*out = p
	return err
}

// RaftPeer is one real raft.Consensus component with a recording tracker
// service, reachable by the other peers over the (mock) network.
type RaftPeer struct {
	Host    host.Host
	Cons    *raft.Consensus
	Cfg     *raft.Config
	Store   ds.Datastore
	Rec     *Recorder
	DataDir string
	Client  *rpc.Client
	Svc     *ConsSvc
}

// RaftTweak adjusts the raft configuration of a peer.
type RaftTweak func(*raft.Config)

// NewRaftPeer starts a real raft consensus component on host h with data in
// dataDir and the given initial peerset.
func NewRaftPeer(h host.Host, dataDir string, peers []peer.ID, staging bool, tweak RaftTweak) (*RaftPeer, error) {
	cfg := &raft.Config{}
	cfg.Default()
	cfg.DataFolder = dataDir
	cfg.InitPeerset = append([]peer.ID{}, peers...)
	cfg.WaitForLeaderTimeout = 15 * time.Second
	cfg.CommitRetries = 1
	cfg.CommitRetryDelay = 200 * time.Millisecond
	if tweak != nil {
		tweak(cfg)
	}
	store := inmem.New()
	cons, err := raft.NewConsensus(h, cfg, store, staging)
	if err != nil {
		return nil, err
	}
	rec := NewRecorder()
	srv := rpc.NewServer(h, RPCProto)
	svc := &ConsSvc{C: cons}
	if err := srv.RegisterName("Consensus", svc); err != nil {
		return nil, err
	}
	if err := srv.RegisterName("PinTracker", &TrackerRec{Rec: rec}); err != nil {
		return nil, err
	}
	cl := rpc.NewClientWithServer(h, RPCProto, srv)
	cons.SetClient(cl)
	return &RaftPeer{Host: h, Cons: cons, Cfg: cfg, Store: store, Rec: rec, DataDir: dataDir, Client: cl, Svc: svc}, nil
}
