package clus

import (
	"context"

	"github.com/ipfs/ipfs-cluster/api"

	peer "github.com/libp2p/go-libp2p-core/peer"
	protocol "github.com/libp2p/go-libp2p-core/protocol"
	rpc "github.com/libp2p/go-libp2p-gorpc"
)

// IPFSSvc exposes a model daemon as the "IPFSConnector" RPC service with the
// same method signatures as ipfs-cluster's IPFSConnectorRPCAPI, for harnesses
// that drive a component (the pin tracker) without a full Cluster.
type IPFSSvc struct{ M *IPFS }

func (s *IPFSSvc) Pin(ctx context.Context, in *api.Pin, out *struct{}) error {
	return s.M.Pin(ctx, in)
}
func (s *IPFSSvc) Unpin(ctx context.Context, in *api.Pin, out *struct{}) error {
	return s.M.Unpin(ctx, in.Cid)
}
func (s *IPFSSvc) PinLsCid(ctx context.Context, in *api.Pin, out *api.IPFSPinStatus) error {
	b, err := s.M.PinLsCid(ctx, in)
	if err != nil {
		return err
	}
	*out = b
	return nil
}
func (s *IPFSSvc) PinLs(ctx context.Context, in string, out *map[string]api.IPFSPinStatus) error {
	m, err := s.M.PinLs(ctx, in)
	if err != nil {
		return err
	}
	*out = m
	return nil
}

// TrackerRec records Track/Untrack calls as the "PinTracker" RPC service.
type TrackerRec struct {
	Rec *Recorder
}

// Recorder is a concurrency-safe call log.
type Recorder struct {
	mu    chan struct{}
	Calls []RecCall
}

// RecCall is one recorded RPC call.
type RecCall struct {
	Svc, Method string
	Arg         interface{}
}

// NewRecorder creates an empty call log.
func NewRecorder() *Recorder {
	r := &Recorder{mu: make(chan struct{}, 1)}
	return r
}

// Add appends a call.
func (r *Recorder) Add(svc, method string, arg interface{}) {
	r.mu <- struct{}{}
	r.Calls = append(r.Calls, RecCall{svc, method, arg})
	<-r.mu
}

// Snapshot copies the log.
func (r *Recorder) Snapshot() []RecCall {
	r.mu <- struct{}{}
	defer func() { <-r.mu }()
	return append([]RecCall{}, r.Calls...)
}

func (t *TrackerRec) Track(ctx context.Context, in *api.Pin, out *struct{}) error {
	cp := *in
	t.Rec.Add("PinTracker", "Track", &cp)
	return nil
}
func (t *TrackerRec) Untrack(ctx context.Context, in *api.Pin, out *struct{}) error {
	cp := *in
	t.Rec.Add("PinTracker", "Untrack", &cp)
	return nil
}

// LocalRPC builds an in-process RPC server+client pair (no host) with the given
// named services registered.
func LocalRPC(svcs map[string]interface{}) *rpc.Client {
	s := rpc.NewServer(nil, protocol.ID("/verif/rpc"))
	for name, svc := range svcs {
		if err := s.RegisterName(name, svc); err != nil {
			panic(err)
		}
	}
	return rpc.NewClientWithServer(nil, protocol.ID("/verif/rpc"), s)
}

var _ = peer.ID("")
