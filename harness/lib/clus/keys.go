// Package clus holds the shared building blocks for running real ipfs-cluster
// components inside testing/synctest bubbles: deterministic identities, a
// mocknet, a recording in-memory Consensus, a model IPFS daemon, an injectable
// PeerMonitor and constructors for real Cluster peers.
package clus

import (
	"bytes"
	"crypto/sha256"
	"fmt"

	cid "github.com/ipfs/go-cid"
	crypto "github.com/libp2p/go-libp2p-core/crypto"
	peer "github.com/libp2p/go-libp2p-core/peer"
	mh "github.com/multiformats/go-multihash"
)

// Key returns the i-th deterministic Ed25519 private key (real keys: pubsub
// verifies signatures, mocknet's GenPeer keys are bogus).
func Key(i int) crypto.PrivKey {
	seed := sha256.Sum256([]byte(fmt.Sprintf("verif-key-%d", i)))
	priv, _, err := crypto.GenerateEd25519Key(bytes.NewReader(append(seed[:], seed[:]...)))
	if err != nil {
		panic(err)
	}
	return priv
}

// PID returns the peer ID of Key(i).
func PID(i int) peer.ID {
	id, err := peer.IDFromPrivateKey(Key(i))
	if err != nil {
		panic(err)
	}
	return id
}

// Cid returns a deterministic CIDv1 (raw) for label s.
func Cid(s string) cid.Cid {
	h, _ := mh.Sum([]byte("verif-cid-"+s), mh.SHA2_256, -1)
	return cid.NewCidV1(cid.Raw, h)
}

// CidV0 returns a deterministic CIDv0 for label s.
func CidV0(s string) cid.Cid {
	h, _ := mh.Sum([]byte("verif-cid-"+s), mh.SHA2_256, -1)
	return cid.NewCidV0(h)
}
