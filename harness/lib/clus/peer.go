package clus

import (
	"context"
	"fmt"
	"os"
	"strings"
	"testing"
	"testing/synctest"
	"time"

	ipfscluster "github.com/ipfs/ipfs-cluster"
	"github.com/ipfs/ipfs-cluster/allocator/descendalloc"
	"github.com/ipfs/ipfs-cluster/api"
	"github.com/ipfs/ipfs-cluster/datastore/inmem"
	"github.com/ipfs/ipfs-cluster/pintracker/stateless"

	ds "github.com/ipfs/go-datastore"
	host "github.com/libp2p/go-libp2p-core/host"
	peer "github.com/libp2p/go-libp2p-core/peer"
	rpc "github.com/libp2p/go-libp2p-gorpc"
	dual "github.com/libp2p/go-libp2p-kad-dht/dual"
	mocknet "github.com/libp2p/go-libp2p/p2p/net/mock"
	ma "github.com/multiformats/go-multiaddr"
)

// CaptureAPI is an API component that only captures the peer's in-process RPC
// client (calls through it are "local": every endpoint is reachable).
type CaptureAPI struct{ Client *rpc.Client }

func (a *CaptureAPI) SetClient(c *rpc.Client)        { a.Client = c }
func (a *CaptureAPI) Shutdown(context.Context) error { return nil }

// NopTracer is a Tracer component that does nothing.
type NopTracer struct{}

func (NopTracer) SetClient(*rpc.Client)          {}
func (NopTracer) Shutdown(context.Context) error { return nil }

// Inf is a scripted informer.
type Inf struct {
	MetricName string
	TTL        time.Duration
	Value      func() string
}

func (i *Inf) SetClient(*rpc.Client)          {}
func (i *Inf) Shutdown(context.Context) error { return nil }
func (i *Inf) Name() string                   { return i.MetricName }
func (i *Inf) GetMetric(context.Context) *api.Metric {
	v := "1"
	if i.Value != nil {
		v = i.Value()
	}
	m := &api.Metric{Name: i.MetricName, Value: v, Valid: true}
	m.SetTTL(i.TTL)
	return m
}

// NewMocknet creates a mocknet with n hosts using Key(base+i), fully linked
// and connected.
func NewMocknet(ctx context.Context, base, n int) (mocknet.Mocknet, []host.Host) {
	mn, hosts := NewMocknetUnconnected(ctx, base, n)
	if n > 1 {
		if err := mn.ConnectAllButSelf(); err != nil {
			panic(err)
		}
	}
	return mn, hosts
}

// NewMocknetUnconnected is NewMocknet without the initial connections
// (go-libp2p-pubsub v0.4 only learns about peers from connections made after
// it was created: build the components first, then mn.ConnectAllButSelf()).
func NewMocknetUnconnected(ctx context.Context, base, n int) (mocknet.Mocknet, []host.Host) {
	mn := mocknet.New(ctx)
	hosts := make([]host.Host, n)
	for i := 0; i < n; i++ {
		a, _ := ma.NewMultiaddr(fmt.Sprintf("/ip4/10.0.%d.%d/tcp/9096", (base+i)/250, (base+i)%250+1))
		h, err := mn.AddPeer(Key(base+i), a)
		if err != nil {
			panic(err)
		}
		hosts[i] = h
	}
	if err := mn.LinkAll(); err != nil {
		panic(err)
	}
	return mn, hosts
}

// PeerParts are the components of one real Cluster peer; nil fields get
// defaults (MemConsensus on a fresh Shared, stateless tracker, model IPFS,
// injectable monitor, descend allocator, a "freespace"-like informer).
type PeerParts struct {
	Host      host.Host
	Cfg       func(*ipfscluster.Config)
	Store     ds.Datastore
	Consensus ipfscluster.Consensus
	Shared    *Shared
	IPFS      ipfscluster.IPFSConnector
	Tracker   ipfscluster.PinTracker
	Monitor   ipfscluster.PeerMonitor
	Allocator ipfscluster.PinAllocator
	Informers []ipfscluster.Informer
	BaseDir   string
	// DHT, when set, is used instead of creating one (a consensus component
	// built beforehand may already own the host's DHT).
	DHT *dual.DHT
}

// Peer is a running real Cluster peer and handles on its parts.
type Peer struct {
	C      *ipfscluster.Cluster
	ID     peer.ID
	API    *CaptureAPI
	Parts  *PeerParts
	Cfg    *ipfscluster.Config
	cancel func()
	dht    *dual.DHT
}

// NewPeer builds and starts a real ipfscluster.Cluster from parts. It must be
// called inside a bubble (or outside any: it uses no wall-clock waits).
func NewPeer(ctx context.Context, p *PeerParts) (*Peer, error) {
	ctx, cancel := context.WithCancel(ctx)
	cfg := &ipfscluster.Config{}
	if err := cfg.Default(); err != nil {
		cancel()
		return nil, err
	}
	cfg.Peername = "peer-" + p.Host.ID().Pretty()[len(p.Host.ID().Pretty())-4:]
	cfg.LeaveOnShutdown = false
	cfg.MDNSInterval = 0
	cfg.MonitorPingInterval = 15 * time.Second
	cfg.PeerWatchInterval = 5 * time.Second
	cfg.StateSyncInterval = 10 * time.Minute
	cfg.PinRecoverInterval = 60 * time.Minute
	cfg.ReplicationFactorMin = -1
	cfg.ReplicationFactorMax = -1
	if p.BaseDir == "" {
		d, err := os.MkdirTemp(os.Getenv("VERIF_SCRATCH"), "peer")
		if err != nil {
			cancel()
			return nil, err
		}
		p.BaseDir = d
	}
	cfg.SetBaseDir(p.BaseDir)
	if p.Cfg != nil {
		p.Cfg(cfg)
	}
	if p.Store == nil {
		p.Store = inmem.New()
	}
	if p.Consensus == nil {
		if p.Shared == nil {
			p.Shared = NewShared([]peer.ID{p.Host.ID()})
		}
		p.Consensus = NewMemConsensus(p.Host.ID(), p.Shared)
	}
	if p.IPFS == nil {
		p.IPFS = NewIPFS()
	}
	if p.Tracker == nil {
		tc := &stateless.Config{}
		tc.Default()
		p.Tracker = stateless.New(tc, p.Host.ID(), cfg.Peername, p.Consensus.State)
	}
	if p.Monitor == nil {
		p.Monitor = NewMon()
	}
	if p.Allocator == nil {
		p.Allocator = descendalloc.NewAllocator()
	}
	if len(p.Informers) == 0 {
		p.Informers = []ipfscluster.Informer{&Inf{MetricName: "freespace", TTL: 30 * time.Second}}
	}
	dht := p.DHT
	if dht == nil {
		var err error
		dht, err = dual.New(ctx, p.Host)
		if err != nil {
			cancel()
			return nil, err
		}
	}
	capi := &CaptureAPI{}
	c, err := ipfscluster.NewCluster(ctx, p.Host, dht, cfg, p.Store, p.Consensus, []ipfscluster.API{capi},
		p.IPFS, p.Tracker, p.Monitor, p.Allocator, p.Informers, NopTracer{})
	if err != nil {
		dht.Close()
		cancel()
		return nil, err
	}
	return &Peer{C: c, ID: p.Host.ID(), API: capi, Parts: p, Cfg: cfg, cancel: cancel, dht: dht}, nil
}

// Stop shuts the peer down and releases everything NewPeer created.
func (p *Peer) Stop() {
	p.C.Shutdown(context.Background())
	p.dht.Close()
	p.cancel()
	os.RemoveAll(p.Parts.BaseDir)
}

// Bubble runs f in a fresh synctest bubble. libp2p's mocknet occasionally
// leaves stream goroutines blocked for ever after every host was closed (a
// stream opened while its host was closing); the bubble then ends with
// synctest's "blocked goroutines remain" panic although f itself completed.
// That specific panic is absorbed (the goroutines are leaked, nothing else is
// affected); anything else is re-raised. Returns whether goroutines leaked.
func Bubble(t *testing.T, f func(t *testing.T)) (leaked bool) {
	completed := false
	defer func() {
		if r := recover(); r != nil {
			if completed && strings.Contains(fmt.Sprint(r), "blocked goroutines remain") {
				leaked = true
				return
			}
			panic(r)
		}
	}()
	synctest.Test(t, func(t *testing.T) {
		f(t)
		completed = true
	})
	return false
}
