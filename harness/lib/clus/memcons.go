package clus

import (
	"context"
	"errors"
	"sort"
	"sync"

	"github.com/ipfs/ipfs-cluster/api"
	"github.com/ipfs/ipfs-cluster/state"
	"github.com/ipfs/ipfs-cluster/state/dsstate"

	peer "github.com/libp2p/go-libp2p-core/peer"
	rpc "github.com/libp2p/go-libp2p-gorpc"
)

// LogCall is one LogPin/LogUnpin that reached the consensus component.
type LogCall struct {
	Op  string // "pin" | "unpin"
	By  peer.ID
	Pin api.Pin
}

// Shared is the pinset and peerset shared by all MemConsensus instances of a
// simulated cluster (the property's precondition "members agree").
type Shared struct {
	mu      sync.Mutex
	State   state.State
	PeerSet []peer.ID
	Log     []LogCall
	// FailLog, when set, makes LogPin/LogUnpin fail (no effect): every call,
	// or with FailNth > 0 only the FailNth-th call counted from the moment
	// FailNth was set (SetFailNth).
	FailLog error
	FailNth int
	// Store is the datastore under State (reads can be made to fail: FailGets)
	Store *FaultStore
	// StateErrs: the next StateErrs calls of State() fail (a transient error)
	StateErrs int
	nLog    int
}

// SetFailNth arms the failure of the n-th LogPin/LogUnpin from now on (0: off).
func (s *Shared) SetFailNth(n int, err error) {
	s.mu.Lock()
	s.FailNth, s.nLog, s.FailLog = n, 0, err
	s.mu.Unlock()
}

// failNow is called with mu held at the start of every LogPin/LogUnpin.
func (s *Shared) failNow() error {
	if s.FailLog == nil {
		return nil
	}
	s.nLog++
	if s.FailNth > 0 && s.nLog != s.FailNth {
		return nil
	}
	return s.FailLog
}

// NewShared creates an empty shared pinset.
func NewShared(peers []peer.ID) *Shared {
	store := NewFaultStore()
	st, err := dsstate.New(store, "", dsstate.DefaultHandle())
	if err != nil {
		panic(err)
	}
	return &Shared{State: st, Store: store, PeerSet: append([]peer.ID{}, peers...)}
}

// Calls returns a copy of the recorded log calls.
func (s *Shared) Calls() []LogCall {
	s.mu.Lock()
	defer s.mu.Unlock()
	return append([]LogCall{}, s.Log...)
}

// Reset clears the recorded calls.
func (s *Shared) Reset() { s.mu.Lock(); s.Log = nil; s.mu.Unlock() }

// Pins lists the pinset sorted by CID string.
func (s *Shared) Pins() []*api.Pin {
	l, err := s.State.List(context.Background())
	if err != nil {
		panic(err)
	}
	sort.Slice(l, func(i, j int) bool { return l[i].Cid.String() < l[j].Cid.String() })
	return l
}

// MemConsensus is a recording, in-memory implementation of the Consensus
// component interface: writes go straight to the shared dsstate and are handed
// to the local tracker like the real implementations do.
type MemConsensus struct {
	ID        peer.ID
	S         *Shared
	Trusted   func(peer.ID) bool
	NoTrack   bool
	rpcClient *rpc.Client
	readyCh   chan struct{}
}

// NewMemConsensus creates a consensus component for peer id over shared.
func NewMemConsensus(id peer.ID, shared *Shared) *MemConsensus {
	ch := make(chan struct{})
	close(ch)
	return &MemConsensus{ID: id, S: shared, readyCh: ch}
}

// NewMemConsensusNotReady is NewMemConsensus, but Ready() only fires once
// MarkReady is called.
func NewMemConsensusNotReady(id peer.ID, shared *Shared) *MemConsensus {
	return &MemConsensus{ID: id, S: shared, readyCh: make(chan struct{})}
}

// MarkReady signals consensus readiness.
func (m *MemConsensus) MarkReady() { close(m.readyCh) }

func (m *MemConsensus) SetClient(c *rpc.Client)               { m.rpcClient = c }
func (m *MemConsensus) Shutdown(context.Context) error        { return nil }
func (m *MemConsensus) Ready(context.Context) <-chan struct{} { return m.readyCh }
func (m *MemConsensus) WaitForSync(context.Context) error     { return nil }
func (m *MemConsensus) Clean(context.Context) error           { return nil }
func (m *MemConsensus) Leader(context.Context) (peer.ID, error) {
	return "", errors.New("no leader in mem consensus")
}

func (m *MemConsensus) LogPin(ctx context.Context, p *api.Pin) error {
	m.S.mu.Lock()
	if err := m.S.failNow(); err != nil {
		m.S.mu.Unlock()
		return err
	}
	m.S.Log = append(m.S.Log, LogCall{"pin", m.ID, *p})
	err := m.S.State.Add(ctx, p)
	m.S.mu.Unlock()
	if err != nil {
		return err
	}
	if m.rpcClient != nil && !m.NoTrack {
		m.rpcClient.GoContext(ctx, "", "PinTracker", "Track", p, &struct{}{}, nil)
	}
	return nil
}

func (m *MemConsensus) LogUnpin(ctx context.Context, p *api.Pin) error {
	m.S.mu.Lock()
	if err := m.S.failNow(); err != nil {
		m.S.mu.Unlock()
		return err
	}
	m.S.Log = append(m.S.Log, LogCall{"unpin", m.ID, *p})
	err := m.S.State.Rm(ctx, p.Cid)
	m.S.mu.Unlock()
	if err != nil {
		return err
	}
	if m.rpcClient != nil && !m.NoTrack {
		m.rpcClient.GoContext(ctx, "", "PinTracker", "Untrack", p, &struct{}{}, nil)
	}
	return nil
}

func (m *MemConsensus) AddPeer(ctx context.Context, p peer.ID) error {
	m.S.mu.Lock()
	defer m.S.mu.Unlock()
	for _, x := range m.S.PeerSet {
		if x == p {
			return nil
		}
	}
	m.S.PeerSet = append(m.S.PeerSet, p)
	return nil
}

func (m *MemConsensus) RmPeer(ctx context.Context, p peer.ID) error {
	m.S.mu.Lock()
	defer m.S.mu.Unlock()
	var out []peer.ID
	for _, x := range m.S.PeerSet {
		if x != p {
			out = append(out, x)
		}
	}
	m.S.PeerSet = out
	return nil
}

func (m *MemConsensus) State(context.Context) (state.ReadOnly, error) {
	m.S.mu.Lock()
	if m.S.StateErrs > 0 {
		m.S.StateErrs--
		m.S.mu.Unlock()
		return nil, errors.New("model consensus: state not available right now")
	}
	m.S.mu.Unlock()
	return m.S.State, nil
}

func (m *MemConsensus) Peers(context.Context) ([]peer.ID, error) {
	m.S.mu.Lock()
	defer m.S.mu.Unlock()
	return append([]peer.ID{}, m.S.PeerSet...), nil
}

func (m *MemConsensus) IsTrustedPeer(ctx context.Context, p peer.ID) bool {
	if m.Trusted != nil {
		return m.Trusted(p)
	}
	return true
}
func (m *MemConsensus) Trust(context.Context, peer.ID) error    { return nil }
func (m *MemConsensus) Distrust(context.Context, peer.ID) error { return nil }
