package clus

// Real ipfshttp.Connector over an HTTP facade of the model daemon (used by the
// checks that need the connector's translation of calls in the loop).

import (
	"context"
	"encoding/json"
	"errors"
	"fmt"
	"net"
	"net/http"
	"strconv"
	"sync"
	"sync/atomic"
	"time"

	"github.com/ipfs/ipfs-cluster/api"
	"github.com/ipfs/ipfs-cluster/ipfsconn/ipfshttp"

	cid "github.com/ipfs/go-cid"
	ma "github.com/multiformats/go-multiaddr"
)

// ---------------------------------------------------------------- listener

type pipeListener struct {
	ch   chan net.Conn
	done chan struct{}
	once sync.Once
}

func (l *pipeListener) Accept() (net.Conn, error) {
	select {
	case c := <-l.ch:
		return c, nil
	case <-l.done:
		return nil, net.ErrClosed
	}
}
func (l *pipeListener) Close() error   { l.once.Do(func() { close(l.done) }); return nil }
func (l *pipeListener) Addr() net.Addr { return pipeAddr{} }

type pipeAddr struct{}

func (pipeAddr) Network() string { return "pipe" }
func (pipeAddr) String() string  { return "pipe" }

func (l *pipeListener) dial(ctx context.Context) (net.Conn, error) {
	c, s := net.Pipe()
	select {
	case l.ch <- s:
		return c, nil
	case <-l.done:
		c.Close()
		s.Close()
		return nil, errors.New("connection refused (daemon down)")
	case <-ctx.Done():
		c.Close()
		s.Close()
		return nil, ctx.Err()
	}
}

// The connector's http.Client has no Transport of its own, so it uses
// http.DefaultTransport. One routing transport for the process: the port of
// the dialled address selects the daemon (bubbles run concurrently). No
// keep-alives, so no connection goroutine outlives its bubble.
var (
	daemons   sync.Map // port string -> *pipeListener
	nextPort  atomic.Int64
	routeOnce sync.Once
)

func installRouter() {
	routeOnce.Do(func() {
		http.DefaultTransport = &http.Transport{
			DisableKeepAlives: true,
			DialContext: func(ctx context.Context, network, addr string) (net.Conn, error) {
				_, port, _ := net.SplitHostPort(addr)
				l, ok := daemons.Load(port)
				if !ok {
					return nil, errors.New("connection refused (no daemon on " + addr + ")")
				}
				return l.(*pipeListener).dial(ctx)
			},
		}
	})
}

// ---------------------------------------------------------------- daemon

// daemon serves the model pin table with go-ipfs's HTTP API semantics.
type daemon struct{ m *IPFS }

// RealFailShape selects how an injected daemon failure (ErrIPFS) looks on the
// wire: "" = go-ipfs's JSON error with status 500; "nonjson502" = what a
// gateway in front of the daemon answers (502 with an HTML body).
var RealFailShape string

func ipfsErr(w http.ResponseWriter, msg string) {
	if RealFailShape == "nonjson502" && msg == ErrIPFS.Error() {
		w.Header().Set("Content-Type", "text/html")
		w.WriteHeader(502)
		w.Write([]byte("<html><body><h1>502 Bad Gateway</h1></body></html>"))
		return
	}
	w.Header().Set("Content-Type", "application/json")
	w.WriteHeader(500)
	json.NewEncoder(w).Encode(map[string]interface{}{"Message": msg, "Code": 0, "Type": "error"})
}

func typeName(st api.IPFSPinStatus) string {
	switch st {
	case api.IPFSPinStatusRecursive:
		return "recursive"
	case api.IPFSPinStatusDirect:
		return "direct"
	}
	return ""
}

func (d *daemon) ServeHTTP(w http.ResponseWriter, r *http.Request) {
	q := r.URL.Query()
	ctx := r.Context()
	switch r.URL.Path {
	case "/api/v0/pin/ls":
		typ := q.Get("type")
		if typ == "" {
			typ = "all"
		}
		keys := map[string]map[string]string{}
		if arg := q.Get("arg"); arg != "" {
			c, err := cid.Decode(arg)
			if err != nil {
				ipfsErr(w, "invalid path \""+arg+"\"")
				return
			}
			var held api.IPFSPinStatus
			switch typ {
			case "recursive", "direct":
				// through the model call, so that it is recorded and can be scripted
				p := api.PinCid(c)
				if typ == "direct" {
					p.MaxDepth = 0
				}
				st, err := d.m.PinLsCid(ctx, p)
				if err != nil {
					ipfsErr(w, err.Error())
					return
				}
				held = st
			case "all":
				held = d.m.Get(c)
			default:
				ipfsErr(w, "invalid type '"+typ+"', must be one of {direct, indirect, recursive, all}")
				return
			}
			if typeName(held) == "" {
				msg := "path '" + arg + "' is not pinned"
				if typ != "all" {
					msg = "path '" + arg + "' is not pinned or pinned with a different type"
				}
				ipfsErr(w, msg)
				return
			}
			keys[c.String()] = map[string]string{"Type": typeName(held)}
		} else {
			filter := typ
			if typ == "all" {
				filter = ""
			}
			m, err := d.m.PinLs(ctx, filter)
			if err != nil {
				ipfsErr(w, err.Error())
				return
			}
			for k, st := range m {
				keys[k] = map[string]string{"Type": typeName(st)}
			}
		}
		w.Header().Set("Content-Type", "application/json")
		json.NewEncoder(w).Encode(map[string]interface{}{"Keys": keys})
	case "/api/v0/pin/add":
		c, err := cid.Decode(q.Get("arg"))
		if err != nil {
			ipfsErr(w, "invalid path")
			return
		}
		p := api.PinCid(c)
		if q.Get("recursive") == "false" {
			p.MaxDepth = 0
		} else if md := q.Get("max-depth"); md != "" {
			n, _ := strconv.Atoi(md)
			p.MaxDepth = api.PinDepth(n)
		}
		if err := d.m.Pin(ctx, p); err != nil {
			ipfsErr(w, err.Error())
			return
		}
		w.Header().Set("Content-Type", "application/json")
		json.NewEncoder(w).Encode(map[string]interface{}{"Pins": []string{c.String()}})
	case "/api/v0/pin/rm":
		c, err := cid.Decode(q.Get("arg"))
		if err != nil {
			ipfsErr(w, "invalid path")
			return
		}
		if err := d.m.Unpin(ctx, c); err != nil {
			ipfsErr(w, err.Error())
			return
		}
		w.Header().Set("Content-Type", "application/json")
		json.NewEncoder(w).Encode(map[string]interface{}{"Pins": []string{c.String()}})
	default:
		ipfsErr(w, "command not found: "+r.URL.Path)
	}
}

// ---------------------------------------------------------------- wiring

// connSvc is the "IPFSConnector" RPC service over the real connector.
type connSvc struct{ c *ipfshttp.Connector }

func (s *connSvc) Pin(ctx context.Context, in *api.Pin, out *struct{}) error { return s.c.Pin(ctx, in) }
func (s *connSvc) Unpin(ctx context.Context, in *api.Pin, out *struct{}) error {
	return s.c.Unpin(ctx, in.Cid)
}
func (s *connSvc) PinLsCid(ctx context.Context, in *api.Pin, out *api.IPFSPinStatus) error {
	st, err := s.c.PinLsCid(ctx, in)
	if err != nil {
		return err
	}
	*out = st
	return nil
}
func (s *connSvc) PinLs(ctx context.Context, in string, out *map[string]api.IPFSPinStatus) error {
	m, err := s.c.PinLs(ctx, in)
	if err != nil {
		return err
	}
	*out = m
	return nil
}

type clusterStub struct{}

func (*clusterStub) SendInformersMetrics(ctx context.Context, in struct{}, out *[]*api.Metric) error {
	return nil
}

// RealIPFSService puts the real ipfshttp.Connector between an "IPFSConnector"
// RPC service and the model daemon: the model is served over HTTP (net.Pipe
// connections, so it works inside a synctest bubble) with go-ipfs's pin/ls,
// pin/add, pin/rm semantics. The returned closer shuts both down.
func RealIPFSService(model *IPFS) (interface{}, func()) {
	installRouter()
	port := strconv.FormatInt(20000+nextPort.Add(1), 10)
	l := &pipeListener{ch: make(chan net.Conn), done: make(chan struct{})}
	daemons.Store(port, l)
	srv := &http.Server{Handler: &daemon{m: model}}
	srvDone := make(chan struct{})
	go func() { defer close(srvDone); srv.Serve(l) }()

	cfg := &ipfshttp.Config{}
	cfg.Default()
	cfg.NodeAddr = ma.StringCast("/ip4/127.0.0.1/tcp/" + port)
	cfg.ConnectSwarmsDelay = 0
	// operations parked by the exploration stay parked: no connector timeout
	// may end them behind the harness's back
	cfg.PinTimeout, cfg.UnpinTimeout, cfg.IPFSRequestTimeout = 240*time.Hour, 240*time.Hour, 240*time.Hour
	conn, err := ipfshttp.NewConnector(cfg)
	if err != nil {
		panic(fmt.Sprint("NewConnector: ", err))
	}
	// every tenth pin/unpin the connector asks the cluster to publish metrics
	conn.SetClient(LocalRPC(map[string]interface{}{"Cluster": &clusterStub{}}))
	return &connSvc{conn}, func() {
		conn.Shutdown(context.Background())
		srv.Close()
		l.Close()
		<-srvDone
		daemons.Delete(port)
	}
}
