package clus

import (
	"context"
	"errors"
	"sync"
	"time"

	"github.com/ipfs/ipfs-cluster/api"
	"github.com/ipfs/ipfs-cluster/consensus/crdt"
	"github.com/ipfs/ipfs-cluster/datastore/inmem"

	ds "github.com/ipfs/go-datastore"
	dsq "github.com/ipfs/go-datastore/query"
	host "github.com/libp2p/go-libp2p-core/host"
	peer "github.com/libp2p/go-libp2p-core/peer"
	rpc "github.com/libp2p/go-libp2p-gorpc"
	dual "github.com/libp2p/go-libp2p-kad-dht/dual"
	pubsub "github.com/libp2p/go-libp2p-pubsub"
)

// ErrStore is the injected datastore failure.
var ErrStore = errors.New("fault-injecting datastore: injected failure")

// FaultStore wraps a datastore; FailCommit(n) makes the next n batch commits
// fail (before writing anything), FailPut likewise for direct Puts.
type FaultStore struct {
	ds.Datastore
	mu         sync.Mutex
	failCommit int
	failPut    int
	failGet    int
	Commits    int
	Failed     int
	park       chan struct{} // non-nil: Puts block until it is closed
	holdQ      chan struct{} // non-nil: Queries block until it is closed
	HeldQ      int           // queries that had to wait
}

// HoldQueries makes every Query block (on=true) until HoldQueries(false):
// go-ds-crdt's first access when it starts is a query for its heads, so this
// holds a starting replica between "subscribed to the topic" and "running".
func (f *FaultStore) HoldQueries(on bool) {
	f.mu.Lock()
	defer f.mu.Unlock()
	if on && f.holdQ == nil {
		f.holdQ = make(chan struct{})
	}
	if !on && f.holdQ != nil {
		close(f.holdQ)
		f.holdQ = nil
	}
}

// QueriesHeld tells how many queries have been made to wait so far.
func (f *FaultStore) QueriesHeld() int {
	f.mu.Lock()
	defer f.mu.Unlock()
	return f.HeldQ
}

// Park makes every Put block (on=true) until Park(false) is called.
func (f *FaultStore) Park(on bool) {
	f.mu.Lock()
	defer f.mu.Unlock()
	if on && f.park == nil {
		f.park = make(chan struct{})
	}
	if !on && f.park != nil {
		close(f.park)
		f.park = nil
	}
}

// NewFaultStore wraps an in-memory datastore.
func NewFaultStore() *FaultStore { return &FaultStore{Datastore: inmem.New()} }

// FailCommits arms n failures of batch commits.
func (f *FaultStore) FailCommits(n int) { f.mu.Lock(); f.failCommit = n; f.mu.Unlock() }

// FailPuts arms n failures of direct Puts.
func (f *FaultStore) FailPuts(n int) { f.mu.Lock(); f.failPut = n; f.mu.Unlock() }

// FailGets arms n failures of Get (an error that is not "not found").
func (f *FaultStore) FailGets(n int) { f.mu.Lock(); f.failGet = n; f.mu.Unlock() }

// Get implements ds.Datastore.
func (f *FaultStore) Get(k ds.Key) ([]byte, error) {
	f.mu.Lock()
	if f.failGet > 0 {
		f.failGet--
		f.Failed++
		f.mu.Unlock()
		return nil, ErrStore
	}
	f.mu.Unlock()
	return f.Datastore.Get(k)
}

// Put implements ds.Datastore.
func (f *FaultStore) Put(k ds.Key, v []byte) error {
	f.mu.Lock()
	if ch := f.park; ch != nil {
		f.mu.Unlock()
		<-ch
		f.mu.Lock()
	}
	if f.failPut > 0 {
		f.failPut--
		f.Failed++
		f.mu.Unlock()
		return ErrStore
	}
	f.mu.Unlock()
	return f.Datastore.Put(k, v)
}

type faultBatch struct {
	ds.Batch
	f *FaultStore
}

func (b *faultBatch) Commit() error {
	b.f.mu.Lock()
	b.f.Commits++
	if b.f.failCommit > 0 {
		b.f.failCommit--
		b.f.Failed++
		b.f.mu.Unlock()
		return ErrStore
	}
	b.f.mu.Unlock()
	return b.Batch.Commit()
}

// Batch implements ds.Batching.
func (f *FaultStore) Batch() (ds.Batch, error) {
	b, err := f.Datastore.(ds.Batching).Batch()
	if err != nil {
		return nil, err
	}
	return &faultBatch{b, f}, nil
}

// Query passes through (explicit so the embedded interface is not shadowed).
func (f *FaultStore) Query(q dsq.Query) (dsq.Results, error) {
	f.mu.Lock()
	ch := f.holdQ
	if ch != nil {
		f.HeldQ++
	}
	f.mu.Unlock()
	if ch != nil {
		<-ch
	}
	return f.Datastore.Query(q)
}

// MonSvc answers PeerMonitor.LatestMetrics for crdt's Peers().
type MonSvc struct{ PeersF func() []peer.ID }

func (m *MonSvc) LatestMetrics(ctx context.Context, in string, out *[]*api.Metric) error {
	var l []*api.Metric
	if m.PeersF != nil {
		for _, p := range m.PeersF() {
			l = append(l, &api.Metric{Name: in, Peer: p, Valid: true})
		}
	}
	*out = l
	return nil
}

// CRDTPeer is one real crdt.Consensus replica with a recording tracker.
type CRDTPeer struct {
	Host   host.Host
	Cons   *crdt.Consensus
	Cfg    *crdt.Config
	Store  ds.Datastore
	Rec    *Recorder
	PubSub *pubsub.PubSub
	DHT    *dual.DHT
	cancel func()
}

// CRDTTweak adjusts the configuration.
type CRDTTweak func(*crdt.Config)

// NewCRDTPeer starts a real crdt consensus replica on host h over store.
func NewCRDTPeer(ctx context.Context, h host.Host, store ds.Datastore, gossip bool, tweak CRDTTweak) (*CRDTPeer, error) {
	ctx, cancel := context.WithCancel(ctx)
	cfg := &crdt.Config{}
	cfg.Default()
	cfg.ClusterName = "verif"
	cfg.RebroadcastInterval = 10 * time.Second
	cfg.TrustAll = true
	if tweak != nil {
		tweak(cfg)
	}
	var ps *pubsub.PubSub
	var err error
	opts := []pubsub.Option{pubsub.WithMessageSigning(true), pubsub.WithStrictSignatureVerification(true)}
	if gossip {
		ps, err = pubsub.NewGossipSub(ctx, h, opts...)
	} else {
		ps, err = pubsub.NewFloodSub(ctx, h, opts...)
	}
	if err != nil {
		cancel()
		return nil, err
	}
	dht, err := dual.New(ctx, h)
	if err != nil {
		cancel()
		return nil, err
	}
	cons, err := crdt.New(h, dht, ps, cfg, store)
	if err != nil {
		cancel()
		return nil, err
	}
	rec := NewRecorder()
	srv := rpc.NewServer(h, RPCProto)
	srv.RegisterName("PinTracker", &TrackerRec{Rec: rec})
	srv.RegisterName("PeerMonitor", &MonSvc{})
	cons.SetClient(rpc.NewClientWithServer(h, RPCProto, srv))
	return &CRDTPeer{Host: h, Cons: cons, Cfg: cfg, Store: store, Rec: rec, PubSub: ps, DHT: dht, cancel: cancel}, nil
}

// Stop shuts the replica down.
func (p *CRDTPeer) Stop() {
	p.Cons.Shutdown(context.Background())
	p.DHT.Close()
	p.cancel()
}
