package clus

import (
	"context"
	"sync"
	"time"

	"github.com/ipfs/ipfs-cluster/api"
	"github.com/ipfs/ipfs-cluster/monitor/metrics"

	rpc "github.com/libp2p/go-libp2p-gorpc"
)

// Mon is an injectable PeerMonitor: the real metrics.Store answers
// LatestMetrics (so validity/expiry filtering is the repository's), alerts are
// fed by the harness, and every PublishMetric is recorded.
type Mon struct {
	mu         sync.Mutex
	Store      *metrics.Store
	AlertCh    chan *api.Alert
	Published  []api.Metric
	PublishErr func(n int, m *api.Metric) error // optional script
	nPub       int
	// LatestDelay makes the monitor slow to answer: LatestMetrics compiles
	// its answer and returns it LatestDelay later (fake clock in a bubble),
	// so a metric can expire between the monitor's check and its use.
	LatestDelay time.Duration
}

// NewMon creates an injectable monitor.
func NewMon() *Mon {
	return &Mon{Store: metrics.NewStore(), AlertCh: make(chan *api.Alert, 256)}
}

func (m *Mon) SetClient(*rpc.Client)          {}
func (m *Mon) Shutdown(context.Context) error { return nil }

// LogMetric stores a metric.
func (m *Mon) LogMetric(ctx context.Context, mt *api.Metric) error {
	m.Store.Add(mt)
	return nil
}

// PublishMetric records and stores a metric.
func (m *Mon) PublishMetric(ctx context.Context, mt *api.Metric) error {
	m.mu.Lock()
	n := m.nPub
	m.nPub++
	var err error
	if m.PublishErr != nil {
		err = m.PublishErr(n, mt)
	}
	if err == nil {
		m.Published = append(m.Published, *mt)
	}
	m.mu.Unlock()
	if err != nil {
		return err
	}
	cp := *mt
	m.Store.Add(&cp)
	return nil
}

// LatestMetrics implements PeerMonitor.
func (m *Mon) LatestMetrics(ctx context.Context, name string) []*api.Metric {
	l := m.Store.LatestValid(name)
	if m.LatestDelay > 0 {
		time.Sleep(m.LatestDelay)
	}
	return l
}

// MetricNames implements PeerMonitor.
func (m *Mon) MetricNames(ctx context.Context) []string { return m.Store.MetricNames() }

// Alerts implements PeerMonitor.
func (m *Mon) Alerts() <-chan *api.Alert { return m.AlertCh }
