package clus

import (
	"context"
	"errors"
	"fmt"
	"sort"
	"sync"

	"github.com/ipfs/ipfs-cluster/api"

	cid "github.com/ipfs/go-cid"
	peer "github.com/libp2p/go-libp2p-core/peer"
	rpc "github.com/libp2p/go-libp2p-gorpc"
)

// Action is what the model daemon does with one call.
type Action int

// Actions.
const (
	Apply Action = iota // take effect, answer ok
	Fail                // answer an error, no effect
	Park                // hold the call until the harness completes it
)

// Call is one request that reached the model daemon.
type Call struct {
	Seq      int
	Kind     string // "pin" "unpin" "pinls" "pinlscid"
	Cid      string
	Pin      *api.Pin // for pin / pinlscid
	Outcome  string   // "ok" "noop" "error" "cancelled" "parked"
	release  chan Action
	released bool
	// Effected: the daemon has carried the request out (Effect) but its
	// answer is still on the way: the call stays parked, no longer listens
	// to its context, and returns the recorded result when completed.
	Effected  bool
	effectErr error
}

// ErrIPFS is the daemon failure injected by Fail.
var ErrIPFS = errors.New("model ipfs daemon: injected failure")

// IPFS is a model IPFS daemon seen through the IPFSConnector interface. Its
// semantics mirror what ipfshttp.Connector does against go-ipfs:
//   - PinLsCid asks for the type derived from the pin's MaxDepth and reports
//     "unpinned" when the CID is not pinned with that type;
//   - Pin is a no-op when already pinned as asked, a recursive pin upgrades a
//     direct one, a direct pin of a recursively pinned CID is an error;
//   - Unpin removes whatever pin exists and succeeds when nothing is pinned.
//
// A parked call is atomic at the instant the harness completes it; a call
// whose context is cancelled while parked has no effect.
type IPFS struct {
	// FailErr, when set, is the error of a Fail action instead of ErrIPFS
	// (context.Canceled is what ipfshttp.Connector returns when it gives up
	// on a pin/add that makes no progress).
	FailErr error
	mu      sync.Mutex
	Table   map[string]api.IPFSPinStatus
	Calls   []*Call
	Decide  func(c *Call) Action // nil = always Apply
	// ResolveF / BlockGetF are optional harness hooks.
	ResolveF  func(path string) (cid.Cid, error)
	BlockGetF func(c cid.Cid) ([]byte, error)
	seq       int
}

// NewIPFS returns an empty model daemon.
func NewIPFS() *IPFS { return &IPFS{Table: map[string]api.IPFSPinStatus{}} }

func (m *IPFS) begin(ctx context.Context, kind string, c cid.Cid, pin *api.Pin) (*Call, Action, error) {
	m.mu.Lock()
	call := &Call{Seq: m.seq, Kind: kind, Cid: c.String(), Pin: pin}
	m.seq++
	m.Calls = append(m.Calls, call)
	act := Apply
	if m.Decide != nil {
		act = m.Decide(call)
	}
	if act == Park {
		call.release = make(chan Action, 1)
		call.Outcome = "parked"
	}
	m.mu.Unlock()
	if act == Park {
		select {
		case act = <-call.release:
		case <-ctx.Done():
			m.mu.Lock()
			if call.Effected {
				// carried out already: only the answer is missing, and it
				// arrives when the harness says so
				m.mu.Unlock()
				act = <-call.release
				break
			}
			call.Outcome = "cancelled"
			call.released = true
			m.mu.Unlock()
			return call, Fail, ctx.Err()
		}
		m.mu.Lock()
		eff := call.Effected
		m.mu.Unlock()
		if eff {
			return call, Apply, nil
		}
	}
	if act == Fail {
		m.mu.Lock()
		call.Outcome = "error"
		ferr := m.FailErr
		m.mu.Unlock()
		if ferr == nil {
			ferr = ErrIPFS
		}
		return call, Fail, ferr
	}
	if err := ctx.Err(); err != nil { // cancelled before it reached the daemon
		m.mu.Lock()
		call.Outcome = "cancelled"
		m.mu.Unlock()
		return call, Fail, err
	}
	return call, Apply, nil
}

// Parked lists the calls currently held, in arrival order.
func (m *IPFS) Parked() []*Call {
	m.mu.Lock()
	defer m.mu.Unlock()
	var out []*Call
	for _, c := range m.Calls {
		if c.release != nil && !c.released {
			out = append(out, c)
		}
	}
	return out
}

// Complete releases a parked call with the given action (Apply or Fail).
func (m *IPFS) Complete(c *Call, a Action) {
	m.mu.Lock()
	if c.released {
		m.mu.Unlock()
		return
	}
	c.released = true
	m.mu.Unlock()
	c.release <- a
}

// Snapshot returns the pin table as sorted "cid=type" strings.
func (m *IPFS) Snapshot() []string {
	m.mu.Lock()
	defer m.mu.Unlock()
	var out []string
	for k, v := range m.Table {
		out = append(out, fmt.Sprintf("%s=%d", k, v))
	}
	sort.Strings(out)
	return out
}

// Get returns the daemon's pin state for c.
func (m *IPFS) Get(c cid.Cid) api.IPFSPinStatus {
	m.mu.Lock()
	defer m.mu.Unlock()
	st, ok := m.Table[c.String()]
	if !ok {
		return api.IPFSPinStatusUnpinned
	}
	return st
}

// Set forces the daemon's pin state for c (Unpinned removes it).
func (m *IPFS) Set(c cid.Cid, st api.IPFSPinStatus) {
	m.mu.Lock()
	defer m.mu.Unlock()
	if st == api.IPFSPinStatusUnpinned {
		delete(m.Table, c.String())
		return
	}
	m.Table[c.String()] = st
}

// CallLog returns "kind:cid:outcome" for every call so far.
func (m *IPFS) CallLog() []string {
	m.mu.Lock()
	defer m.mu.Unlock()
	var out []string
	for _, c := range m.Calls {
		out = append(out, c.Kind+":"+c.Cid+":"+c.Outcome)
	}
	return out
}

func wanted(pin *api.Pin) api.IPFSPinStatus {
	if pin.MaxDepth.ToPinMode() == api.PinModeDirect {
		return api.IPFSPinStatusDirect
	}
	return api.IPFSPinStatusRecursive
}

// ---- IPFSConnector component interface ----

func (m *IPFS) SetClient(*rpc.Client)          {}
func (m *IPFS) Shutdown(context.Context) error { return nil }
func (m *IPFS) ID(context.Context) (*api.IPFSID, error) {
	return &api.IPFSID{ID: PID(1000)}, nil
}

// Pin implements IPFSConnector.
func (m *IPFS) Pin(ctx context.Context, pin *api.Pin) error {
	call, _, err := m.begin(ctx, "pin", pin.Cid, pin)
	if err != nil {
		return err
	}
	m.mu.Lock()
	defer m.mu.Unlock()
	if call.Effected {
		return call.effectErr
	}
	return m.pinLocked(call)
}

func (m *IPFS) pinLocked(call *Call) error {
	cur, ok := m.Table[call.Cid]
	want := wanted(call.Pin)
	switch {
	case ok && cur == want:
		call.Outcome = "noop"
	case ok && cur == api.IPFSPinStatusRecursive && want == api.IPFSPinStatusDirect:
		call.Outcome = "error"
		return errors.New("pin: already pinned recursively")
	default:
		m.Table[call.Cid] = want
		call.Outcome = "ok"
	}
	return nil
}

func (m *IPFS) unpinLocked(call *Call) error {
	if _, ok := m.Table[call.Cid]; ok {
		delete(m.Table, call.Cid)
		call.Outcome = "ok"
	} else {
		call.Outcome = "noop"
	}
	return nil
}

// Effect makes the daemon carry out a parked pin or unpin call now while its
// answer stays on the way (what happens when the daemon finishes a request
// just as the client gives up on it): the call remains parked, stops listening
// to its context, and Complete delivers the recorded result.
func (m *IPFS) Effect(c *Call) {
	m.mu.Lock()
	defer m.mu.Unlock()
	if c.released || c.Effected || (c.Kind != "pin" && c.Kind != "unpin") {
		return
	}
	c.Effected = true
	if c.Kind == "pin" {
		c.effectErr = m.pinLocked(c)
	} else {
		c.effectErr = m.unpinLocked(c)
	}
}

// Unpin implements IPFSConnector.
func (m *IPFS) Unpin(ctx context.Context, c cid.Cid) error {
	call, _, err := m.begin(ctx, "unpin", c, nil)
	if err != nil {
		return err
	}
	m.mu.Lock()
	defer m.mu.Unlock()
	if call.Effected {
		return call.effectErr
	}
	return m.unpinLocked(call)
}

// PinLsCid implements IPFSConnector.
func (m *IPFS) PinLsCid(ctx context.Context, pin *api.Pin) (api.IPFSPinStatus, error) {
	call, _, err := m.begin(ctx, "pinlscid", pin.Cid, pin)
	if err != nil {
		return api.IPFSPinStatusError, err
	}
	m.mu.Lock()
	defer m.mu.Unlock()
	call.Outcome = "ok"
	cur, ok := m.Table[call.Cid]
	if ok && cur == wanted(pin) {
		return cur, nil
	}
	return api.IPFSPinStatusUnpinned, nil
}

// PinLs implements IPFSConnector.
func (m *IPFS) PinLs(ctx context.Context, typeFilter string) (map[string]api.IPFSPinStatus, error) {
	call, _, err := m.begin(ctx, "pinls", cid.Undef, nil)
	if err != nil {
		return nil, err
	}
	m.mu.Lock()
	defer m.mu.Unlock()
	call.Outcome = "ok"
	out := map[string]api.IPFSPinStatus{}
	for k, v := range m.Table {
		switch typeFilter {
		case "recursive":
			if v != api.IPFSPinStatusRecursive {
				continue
			}
		case "direct":
			if v != api.IPFSPinStatusDirect {
				continue
			}
		}
		out[k] = v
	}
	return out, nil
}

func (m *IPFS) ConnectSwarms(context.Context) error           { return nil }
func (m *IPFS) SwarmPeers(context.Context) ([]peer.ID, error) { return nil, nil }
func (m *IPFS) ConfigKey(string) (interface{}, error)         { return nil, errors.New("no config") }
func (m *IPFS) RepoStat(context.Context) (*api.IPFSRepoStat, error) {
	return &api.IPFSRepoStat{RepoSize: 1, StorageMax: 1000}, nil
}
func (m *IPFS) RepoGC(context.Context) (*api.RepoGC, error) { return &api.RepoGC{}, nil }

// Resolve implements IPFSConnector.
func (m *IPFS) Resolve(ctx context.Context, path string) (cid.Cid, error) {
	if m.ResolveF != nil {
		return m.ResolveF(path)
	}
	return cid.Undef, errors.New("cannot resolve " + path)
}
func (m *IPFS) BlockPut(context.Context, *api.NodeWithMeta) error { return nil }

// BlockGet implements IPFSConnector.
func (m *IPFS) BlockGet(ctx context.Context, c cid.Cid) ([]byte, error) {
	if m.BlockGetF != nil {
		return m.BlockGetF(c)
	}
	return nil, errors.New("block not found")
}
