package clus

import (
	"fmt"
	"sort"
	"strings"
	"time"

	"github.com/ipfs/ipfs-cluster/api"

	cid "github.com/ipfs/go-cid"
	peer "github.com/libp2p/go-libp2p-core/peer"
	ma "github.com/multiformats/go-multiaddr"
)

// PinVariant is a named well-formed pin shape (without its CID).
type PinVariant struct {
	Name string
	Make func(c cid.Cid) *api.Pin
}

func mustMA(s string) ma.Multiaddr {
	m, err := ma.NewMultiaddr(s)
	if err != nil {
		panic(err)
	}
	return m
}

// Origin returns a deterministic origin multiaddress with a peer id.
func Origin(i int) ma.Multiaddr {
	return mustMA(fmt.Sprintf("/ip4/10.9.0.%d/tcp/4001/p2p/%s", i+1, PID(900+i)))
}

// PinAlphabet returns one well-formed pin per distinguishing feature.
// The first four are the "quick" subset.
func PinAlphabet() []PinVariant {
	ref := Cid("ref")
	refV0 := CidV0("refv0")
	return []PinVariant{
		{"plain", func(c cid.Cid) *api.Pin {
			p := api.PinCid(c)
			p.ReplicationFactorMin, p.ReplicationFactorMax = -1, -1
			return p
		}},
		{"alloc2-name-meta", func(c cid.Cid) *api.Pin {
			p := api.PinCid(c)
			p.ReplicationFactorMin, p.ReplicationFactorMax = 2, 3
			p.Allocations = []peer.ID{PID(1), PID(2)}
			p.Name = "nombre-ñ"
			p.Metadata = map[string]string{"k": "v", "k2": ""}
			return p
		}},
		{"direct-expiry", func(c cid.Cid) *api.Pin {
			p := api.PinWithOpts(c, api.PinOptions{Mode: api.PinModeDirect, ReplicationFactorMin: 1, ReplicationFactorMax: 1})
			p.Allocations = []peer.ID{PID(0)}
			p.ExpireAt = time.Unix(2000000000, 0)
			return p
		}},
		{"origins2", func(c cid.Cid) *api.Pin {
			p := api.PinCid(c)
			p.ReplicationFactorMin, p.ReplicationFactorMax = 1, 2
			p.Allocations = []peer.ID{PID(2)}
			p.Origins = []ma.Multiaddr{Origin(0), Origin(1)}
			return p
		}},
		{"origin1", func(c cid.Cid) *api.Pin {
			p := api.PinCid(c)
			p.ReplicationFactorMin, p.ReplicationFactorMax = -1, -1
			p.Origins = []ma.Multiaddr{Origin(0)}
			return p
		}},
		{"meta-type", func(c cid.Cid) *api.Pin {
			p := api.PinCid(c)
			p.Type = api.MetaType
			p.Reference = &ref
			p.MaxDepth = 0
			p.ReplicationFactorMin, p.ReplicationFactorMax = -1, -1
			p.ShardSize = 1 << 20
			return p
		}},
		{"clusterdag-type", func(c cid.Cid) *api.Pin {
			p := api.PinCid(c)
			p.Type = api.ClusterDAGType
			p.Reference = &refV0
			p.MaxDepth = 0
			p.Mode = api.PinModeDirect
			p.ReplicationFactorMin, p.ReplicationFactorMax = -1, -1
			return p
		}},
		{"shard-type", func(c cid.Cid) *api.Pin {
			p := api.PinCid(c)
			p.Type = api.ShardType
			p.Reference = &ref
			p.MaxDepth = 1
			p.ReplicationFactorMin, p.ReplicationFactorMax = 1, 1
			p.Allocations = []peer.ID{PID(1)}
			return p
		}},
		{"first-shard(ref-undefined)", func(c cid.Cid) *api.Pin {
			// what adder/sharding submits for the first shard: the
			// "previous shard" reference points at the undefined CID
			p := api.PinCid(c)
			p.Type = api.ShardType
			undef := cid.Undef
			p.Reference = &undef
			p.MaxDepth = 1
			p.ReplicationFactorMin, p.ReplicationFactorMax = -1, -1
			return p
		}},
		{"meta(ref-undefined)", func(c cid.Cid) *api.Pin {
			// the same undefined reference on a pin that is not a shard
			p := api.PinCid(c)
			p.Type = api.MetaType
			undef := cid.Undef
			p.Reference = &undef
			p.MaxDepth = 0
			p.ReplicationFactorMin, p.ReplicationFactorMax = -1, -1
			return p
		}},
		{"data(ref-undefined)", func(c cid.Cid) *api.Pin {
			p := api.PinCid(c)
			undef := cid.Undef
			p.Reference = &undef
			p.ReplicationFactorMin, p.ReplicationFactorMax = -1, -1
			return p
		}},
		{"update-v1", func(c cid.Cid) *api.Pin {
			p := api.PinCid(c)
			p.ReplicationFactorMin, p.ReplicationFactorMax = -1, -1
			p.PinUpdate = Cid("upd")
			return p
		}},
		{"update-v0", func(c cid.Cid) *api.Pin {
			p := api.PinCid(c)
			p.ReplicationFactorMin, p.ReplicationFactorMax = 1, 2
			p.Allocations = []peer.ID{PID(0)}
			p.PinUpdate = CidV0("upd")
			return p
		}},
		{"subsecond-expiry", func(c cid.Cid) *api.Pin {
			p := api.PinCid(c)
			p.ReplicationFactorMin, p.ReplicationFactorMax = -1, -1
			p.ExpireAt = time.Unix(2000000000, 123456789)
			return p
		}},
		{"meta-emptykey", func(c cid.Cid) *api.Pin {
			p := api.PinCid(c)
			p.ReplicationFactorMin, p.ReplicationFactorMax = -1, -1
			p.Metadata = map[string]string{"": "x", "k": "v"}
			return p
		}},
		{"user-allocs", func(c cid.Cid) *api.Pin {
			p := api.PinCid(c)
			p.ReplicationFactorMin, p.ReplicationFactorMax = 1, 1
			p.Allocations = []peer.ID{PID(1)}
			p.UserAllocations = []peer.ID{PID(1)}
			return p
		}},
		{"expires-in-5s", func(c cid.Cid) *api.Pin {
			// relative to the (fake) clock at construction: lets a history
			// apply or replay the entry after its expiry instant
			p := api.PinCid(c)
			p.ReplicationFactorMin, p.ReplicationFactorMax = -1, -1
			p.ExpireAt = time.Unix(time.Now().Unix()+5, 0)
			return p
		}},
		{"alloc1-ascii", func(c cid.Cid) *api.Pin {
			p := api.PinCid(c)
			p.ReplicationFactorMin, p.ReplicationFactorMax = 1, 1
			p.Allocations = []peer.ID{PID(2)}
			p.Name = "ascii name"
			return p
		}},
	}
}

// PinSig renders the fields of a pin that the stored (protobuf) form keeps, in
// a canonical order: the harness' own comparator (Pin.Equals is itself under
// test elsewhere). Documented lossy fields are left out or normalised:
// UserAllocations (transient), sub-second expiry, nil vs empty collections,
// Mode (derived from MaxDepth in the stored form).
func PinSig(p *api.Pin) string {
	if p == nil {
		return "<nil>"
	}
	var b strings.Builder
	fmt.Fprintf(&b, "cid=%s type=%d depth=%d", p.Cid, p.Type, p.MaxDepth)
	if p.Reference != nil && p.Reference.Defined() { // a reference to the undefined CID is no reference
		fmt.Fprintf(&b, " ref=%s", p.Reference)
	}
	al := api.PeersToStrings(p.Allocations)
	sort.Strings(al)
	fmt.Fprintf(&b, " alloc=%v rf=%d/%d name=%q shard=%d", al, p.ReplicationFactorMin, p.ReplicationFactorMax, p.Name, p.ShardSize)
	if !p.ExpireAt.IsZero() && p.ExpireAt.Unix() != 0 {
		fmt.Fprintf(&b, " exp=%d", p.ExpireAt.Unix())
	}
	var mk []string
	for k, v := range p.Metadata {
		mk = append(mk, fmt.Sprintf("%q:%q", k, v))
	}
	sort.Strings(mk)
	fmt.Fprintf(&b, " meta=%v", mk)
	if p.PinUpdate.Defined() {
		fmt.Fprintf(&b, " upd=%s", p.PinUpdate)
	}
	var og []string
	for _, o := range p.Origins {
		og = append(og, o.String())
	}
	sort.Strings(og)
	fmt.Fprintf(&b, " origins=%v", og)
	return b.String()
}

// PinsetSig renders a pinset canonically (sorted by CID).
func PinsetSig(pins []*api.Pin) []string {
	out := make([]string, 0, len(pins))
	for _, p := range pins {
		out = append(out, PinSig(p))
	}
	sort.Strings(out)
	return out
}
