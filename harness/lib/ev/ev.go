// Package ev is the reporting side of every check: it counts what was
// explored, records violations as replayable artefacts, matches them against
// /verif/KNOWN_FINDINGS.jsonl, writes /verif/evidence/<id>.json and decides the
// exit code (0 held / 1 unlisted violation / 2 broken check).
package ev

import (
	"context"
	"crypto/sha256"
	"encoding/hex"
	"encoding/json"
	"fmt"
	"os"
	"os/exec"
	"path/filepath"
	"sort"
	"strconv"
	"strings"
	"sync"
	"time"
)

// Root of the verification tree.
var Root = func() string {
	if r := os.Getenv("VERIF_ROOT"); r != "" {
		return r
	}
	return "/verif"
}()

// Tier returns "quick" or "thorough".
func Tier() string {
	if os.Getenv("VERIF_TIER") == "thorough" {
		return "thorough"
	}
	return "quick"
}

// Thorough is true in the thorough tier.
func Thorough() bool { return Tier() == "thorough" }

// Seed is VERIF_SEED (only used to order work, never for verdicts).
func Seed() int64 {
	s, _ := strconv.ParseInt(os.Getenv("VERIF_SEED"), 10, 64)
	return s
}

type finding struct {
	Property string `json:"property"`
	Key      string `json:"key"`
	What     string `json:"what"`
	Status   string `json:"status"` // "known" or "fixed"
}

// Violation is one recorded counterexample.
type Violation struct {
	Key    string      `json:"key"`    // canonical signature (matched against known findings)
	Detail interface{} `json:"detail"` // input / schedule / history + expected vs observed
	Replay string      `json:"replay"`
	Known  bool        `json:"known"`
}

// Run accumulates the coverage of one check run.
type Run struct {
	mu          sync.Mutex
	ID          string
	Level       string
	start       time.Time
	evals       int64
	states      int64
	transitions int64
	traces      int64
	nontrivial  map[string]struct{}
	samples     []interface{}
	maxSamples  int
	rule        string
	exhaustive  bool
	notes       map[string]interface{}
	assumptions []string
	violations  []Violation
	vioKeys     map[string]int
	known       []finding
	knownHit    map[string]bool
	broken      []string
	sections    map[string]*Section
	secOrder    []string
}

// Section is a named sub-space of a check with its own counters.
type Section struct {
	Name       string                 `json:"name"`
	Evals      int64                  `json:"evaluations"`
	States     int64                  `json:"states,omitempty"`
	Exhaustive bool                   `json:"exhaustive"`
	Bounds     map[string]interface{} `json:"bounds,omitempty"`
	Outcomes   map[string]int64       `json:"outcomes,omitempty"`
	CapHit     string                 `json:"cap_hit,omitempty"`
}

// New starts a run for property id at the given evidence level.
func New(id, level string) *Run {
	r := &Run{ID: id, Level: level, start: time.Now(), nontrivial: map[string]struct{}{},
		maxSamples: 12, exhaustive: true, notes: map[string]interface{}{}, vioKeys: map[string]int{},
		knownHit: map[string]bool{}, sections: map[string]*Section{}}
	r.loadKnown()
	return r
}

func (r *Run) loadKnown() {
	b, err := os.ReadFile(filepath.Join(Root, "KNOWN_FINDINGS.jsonl"))
	if err != nil {
		return
	}
	for _, l := range strings.Split(string(b), "\n") {
		l = strings.TrimSpace(l)
		if l == "" || strings.HasPrefix(l, "#") || strings.HasPrefix(l, "fixed:") {
			continue
		}
		var f finding
		if json.Unmarshal([]byte(l), &f) != nil {
			continue
		}
		if f.Property == r.ID && f.Status != "fixed" {
			r.known = append(r.known, f)
		}
	}
}

// Rule documents how cases are enumerated and what counts as non-trivial.
func (r *Run) Rule(s string) { r.mu.Lock(); r.rule = s; r.mu.Unlock() }

// Assume records an assumption / trusted-base item.
func (r *Run) Assume(s string) { r.mu.Lock(); r.assumptions = append(r.assumptions, s); r.mu.Unlock() }

// Note attaches an extra coverage key.
func (r *Run) Note(k string, v interface{}) { r.mu.Lock(); r.notes[k] = v; r.mu.Unlock() }

// NotExhaustive marks the run as capped, with the reason.
func (r *Run) NotExhaustive(why string) {
	r.mu.Lock()
	r.exhaustive = false
	r.notes["cap"] = appendStr(r.notes["cap"], why)
	r.mu.Unlock()
}

func appendStr(v interface{}, s string) []string {
	l, _ := v.([]string)
	for _, x := range l {
		if x == s {
			return l
		}
	}
	return append(l, s)
}

// Sec returns (creating) a named section.
func (r *Run) Sec(name string) *Section {
	r.mu.Lock()
	defer r.mu.Unlock()
	s, ok := r.sections[name]
	if !ok {
		s = &Section{Name: name, Exhaustive: true, Bounds: map[string]interface{}{}, Outcomes: map[string]int64{}}
		r.sections[name] = s
		r.secOrder = append(r.secOrder, name)
	}
	return s
}

// Eval counts one evaluated case. sig is a canonical signature of the
// (input-class, observation) pair; nontrivial says whether the case counts
// toward distinct_nontrivial by the run's rule.
func (r *Run) Eval(sec *Section, sig string, nontrivial bool) {
	r.mu.Lock()
	r.evals++
	r.traces++
	if sec != nil {
		sec.Evals++
	}
	if nontrivial {
		r.nontrivial[sig] = struct{}{}
	}
	r.mu.Unlock()
}

// Outcome counts an observed outcome class in a section.
func (r *Run) Outcome(sec *Section, o string) {
	r.mu.Lock()
	sec.Outcomes[o]++
	r.mu.Unlock()
}

// States / Transitions add to the explicit-state counters.
func (r *Run) States(sec *Section, n int64) {
	r.mu.Lock()
	r.states += n
	if sec != nil {
		sec.States += n
	}
	r.mu.Unlock()
}
func (r *Run) Transitions(n int64) { r.mu.Lock(); r.transitions += n; r.mu.Unlock() }

// Sample keeps up to maxSamples written-out cases.
func (r *Run) Sample(x interface{}) {
	r.mu.Lock()
	if len(r.samples) < r.maxSamples {
		r.samples = append(r.samples, x)
	}
	r.mu.Unlock()
}

// SampleN keeps a sample only if fewer than n samples with this tag exist.
func (r *Run) SampleTagged(tag string, n int, x interface{}) {
	r.mu.Lock()
	c := 0
	for _, s := range r.samples {
		if m, ok := s.(map[string]interface{}); ok && m["tag"] == tag {
			c++
		}
	}
	if c < n && len(r.samples) < 40 {
		r.samples = append(r.samples, map[string]interface{}{"tag": tag, "case": x})
	}
	r.mu.Unlock()
}

// Broken records an internal failure of the check itself (exit 2).
func (r *Run) Broken(format string, a ...interface{}) {
	r.mu.Lock()
	r.broken = append(r.broken, fmt.Sprintf(format, a...))
	r.mu.Unlock()
}

func globMatch(pat, s string) bool {
	if !strings.Contains(pat, "*") {
		return pat == s
	}
	parts := strings.Split(pat, "*")
	if !strings.HasPrefix(s, parts[0]) {
		return false
	}
	s = s[len(parts[0]):]
	for i := 1; i < len(parts); i++ {
		p := parts[i]
		if i == len(parts)-1 {
			return strings.HasSuffix(s, p)
		}
		j := strings.Index(s, p)
		if j < 0 {
			return false
		}
		s = s[j+len(p):]
	}
	return true
}

// Violation records a counterexample with canonical signature key. Only the
// first occurrence of each key writes a replay artefact; later ones are counted.
func (r *Run) Violation(key string, detail interface{}) {
	r.mu.Lock()
	defer r.mu.Unlock()
	r.vioKeys[key]++
	if r.vioKeys[key] > 1 {
		return
	}
	v := Violation{Key: key, Detail: detail}
	for _, f := range r.known {
		if globMatch(f.Key, key) {
			v.Known = true
			if !r.knownHit[f.Key] {
				r.knownHit[f.Key] = true
				fmt.Printf("KNOWN-FINDING: property=%s %s [%s]\n", r.ID, f.What, f.Key)
			}
			break
		}
	}
	h := sha256.Sum256([]byte(key))
	dir := filepath.Join(Root, "replays", r.ID)
	os.MkdirAll(dir, 0o755)
	v.Replay = filepath.Join(dir, hex.EncodeToString(h[:6])+".json")
	b, _ := json.MarshalIndent(map[string]interface{}{"property": r.ID, "key": key, "known": v.Known, "detail": detail}, "", " ")
	os.WriteFile(v.Replay, b, 0o644)
	if !v.Known {
		fmt.Printf("VIOLATION property=%s replay=%s\n", r.ID, v.Replay)
		fmt.Printf("  key: %s\n", key)
	}
	r.violations = append(r.violations, v)
}

// Unlisted returns the number of violations not covered by a known finding.
func (r *Run) Unlisted() int {
	r.mu.Lock()
	defer r.mu.Unlock()
	n := 0
	for _, v := range r.violations {
		if !v.Known {
			n++
		}
	}
	return n
}

// Finish writes the evidence file and returns the process exit code.
func (r *Run) Finish() int {
	r.mu.Lock()
	defer r.mu.Unlock()
	cov := map[string]interface{}{}
	for k, v := range r.notes {
		cov[k] = v
	}
	cov["evaluations"] = r.evals
	cov["distinct_nontrivial"] = len(r.nontrivial)
	cov["rule"] = r.rule
	cov["samples"] = r.samples
	cov["exhaustive"] = r.exhaustive
	if r.Level == "model_checking" {
		st, tr := r.states, r.transitions
		cov["states"] = st
		cov["transitions"] = tr
		cov["traces_validated_against_impl"] = r.traces
	}
	var secs []*Section
	for _, n := range r.secOrder {
		secs = append(secs, r.sections[n])
	}
	cov["sections"] = secs
	unl := 0
	var vio []map[string]interface{}
	keys := make([]string, 0, len(r.vioKeys))
	for _, v := range r.violations {
		if !v.Known {
			unl++
		}
		keys = append(keys, v.Key)
		vio = append(vio, map[string]interface{}{"key": v.Key, "known": v.Known, "replay": v.Replay, "occurrences": r.vioKeys[v.Key]})
	}
	sort.Strings(keys)
	cov["violation_keys"] = vio
	// Known findings that did NOT reproduce are worth a line: the defect may
	// have been repaired, or the check lost its reach.
	for _, f := range r.known {
		if !r.knownHit[f.Key] {
			fmt.Printf("NOTE: known finding did not reproduce on this run: property=%s [%s]\n", r.ID, f.Key)
		}
	}
	if len(r.broken) > 0 {
		cov["broken"] = r.broken
	}
	out := map[string]interface{}{
		"property_id": r.ID,
		"tier":        Tier(),
		"seed":        Seed(),
		"level":       r.Level,
		"coverage":    cov,
		"assumptions": r.assumptions,
		"wall_s":      time.Since(r.start).Seconds(),
		"violations":  unl,
	}
	b, _ := json.MarshalIndent(out, "", " ")
	os.MkdirAll(filepath.Join(Root, "evidence"), 0o755)
	if err := os.WriteFile(filepath.Join(Root, "evidence", r.ID+".json"), b, 0o644); err != nil {
		fmt.Println("cannot write evidence:", err)
		return 2
	}
	fmt.Printf("RESULT property=%s tier=%s evaluations=%d states=%d transitions=%d distinct_nontrivial=%d exhaustive=%v violations=%d known=%d wall=%.1fs\n",
		r.ID, Tier(), r.evals, r.states, r.transitions, len(r.nontrivial), r.exhaustive, unl, len(r.violations)-unl, time.Since(r.start).Seconds())
	if len(r.broken) > 0 {
		for _, b := range r.broken {
			fmt.Println("BROKEN:", b)
		}
		return 2
	}
	if unl > 0 {
		return 1
	}
	return 0
}

// JSON is a helper for compact canonical rendering in signatures.
func JSON(x interface{}) string {
	b, _ := json.Marshal(x)
	return string(b)
}

// Budget is a wall-clock budget for capped enumerations.
type Budget struct{ deadline time.Time }

// NewBudget returns a budget of d from now.
func NewBudget(d time.Duration) *Budget { return &Budget{time.Now().Add(d)} }

// Exceeded reports whether the budget is used up.
func (b *Budget) Exceeded() bool { return time.Now().After(b.deadline) }

// Main is the TestMain body shared by all checks: it creates the Run, lets the
// Test functions explore (they report through the returned Run), writes the
// evidence and exits with the contract's exit code. A failing Test function
// (t.Fatal, panic) is a broken check (exit 2), never a violation.
func Main(run func() int, r *Run) {
	code := run()
	if code != 0 {
		r.Broken("a Test function failed or panicked (exit %d): this is a harness failure, not a verdict", code)
	}
	if ChildUnit() != "" {
		os.Exit(r.SavePartial())
	}
	os.Exit(r.Finish())
}

// ---- child processes -------------------------------------------------------
//
// Explorations that run real component goroutines can die from a panic in a
// goroutine the harness does not own (no recover possible). Such work runs in
// child processes of the same test binary: a child explores one named unit and
// saves a partial; the parent merges partials and turns a crashed child into a
// violation keyed by the panic site.

type partial struct {
	Evals, States, Transitions, Traces int64
	Nontrivial                         []string
	Samples                            []interface{}
	Sections                           []*Section
	Violations                         []Violation
	VioCount                           map[string]int
	Broken                             []string
	Exhaustive                         bool
	Notes                              map[string]interface{}
	Assumptions                        []string
}

// ChildUnit returns the unit name this process must explore, or "" in the parent.
func ChildUnit() string { return os.Getenv("VERIF_CHILD") }

// SavePartial writes this (child) run's counters to VERIF_CHILD_OUT.
func (r *Run) SavePartial() int {
	r.mu.Lock()
	defer r.mu.Unlock()
	p := partial{Evals: r.evals, States: r.states, Transitions: r.transitions, Traces: r.traces, Samples: r.samples,
		Violations: r.violations, VioCount: r.vioKeys, Broken: r.broken, Exhaustive: r.exhaustive, Notes: r.notes}
	for k := range r.nontrivial {
		p.Nontrivial = append(p.Nontrivial, k)
	}
	for _, n := range r.secOrder {
		p.Sections = append(p.Sections, r.sections[n])
	}
	b, _ := json.Marshal(p)
	if err := os.WriteFile(os.Getenv("VERIF_CHILD_OUT"), b, 0o644); err != nil {
		fmt.Println("cannot write partial:", err)
		return 2
	}
	return 0
}

func (r *Run) mergePartial(path string) error {
	b, err := os.ReadFile(path)
	if err != nil {
		return err
	}
	var p partial
	if err := json.Unmarshal(b, &p); err != nil {
		return err
	}
	r.mu.Lock()
	defer r.mu.Unlock()
	r.evals += p.Evals
	r.states += p.States
	r.transitions += p.Transitions
	r.traces += p.Traces
	for _, k := range p.Nontrivial {
		r.nontrivial[k] = struct{}{}
	}
	for _, s := range p.Samples {
		if len(r.samples) < 40 {
			r.samples = append(r.samples, s)
		}
	}
	for _, s := range p.Sections {
		if _, ok := r.sections[s.Name]; !ok {
			r.sections[s.Name] = s
			r.secOrder = append(r.secOrder, s.Name)
		}
	}
	for _, v := range p.Violations {
		if _, seen := r.vioKeys[v.Key]; !seen {
			r.violations = append(r.violations, v)
		}
		r.vioKeys[v.Key] += p.VioCount[v.Key]
		for _, f := range r.known {
			if globMatch(f.Key, v.Key) {
				r.knownHit[f.Key] = true
			}
		}
	}
	r.broken = append(r.broken, p.Broken...)
	if !p.Exhaustive {
		r.exhaustive = false
		if c, ok := p.Notes["cap"].([]interface{}); ok {
			for _, x := range c {
				r.notes["cap"] = appendStr(r.notes["cap"], fmt.Sprint(x))
			}
		}
	}
	return nil
}

// CrashSite extracts a stable signature from a Go crash dump: the panic
// message class and the innermost frames belonging to the repository.
func CrashSite(out string) (string, []string) {
	lines := strings.Split(out, "\n")
	msg := ""
	start := -1
	for i, l := range lines {
		if strings.HasPrefix(l, "panic: ") || strings.HasPrefix(l, "fatal error: ") {
			msg = l
			start = i
			break
		}
	}
	if start < 0 {
		return "", nil
	}
	site := ""
	first := ""
	for _, l := range lines[start+1:] {
		t := strings.TrimSpace(l)
		if first == "" && strings.Contains(t, "(") && !strings.HasPrefix(t, "goroutine ") && !strings.HasPrefix(t, "[") && !strings.HasPrefix(t, "panic(") && !strings.HasPrefix(t, "runtime.") && !strings.HasPrefix(l, "\t") {
			first = t[:strings.LastIndex(t, "(")]
		}
	}
	for _, l := range lines[start:] {
		l = strings.TrimSpace(l)
		if strings.HasPrefix(l, "github.com/ipfs/ipfs-cluster") && !strings.Contains(l, "verifshim") {
			if i := strings.LastIndex(l, "("); i > 0 {
				l = l[:i]
			}
			site = strings.TrimPrefix(l, "github.com/ipfs/ipfs-cluster")
			break
		}
	}
	if site == "" {
		site = first
	}
	// class of the message without addresses
	cls := msg
	if i := strings.Index(cls, "["); i > 0 {
		cls = cls[:i]
	}
	cls = strings.TrimSpace(cls)
	end := start + 40
	if end > len(lines) {
		end = len(lines)
	}
	return cls + " @" + site, lines[start:end]
}

// RunChildren explores the named units in child processes of this test binary
// (test function testName), at most par at a time, and merges their results.
func (r *Run) RunChildren(testName string, units []string, par int, perChild time.Duration) {
	type res struct {
		unit string
		out  []byte
		err  error
		file string
	}
	sem := make(chan struct{}, par)
	done := make(chan res, len(units))
	scratch := os.Getenv("VERIF_SCRATCH")
	if scratch == "" {
		scratch = os.TempDir()
	}
	for i, u := range units {
		go func(i int, u string) {
			sem <- struct{}{}
			defer func() { <-sem }()
			file := filepath.Join(scratch, fmt.Sprintf("partial-%s-%d-%d.json", r.ID, os.Getpid(), i))
			var out []byte
			var err error
			// a child that exceeds its time limit is started over once: a hung
			// bubble (a goroutine blocked for ever on something synctest does
			// not regard as durable) cannot be interrupted from inside
			for attempt := 0; attempt < 2; attempt++ {
				ctx, cancel := context.WithTimeout(context.Background(), perChild)
				cmd := exec.CommandContext(ctx, os.Args[0], "-test.run", "^"+testName+"$", "-test.timeout=0")
				cmd.Env = append(os.Environ(), "VERIF_CHILD="+u, "VERIF_CHILD_OUT="+file)
				cmd.WaitDelay = 5 * time.Second
				out, err = cmd.CombinedOutput()
				timedOut := ctx.Err() != nil
				cancel()
				if !timedOut {
					break
				}
				err = fmt.Errorf("child timed out after %s (attempt %d)", perChild, attempt+1)
				os.Remove(file)
			}
			done <- res{u, out, err, file}
		}(i, u)
	}
	relayed := map[string]bool{}
	results := map[string]res{}
	for range units {
		x := <-done
		results[x.unit] = x
	}
	for _, u := range units {
		x := results[u]
		merged := r.mergePartial(x.file) == nil
		os.Remove(x.file)
		// relay the child's report lines (each distinct line once)
		for _, l := range strings.Split(string(x.out), "\n") {
			if strings.HasPrefix(l, "KNOWN-FINDING:") || strings.HasPrefix(l, "NOTE:") {
				if relayed[l] {
					continue
				}
				relayed[l] = true
			}
			if strings.HasPrefix(l, "VIOLATION ") || strings.HasPrefix(l, "KNOWN-FINDING:") || strings.HasPrefix(l, "  key:") || strings.HasPrefix(l, "E1 ") || strings.HasPrefix(l, "E2 ") || strings.HasPrefix(l, "NOTE:") {
				fmt.Println(l)
			}
		}
		if merged {
			continue
		}
		if site, dump := CrashSite(string(x.out)); site != "" {
			r.Violation(r.ID+"|"+u+"|crash:"+site, map[string]interface{}{"unit": u, "crash": dump})
			r.NotExhaustive(u + ": exploration ended by a crash of the code under test")
			continue
		}
		tail := string(x.out)
		if len(tail) > 2500 {
			tail = tail[len(tail)-2500:]
		}
		r.Broken("child for unit %s failed without a result (%v):\n%s", u, x.err, tail)
	}
}
