// Package e1 is the stateless, preemption-bounded explorer (engine E1): it
// runs a small concurrent scenario on the real, overlay-instrumented code once
// per schedule, each time in a fresh testing/synctest bubble, under the
// cooperative scheduler of verifshim/sched, and enumerates every schedule
// with at most B preemptions by depth-first search over choice prefixes.
package e1

import (
	"fmt"
	"os"
	"runtime/debug"
	"sort"
	"strings"
	"testing"
	"testing/synctest"
	"time"

	"github.com/ipfs/ipfs-cluster/verifshim/sched"

	"verif/harness/lib/ev"
)

// Finding is a violation observed in one execution.
type Finding struct {
	Key    string
	Detail interface{}
}

// Exec is one instantiated scenario (fresh objects).
type Exec struct {
	// Threads are the concurrent callers, keyed by name (run in name order).
	Threads map[string]func()
	// After runs once no thread is enabled any more (scheduler deactivated):
	// it returns a canonical outcome string and any findings. runErr is the
	// scheduler's verdict (deadlock / horizon) or nil.
	After func(runErr error) (outcome string, findings []Finding)
	// Teardown shuts the components down so the bubble can end.
	Teardown func()
}

// Scenario builds a fresh Exec. It is called inside the bubble, with a
// scheduler installed but not yet active.
type Scenario func(t *testing.T) *Exec

// Options bound the exploration.
type Options struct {
	Bound    int           // preemption bound
	MaxExecs int           // cap on executions (0 = none)
	Budget   time.Duration // wall-clock cap (0 = none)
	Horizon  int
	// TolerateND: a replayed prefix that meets a different enabled set than
	// when it was recorded (Go map iteration order or a select with several
	// ready cases inside the code under test: nondeterminism the scheduler
	// cannot own) is counted and explored as it came, instead of aborting.
	// The exploration is then reported as not exhaustive.
	TolerateND bool
}

// Stats is what an exploration covered.
type Stats struct {
	Executions int
	Points     int64
	MaxDepth   int
	Outcomes   map[string]int
	ByPreempt  map[int]int
	Capped     string
	Bound      int
	Diverged   int
}

type result struct {
	steps    []sched.Step
	trace    []string
	outcome  string
	findings []Finding
	runErr   error
	panics   []string
	capped   bool
	clamped  bool
}

// onFatal is called inside the bubble when the execution cannot be torn down
// (deadlock, or a panic that may have left a lock held): it must not return.
func runOnce(t *testing.T, sc Scenario, prefix []int, expect [][]string, horizon int, onFatal func(*result), tolerateND bool) (res *result, internal error) {
	res = &result{}
	synctest.Test(t, func(t *testing.T) {
		s := sched.New()
		if horizon > 0 {
			s.Horizon = horizon
		}
		ex := sc(t)
		// let every goroutine the constructors spawned reach its blocking
		// point in pass-through mode, so the managed set is deterministic
		synctest.Wait()
		names := make([]string, 0, len(ex.Threads))
		for n := range ex.Threads {
			names = append(names, n)
		}
		sort.Strings(names)
		s.Activate()
		for _, n := range names {
			f := ex.Threads[n]
			n := n
			s.Go(n, func() {
				defer func() {
					if r := recover(); r != nil {
						res.panics = append(res.panics, fmt.Sprintf("thread %s panicked: %v\n%s", n, r, trimStack(debug.Stack())))
					}
				}()
				f()
			})
		}
		res.runErr = s.Run(synctest.Wait, func(i, n int) int {
			if i < len(prefix) {
				if prefix[i] >= n && tolerateND {
					res.clamped = true
					return 0
				}
				return prefix[i]
			}
			return 0
		})
		res.steps = s.Steps
		res.trace = s.Trace()
		res.capped = s.Capped
		// divergence check against what was recorded when this prefix was generated
		for i := 0; i < len(expect) && i < len(res.steps); i++ {
			if strings.Join(expect[i], ",") != strings.Join(res.steps[i].Enabled, ",") {
				internal = fmt.Errorf("nondeterminism: at decision %d enabled=%v, but %v when the prefix was recorded", i, res.steps[i].Enabled, expect[i])
				break
			}
		}
		if s.Deadlock {
			// Goroutines are stuck: the bubble could never end. Report from
			// here and leave the process.
			res.outcome = "DEADLOCK"
			if onFatal != nil {
				onFatal(res)
			}
			return
		}
		if len(res.panics) > 0 {
			// the panicking call may have left a lock held: running After or
			// Teardown on this instance could hang forever
			res.outcome = "PANIC"
			if onFatal != nil {
				onFatal(res)
			}
			return
		}
		s.Deactivate()
		res.outcome, res.findings = ex.After(res.runErr)
		if ex.Teardown != nil {
			ex.Teardown()
		}
		s.Uninstall()
	})
	return res, internal
}

func trimStack(b []byte) string {
	l := strings.Split(string(b), "\n")
	if len(l) > 24 {
		l = l[:24]
	}
	return strings.Join(l, "\n")
}

// Explore enumerates all schedules of sc with at most opt.Bound preemptions.
func Explore(t *testing.T, R *ev.Run, sec *ev.Section, name string, sc Scenario, opt Options) Stats {
	st := Stats{Outcomes: map[string]int{}, ByPreempt: map[int]int{}, Bound: opt.Bound}
	start := time.Now()
	fatal := func(x *result) { reportFatal(R, sec, name, x, &st) }
	// determinism guard: the default schedule twice
	a, e1 := runOnce(t, sc, nil, nil, opt.Horizon, fatal, opt.TolerateND)
	b, e2 := runOnce(t, sc, nil, nil, opt.Horizon, fatal, opt.TolerateND)
	if !opt.TolerateND && (e1 != nil || e2 != nil || fmt.Sprint(a.trace) != fmt.Sprint(b.trace) || a.outcome != b.outcome) {
		R.Broken("%s: the default schedule is not reproducible (trace or outcome differ between two runs): nondeterminism not owned by the scheduler\nA=%v\nB=%v", name, a.trace, b.trace)
		return st
	}
	type item struct {
		prefix []int
		expect [][]string
	}
	stack := []item{{nil, nil}}
	for len(stack) > 0 {
		it := stack[len(stack)-1]
		stack = stack[:len(stack)-1]
		if opt.MaxExecs > 0 && st.Executions >= opt.MaxExecs {
			st.Capped = fmt.Sprintf("execution cap %d", opt.MaxExecs)
			break
		}
		if opt.Budget > 0 && time.Since(start) > opt.Budget {
			st.Capped = fmt.Sprintf("time budget %s", opt.Budget)
			break
		}
		x, ierr := runOnce(t, sc, it.prefix, it.expect, opt.Horizon, fatal, opt.TolerateND)
		if ierr != nil {
			if !opt.TolerateND {
				R.Broken("%s: %v (prefix %v)", name, ierr, it.prefix)
				return st
			}
			st.Diverged++
		}
		st.Executions++
		st.Points += int64(len(x.steps))
		if len(x.steps) > st.MaxDepth {
			st.MaxDepth = len(x.steps)
		}
		choices := make([]int, len(x.steps))
		pre := 0
		preAt := make([]int, len(x.steps)+1)
		for i, s := range x.steps {
			preAt[i] = pre
			choices[i] = s.Choice
			if s.RunningEnabled && s.Choice != 0 {
				pre++
			}
		}
		preAt[len(x.steps)] = pre
		st.ByPreempt[pre]++
		st.Outcomes[x.outcome]++
		R.Eval(sec, name+"|"+x.outcome, true)
		R.Transitions(int64(len(x.steps)))
		if x.capped {
			x.findings = append(x.findings, Finding{Key: "livelock", Detail: x.runErr.Error()})
		} else if x.runErr != nil && x.outcome != "DEADLOCK" {
			R.Broken("%s: %v (prefix %v)", name, x.runErr, it.prefix)
			return st
		}
		for _, f := range x.findings {
			R.Violation(R.ID+"|"+name+"|"+f.Key, map[string]interface{}{
				"scenario": name, "choices": choices, "schedule": x.trace, "outcome": x.outcome, "finding": f.Detail,
				"replay": fmt.Sprintf("VERIF_SCENARIO=%s VERIF_REPLAY_CHOICES=%s ./vcheck %s", name, joinInts(choices), R.ID),
			})
		}
		if st.Executions <= 2 {
			R.SampleTagged(name, 1, map[string]interface{}{"schedule": x.trace, "outcome": x.outcome})
		}
		// children: deviate at every decision after the prefix
		for i := len(x.steps) - 1; i >= len(it.prefix); i-- {
			s := x.steps[i]
			cost := preAt[i]
			if s.RunningEnabled {
				cost++
			}
			if cost > opt.Bound {
				continue
			}
			for alt := len(s.Enabled) - 1; alt >= 1; alt-- {
				np := append(append([]int{}, choices[:i]...), alt)
				ne := make([][]string, i+1)
				for k := 0; k <= i; k++ {
					ne[k] = x.steps[k].Enabled
				}
				stack = append(stack, item{np, ne})
			}
		}
	}
	if st.Diverged > 0 {
		R.NotExhaustive(fmt.Sprintf("%s: %d replays diverged (map iteration / select nondeterminism inside the code under test)", name, st.Diverged))
		sec.Exhaustive = false
	}
	if st.Capped != "" {
		R.NotExhaustive(name + ": " + st.Capped)
		sec.Exhaustive = false
		sec.CapHit = st.Capped
	}
	sec.Bounds[name] = map[string]interface{}{"preemption_bound": opt.Bound, "executions": st.Executions, "scheduling_points": st.Points,
		"max_depth": st.MaxDepth, "distinct_outcomes": len(st.Outcomes), "by_preemptions": st.ByPreempt, "outcomes": st.Outcomes, "diverged_replays": st.Diverged}
	R.States(sec, int64(len(st.Outcomes)))
	return st
}

func reportFatal(R *ev.Run, sec *ev.Section, name string, x *result, st *Stats) {
	choices := make([]int, len(x.steps))
	for i, s := range x.steps {
		choices[i] = s.Choice
	}
	R.Eval(sec, name+"|"+x.outcome, true)
	R.Transitions(int64(len(x.steps)))
	R.States(sec, 1)
	detail := map[string]interface{}{"scenario": name, "choices": choices, "schedule": x.trace,
		"replay": fmt.Sprintf("VERIF_SCENARIO=%s VERIF_REPLAY_CHOICES=%s ./vcheck %s", name, joinInts(choices), R.ID)}
	if x.outcome == "DEADLOCK" {
		detail["error"] = fmt.Sprint(x.runErr)
		R.Violation(R.ID+"|"+name+"|deadlock", detail)
	} else {
		detail["panics"] = x.panics
		R.Violation(R.ID+"|"+name+"|panic:"+panicSite(x.panics[0]), detail)
	}
	sec.Bounds[name] = map[string]interface{}{"executions_before_fatal": st.Executions, "ended_by": x.outcome}
	fmt.Printf("E1 %-28s ended by %s after %d executions\n", name, x.outcome, st.Executions)
	R.NotExhaustive(name + ": exploration ended at the first " + strings.ToLower(x.outcome) + " (the instance cannot be torn down)")
	if ev.ChildUnit() != "" {
		os.Exit(R.SavePartial())
	}
	os.Exit(R.Finish())
}

// panicSite extracts "message-class @innermost repository function".
func panicSite(p string) string {
	lines := strings.Split(p, "\n")
	msg := lines[0]
	if i := strings.Index(msg, "panicked: "); i >= 0 {
		msg = msg[i+len("panicked: "):]
	}
	if i := strings.Index(msg, "["); i > 0 {
		msg = strings.TrimSpace(msg[:i])
	}
	for _, l := range lines[1:] {
		l = strings.TrimSpace(l)
		if strings.HasPrefix(l, "github.com/ipfs/ipfs-cluster") && !strings.Contains(l, "verifshim") {
			if i := strings.LastIndex(l, "("); i > 0 {
				l = l[:i]
			}
			return msg + " @" + strings.TrimPrefix(l, "github.com/ipfs/ipfs-cluster")
		}
	}
	return msg
}

func joinInts(a []int) string {
	s := make([]string, len(a))
	for i, x := range a {
		s[i] = fmt.Sprint(x)
	}
	return strings.Join(s, ",")
}

// Replay runs one recorded schedule and returns its outcome and findings.
func Replay(t *testing.T, sc Scenario, choices []int) (string, []Finding, []string) {
	var out *result
	x, _ := runOnce(t, sc, choices, nil, 0, func(r *result) {
		fmt.Println("REPLAY ended by", r.outcome)
		for _, l := range r.trace {
			fmt.Println("  ", l)
		}
		for _, p := range r.panics {
			fmt.Println(p)
		}
		os.Exit(1)
	}, true)
	out = x
	return out.outcome, out.findings, out.trace
}
