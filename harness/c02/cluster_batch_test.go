package c02

import (
	"context"
	"fmt"
	"strings"
	"testing"
	"testing/synctest"
	"time"

	"github.com/ipfs/ipfs-cluster/api"
	"github.com/ipfs/ipfs-cluster/consensus/crdt"
	"github.com/ipfs/ipfs-cluster/datastore/inmem"

	dual "github.com/libp2p/go-libp2p-kad-dht/dual"
	pubsub "github.com/libp2p/go-libp2p-pubsub"

	"verif/harness/lib/clus"
	"verif/harness/lib/ev"
)

// The other sections drive the consensus component directly. Here the
// operations go through the Cluster facade (Pin / Unpin) of a real peer whose
// consensus is the real crdt component with batching on: the facade decides
// on the committed pinset while earlier accepted operations may still sit in
// the open batch. Every sequence of up to 3 (thorough 4) facade calls after a
// committed Pin(A): once everything accepted has been committed, the pinset
// is the accepted calls applied in order.

type fcall struct {
	Unpin bool
	Cid   int // 0 = A, 1 = B
	Name  string
}

func (c fcall) String() string {
	l := []string{"A", "B"}[c.Cid]
	if c.Unpin {
		return "Unpin(" + l + ")"
	}
	return fmt.Sprintf("Pin(%s,name=%s)", l, c.Name)
}

func TestClusterOverBatchingCRDT(t *testing.T) {
	sec := R.Sec("cluster-facade-over-batching-crdt")
	alpha := []fcall{{false, 0, "n1"}, {false, 0, "n2"}, {true, 0, ""}, {false, 1, "n1"}, {true, 1, ""}}
	maxLen := 3
	if ev.Thorough() {
		maxLen = 4
	}
	var seqs [][]fcall
	var rec func(p []fcall)
	rec = func(p []fcall) {
		if len(p) > 0 {
			seqs = append(seqs, append([]fcall{}, p...))
		}
		if len(p) == maxLen {
			return
		}
		for _, a := range alpha {
			rec(append(p, a))
		}
	}
	rec(nil)
	type bcfg struct {
		size int
		age  time.Duration
	}
	cfgs := []bcfg{{2, time.Hour}, {10, 5 * time.Second}}
	cids := []string{"facade-A", "facade-B"}
	n := 0
	for _, bc := range cfgs {
		for _, seq := range seqs {
			bc, seq := bc, seq
			var got, want map[string]string
			var accepted []string
			broken := ""
			clus.Bubble(t, func(t *testing.T) {
				ctx := context.Background()
				_, hosts := clus.NewMocknetUnconnected(ctx, 0, 1)
				h := hosts[0]
				defer h.Close()
				ps, err := pubsub.NewFloodSub(ctx, h, pubsub.WithMessageSigning(true), pubsub.WithStrictSignatureVerification(true))
				if err != nil {
					broken = err.Error()
					return
				}
				dht, err := dual.New(ctx, h)
				if err != nil {
					broken = err.Error()
					return
				}
				ccfg := &crdt.Config{}
				ccfg.Default()
				ccfg.ClusterName = "verif-facade"
				ccfg.TrustAll = true
				ccfg.Batching.MaxBatchSize = bc.size
				ccfg.Batching.MaxBatchAge = bc.age
				ccfg.Batching.MaxQueueSize = 100
				cons, err := crdt.New(h, dht, ps, ccfg, inmem.New())
				if err != nil {
					broken = err.Error()
					return
				}
				p, err := clus.NewPeer(ctx, &clus.PeerParts{Host: h, Consensus: cons, DHT: dht})
				if err != nil {
					broken = err.Error()
					return
				}
				defer p.Stop()
				select {
				case <-p.C.Ready():
				case <-time.After(2 * time.Minute):
					broken = "peer not ready"
					return
				}
				flush := func() {
					time.Sleep(bc.age + time.Second)
					synctest.Wait()
					time.Sleep(time.Second)
					synctest.Wait()
				}
				ref := map[string]string{}
				do := func(c fcall) {
					ci := clus.Cid(cids[c.Cid])
					var err error
					if c.Unpin {
						_, err = p.C.Unpin(ctx, ci)
					} else {
						_, err = p.C.Pin(ctx, ci, api.PinOptions{Name: c.Name, ReplicationFactorMin: -1, ReplicationFactorMax: -1})
					}
					synctest.Wait()
					if err != nil {
						accepted = append(accepted, c.String()+":refused")
						return
					}
					accepted = append(accepted, c.String()+":accepted")
					if c.Unpin {
						delete(ref, cids[c.Cid])
					} else {
						ref[cids[c.Cid]] = c.Name
					}
				}
				do(fcall{false, 0, "n1"})
				flush() // the prelude is committed
				for _, c := range seq {
					do(c)
				}
				flush()
				flush()
				got = map[string]string{}
				pins, err := p.C.Pins(ctx)
				if err != nil {
					broken = "Pins: " + err.Error()
					return
				}
				for _, pin := range pins {
					for i, l := range cids {
						if pin.Cid.Equals(clus.Cid(l)) {
							got[cids[i]] = pin.Name
						}
					}
				}
				want = ref
			})
			if broken != "" {
				R.Broken("cluster-facade section: %s", broken)
				return
			}
			n++
			var s []string
			for _, c := range seq {
				s = append(s, c.String())
			}
			ok := fmt.Sprint(got) == fmt.Sprint(want)
			R.Eval(sec, fmt.Sprintf("size=%d,age=%s|%s|%s|ok=%v", bc.size, bc.age, strings.Join(s, " "), strings.Join(accepted, ","), ok), true)
			if !ok {
				sym := "accepted-op-lost-or-reordered"
				R.Violation(fmt.Sprintf("C02|cluster-facade|%s|size%d", sym, bc.size), map[string]interface{}{
					"batching": fmt.Sprintf("max size %d, max age %s", bc.size, bc.age), "prelude": "Pin(A,name=n1), committed",
					"calls": s, "answers": accepted, "pinset_after_everything_was_committed": got, "accepted_calls_applied_in_order": want})
			}
		}
	}
	sec.Bounds["sequences"] = fmt.Sprintf("%d executions: every sequence of 1..%d calls over {Pin(A,n1), Pin(A,n2), Unpin(A), Pin(B,n1), Unpin(B)} after a committed Pin(A,n1) x batching {size 2 / age 1h, size 10 / age 5s}", n, maxLen)
}
