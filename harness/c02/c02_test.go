// Package c02 decides C02 (CRDT: replicas converge; batching neither loses nor
// reorders operations) by exhaustive enumeration of short histories on REAL
// crdt.Consensus replicas (go-ds-crdt, ipfs-lite/bitswap, libp2p pubsub) over
// a mocknet inside testing/synctest bubbles.
package c02

import (
	"context"
	"errors"
	"fmt"
	peer "github.com/libp2p/go-libp2p-core/peer"
	"os"
	"sort"
	"strconv"
	"strings"
	"testing"
	"testing/synctest"
	"time"

	"github.com/ipfs/ipfs-cluster/api"
	"github.com/ipfs/ipfs-cluster/consensus/crdt"

	cid "github.com/ipfs/go-cid"
	mocknet "github.com/libp2p/go-libp2p/p2p/net/mock"

	"verif/harness/lib/clus"
	"verif/harness/lib/ev"
)

var R *ev.Run

const nShards = 12

func TestMain(m *testing.M) {
	R = ev.New("C02", "model_checking")
	R.Rule("one evaluation = one history executed on real crdt replicas in a fresh bubble: (a) single replica: operations over 2 CIDs x batching configuration x age ticks x injected datastore failures; (b) 2-3 replicas: operations at any replica x link/unlink events x sync points, fully meshed and trusting each other, or in a line where the two mutually trusting replicas only reach each other through a relay neither of them trusts; states = distinct canonical (visible pinset per replica, pending batch size, link state) observed at quiescent points; transitions = events applied; distinct_nontrivial = distinct (history shape, outcome) pairs")
	R.Assume("datastore failures are injected as a failing block Put or a failing batch Commit of the datastore handed to crdt.New (no partial writes inside go-ds-crdt's own merge)")
	R.Assume("for writes to one CID issued on different replicas between two sync points only agreement is required (the text does not say which concurrent write wins)")
	ev.Main(m.Run, R)
}

var variants = clus.PinAlphabet()

// withRequestCtx submits an operation the way a request handler does: with a
// context of its own that ends as soon as the call has returned. An accepted
// operation must not depend on the caller still being around.
func withRequestCtx(parent context.Context, f func(context.Context) error) error {
	rc, cancel := context.WithCancel(parent)
	defer cancel()
	return f(rc)
}

// cidOf: c0 is the CIDv1/dag-pb and c1 the CIDv0 of one sha2-256 multihash -
// the two spellings (bafybei... / Qm...) of one content, which differ in the
// version only. They are different CIDs and therefore different entries, and
// every history that uses both checks it at no extra cost. (A key function that
// merged a raw CIDv1 with the CIDv0 would merge these two as well.)
func cidOf(i int) cid.Cid {
	switch i {
	case 0:
		return cid.NewCidV1(cid.DagProtobuf, clus.Cid("c0").Hash())
	case 1:
		return clus.CidV0("c0")
	}
	return clus.Cid(fmt.Sprintf("c%d", i))
}

type finding struct{ key, detail string }

// ---------------------------------------------------------------- part (a)

type bcfg struct {
	Name  string
	Size  int
	Age   time.Duration
	Queue int
}

var bcfgs = []bcfg{
	{"off", 0, 0, 100},
	{"size2", 2, time.Hour, 100},
	{"size3", 3, time.Hour, 100},
	{"age5s", 100, 5 * time.Second, 100},
	{"size2-age5s", 2, 5 * time.Second, 100},
	{"queue1", 2, 5 * time.Second, 1},
}

// single-replica events
type sev struct {
	Kind string // pin | unpin | tick | failput | failcommit
	V, C int
}

func (e sev) String() string {
	switch e.Kind {
	case "pin":
		return fmt.Sprintf("pin(%s,c%d)", variants[e.V].Name, e.C)
	case "unpin":
		return fmt.Sprintf("unpin(c%d)", e.C)
	}
	return e.Kind
}

type accepted struct {
	unpin bool
	pin   *api.Pin
}

func applyOps(ops []accepted) map[string]string {
	m := map[string]string{}
	for _, o := range ops {
		if o.unpin {
			delete(m, o.pin.Cid.String())
		} else {
			m[o.pin.Cid.String()] = clus.PinSig(o.pin)
		}
	}
	return m
}

func sigOf(m map[string]string) string {
	var s []string
	for _, v := range m {
		s = append(s, v)
	}
	sort.Strings(s)
	return strings.Join(s, "\n")
}

func stateSig(ctx context.Context, c *crdt.Consensus) (string, error) {
	st, err := c.State(ctx)
	if err != nil {
		return "", err
	}
	l, err := st.List(ctx)
	if err != nil {
		return "", err
	}
	return strings.Join(clus.PinsetSig(l), "\n"), nil
}

// runSingle executes one single-replica history.
func runSingle(t *testing.T, cfg bcfg, evs []sev) (outcome string, viol []finding, states map[string]bool, trans int) {
	outcome = "ok"
	states = map[string]bool{}
	clus.Bubble(t, func(t *testing.T) {
		ctx := context.Background()
		_, hosts := clus.NewMocknetUnconnected(ctx, 0, 1)
		store := clus.NewFaultStore()
		p, err := clus.NewCRDTPeer(ctx, hosts[0], store, false, func(c *crdt.Config) {
			c.Batching.MaxBatchSize = cfg.Size
			c.Batching.MaxBatchAge = cfg.Age
			c.Batching.MaxQueueSize = cfg.Queue
		})
		if err != nil {
			t.Fatal(err)
		}
		defer func() { p.Stop(); hosts[0].Close() }()
		select {
		case <-p.Cons.Ready(ctx):
		case <-time.After(time.Minute):
			R.Broken("crdt replica not ready")
			return
		}
		synctest.Wait()
		var acc []accepted     // every accepted operation, submission order
		var visible []accepted // model: operations that must be visible by now
		var pending []accepted // model: accepted, batch not yet due
		var batchStart time.Time
		faulted := false // a failure was injected: the model only constrains the flushed end state
		fail := func(key, f string, a ...interface{}) { viol = append(viol, finding{key, fmt.Sprintf(f, a...)}) }
		commitModel := func() {
			visible = append(visible, pending...)
			pending = nil
		}
		check := func(where string) {
			sig, err := stateSig(ctx, p.Cons)
			if err != nil {
				fail("state-error", "%s: %v", where, err)
				return
			}
			states[fmt.Sprintf("%s|pending=%d|faulted=%v", sig, len(pending), faulted)] = true
			if faulted {
				return
			}
			if want := sigOf(applyOps(visible)); sig != want {
				key := "visible-state-differs"
				if len(pending) > 0 && sig == sigOf(applyOps(append(append([]accepted{}, visible...), pending...))) {
					key = "batch-visible-before-size-or-age-limit"
				}
				fail(key, "%s: visible pinset\n%s\nbut the accepted operations whose batch is due give\n%s\n(pending in the open batch: %d)", where, sig, want, len(pending))
			}
		}
		for i, e := range evs {
			trans++
			switch e.Kind {
			case "pin", "unpin":
				var a accepted
				var err error
				if e.Kind == "pin" {
					a.pin = variants[e.V].Make(cidOf(e.C))
					err = withRequestCtx(ctx, func(rc context.Context) error { return p.Cons.LogPin(rc, variants[e.V].Make(cidOf(e.C))) })
				} else {
					a.unpin = true
					a.pin = api.PinCid(cidOf(e.C))
					err = withRequestCtx(ctx, func(rc context.Context) error { return p.Cons.LogUnpin(rc, api.PinCid(cidOf(e.C))) })
				}
				if err != nil {
					if !faulted && !errors.Is(err, crdt.ErrMaxQueueSizeReached) {
						fail("op-error-without-fault", "event %d %s returned %v with no injected failure", i, e, err)
					}
					break // refused: must have no effect, ever
				}
				acc = append(acc, a)
				if cfg.Size == 0 {
					visible = append(visible, a)
				} else {
					if len(pending) == 0 {
						batchStart = time.Now()
					}
					pending = append(pending, a)
					if len(pending) >= cfg.Size {
						commitModel()
					}
				}
			case "tick":
				time.Sleep(cfg.Age + time.Second)
				if len(pending) > 0 && time.Since(batchStart) >= cfg.Age {
					commitModel()
				}
			case "trickle":
				time.Sleep(cfg.Age * 6 / 10)
				if len(pending) > 0 && time.Since(batchStart) >= cfg.Age {
					commitModel()
				}
			case "failput":
				store.FailPuts(1)
				faulted = true
			case "failcommit":
				store.FailCommits(1)
				faulted = true
			case "park":
				// the worker blocks in its next commit: a burst then meets a
				// full queue. From here the model only constrains the end state.
				store.Park(true)
				faulted = true
			case "release":
				store.Park(false)
			}
			synctest.Wait()
			check(fmt.Sprintf("after event %d (%s)", i, e))
		}
		// ---- flush: the age limit passes (several times) with a healthy
		// datastore; afterwards every accepted operation must be visible
		store.FailPuts(0)
		store.FailCommits(0)
		store.Park(false)
		if cfg.Size > 0 {
			for k := 0; k < 3 && cfg.Age < time.Hour; k++ {
				time.Sleep(cfg.Age + time.Second)
				synctest.Wait()
			}
			if cfg.Age >= time.Hour && !faulted {
				// size-only configuration: the open batch is legitimately not due
				acc = acc[:len(acc)-len(pending)]
			}
		}
		synctest.Wait()
		sig, err := stateSig(ctx, p.Cons)
		want := sigOf(applyOps(acc))
		if err != nil {
			fail("state-error", "final: %v", err)
		} else if sig != want {
			key := "accepted-op-lost-or-reordered"
			if cfg.Name == "queue1" {
				key = "queue-burst:refused-op-took-effect-or-accepted-op-lost"
			} else if faulted {
				key = "after-fault:accepted-op-not-committed-although-age-limit-passed"
				if cfg.Age >= time.Hour {
					key = "" // size-only + fault: no trigger is due, nothing to demand
				}
			}
			if key != "" {
				fail(key, "final: after the age limit passed 3 times with a healthy datastore the pinset is\n%s\nbut the accepted operations give\n%s", sig, want)
			}
		} else {
			// every change that landed in the pinset was handed to the tracker
			tracked := map[string]bool{}
			untracked := map[string]bool{}
			for _, c := range p.Rec.Snapshot() {
				pin := c.Arg.(*api.Pin)
				if c.Method == "Track" {
					tracked[clus.PinSig(pin)] = true
				} else {
					untracked[pin.Cid.String()] = true
				}
			}
			final := applyOps(acc)
			for _, v := range final {
				if !tracked[v] {
					fail("state-change-not-handed-to-tracker", "pin in the pinset was never given to the tracker with its stored content: %s", v)
				}
			}
			// a CID that was visible and then removed must have been untracked
			seen := map[string]bool{}
			for _, a := range acc {
				if !a.unpin {
					seen[a.pin.Cid.String()] = true
				}
			}
			for c := range seen {
				if _, in := final[c]; !in && !untracked[c] && tracked != nil {
					// only demanded when the pin itself became visible (was tracked)
					was := false
					for k := range tracked {
						if strings.Contains(k, "cid="+c+" ") {
							was = true
						}
					}
					if was {
						fail("state-change-not-handed-to-tracker", "cid %s was pinned (tracked) and then removed from the pinset but Untrack was never called", c)
					}
				}
			}
		}
	})
	for _, v := range viol {
		outcome = "violation"
		_ = v
	}
	return
}

func singleHistories() (out []struct {
	cfg bcfg
	evs []sev
}) {
	th := ev.Thorough()
	maxLen := 4
	if th {
		maxLen = 5
	}
	ops := []sev{{"pin", 0, 0}, {"pin", 1, 0}, {"unpin", 0, 0}, {"pin", 0, 1}}
	if th {
		ops = append(ops, sev{"unpin", 0, 1}, sev{"pin", 3, 1})
	}
	for _, cfg := range bcfgs {
		if cfg.Name == "queue1" {
			// [0-1 op] park [burst of 2..4 (thorough 5) ops] release
			small := []sev{{"pin", 0, 0}, {"pin", 1, 0}, {"unpin", 0, 0}}
			maxBurst := 4
			if th {
				maxBurst = 5
			}
			var bursts [][]sev
			var gen func(p []sev)
			gen = func(p []sev) {
				if len(p) >= 2 {
					bursts = append(bursts, append([]sev{}, p...))
				}
				if len(p) == maxBurst {
					return
				}
				for _, a := range small {
					gen(append(p, a))
				}
			}
			gen(nil)
			prefixes := [][]sev{nil}
			for _, a := range small {
				prefixes = append(prefixes, []sev{a})
			}
			for _, pre := range prefixes {
				for _, b := range bursts {
					evs := append(append(append([]sev{}, pre...), sev{Kind: "park"}), b...)
					evs = append(evs, sev{Kind: "release"})
					out = append(out, struct {
						cfg bcfg
						evs []sev
					}{cfg, evs})
				}
			}
			continue
		}
		alpha := append([]sev{}, ops...)
		if cfg.Size > 0 && cfg.Age < time.Hour {
			// tick: a whole age limit passes; trickle: 0.6 of it (two of them
			// carry an open batch past its age limit although no gap between
			// operations is as long as the limit)
			alpha = append(alpha, sev{Kind: "tick"}, sev{Kind: "trickle"})
		}
		faults := []sev{{Kind: "failput"}, {Kind: "failcommit"}}
		var rec func(prefix []sev, nfault int)
		rec = func(prefix []sev, nfault int) {
			if len(prefix) > 0 {
				out = append(out, struct {
					cfg bcfg
					evs []sev
				}{cfg, append([]sev{}, prefix...)})
			}
			if len(prefix) == maxLen {
				return
			}
			for _, a := range alpha {
				rec(append(prefix, a), nfault)
			}
			maxFault := 1
			if th {
				maxFault = 2
			}
			if nfault < maxFault && len(prefix) < maxLen-1 {
				for _, f := range faults {
					rec(append(prefix, f), nfault+1)
				}
			}
		}
		rec(nil, 0)
	}
	return
}

// ---------------------------------------------------------------- part (b)

type mev struct {
	Kind string // pin | unpin | unlink | link | sync
	R    int    // replica
	V, C int
}

func (e mev) String() string {
	switch e.Kind {
	case "pin":
		return fmt.Sprintf("pin(%s,c%d)@%d", variants[e.V].Name, e.C, e.R)
	case "unpin":
		return fmt.Sprintf("unpin(c%d)@%d", e.C, e.R)
	}
	return e.Kind
}

// relayMode: three replicas in a line 0 - 1 - 2. Replicas 0 and 2 trust each
// other only; replica 1 trusts everybody and nobody trusts it. Every update
// between the two mutually trusting replicas arrives forwarded by a neighbour
// the receiver does not trust.
var relayMode bool

func setLinks(mn mocknet.Mocknet, peers []*clus.CRDTPeer, up bool) {
	for i := range peers {
		for j := i + 1; j < len(peers); j++ {
			a, b := peers[i].Host.ID(), peers[j].Host.ID()
			if relayMode && j-i != 1 {
				continue // never linked
			}
			if up {
				mn.LinkPeers(a, b)
				mn.ConnectPeers(a, b)
			} else {
				mn.DisconnectPeers(a, b)
				mn.UnlinkPeers(a, b)
			}
		}
	}
}

func runMulti(t *testing.T, n int, gossip bool, batching bool, relay bool, evs []mev) (outcome string, viol []finding, states map[string]bool, trans int) {
	outcome = "ok"
	states = map[string]bool{}
	relayMode = relay
	clus.Bubble(t, func(t *testing.T) {
		ctx := context.Background()
		mn, hosts := clus.NewMocknetUnconnected(ctx, 0, n)
		if relay {
			mn.UnlinkPeers(hosts[0].ID(), hosts[2].ID())
		}
		var peers []*clus.CRDTPeer
		for i, h := range hosts {
			i := i
			p, err := clus.NewCRDTPeer(ctx, h, clus.NewFaultStore(), gossip, func(c *crdt.Config) {
				if relay && i != 1 {
					c.TrustAll = false
					// each of the two lists the other one only (a peer need
					// not list itself to take part)
					c.TrustedPeers = []peer.ID{hosts[2-i].ID()}
				}
				if batching {
					c.Batching.MaxBatchSize = 2
					c.Batching.MaxBatchAge = 3 * time.Second
				}
			})
			if err != nil {
				t.Fatal(err)
			}
			peers = append(peers, p)
		}
		defer func() {
			for _, p := range peers {
				p.Stop()
				p.Host.Close()
			}
		}()
		for _, p := range peers {
			select {
			case <-p.Cons.Ready(ctx):
			case <-time.After(time.Minute):
				R.Broken("crdt replica not ready")
				return
			}
		}
		if relay {
			setLinks(mn, peers, true)
		} else {
			mn.ConnectAllButSelf()
		}
		time.Sleep(2 * time.Second) // pubsub hello / subscription exchange
		synctest.Wait()
		fail := func(key, f string, a ...interface{}) { viol = append(viol, finding{key, fmt.Sprintf(f, a...)}) }
		sigs := func() []string {
			var s []string
			for _, p := range peers {
				x, err := stateSig(ctx, p.Cons)
				if err != nil {
					x = "ERR " + err.Error()
				}
				s = append(s, x)
			}
			return s
		}
		// converge: everything linked, tick rebroadcast rounds until all equal
		// and unchanged for two rounds (bounded)
		converge := func() bool {
			setLinks(mn, peers, true)
			prev := ""
			stable := 0
			for round := 0; round < 45; round++ {
				time.Sleep(11 * time.Second)
				synctest.Wait()
				s := sigs()
				all := true
				for k, x := range s[1:] {
					if relay && k+1 == 1 {
						continue // only replicas that trust each other are compared
					}
					if x != s[0] {
						all = false
					}
				}
				cur := strings.Join(s, "\n##\n")
				if all && cur == prev {
					stable++
					if stable >= 2 {
						return true
					}
				} else {
					stable = 0
				}
				prev = cur
			}
			return false
		}
		sinceSync := map[string][]issued{}
		atSync := map[string]string{} // cid -> sig at the last sync point ("" = absent)
		linked := true
		for i, e := range evs {
			trans++
			switch e.Kind {
			case "pin", "unpin":
				var a accepted
				var err error
				if e.Kind == "pin" {
					a.pin = variants[e.V].Make(cidOf(e.C))
					a.pin.Name = fmt.Sprintf("op%d", i)
					q := variants[e.V].Make(cidOf(e.C))
					q.Name = a.pin.Name
					err = withRequestCtx(ctx, func(rc context.Context) error { return peers[e.R].Cons.LogPin(rc, q) })
				} else {
					a.unpin = true
					a.pin = api.PinCid(cidOf(e.C))
					err = withRequestCtx(ctx, func(rc context.Context) error { return peers[e.R].Cons.LogUnpin(rc, api.PinCid(cidOf(e.C))) })
				}
				if err != nil {
					fail("op-error-without-fault", "event %d %s: %v", i, e, err)
					break
				}
				k := a.pin.Cid.String()
				sinceSync[k] = append(sinceSync[k], issued{e.R, a})
			case "unlink":
				setLinks(mn, peers, false)
				linked = false
			case "link":
				setLinks(mn, peers, true)
				linked = true
			case "sync":
				if !converge() {
					fail("no-convergence:"+divergenceClass(ctx, peers, sinceSync), "sync point at event %d: replicas that exchanged all updates still differ:\n%s", i, strings.Join(sigs(), "\n##\n"))
				}
				linked = true
			}
			time.Sleep(4 * time.Second)
			synctest.Wait()
			states[fmt.Sprintf("%v|linked=%v", sigs(), linked)] = true
			if e.Kind == "sync" {
				// judge the CIDs written since the previous sync point, then reset
				judge(peers[0], ctx, sinceSync, atSync, fail, fmt.Sprintf("sync at event %d", i))
				sinceSync = map[string][]issued{}
			}
		}
		// final phase
		if !converge() {
			fail("no-convergence:"+divergenceClass(ctx, peers, sinceSync), "final: replicas that trust each other and exchanged all updates hold different pinsets:\n%s", strings.Join(sigs(), "\n##\n"))
			return
		}
		judge(peers[0], ctx, sinceSync, atSync, fail, "final")
		// every change that landed in a replica's pinset was handed to its tracker
		for ri, p := range peers {
			st, _ := p.Cons.State(ctx)
			l, _ := st.List(ctx)
			tracked := map[string]bool{}
			for _, c := range p.Rec.Snapshot() {
				if c.Method == "Track" {
					tracked[clus.PinSig(c.Arg.(*api.Pin))] = true
				}
			}
			for _, pin := range l {
				if !tracked[clus.PinSig(pin)] {
					fail("state-change-not-handed-to-tracker", "replica %d holds %s but its tracker was never given that pin", ri, clus.PinSig(pin))
				}
			}
		}
	})
	if len(viol) > 0 {
		outcome = "violation"
	}
	return
}

type issued struct {
	replica int
	a       accepted
}

// judge applies the causality rule at a sync point: for a CID whose writes
// since the last sync point were all issued at one replica, the converged
// value is the last of them (submission order per CID); otherwise only
// agreement (already established by converge) is required.
func judge(p *clus.CRDTPeer, ctx context.Context, since map[string][]issued, atSync map[string]string, fail func(string, string, ...interface{}), where string) {
	st, err := p.Cons.State(ctx)
	if err != nil {
		fail("state-error", "%s: %v", where, err)
		return
	}
	l, _ := st.List(ctx)
	cur := map[string]string{}
	for _, pin := range l {
		cur[pin.Cid.String()] = clus.PinSig(pin)
	}
	for c, ops := range since {
		one := true
		for _, o := range ops[1:] {
			if o.replica != ops[0].replica {
				one = false
			}
		}
		if one {
			last := ops[len(ops)-1].a
			want := ""
			if !last.unpin {
				want = clus.PinSig(last.pin)
			}
			if cur[c] != want {
				fail("causally-last-write-lost", "%s: all %d writes to %s since the last sync point were issued at replica %d in order; the last one must win, but the converged entry is\n%q\nexpected\n%q", where, len(ops), c, ops[0].replica, cur[c], want)
			}
		}
	}
	// CIDs not written since the last sync point keep their value
	for c, v := range atSync {
		if _, written := since[c]; !written && cur[c] != v {
			fail("untouched-entry-changed", "%s: %s was not written since the last sync point but changed from %q to %q", where, c, v, cur[c])
		}
	}
	for k := range atSync {
		delete(atSync, k)
	}
	for c, v := range cur {
		atSync[c] = v
	}
	for c := range since {
		if _, ok := cur[c]; !ok {
			atSync[c] = ""
		}
	}
}

// divergenceClass describes, for the CIDs on which the replicas disagree, what
// kind of writes they received since the last sync point (narrow finding keys).
func divergenceClass(ctx context.Context, peers []*clus.CRDTPeer, since map[string][]issued) string {
	per := make([]map[string]string, len(peers))
	all := map[string]bool{}
	for i, p := range peers {
		per[i] = map[string]string{}
		if st, err := p.Cons.State(ctx); err == nil {
			l, _ := st.List(ctx)
			for _, pin := range l {
				per[i][pin.Cid.String()] = clus.PinSig(pin)
				all[pin.Cid.String()] = true
			}
		}
	}
	classes := map[string]bool{}
	for c := range all {
		differ := false
		for i := 1; i < len(per); i++ {
			if per[i][c] != per[0][c] {
				differ = true
			}
		}
		if !differ {
			continue
		}
		reps := map[int]bool{}
		unpin := false
		for _, o := range since[c] {
			reps[o.replica] = true
			if o.a.unpin {
				unpin = true
			}
		}
		switch {
		case len(reps) >= 2 && unpin:
			classes["concurrent-writers-with-unpin"] = true
		case len(reps) >= 2:
			classes["concurrent-pins-only"] = true
		default:
			classes["single-writer"] = true
		}
	}
	var l []string
	for k := range classes {
		l = append(l, k)
	}
	sort.Strings(l)
	return strings.Join(l, "+")
}

type multiHistory struct {
	n        int
	gossip   bool
	batching bool
	relay    bool
	evs      []mev
}

func (h multiHistory) String() string {
	var s []string
	for _, e := range h.evs {
		s = append(s, e.String())
	}
	return fmt.Sprintf("n=%d gossip=%v batching=%v relay=%v %s", h.n, h.gossip, h.batching, h.relay, strings.Join(s, " "))
}

func multiHistories() (out []multiHistory) {
	th := ev.Thorough()
	type conf struct {
		n                int
		gossip, batching bool
		maxLen           int
		relay            bool
	}
	confs := []conf{{2, false, false, 4, false}, {2, false, true, 3, false}, {3, false, false, 2, true}, {3, true, false, 2, true}}
	if th {
		confs = []conf{{2, false, false, 5, false}, {2, false, true, 4, false}, {2, true, false, 4, false}, {3, false, false, 4, false},
			{3, false, false, 4, true}, {3, true, false, 3, true}}
	}
	for _, c := range confs {
		var alpha []mev
		for r := 0; r < c.n; r++ {
			if c.relay && r == 1 {
				continue // the relay issues nothing
			}
			alpha = append(alpha, mev{"pin", r, 0, 0}, mev{"unpin", r, 0, 0})
			if r == 0 || th {
				alpha = append(alpha, mev{"pin", r, 1, 1})
			}
		}
		alpha = append(alpha, mev{Kind: "unlink"}, mev{Kind: "link"}, mev{Kind: "sync"})
		var rec func(prefix []mev, linked bool)
		rec = func(prefix []mev, linked bool) {
			if len(prefix) > 0 {
				last := prefix[len(prefix)-1].Kind
				if last == "pin" || last == "unpin" {
					out = append(out, multiHistory{c.n, c.gossip, c.batching, c.relay, append([]mev{}, prefix...)})
				}
			}
			if len(prefix) == c.maxLen {
				return
			}
			for _, a := range alpha {
				// prune no-op link events and leading/double syncs
				if a.Kind == "unlink" && !linked || a.Kind == "link" && linked {
					continue
				}
				if a.Kind == "sync" && (len(prefix) == 0 || prefix[len(prefix)-1].Kind == "sync") {
					continue
				}
				nl := linked
				if a.Kind == "unlink" {
					nl = false
				}
				if a.Kind == "link" || a.Kind == "sync" {
					nl = true
				}
				rec(append(prefix, a), nl)
			}
		}
		rec(nil, true)
	}
	return
}

// ---------------------------------------------------------------- driver

var flaky int

// confirmed keeps only the findings whose key shows up again in each of two
// further executions of the same history (a violation must be reproducible
// before it is believed); the others are counted as flaky.
func confirmed(first []finding, rerun func() []finding) []finding {
	if len(first) == 0 {
		return nil
	}
	keep := map[string]bool{}
	for _, f := range first {
		keep[f.key] = true
	}
	for k := 0; k < 2; k++ {
		again := map[string]bool{}
		for _, f := range rerun() {
			again[f.key] = true
		}
		for key := range keep {
			if !again[key] {
				delete(keep, key)
				flaky++
			}
		}
	}
	var out []finding
	seen := map[string]bool{}
	for _, f := range first {
		if keep[f.key] && !seen[f.key] {
			seen[f.key] = true
			out = append(out, f)
		}
	}
	return out
}

func shapeS(cfg bcfg, evs []sev) string {
	var s []string
	for _, e := range evs {
		s = append(s, e.Kind[:2])
	}
	return "single:" + cfg.Name + ":" + strings.Join(s, "")
}

func ctxS(cfg bcfg, evs []sev) string {
	f := map[string]bool{}
	for _, e := range evs {
		if strings.HasPrefix(e.Kind, "fail") {
			f[e.Kind] = true
		}
	}
	var l []string
	for k := range f {
		l = append(l, k)
	}
	sort.Strings(l)
	if len(l) == 0 {
		l = []string{"nofault"}
	}
	return cfg.Name + "|" + strings.Join(l, "+")
}

func shapeM(h multiHistory) string {
	var s []string
	for _, e := range h.evs {
		x := e.Kind[:2]
		if e.Kind == "pin" || e.Kind == "unpin" {
			x += strconv.Itoa(e.R)
		}
		s = append(s, x)
	}
	return fmt.Sprintf("multi:n%d:g%v:b%v:r%v:%s", h.n, h.gossip, h.batching, h.relay, strings.Join(s, ""))
}

func TestHistories(t *testing.T) {
	if os.Getenv("C02_DEBUG") != "" {
		t.Skip()
	}
	sh := singleHistories()
	mh := multiHistories()
	if ev.ChildUnit() == "" {
		var units []string
		for i := 0; i < nShards; i++ {
			units = append(units, strconv.Itoa(i))
		}
		per := 10 * time.Minute
		if ev.Thorough() {
			per = 100 * time.Minute
		}
		sec := R.Sec("histories")
		sec.Bounds["single_replica_histories"] = len(sh)
		sec.Bounds["multi_replica_histories"] = len(mh)
		sec.Bounds["shards"] = nShards
		R.RunChildren("TestHistories", units, nShards, per)
		return
	}
	shard, _ := strconv.Atoi(ev.ChildUnit())
	sec := R.Sec(fmt.Sprintf("shard-%d", shard))
	budget := 150 * time.Second
	if ev.Thorough() {
		budget = 80 * time.Minute
	}
	start := time.Now()
	done := 0
	over := func() bool {
		if time.Since(start) > budget {
			R.NotExhaustive(fmt.Sprintf("shard %d: time budget reached after %d histories", shard, done))
			sec.Exhaustive = false
			return true
		}
		return false
	}
	for i, h := range sh {
		if i%nShards != shard {
			continue
		}
		if over() {
			break
		}
		outcome, viol, states, trans := runSingle(t, h.cfg, h.evs)
		done++
		R.Eval(sec, shapeS(h.cfg, h.evs)+"|"+outcome, true)
		R.Outcome(sec, "single:"+outcome)
		R.States(sec, int64(len(states)))
		R.Transitions(int64(trans))
		if i < 2*nShards {
			R.SampleTagged("single", 4, map[string]interface{}{"config": h.cfg.Name, "events": fmt.Sprint(h.evs), "outcome": outcome})
		}
		viol = confirmed(viol, func() []finding { _, v, _, _ := runSingle(t, h.cfg, h.evs); return v })
		for _, v := range viol {
			R.Violation("C02|single|"+v.key+"|"+ctxS(h.cfg, h.evs), map[string]interface{}{"config": h.cfg, "events": fmt.Sprint(h.evs), "finding": v.detail})
		}
	}
	for i, h := range mh {
		if i%nShards != shard {
			continue
		}
		if over() {
			break
		}
		outcome, viol, states, trans := runMulti(t, h.n, h.gossip, h.batching, h.relay, h.evs)
		done++
		R.Eval(sec, shapeM(h)+"|"+outcome, true)
		R.Outcome(sec, "multi:"+outcome)
		R.States(sec, int64(len(states)))
		R.Transitions(int64(trans))
		if i < 2*nShards {
			R.SampleTagged("multi", 4, map[string]interface{}{"history": h.String(), "outcome": outcome})
		}
		viol = confirmed(viol, func() []finding { _, v, _, _ := runMulti(t, h.n, h.gossip, h.batching, h.relay, h.evs); return v })
		for _, v := range viol {
			ctxKey := fmt.Sprintf("n=%d,gossip=%v,batching=%v", h.n, h.gossip, h.batching)
			if h.relay {
				ctxKey += ",relay=untrusted"
			}
			R.Violation(fmt.Sprintf("C02|multi|%s|%s", v.key, ctxKey), map[string]interface{}{"history": h.String(), "finding": v.detail})
		}
	}
	if flaky > 0 {
		R.NotExhaustive(fmt.Sprintf("shard %d: %d findings did not reproduce on re-execution and were discarded (network-level nondeterminism inside libp2p/bitswap)", shard, flaky))
		sec.Bounds["non_reproducible_findings_discarded"] = flaky
	}
	fmt.Printf("E2 shard %d: %d histories in %s\n", shard, done, time.Since(start).Round(time.Second))
}

var _ = os.Getenv
