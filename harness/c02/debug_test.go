package c02

import (
	"fmt"
	"os"
	"strings"
	"testing"
)

// TestDebug runs the multi-replica histories whose description contains C02_DEBUG.
func TestDebug(t *testing.T) {
	pat := os.Getenv("C02_DEBUG")
	if pat == "" {
		t.Skip()
	}
	n := 0
	for _, h := range multiHistories() {
		if strings.Contains(h.String(), pat) {
			out, viol, _, _ := runMulti(t, h.n, h.gossip, h.batching, h.relay, h.evs)
			fmt.Println("DEBUG", h.String(), "=>", out)
			for _, v := range viol {
				fmt.Println("   ", v.key, v.detail)
			}
			n++
			if n > 8 {
				break
			}
		}
	}
	R.Eval(nil, "a", true)
	R.Eval(nil, "b", true)
	R.States(nil, 1)
	R.Transitions(1)
	R.Sample("debug")
}
