package c12

// A relayed request whose body is still arriving after the proxy's deadline
// for reading request *headers* has passed. With the default configuration
// there is no deadline for the request as a whole (read_timeout 0), so the
// daemon must receive the whole body and the client the daemon's answer.
// The oracle cannot fire on a merely slow machine: on a tree without a
// whole-request deadline nothing expires however long the body takes, and a
// run in which the daemon never saw the request (the header itself was late)
// is counted as inconclusive.

import (
	"bufio"
	"fmt"
	"io"
	"net"
	"net/http"
	"strings"
	"testing"
	"time"
)

func TestPassThroughSlowBody(t *testing.T) {
	sec := R.Sec("pass-through/body-arrives-after-the-header-deadline")
	headerTimeout = 2 * time.Second
	defer func() { headerTimeout = 0 }()
	g, err := newRig()
	if err != nil {
		t.Fatal(err)
	}
	defer g.close()
	n := 0
	for _, c := range []struct{ method, target string }{
		{"POST", "/api/v0/block/put?format=raw"},
		{"PUT", "/api/v0/dag/put"},
		{"POST", "/some/other/path?x=1"},
	} {
		first, rest := "first-half-of-the-body|", "second-half-of-the-body"
		g.d.prime(200, []byte(`{"Key":"answer-of-the-daemon"}`))
		g.rec.take()
		outcome, status, got := "", 0, ""
		conn, err := net.Dial("tcp", strings.TrimPrefix(g.base, "http://"))
		if err != nil {
			R.Broken("slow-body: cannot connect to the proxy: %v", err)
			return
		}
		fmt.Fprintf(conn, "%s %s HTTP/1.1\r\nHost: proxy\r\nContent-Type: application/octet-stream\r\nContent-Length: %d\r\nConnection: close\r\n\r\n%s", c.method, c.target, len(first)+len(rest), first)
		time.Sleep(headerTimeout + headerTimeout/2)
		io.WriteString(conn, rest)
		conn.SetReadDeadline(time.Now().Add(60 * time.Second))
		resp, rerr := http.ReadResponse(bufio.NewReader(conn), nil)
		if rerr == nil {
			b, _ := io.ReadAll(resp.Body)
			resp.Body.Close()
			status, got = resp.StatusCode, string(b)
		}
		conn.Close()
		// the daemon's handler may still be unwinding after a broken read
		time.Sleep(200 * time.Millisecond)
		dl, _ := g.d.take()
		var seen []dreq
		for _, r := range dl {
			if r.URI == c.target {
				seen = append(seen, r)
			}
		}
		switch {
		case len(seen) == 0:
			outcome = "inconclusive:daemon-never-saw-the-request"
			R.NotExhaustive(fmt.Sprintf("slow-body: the daemon never saw %s %s (header later than the header deadline on this machine?)", c.method, c.target))
		case len(seen) == 1 && seen[0].Method == c.method && string(seen[0].body) == first+rest && rerr == nil && status == 200 && strings.Contains(got, "answer-of-the-daemon"):
			outcome = "relayed-whole"
		default:
			outcome = "not-relayed-whole"
			R.Violation("C12|passthrough|body-arrives-after-the-header-deadline|not-relayed-unchanged", map[string]interface{}{
				"request": c.method + " " + c.target, "read_header_timeout": headerTimeout.String(), "read_timeout": "0 (default: none)",
				"body_sent": first + rest, "pause_before_second_half": (headerTimeout + headerTimeout/2).String(),
				"daemon_saw": seen, "daemon_body": func() string {
					if len(seen) > 0 {
						return string(seen[0].body)
					}
					return ""
				}(), "client_status": status, "client_body": got, "client_error": fmt.Sprint(rerr),
				"expected": "the daemon receives the whole body and the client the daemon's answer: no deadline applies to the request as a whole"})
		}
		R.Eval(sec, fmt.Sprintf("%s %s|%s", c.method, c.target, outcome), true)
		R.Outcome(sec, outcome)
		n++
	}
	sec.Bounds["requests"] = n
	sec.Bounds["timing"] = "read_header_timeout 2s, read_timeout default (none); header and first half at once, second half 3s later (real clock, loopback TCP)"
}
