package c12

import (
	"context"
	"encoding/json"
	"fmt"
	"testing"

	libp2p "github.com/libp2p/go-libp2p"
	peer "github.com/libp2p/go-libp2p-core/peer"
)

// TestRepoStatSomePeersUnreachable: repo/stat is answered by the proxy with
// the sum over the cluster peers that answer. Here the RPC client sits on a
// real libp2p host and the other two members of the peerset cannot be reached:
// for every position of the local peer in the peerset the answer is the local
// peer's figures - an unreachable peer takes only its own figures away.
func TestRepoStatSomePeersUnreachable(t *testing.T) {
	sec := R.Sec("hijack/repo-stat-with-unreachable-peers")
	h, err := libp2p.New(context.Background(), libp2p.ListenAddrStrings("/ip4/127.0.0.1/tcp/0"))
	if err != nil {
		R.Broken("repo-stat section: %v", err)
		return
	}
	defer h.Close()
	saved := peers
	rpcHost = h
	defer func() { rpcHost = nil; peers = saved }()
	for pos := 0; pos < 3; pos++ {
		others := []peer.ID{saved[1], saved[2]}
		var l []peer.ID
		for i := 0; i < 3; i++ {
			if i == pos {
				l = append(l, h.ID())
			} else {
				l = append(l, others[0])
				others = others[1:]
			}
		}
		peers = l
		g, err := newRig()
		if err != nil {
			R.Broken("repo-stat section: %v", err)
			return
		}
		for _, target := range []string{"/api/v0/repo/stat", "/api/v0/repo/stat?size-only=true"} {
			o := g.do("POST", target, nil, "", 200, []byte("{}"))
			var resp struct{ RepoSize, StorageMax uint64 }
			jerr := json.Unmarshal(o.Body, &resp)
			ok := o.ClientErr == "" && o.Status == 200 && jerr == nil && resp.RepoSize == repoSizePerPeer && resp.StorageMax == storageMaxPerPeer && len(o.Daemon) == 0
			R.Eval(sec, fmt.Sprintf("local-peer-at-position=%d|%s|status=%d|sum=%d/%d|ok=%v", pos, target, o.Status, resp.RepoSize, resp.StorageMax, ok), true)
			if !ok {
				R.Violation("C12|repo/stat|unreachable-peers|answer-is-not-the-sum-over-the-peers-that-answer", map[string]interface{}{
					"peerset_position_of_the_local_peer": pos, "unreachable_peers": 2, "target": target, "status": o.Status, "client_error": o.ClientErr,
					"answer": show(o.Body), "expected": fmt.Sprintf("RepoSize %d, StorageMax %d (the local peer's figures)", repoSizePerPeer, storageMaxPerPeer),
					"requests_that_reached_the_daemon": len(o.Daemon)})
			}
		}
		g.close()
	}
	sec.Bounds["cases"] = "the local peer first, second and last in a peerset of 3 whose other two members cannot be reached; with and without size-only"
}
