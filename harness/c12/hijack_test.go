package c12

import (
	"bytes"
	"encoding/json"
	"fmt"
	"io"
	"net/url"
	"sort"
	"strings"
	"testing"

	cid "github.com/ipfs/go-cid"
	files "github.com/ipfs/go-ipfs-files"

	"verif/harness/lib/ev"
)

// ------------------------------------------------------------- alphabets

type kv struct{ K, V string }

func (o kv) String() string { return o.K + "=" + o.V }

// optionAlphabet: the options named by the property (type, unpin, only-hash,
// pin, layout, chunker, ...) with valid, alternative and invalid values.
var optionAlphabet = []kv{
	{"type", "recursive"}, {"type", "direct"}, {"type", "bogus"},
	{"unpin", "true"}, {"unpin", "false"}, {"unpin", "bogus"},
	{"only-hash", "true"}, {"only-hash", "false"},
	{"pin", "false"}, {"pin", "true"},
	{"trickle", "true"},
	{"chunker", "size-16"}, {"chunker", "bogus"},
	{"raw-leaves", "true"},
	{"cid-version", "1"},
	{"layout", "trickle"}, {"layout", "bogus"},
	{"stream-channels", "false"},
	{"stream-errors", "true"},
	{"quiet", "true"},
	{"progress", "true"},
	{"wrap-with-directory", "true"},
	{"hidden", "true"},
	{"recursive", "true"},
	{"shard", "true"},
	{"name", "c12name"},
}

type argT struct {
	Name string
	Val  *string // nil: no argument at all
}

func sp(s string) *string { return &s }

var argAlphabet = []argT{
	{"cid", sp(cidA.String())},
	{"cid-unpinned", sp(cidU.String())},
	{"cid-rejected", sp(cidR.String())},
	{"ipfs-path", sp("/ipfs/" + cidA.String())},
	{"ipfs-subpath", sp("/ipfs/" + cidA.String() + "/sub/file.txt")},
	{"ipfs-unresolvable", sp("/ipfs/" + cidA.String() + "/unresolvable")},
	{"ipns", sp("/ipns/example.com")},
	{"garbage", sp("zz-not-a-cid")},
	{"missing", nil},
}

func argByName(n string) argT {
	for _, a := range argAlphabet {
		if a.Name == n {
			return a
		}
	}
	panic("no arg " + n)
}

var commands = []string{"pin/add", "pin/rm", "pin/ls", "pin/update", "add", "repo/stat", "repo/gc"}

// commands that take string arguments (and therefore have a /{arg} style).
var hasStringArg = map[string]bool{"pin/add": true, "pin/rm": true, "pin/ls": true, "pin/update": true}

var allMethods = []string{"POST", "GET", "PUT", "OPTIONS", "HEAD", "DELETE"}

// ------------------------------------------------------------- add bodies

var (
	file5  = []byte("hello")
	file40 = []byte("0123456789abcdefghijABCDEFGHIJ0123456789") // 40 bytes: 3 chunks with size-16
)

type addBody struct {
	Name  string
	CType string
	Body  []byte
	Valid bool
	File  []byte // content of the (first) file when Valid
	Files int
}

func multipartOf(entries ...files.DirEntry) (string, []byte) {
	mfr := files.NewMultiFileReader(files.NewSliceDirectory(entries), true)
	b, err := io.ReadAll(mfr)
	if err != nil {
		panic(err)
	}
	return "multipart/form-data; boundary=" + mfr.Boundary(), b
}

var addBodies = func() []addBody {
	ct40, b40 := multipartOf(files.FileEntry("f40.bin", files.NewBytesFile(file40)))
	ct5, b5 := multipartOf(files.FileEntry("f5.txt", files.NewBytesFile(file5)))
	ctd, bd := multipartOf(files.FileEntry("d", files.NewSliceDirectory([]files.DirEntry{
		files.FileEntry("a.txt", files.NewBytesFile(file5)),
		files.FileEntry("b.bin", files.NewBytesFile(file40)),
	})))
	return []addBody{
		{Name: "file40", CType: ct40, Body: b40, Valid: true, File: file40, Files: 1},
		{Name: "file5", CType: ct5, Body: b5, Valid: true, File: file5, Files: 1},
		{Name: "dir2", CType: ctd, Body: bd, Valid: true, Files: 2},
		{Name: "no-multipart", CType: "", Body: nil},
		{Name: "not-multipart-ctype", CType: "application/json", Body: []byte(`{"a":1}`)},
		{Name: "truncated", CType: ct40, Body: b40[:len(b40)-30]},
		{Name: "empty-multipart", CType: ct40, Body: []byte{}},
	}
}()

func addBodyByName(n string) addBody {
	for _, b := range addBodies {
		if b.Name == n {
			return b
		}
	}
	panic("no body " + n)
}

// ------------------------------------------------------------- case

type hcase struct {
	Cmd    string `json:"cmd"`
	Style  string `json:"style"` // "query" | "slash"
	Arg    argT   `json:"-"`
	ArgN   string `json:"arg"`
	To     argT   `json:"-"` // pin/update second argument
	ToN    string `json:"to,omitempty"`
	Opts   []kv   `json:"-"`
	OptS   string `json:"opts"`
	Method string `json:"method"`
	Body   string `json:"body,omitempty"`          // add body class
	Enc    string `json:"path_spelling,omitempty"` // percent-encoded spelling of the same path ("" = canonical)
	Target string `json:"target"`
}

// pathSpellings: equivalent spellings of a command path with one unreserved
// byte percent-encoded. The IPFS daemon (like any net/http server) dispatches
// on the decoded path, so each of them is the same request.
var pathSpellings = []string{"", "cmd-last-letter", "cmd-first-letter", "version-digit", "api-letter", "arg-slash"}

func pct(b byte) string { return fmt.Sprintf("%%%02X", b) }

// spell rewrites the canonical command path "/api/v0/<cmd>".
func spell(enc, cmd string) string {
	switch enc {
	case "cmd-last-letter":
		return "/api/v0/" + cmd[:len(cmd)-1] + pct(cmd[len(cmd)-1])
	case "cmd-first-letter":
		return "/api/v0/" + pct(cmd[0]) + cmd[1:]
	case "version-digit":
		return "/api/v" + pct('0') + "/" + cmd
	case "api-letter":
		return "/" + pct('a') + "pi/v0/" + cmd
	}
	return "/api/v0/" + cmd
}

func optString(o []kv) string {
	var s []string
	for _, x := range o {
		s = append(s, x.String())
	}
	return strings.Join(s, "&")
}

func (c *hcase) finish() {
	c.ArgN, c.OptS = c.Arg.Name, optString(c.Opts)
	if c.Cmd == "pin/update" {
		c.ToN = c.To.Name
	}
	p := spell(c.Enc, c.Cmd)
	var q []string
	if c.Style == "slash" {
		if c.Arg.Val != nil {
			sep := "/"
			if c.Enc == "arg-slash" {
				sep = "%2F"
			}
			p += sep + url.PathEscape(*c.Arg.Val)
		} else {
			p += "/"
		}
	} else if c.Arg.Val != nil {
		q = append(q, "arg="+url.QueryEscape(*c.Arg.Val))
	}
	if c.Cmd == "pin/update" && c.To.Val != nil {
		q = append(q, "arg="+url.QueryEscape(*c.To.Val))
	}
	for _, o := range c.Opts {
		q = append(q, url.QueryEscape(o.K)+"="+url.QueryEscape(o.V))
	}
	c.Target = p
	if len(q) > 0 {
		c.Target += "?" + strings.Join(q, "&")
	}
}

func (c *hcase) opt(k string) (string, bool) {
	for _, o := range c.Opts {
		if o.K == k {
			return o.V, true
		}
	}
	return "", false
}

// mustHijack is the reference classification written from the property text:
// a POST/GET/PUT (the methods with which the IPFS API executes commands) for
// one of the seven commands, argument given as ?arg= or as one trailing path
// segment (the two argument styles the IPFS API accepts for commands with
// string arguments).
func (c *hcase) mustHijack() bool {
	if c.Method != "POST" && c.Method != "GET" && c.Method != "PUT" {
		return false
	}
	if c.Style == "query" {
		return true
	}
	return hasStringArg[c.Cmd] && c.Arg.Val != nil && *c.Arg.Val != "" && !strings.Contains(*c.Arg.Val, "/")
}

// normPath is the canonical form of a requested IPFS path.
func normPath(a string) string {
	if strings.HasPrefix(a, "/ipfs/") || strings.HasPrefix(a, "/ipns/") {
		return a
	}
	return "/ipfs/" + a
}

type vio struct {
	symptom string // goes into the key
	what    string // human detail
}

// ------------------------------------------------------------- oracle

type addEntry struct {
	Name  string
	Hash  string
	Bytes int64
	Size  string
}

func parseAddOutput(b []byte) ([]addEntry, error) {
	tb := bytes.TrimSpace(b)
	var out []addEntry
	if len(tb) > 0 && tb[0] == '[' {
		err := json.Unmarshal(tb, &out)
		return out, err
	}
	dec := json.NewDecoder(bytes.NewReader(tb))
	for dec.More() {
		var e addEntry
		if err := dec.Decode(&e); err != nil {
			return out, err
		}
		out = append(out, e)
	}
	return out, nil
}

func isErrorAnswer(o obs) bool {
	return o.Status < 200 || o.Status >= 300 || o.StreamError != ""
}

// leaked returns daemon requests that are the command itself (any method the
// daemon could execute it with).
func leaked(c *hcase, o obs) []dreq {
	cp := "/api/v0/" + c.Cmd
	var out []dreq
	for _, d := range o.Daemon {
		if d.Method == "OPTIONS" || d.Method == "HEAD" {
			continue
		}
		if d.Path == cp || strings.HasPrefix(d.Path, cp+"/") {
			out = append(out, d)
		}
	}
	return out
}

// hijackedOK checks a 2xx answer of a hijacked request against the property:
// the recorded cluster operation is the corresponding one, on the requested
// path, with the requested options.
func hijackedOK(c *hcase, o obs) []vio {
	var v []vio
	muts := mutations(o.RPC)
	bad := func(sym, f string, a ...interface{}) { v = append(v, vio{"2xx-wrong-op:" + sym, fmt.Sprintf(f, a...)}) }
	only := func(ids ...string) {
		// the mutating calls must be exactly ids, in order
		var got []string
		for _, m := range muts {
			got = append(got, m.id())
		}
		if strings.Join(got, ",") != strings.Join(ids, ",") {
			bad("cluster-ops", "expected cluster operations %v, recorded %v", ids, got)
		}
	}
	switch c.Cmd {
	case "pin/add", "pin/rm":
		op := map[string]string{"pin/add": "Cluster.PinPath", "pin/rm": "Cluster.UnpinPath"}[c.Cmd]
		only(op)
		if c.Arg.Val == nil {
			bad("no-arg", "2xx although no path was requested")
			break
		}
		if len(muts) == 1 && muts[0].id() == op {
			if normPath(muts[0].Path) != normPath(*c.Arg.Val) {
				bad("path", "requested %q, operation on %q", *c.Arg.Val, muts[0].Path)
			}
			if c.Cmd == "pin/add" {
				want := "recursive"
				t, has := c.opt("type")
				if t == "direct" {
					want = "direct"
				}
				if !(has && t == "bogus") && muts[0].Mode != want {
					bad("type", "requested type %q, pinned with mode %q", t, muts[0].Mode)
				}
			}
			var resp struct{ Pins []string }
			if err := json.Unmarshal(o.Body, &resp); err != nil || len(resp.Pins) != 1 || resp.Pins[0] != muts[0].Cid {
				bad("answer", "answer %s does not name the pinned cid %s", show(o.Body), muts[0].Cid)
			}
		}
	case "pin/ls":
		only()
		var resp struct {
			Keys map[string]struct{ Type string }
		}
		if err := json.Unmarshal(o.Body, &resp); err != nil {
			bad("answer", "unparseable answer %s", show(o.Body))
			break
		}
		var keys []string
		for k := range resp.Keys {
			keys = append(keys, k)
		}
		sort.Strings(keys)
		if c.Arg.Val == nil {
			var want []string
			for _, p := range pinset {
				want = append(want, p.String())
			}
			sort.Strings(want)
			if strings.Join(keys, ",") != strings.Join(want, ",") {
				bad("answer", "pin ls without argument must list the cluster pinset %v, got %v", want, keys)
			}
		} else {
			if len(keys) != 1 {
				bad("answer", "pin ls of one path answered %d keys: %v", len(keys), keys)
			} else if ci, err := cid.Decode(strings.TrimPrefix(*c.Arg.Val, "/ipfs/")); err == nil && keys[0] != ci.String() {
				bad("answer", "pin ls of %s answered %v", *c.Arg.Val, keys)
			}
		}
	case "pin/update":
		if c.Arg.Val == nil || c.To.Val == nil {
			bad("no-arg", "2xx although from/to paths were not both given")
			break
		}
		from, err := resolvePath(*c.Arg.Val)
		if err != nil {
			bad("from", "2xx although from-path %q is not a path", *c.Arg.Val)
			break
		}
		u, _ := c.opt("unpin")
		switch u {
		case "false":
			only("Cluster.PinPath")
		case "bogus":
			if len(muts) == 0 || muts[0].id() != "Cluster.PinPath" {
				bad("cluster-ops", "expected Cluster.PinPath first, recorded %s", callIDs(muts))
			}
		default: // IPFS: --unpin defaults to true
			only("Cluster.PinPath", "Cluster.Unpin")
		}
		if len(muts) > 0 && muts[0].id() == "Cluster.PinPath" {
			if normPath(muts[0].Path) != normPath(*c.To.Val) {
				bad("path", "requested to-path %q, pinned %q", *c.To.Val, muts[0].Path)
			}
			if muts[0].PinUpdate != from.String() {
				bad("from", "pin update from %s, recorded PinUpdate=%q", from, muts[0].PinUpdate)
			}
		}
		if len(muts) > 1 && muts[1].id() == "Cluster.Unpin" && muts[1].Cid != from.String() {
			bad("from", "unpinned %s instead of from=%s", muts[1].Cid, from)
		}
	case "repo/stat":
		only()
		if n := len(callsOf(o.RPC, "IPFSConnector.RepoStat", true)); n != len(peers) {
			bad("cluster-ops", "expected RepoStat on %d peers, recorded %d", len(peers), n)
		}
		var resp struct{ RepoSize, StorageMax uint64 }
		if err := json.Unmarshal(o.Body, &resp); err != nil || resp.RepoSize != uint64(len(peers))*repoSizePerPeer || resp.StorageMax != uint64(len(peers))*storageMaxPerPeer {
			bad("answer", "answer %s is not the cluster-wide sum", show(o.Body))
		}
	case "repo/gc":
		only("Cluster.RepoGC")
		for _, k := range []cid.Cid{cidA, cidB} {
			if !bytes.Contains(o.Body, []byte(k.String())) {
				bad("answer", "answer %s lacks collected key %s", show(o.Body), k)
			}
		}
	case "add":
		b := addBodyByName(c.Body)
		if !b.Valid {
			// nothing was requested that could be added
			for _, m := range muts {
				bad("cluster-ops", "2xx on an unusable body but recorded %s", m.id())
				break
			}
			break
		}
		ents, err := parseAddOutput(o.Body)
		root := ""
		for _, e := range ents {
			if e.Hash != "" {
				root = e.Hash
			}
		}
		if err != nil || root == "" {
			bad("answer", "answer %s names no added root", show(o.Body))
			break
		}
		rootCid, err := cid.Decode(root)
		if err != nil {
			bad("answer", "root %q is not a cid", root)
			break
		}
		pins := callsOf(o.RPC, "Cluster.Pin", true)
		puts := callsOf(o.RPC, "IPFSConnector.BlockPut", true)
		rootPins := 0
		for _, p := range pins {
			if p.Cid == root {
				rootPins++
				if p.Mode != "recursive" {
					bad("type", "added root pinned with mode %q", p.Mode)
				}
				if n, ok := c.opt("name"); ok && p.Name != n {
					bad("name", "requested name %q, pinned with name %q", n, p.Name)
				}
			}
		}
		_, shard := c.opt("shard")
		pinV, _ := c.opt("pin")
		if rootPins != 1 || (!shard && len(pins) != 1) {
			bad("cluster-ops", "expected exactly one Cluster.Pin of the root %s, recorded %s", root, callIDs(pins))
		}
		for _, m := range muts {
			if m.id() != "Cluster.Pin" && !(m.id() == "Cluster.Unpin" && pinV == "false") {
				bad("cluster-ops", "unexpected cluster operation %s for add", m.id())
			}
		}
		hasRoot := false
		for _, p := range puts {
			if p.Cid == root {
				hasRoot = true
			}
		}
		if !hasRoot && !shard {
			bad("content", "root block %s was never put", root)
		}
		if v1, _ := c.opt("cid-version"); v1 == "1" && rootCid.Version() != 1 {
			bad("cid-version", "requested cid-version=1, root %s", root)
		}
		if b.Files == 1 && !shard {
			// chunker: with the default chunker the 40/5-byte file is one
			// chunk; with size-16 no block may span a chunk boundary.
			cv, hasChunker := c.opt("chunker")
			contains := func(x []byte) bool {
				for _, p := range puts {
					if bytes.Contains(p.data, x) {
						return true
					}
				}
				return false
			}
			switch {
			case !hasChunker:
				if !contains(b.File) {
					bad("content", "no put block carries the file bytes")
				}
			case cv == "size-16" && len(b.File) > 16:
				for off := 0; off < len(b.File); off += 16 {
					end := off + 16
					if end > len(b.File) {
						end = len(b.File)
					}
					if !contains(b.File[off:end]) {
						bad("content", "chunk [%d:%d) of the file is in no put block", off, end)
					}
					if end < len(b.File) && contains(b.File[off:end+1]) {
						bad("chunker", "requested chunker=size-16 but a block spans the chunk boundary at %d", end)
					}
				}
			}
			if rl, _ := c.opt("raw-leaves"); rl == "true" && !hasChunker {
				found := false
				for _, p := range puts {
					if bytes.Equal(p.data, b.File) {
						found = true
					}
				}
				if !found {
					bad("raw-leaves", "requested raw-leaves but no block equals the file bytes")
				}
			}
		}
	}
	return v
}

// evalHijack applies the property to one request aimed at a command path.
func evalHijack(c *hcase, body []byte, dStatus int, dBody []byte, o obs) (viols []vio, outcome string) {
	if o.Panic != "" {
		return []vio{{"harness-panic", o.Panic}}, "panic"
	}
	if o.ClientErr != "" {
		return []vio{{"no-http-answer", o.ClientErr}}, "no-answer"
	}
	muts := mutations(o.RPC)
	lk := leaked(c, o)
	must := c.mustHijack()

	if !must && len(o.RPC) == 0 {
		// not answered by a cluster operation: a faithful relay, or a
		// proxy-made refusal without any effect.
		if len(o.Daemon) == 0 && isErrorAnswer(o) {
			// The proxy's router redirects non-canonical paths (301: the
			// recorded finding of the pass-through section) and a relay to a
			// stopped daemon ends in 502. Any other answer made up by the
			// proxy is neither of the two things the text allows (perform
			// the cluster operation, or relay).
			if o.Status == 301 || (daemonDown && o.Status == 502) {
				return nil, fmt.Sprintf("unspecified:proxy-answer-%d-no-effect", o.Status)
			}
			return []vio{{fmt.Sprintf("neither-hijacked-nor-relayed:proxy-answered-%d", o.Status),
				fmt.Sprintf("%s %s: answered %d by the proxy itself: no cluster operation, nothing relayed", c.Method, c.Target, o.Status)}}, "proxy-made-answer"
		}
		for _, p := range relayProblems(c.Method, c.Target, body, dStatus, dBody, o) {
			viols = append(viols, vio{"neither-hijacked-nor-relayed:" + p.symptom, p.what})
		}
		return viols, "unspecified:relayed"
	}

	if len(lk) > 0 {
		viols = append(viols, vio{"reached-daemon", fmt.Sprintf("the daemon received %s %s", lk[0].Method, lk[0].URI)})
	}

	specific := false
	if c.Cmd == "add" {
		if v, _ := c.opt("only-hash"); v == "true" {
			if n := len(callsOf(o.RPC, "IPFSConnector.BlockPut", true)) + len(callsOf(o.RPC, "Cluster.Pin", true)); n > 0 {
				viols = append(viols, vio{"only-hash=true|content-added-anyway", fmt.Sprintf("only-hash=true requested (answer status %d) but recorded %s", o.Status, callIDs(o.RPC))})
				specific = true
			}
		}
		if v, _ := c.opt("pin"); v == "false" && !specific {
			for i, m := range o.RPC {
				if m.id() != "Cluster.Pin" || !m.OK {
					continue
				}
				undone := false
				for _, n := range o.RPC[i+1:] {
					if n.id() == "Cluster.Unpin" && n.OK && n.Cid == m.Cid {
						undone = true
					}
				}
				if !undone {
					viols = append(viols, vio{"pin=false|root-left-pinned", fmt.Sprintf("pin=false requested but %s stays pinned; stream error %q; recorded %s", m.Cid, o.StreamError, callIDs(o.RPC))})
					specific = true
					break
				}
			}
		}
	}

	if len(lk) > 0 && len(o.RPC) == 0 {
		outcome = "relayed-to-daemon"
	} else if isErrorAnswer(o) {
		outcome = "hijacked:error-no-cluster-op"
		if len(muts) > 0 {
			outcome = "hijacked:error-with-cluster-op"
			if !specific {
				viols = append(viols, vio{"error-answer-but-cluster-op-performed", fmt.Sprintf("answered status %d stream-error %q after %s", o.Status, o.StreamError, callIDs(muts))})
			}
		}
	} else {
		outcome = "hijacked:2xx"
		if !specific {
			viols = append(viols, hijackedOK(c, o)...)
		}
	}
	if !must {
		outcome = "unspecified:" + outcome
	}
	return viols, outcome
}

// ------------------------------------------------------------- enumeration

func optionSets(pairs bool) [][]kv {
	sets := [][]kv{nil}
	for _, o := range optionAlphabet {
		sets = append(sets, []kv{o})
	}
	if pairs {
		for i, a := range optionAlphabet {
			for _, b := range optionAlphabet[i+1:] {
				if a.K != b.K {
					sets = append(sets, []kv{a, b})
				}
			}
		}
	}
	return sets
}

func runHijackCases(t *testing.T, sec *ev.Section, cases []hcase) {
	runParallel(t, len(cases), func(g *rig, i int) {
		c := &cases[i]
		c.finish()
		var body []byte
		ctype := ""
		if c.Body != "" {
			b := addBodyByName(c.Body)
			body, ctype = b.Body, b.CType
		}
		dStatus := []int{200, 404, 500, 403}[i%4]
		dBody := []byte(fmt.Sprintf(`{"daemon":"answer-%d"}`, i%7))
		o := g.do(c.Method, c.Target, body, ctype, dStatus, dBody)
		viols, outcome := evalHijack(c, body, dStatus, dBody, o)
		R.Outcome(sec, outcome)
		sig := strings.Join([]string{c.Cmd, c.Style, c.ArgN, c.ToN, c.OptS, c.Method, c.Body, c.Enc, outcome}, "|")
		R.Eval(sec, sig, o.ClientErr == "" && o.Panic == "")
		if i%997 == 0 {
			R.SampleTagged("hijack-space", 6, map[string]interface{}{"case": c, "outcome": outcome, "status": o.Status, "rpc": callIDs(o.RPC), "daemon_requests": len(o.Daemon)})
		}
		for _, v := range viols {
			key := hijackKey(c, v)
			if needsConfirm(key) && !confirm(key, func() []string {
				o2 := g.do(c.Method, c.Target, body, ctype, dStatus, dBody)
				v2, _ := evalHijack(c, body, dStatus, dBody, o2)
				var ks []string
				for _, x := range v2 {
					ks = append(ks, hijackKey(c, x))
				}
				return ks
			}) {
				continue
			}
			R.Violation(key, map[string]interface{}{
				"request":  map[string]interface{}{"method": c.Method, "target": c.Target, "body_class": c.Body},
				"case":     c,
				"expected": "property C12 for a request aimed at a hijacked command: " + v.symptom,
				"observed": v.what,
				"answer":   o,
			})
		}
	})
}

func hijackKey(c *hcase, v vio) string {
	if daemonDown {
		return fmt.Sprintf("C12|%s|%s|daemon-unreachable|%s", c.Cmd, c.Style, v.symptom)
	}
	if coldHeaders {
		return fmt.Sprintf("C12|%s|%s|cold-header-cache|%s", c.Cmd, c.Style, v.symptom)
	}
	if c.Enc != "" {
		return fmt.Sprintf("C12|%s|%s|spelling:%s|%s", c.Cmd, c.Style, c.Enc, v.symptom)
	}
	if strings.Contains(v.symptom, "|") { // option-specific defects: keyed by option, not by style
		return fmt.Sprintf("C12|%s|%s", c.Cmd, v.symptom)
	}
	return fmt.Sprintf("C12|%s|%s|%s", c.Cmd, c.Style, v.symptom)
}

func bodyFor(cmd string) string {
	if cmd == "add" {
		return "file40"
	}
	return ""
}

// TestHijackSingles: every command x style x argument x (no option | one
// option) x method.
func TestHijackSingles(t *testing.T) {
	sec := R.Sec("hijack/options-one-at-a-time")
	var cases []hcase
	sets := optionSets(false)
	for _, cmd := range commands {
		for _, style := range []string{"query", "slash"} {
			for _, a := range argAlphabet {
				for _, os := range sets {
					for _, m := range allMethods {
						cases = append(cases, hcase{Cmd: cmd, Style: style, Arg: a, To: argByName("ipfs-path"), Opts: os, Method: m, Body: bodyFor(cmd)})
					}
				}
			}
		}
	}
	sec.Bounds["commands"] = commands
	sec.Bounds["styles"] = []string{"?arg=", "/{arg}"}
	sec.Bounds["args"] = argNames()
	sec.Bounds["option_sets"] = len(sets)
	sec.Bounds["options"] = optString(optionAlphabet)
	sec.Bounds["methods"] = allMethods
	sec.Bounds["pin/update to-path"] = "fixed /ipfs/<cidA> (varied in hijack/pin-update-to)"
	sec.Bounds["add body"] = "one 40-byte file (varied in hijack/add-bodies)"
	runHijackCases(t, sec, cases)
}

// TestHijackDaemonUnreachable: the hijacked commands are answered by the
// proxy from cluster operations; that does not depend on the daemon being up
// (its only part is the best-effort header copy). Every command x style x
// argument x (no option | one option), POST and GET, with the daemon stopped.
func TestHijackDaemonUnreachable(t *testing.T) {
	sec := R.Sec("hijack/daemon-unreachable")
	daemonDown = true
	defer func() { daemonDown = false }()
	var cases []hcase
	sets := optionSets(false)
	for _, cmd := range commands {
		for _, style := range []string{"query", "slash"} {
			for _, a := range argAlphabet {
				for _, os := range sets {
					for _, m := range []string{"POST", "GET"} {
						cases = append(cases, hcase{Cmd: cmd, Style: style, Arg: a, To: argByName("ipfs-path"), Opts: os, Method: m, Body: bodyFor(cmd)})
					}
				}
			}
		}
	}
	sec.Bounds["daemon"] = "stopped after the rig's warm-up request: every connection attempt is refused"
	sec.Bounds["methods"] = []string{"POST", "GET"}
	runHijackCases(t, sec, cases)
}

// TestHijackColdHeaderCache: the proxy copies some response headers from the
// daemon and caches them (extract_headers_ttl). With the cache expired, every
// hijacked request triggers that side request: it must go to the configured
// extraction path, never to the path of the request being answered.
func TestHijackColdHeaderCache(t *testing.T) {
	sec := R.Sec("hijack/cold-header-cache")
	coldHeaders = true
	defer func() { coldHeaders = false }()
	var cases []hcase
	sets := optionSets(false)
	for _, cmd := range commands {
		for _, style := range []string{"query", "slash"} {
			for _, a := range argAlphabet {
				for _, os := range sets {
					for _, m := range []string{"POST", "GET"} {
						cases = append(cases, hcase{Cmd: cmd, Style: style, Arg: a, To: argByName("ipfs-path"), Opts: os, Method: m, Body: bodyFor(cmd)})
					}
				}
			}
		}
	}
	sec.Bounds["extract_headers_ttl"] = "1ns: the header cache is cold at every request"
	sec.Bounds["methods"] = []string{"POST", "GET"}
	runHijackCases(t, sec, cases)
}

// TestHijackPathSpellings: every command x style x a few arguments x method,
// requested through each percent-encoded spelling of the command path.
func TestHijackPathSpellings(t *testing.T) {
	sec := R.Sec("hijack/percent-encoded-path-spellings")
	var cases []hcase
	for _, cmd := range commands {
		for _, style := range []string{"query", "slash"} {
			for _, an := range []string{"cid", "ipfs-path", "missing"} {
				for _, enc := range pathSpellings[1:] {
					if enc == "arg-slash" && style != "slash" {
						continue
					}
					for _, m := range allMethods {
						cases = append(cases, hcase{Cmd: cmd, Style: style, Arg: argByName(an), To: argByName("ipfs-path"), Method: m, Body: bodyFor(cmd), Enc: enc})
					}
				}
			}
		}
	}
	sec.Bounds["spellings"] = pathSpellings[1:]
	sec.Bounds["args"] = []string{"cid", "ipfs-path", "missing"}
	runHijackCases(t, sec, cases)
}

func argNames() []string {
	var s []string
	for _, a := range argAlphabet {
		s = append(s, a.Name)
	}
	return s
}

// TestHijackPairs: every pair of options with different keys. Quick tier:
// two argument classes and two methods; thorough tier: the full product.
func TestHijackPairs(t *testing.T) {
	sec := R.Sec("hijack/option-pairs")
	sets := optionSets(true)[1+len(optionAlphabet):]
	args := []argT{argByName("cid"), argByName("garbage")}
	methods := []string{"POST", "OPTIONS"}
	if ev.Thorough() {
		args = argAlphabet
		methods = allMethods
	}
	var cases []hcase
	for _, cmd := range commands {
		styles := []string{"query"}
		cargs := args
		if hasStringArg[cmd] {
			styles = []string{"query", "slash"}
		} else if !ev.Thorough() {
			cargs = []argT{argByName("missing")}
		}
		if ev.Thorough() {
			styles = []string{"query", "slash"}
		}
		for _, style := range styles {
			for _, a := range cargs {
				for _, os := range sets {
					for _, m := range methods {
						cases = append(cases, hcase{Cmd: cmd, Style: style, Arg: a, To: argByName("ipfs-path"), Opts: os, Method: m, Body: bodyFor(cmd)})
					}
				}
			}
		}
	}
	sec.Bounds["option_pairs"] = len(sets)
	var an []string
	for _, a := range args {
		an = append(an, a.Name)
	}
	sec.Bounds["args"] = an
	sec.Bounds["methods"] = methods
	sec.Bounds["styles"] = "both for commands with string arguments" + map[bool]string{true: " and for the others", false: "; ?arg= only for add, repo/stat, repo/gc (no argument)"}[ev.Thorough()]
	runHijackCases(t, sec, cases)
}

// TestHijackPinUpdateTo: pin/update with the second argument running over
// the argument alphabet (first fixed), both styles, unpin variants.
func TestHijackPinUpdateTo(t *testing.T) {
	sec := R.Sec("hijack/pin-update-to")
	var cases []hcase
	for _, style := range []string{"query", "slash"} {
		for _, from := range []argT{argByName("cid"), argByName("ipfs-subpath")} {
			for _, to := range argAlphabet {
				for _, os := range [][]kv{nil, {{"unpin", "true"}}, {{"unpin", "false"}}, {{"unpin", "bogus"}}} {
					for _, m := range allMethods {
						cases = append(cases, hcase{Cmd: "pin/update", Style: style, Arg: from, To: to, Opts: os, Method: m})
					}
				}
			}
		}
	}
	sec.Bounds["from"] = []string{"cid", "ipfs-subpath"}
	sec.Bounds["to"] = argNames()
	sec.Bounds["unpin"] = []string{"absent", "true", "false", "bogus"}
	sec.Bounds["methods"] = allMethods
	runHijackCases(t, sec, cases)
}

// TestHijackAddBodies: add with every body class x (no option | one option)
// x POST/GET/PUT.
func TestHijackAddBodies(t *testing.T) {
	sec := R.Sec("hijack/add-bodies")
	var cases []hcase
	var names []string
	for _, b := range addBodies {
		names = append(names, b.Name)
		for _, os := range optionSets(false) {
			for _, m := range []string{"POST", "GET", "PUT"} {
				cases = append(cases, hcase{Cmd: "add", Style: "query", Arg: argByName("missing"), Opts: os, Method: m, Body: b.Name})
			}
		}
	}
	sec.Bounds["bodies"] = names
	sec.Bounds["option_sets"] = 1 + len(optionAlphabet)
	sec.Bounds["methods"] = []string{"POST", "GET", "PUT"}
	runHijackCases(t, sec, cases)
}

// TestHijackAddTriples (thorough tier only): add with every set of three
// options with pairwise different keys, POST, one 40-byte file.
func TestHijackAddTriples(t *testing.T) {
	if !ev.Thorough() {
		return
	}
	sec := R.Sec("hijack/add-option-triples")
	var cases []hcase
	n := 0
	for i, a := range optionAlphabet {
		for j := i + 1; j < len(optionAlphabet); j++ {
			b := optionAlphabet[j]
			for _, c := range optionAlphabet[j+1:] {
				if a.K == b.K || a.K == c.K || b.K == c.K {
					continue
				}
				n++
				cases = append(cases, hcase{Cmd: "add", Style: "query", Arg: argByName("missing"), Opts: []kv{a, b, c}, Method: "POST", Body: "file40"})
			}
		}
	}
	sec.Bounds["option_triples"] = n
	sec.Bounds["methods"] = []string{"POST"}
	sec.Bounds["body"] = "file40"
	runHijackCases(t, sec, cases)
}

// TestManyHeaderExtractions: a run of hijacked requests each of which makes
// the proxy fetch the daemon's headers again (cold cache), against a daemon
// that answers that request with a body like a real one; then a relayed
// request. Every one of them is answered: the proxy's side requests do not use
// up whatever it needs to keep serving.
func TestManyHeaderExtractions(t *testing.T) {
	sec := R.Sec("hijack/many-header-extractions-then-relay")
	coldHeaders = true
	defer func() { coldHeaders = false }()
	g, err := newRig()
	if err != nil {
		R.Broken("many-header-extractions: %v", err)
		return
	}
	defer g.close()
	g.d.auxBody = true
	const runLen = 100
	for i := 0; i < runLen; i++ {
		o := g.do("POST", "/api/v0/pin/ls", nil, "", 200, []byte("{}"))
		ok := o.ClientErr == "" && o.Status == 200
		R.Eval(sec, fmt.Sprintf("hijacked-request-%d|answered=%v", i+1, ok), true)
		if !ok {
			R.Violation("C12|pin/ls|after-many-header-extractions|no-answer", map[string]interface{}{
				"request_number": i + 1, "client_error": o.ClientErr, "status": o.Status, "extract_headers_ttl": "1ns", "daemon_answers_extraction_with_a_body": true})
			return
		}
	}
	o := g.do("POST", "/api/v0/id", nil, "", 200, []byte(`{"ID":"x"}`))
	ok := o.ClientErr == "" && o.Status == 200 && len(o.Daemon) == 1
	R.Eval(sec, fmt.Sprintf("relayed-request-after-%d|answered=%v", runLen, ok), true)
	if !ok {
		R.Violation("C12|passthrough|after-many-header-extractions|no-answer", map[string]interface{}{
			"after_hijacked_requests": runLen, "client_error": o.ClientErr, "status": o.Status, "reached_daemon": len(o.Daemon)})
	}
	sec.Bounds["run"] = fmt.Sprintf("%d hijacked requests, each with a header extraction answered with a body, then one relayed request", runLen)
}
