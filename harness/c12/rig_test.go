package c12

// The seam: a real ipfsproxy.Server between
//   - a recording fake IPFS daemon (plain HTTP server that logs every request
//     it receives and answers a canned status/body chosen by the test), and
//   - an in-process go-libp2p-gorpc client whose Cluster / IPFSConnector /
//     Consensus / PeerMonitor / PinTracker services are recording services
//     with exactly the method signatures of the real RPC API (/repo/rpc_api.go).

import (
	"bytes"
	"context"
	"crypto/sha256"
	"encoding/hex"
	"errors"
	"fmt"
	"io"
	"net"
	"net/http"
	"net/http/httptest"
	"strings"
	"sync"
	"sync/atomic"
	"time"

	"github.com/ipfs/ipfs-cluster/api"
	"github.com/ipfs/ipfs-cluster/api/ipfsproxy"

	cid "github.com/ipfs/go-cid"
	host "github.com/libp2p/go-libp2p-core/host"
	peer "github.com/libp2p/go-libp2p-core/peer"
	rpc "github.com/libp2p/go-libp2p-gorpc"
	ma "github.com/multiformats/go-multiaddr"
	mh "github.com/multiformats/go-multihash"
)

// ---------------------------------------------------------------- fixtures

func mkCid(s string) cid.Cid {
	h, err := mh.Sum([]byte("c12-"+s), mh.SHA2_256, -1)
	if err != nil {
		panic(err)
	}
	return cid.NewCidV0(h)
}

var (
	cidA        = mkCid("A") // pinned in the model cluster
	cidB        = mkCid("B") // pinned
	cidC        = mkCid("C") // pinned
	cidU        = mkCid("U") // valid, not pinned
	cidR        = mkCid("R") // valid, every cluster operation on it is rejected
	cidResolved = mkCid("resolved")
	pinset      = []cid.Cid{cidA, cidB, cidC}

	peers = func() []peer.ID {
		var out []peer.ID
		for _, s := range []string{
			"QmXZrtE5jQwXNqCJMfHUTQkvhQ4ZAnqMnmzFMJfLewuabc",
			"QmUZ13osndQ5uL4tPWHXe3iBgBgq9gfewcBMSCAuMBsDJ6",
			"QmPGDFvBkgWhvzEK9qaTWrWurSwqXNmhnK3hgELPdZZNPa",
		} {
			p, err := peer.Decode(s)
			if err != nil {
				panic(err)
			}
			out = append(out, p)
		}
		return out
	}()
)

const (
	repoSizePerPeer   = 1000
	storageMaxPerPeer = 5000
)

// resolvePath is the model cluster's path resolution: /ipfs/<cid> is <cid>,
// everything else (sub-paths, /ipns) resolves to cidResolved.
func resolvePath(p string) (cid.Cid, error) {
	if !strings.HasPrefix(p, "/ipfs/") && !strings.HasPrefix(p, "/ipns/") {
		p = "/ipfs/" + p
	}
	segs := strings.Split(strings.Trim(p, "/"), "/")
	if len(segs) < 2 || segs[1] == "" {
		return cid.Undef, errors.New("model: bad path " + p)
	}
	for _, sg := range segs[2:] {
		if sg == "unresolvable" { // a well-formed path whose link does not exist
			return cid.Undef, errors.New("model: no link named unresolvable under " + segs[1])
		}
	}
	if segs[0] == "ipfs" {
		c, err := cid.Decode(segs[1])
		if err != nil {
			return cid.Undef, errors.New("model: bad cid in path " + p)
		}
		if len(segs) == 2 {
			return c, nil
		}
	}
	return cidResolved, nil
}

// ---------------------------------------------------------------- recorder

// rcall is one RPC call received by a recording service.
type rcall struct {
	Svc       string `json:"svc"`
	Method    string `json:"method"`
	Path      string `json:"path,omitempty"`
	Cid       string `json:"cid,omitempty"`
	Mode      string `json:"mode,omitempty"`
	PinUpdate string `json:"pin_update,omitempty"`
	Name      string `json:"name,omitempty"`
	DataLen   int    `json:"data_len,omitempty"`
	DataSHA   string `json:"data_sha,omitempty"`
	data      []byte
	OK        bool   `json:"ok"`
	Err       string `json:"err,omitempty"`
}

func (c rcall) id() string { return c.Svc + "." + c.Method }

// mutating says whether the call is a cluster operation that changes the
// pinset / repo (only successful ones count as performed).
func (c rcall) mutating() bool {
	if !c.OK || c.Svc != "Cluster" {
		return false
	}
	switch c.Method {
	case "Pin", "Unpin", "PinPath", "UnpinPath", "RepoGC":
		return true
	}
	return false
}

type recorder struct {
	mu  sync.Mutex
	log []rcall
}

func (r *recorder) add(c rcall, err error) error {
	c.OK = err == nil
	if err != nil {
		c.Err = err.Error()
	}
	r.mu.Lock()
	r.log = append(r.log, c)
	r.mu.Unlock()
	return err
}

func (r *recorder) take() []rcall {
	r.mu.Lock()
	defer r.mu.Unlock()
	l := r.log
	r.log = nil
	return l
}

var errRejected = errors.New("model cluster: operation rejected for this CID")

func cidStr(c cid.Cid) string {
	if !c.Defined() {
		return ""
	}
	return c.String()
}

type clusterSvc struct{ r *recorder }
type ipfsSvc struct{ r *recorder }
type consensusSvc struct{ r *recorder }
type monitorSvc struct{ r *recorder }
type trackerSvc struct{ r *recorder }

func (s *clusterSvc) Pin(ctx context.Context, in *api.Pin, out *api.Pin) error {
	c := rcall{Svc: "Cluster", Method: "Pin", Cid: cidStr(in.Cid), Mode: in.Mode.String(), Name: in.Name, PinUpdate: cidStr(in.PinUpdate)}
	if in.Cid.Equals(cidR) {
		return s.r.add(c, errRejected)
	}
	*out = *in
	return s.r.add(c, nil)
}

func (s *clusterSvc) Unpin(ctx context.Context, in *api.Pin, out *api.Pin) error {
	c := rcall{Svc: "Cluster", Method: "Unpin", Cid: cidStr(in.Cid)}
	if in.Cid.Equals(cidR) {
		return s.r.add(c, errRejected)
	}
	*out = *in
	return s.r.add(c, nil)
}

func (s *clusterSvc) pinPath(method string, in *api.PinPath, out *api.Pin) error {
	c := rcall{Svc: "Cluster", Method: method, Path: in.Path, Mode: in.Mode.String(), Name: in.Name, PinUpdate: cidStr(in.PinUpdate)}
	ci, err := resolvePath(in.Path)
	if err != nil {
		return s.r.add(c, err)
	}
	c.Cid = ci.String()
	if ci.Equals(cidR) || in.PinUpdate.Equals(cidR) {
		return s.r.add(c, errRejected)
	}
	*out = *api.PinWithOpts(ci, in.PinOptions)
	return s.r.add(c, nil)
}

func (s *clusterSvc) PinPath(ctx context.Context, in *api.PinPath, out *api.Pin) error {
	return s.pinPath("PinPath", in, out)
}

func (s *clusterSvc) UnpinPath(ctx context.Context, in *api.PinPath, out *api.Pin) error {
	return s.pinPath("UnpinPath", in, out)
}

func (s *clusterSvc) Pins(ctx context.Context, in struct{}, out *[]*api.Pin) error {
	var l []*api.Pin
	for _, c := range pinset {
		l = append(l, api.PinCid(c))
	}
	*out = l
	return s.r.add(rcall{Svc: "Cluster", Method: "Pins"}, nil)
}

func (s *clusterSvc) PinGet(ctx context.Context, in cid.Cid, out *api.Pin) error {
	c := rcall{Svc: "Cluster", Method: "PinGet", Cid: cidStr(in)}
	for _, p := range pinset {
		if p.Equals(in) {
			*out = *api.PinCid(in)
			return s.r.add(c, nil)
		}
	}
	return s.r.add(c, errors.New("model cluster: not pinned"))
}

func (s *clusterSvc) BlockAllocate(ctx context.Context, in *api.Pin, out *[]peer.ID) error {
	*out = []peer.ID{peers[0]}
	return s.r.add(rcall{Svc: "Cluster", Method: "BlockAllocate"}, nil)
}

func (s *clusterSvc) RepoGC(ctx context.Context, in struct{}, out *api.GlobalRepoGC) error {
	*out = api.GlobalRepoGC{PeerMap: map[string]*api.RepoGC{
		peer.Encode(peers[0]): {Peer: peers[0], Peername: "p0", Keys: []api.IPFSRepoGC{{Key: cidA}, {Key: cidB}}},
	}}
	return s.r.add(rcall{Svc: "Cluster", Method: "RepoGC"}, nil)
}

func (s *clusterSvc) ID(ctx context.Context, in struct{}, out *api.ID) error {
	*out = api.ID{ID: peers[0]}
	return s.r.add(rcall{Svc: "Cluster", Method: "ID"}, nil)
}

func (s *ipfsSvc) BlockPut(ctx context.Context, in *api.NodeWithMeta, out *struct{}) error {
	h := sha256.Sum256(in.Data)
	return s.r.add(rcall{Svc: "IPFSConnector", Method: "BlockPut", Cid: cidStr(in.Cid), DataLen: len(in.Data),
		DataSHA: hex.EncodeToString(h[:6]), data: append([]byte(nil), in.Data...)}, nil)
}

func (s *ipfsSvc) Resolve(ctx context.Context, in string, out *cid.Cid) error {
	c := rcall{Svc: "IPFSConnector", Method: "Resolve", Path: in}
	ci, err := resolvePath(in)
	if err != nil {
		return s.r.add(c, err)
	}
	c.Cid = ci.String()
	*out = ci
	return s.r.add(c, nil)
}

func (s *ipfsSvc) RepoStat(ctx context.Context, in struct{}, out *api.IPFSRepoStat) error {
	*out = api.IPFSRepoStat{RepoSize: repoSizePerPeer, StorageMax: storageMaxPerPeer}
	return s.r.add(rcall{Svc: "IPFSConnector", Method: "RepoStat"}, nil)
}

func (s *ipfsSvc) Pin(ctx context.Context, in *api.Pin, out *struct{}) error {
	return s.r.add(rcall{Svc: "IPFSConnector", Method: "Pin", Cid: cidStr(in.Cid)}, nil)
}

func (s *ipfsSvc) Unpin(ctx context.Context, in *api.Pin, out *struct{}) error {
	return s.r.add(rcall{Svc: "IPFSConnector", Method: "Unpin", Cid: cidStr(in.Cid)}, nil)
}

func (s *ipfsSvc) BlockGet(ctx context.Context, in cid.Cid, out *[]byte) error {
	return s.r.add(rcall{Svc: "IPFSConnector", Method: "BlockGet", Cid: cidStr(in)}, errors.New("model: no blocks"))
}

func (s *consensusSvc) Peers(ctx context.Context, in struct{}, out *[]peer.ID) error {
	*out = append([]peer.ID(nil), peers...)
	return s.r.add(rcall{Svc: "Consensus", Method: "Peers"}, nil)
}

func (s *consensusSvc) LogPin(ctx context.Context, in *api.Pin, out *struct{}) error {
	return s.r.add(rcall{Svc: "Consensus", Method: "LogPin", Cid: cidStr(in.Cid)}, nil)
}

func (s *consensusSvc) LogUnpin(ctx context.Context, in *api.Pin, out *struct{}) error {
	return s.r.add(rcall{Svc: "Consensus", Method: "LogUnpin", Cid: cidStr(in.Cid)}, nil)
}

func (s *monitorSvc) LatestMetrics(ctx context.Context, in string, out *[]*api.Metric) error {
	return s.r.add(rcall{Svc: "PeerMonitor", Method: "LatestMetrics"}, nil)
}

func (s *monitorSvc) MetricNames(ctx context.Context, in struct{}, out *[]string) error {
	return s.r.add(rcall{Svc: "PeerMonitor", Method: "MetricNames"}, nil)
}

func (s *trackerSvc) Track(ctx context.Context, in *api.Pin, out *struct{}) error {
	return s.r.add(rcall{Svc: "PinTracker", Method: "Track", Cid: cidStr(in.Cid)}, nil)
}

func (s *trackerSvc) Untrack(ctx context.Context, in *api.Pin, out *struct{}) error {
	return s.r.add(rcall{Svc: "PinTracker", Method: "Untrack", Cid: cidStr(in.Cid)}, nil)
}

func (s *trackerSvc) Status(ctx context.Context, in cid.Cid, out *api.PinInfo) error {
	return s.r.add(rcall{Svc: "PinTracker", Method: "Status", Cid: cidStr(in)}, nil)
}

// rpcHost, when set, is the libp2p host the rigs' RPC client and server are
// built on: calls addressed to other peer IDs then really leave the process
// (and fail when those peers cannot be reached); nil: every call is local.
var rpcHost host.Host

func newRecordingClient(r *recorder) (*rpc.Client, error) {
	s := rpc.NewServer(rpcHost, "c12")
	c := rpc.NewClientWithServer(rpcHost, "c12", s)
	for name, svc := range map[string]interface{}{
		"Cluster":       &clusterSvc{r},
		"IPFSConnector": &ipfsSvc{r},
		"Consensus":     &consensusSvc{r},
		"PeerMonitor":   &monitorSvc{r},
		"PinTracker":    &trackerSvc{r},
	} {
		if err := s.RegisterName(name, svc); err != nil {
			return nil, err
		}
	}
	return c, nil
}

// ---------------------------------------------------------------- daemon

// dreq is one request received by the fake IPFS daemon.
type dreq struct {
	Method  string `json:"method"`
	URI     string `json:"uri"` // raw request target: path + "?" + raw query, as received
	Path    string `json:"path"`
	BodyLen int    `json:"body_len"`
	BodySHA string `json:"body_sha"`
	body    []byte
}

type daemon struct {
	mu     sync.Mutex
	log    []dreq
	aux    int
	status int
	body   []byte
	srv    *httptest.Server
	// auxBody: answer the header-extraction request with a body
	auxBody bool
}

func newDaemon() *daemon {
	d := &daemon{status: 200, body: []byte(`{"Version":"c12-fake"}`)}
	d.srv = httptest.NewServer(http.HandlerFunc(d.serve))
	return d
}

func (d *daemon) serve(w http.ResponseWriter, r *http.Request) {
	b, _ := io.ReadAll(r.Body)
	h := sha256.Sum256(b)
	preflight := r.Method == http.MethodOptions && r.Header.Get("Access-Control-Request-Method") != ""
	if preflight || r.URL.Path == extractHeadersPath {
		// the proxy's own auxiliary traffic while answering a hijacked
		// request (CORS pre-flight to the same path, one-off header
		// extraction): counted, not part of the log the oracles read.
		d.mu.Lock()
		d.aux++
		d.mu.Unlock()
		w.Header().Set("X-C12-Daemon", "aux")
		if d.auxBody && !preflight {
			// like a real daemon's answer to the extraction request
			// (POST version): a small JSON body
			w.WriteHeader(200)
			w.Write([]byte(`{"Version":"c12-fake","Commit":"","Repo":"11"}`))
			return
		}
		// no body: like a real daemon's pre-flight answer; it also lets the
		// proxy's transport reuse the connection (the proxy never closes
		// these answers) instead of leaking one socket per request.
		w.WriteHeader(http.StatusNoContent)
		return
	}
	d.mu.Lock()
	d.log = append(d.log, dreq{Method: r.Method, URI: r.RequestURI, Path: r.URL.Path, BodyLen: len(b), BodySHA: hex.EncodeToString(h[:6]), body: b})
	st, body := d.status, d.body
	d.mu.Unlock()
	if strings.HasPrefix(r.URL.Path, echoPrefix) {
		// answers with what was received (concurrent-relay section)
		w.Header().Set("X-C12-Daemon", "1")
		w.WriteHeader(200)
		fmt.Fprintf(w, "%s %s %s", r.Method, r.RequestURI, hex.EncodeToString(h[:6]))
		return
	}
	if strings.HasSuffix(r.URL.Path, abortMidwaySuffix) {
		// a streamed answer (no Content-Length) that dies after its first half
		w.Header().Set("X-C12-Daemon", "1")
		w.Header().Set("Content-Type", "application/octet-stream")
		w.WriteHeader(st)
		w.Write(body[:len(body)/2])
		if f, ok := w.(http.Flusher); ok {
			f.Flush()
		}
		panic(http.ErrAbortHandler)
	}
	w.Header().Set("X-C12-Daemon", "1")
	w.Header().Set("Content-Type", "application/octet-stream")
	w.WriteHeader(st)
	w.Write(body)
}

func (d *daemon) prime(status int, body []byte) {
	d.mu.Lock()
	d.log = nil
	d.aux = 0
	d.status, d.body = status, body
	d.mu.Unlock()
}

func (d *daemon) take() ([]dreq, int) {
	d.mu.Lock()
	defer d.mu.Unlock()
	l, a := d.log, d.aux
	d.log, d.aux = nil, 0
	return l, a
}

// extractHeadersPath is the proxy's configured header-extraction path: a
// path no enumerated case uses, so that this one-off request is
// recognisable at the daemon.
const extractHeadersPath = "/c12/header-extraction"

// echoPrefix: relayed paths beginning so are answered with an echo of the
// request line and body hash.
const echoPrefix = "/api/v0/c12echo/"

// abortMidwaySuffix: relayed paths ending so make the daemon abort its answer
// halfway through the body.
const abortMidwaySuffix = "/abort-midway"

// ---------------------------------------------------------------- rig

type rig struct {
	d      *daemon
	rec    *recorder
	proxy  *ipfsproxy.Server
	base   string // http://127.0.0.1:port
	client *http.Client
}

func newRig() (*rig, error) {
	d := newDaemon()
	rec := &recorder{}
	var lastErr error
	for attempt := 0; attempt < 8; attempt++ {
		l, err := net.Listen("tcp", "127.0.0.1:0")
		if err != nil {
			return nil, err
		}
		port := l.Addr().(*net.TCPAddr).Port
		l.Close()

		cfg := &ipfsproxy.Config{}
		if err := cfg.Default(); err != nil {
			return nil, err
		}
		dAddr := d.srv.Listener.Addr().(*net.TCPAddr)
		cfg.NodeAddr, _ = ma.NewMultiaddr(fmt.Sprintf("/ip4/127.0.0.1/tcp/%d", dAddr.Port))
		la, _ := ma.NewMultiaddr(fmt.Sprintf("/ip4/127.0.0.1/tcp/%d", port))
		cfg.ListenAddr = []ma.Multiaddr{la}
		// header extraction (one POST to ExtractHeadersPath) happens once,
		// during the warm-up request below, and never again during the run
		cfg.ExtractHeadersTTL = 24 * time.Hour
		if coldHeaders {
			// the cached daemon headers have always just expired: every
			// hijacked request makes the proxy ask the daemon again
			cfg.ExtractHeadersTTL = time.Nanosecond
		}
		cfg.ExtractHeadersPath = extractHeadersPath
		if headerTimeout > 0 {
			// the deadline for reading a request's header; read_timeout (the
			// whole request) stays at its default: none
			cfg.ReadHeaderTimeout = headerTimeout
		}
		p, err := ipfsproxy.New(cfg)
		if err != nil {
			lastErr = err
			continue
		}
		c, err := newRecordingClient(rec)
		if err != nil {
			return nil, err
		}
		p.SetClient(c)
		g := &rig{d: d, rec: rec, proxy: p, base: fmt.Sprintf("http://127.0.0.1:%d", port),
			client: &http.Client{
				Timeout:       30 * time.Second,
				Transport:     &http.Transport{DisableCompression: true, MaxIdleConnsPerHost: 4},
				CheckRedirect: func(*http.Request, []*http.Request) error { return http.ErrUseLastResponse },
			}}
		// warm-up: makes the rig's observable behaviour independent of
		// which case it happens to serve first
		if o := g.do("POST", "/api/v0/pin/ls", nil, "", 200, []byte("{}")); o.ClientErr != "" || o.Status != 200 {
			g.close()
			return nil, fmt.Errorf("warm-up request failed: %+v", o)
		}
		return g, nil
	}
	d.srv.Close()
	return nil, fmt.Errorf("cannot start proxy: %v", lastErr)
}

func (g *rig) close() {
	g.proxy.Shutdown(context.Background())
	g.client.CloseIdleConnections()
	g.d.srv.Close()
}

// obs is everything observed for one request.
type obs struct {
	Status      int     `json:"status"`
	Body        []byte  `json:"-"`
	BodyShown   string  `json:"body"`
	StreamError string  `json:"stream_error,omitempty"`
	Location    string  `json:"location,omitempty"`
	ClientErr   string  `json:"client_err,omitempty"`
	Panic       string  `json:"panic,omitempty"`
	RPC         []rcall `json:"rpc"`
	Daemon      []dreq  `json:"daemon"`
	DaemonAux   int     `json:"daemon_aux_requests"` // proxy's own pre-flight / header-extraction requests
}

func show(b []byte) string {
	if len(b) > 300 {
		return fmt.Sprintf("%q… (%d bytes)", b[:300], len(b))
	}
	return fmt.Sprintf("%q", b)
}

// transportRetries counts attempts that ended without a complete HTTP answer
// (connection aborted by the Go HTTP stack under load) and were repeated.
var transportRetries int64

// do sends one request through the proxy and repeats it (at most 4 times)
// when no complete HTTP answer arrived: a missing answer is only a verdict
// when it is persistent.
// unanswered counts requests that got no answer within the client's deadline.
// A proxy that stops answering would otherwise hang the check: the first few
// are reported (no-http-answer), after that the remaining requests of the run
// are not sent any more and the run is marked incomplete.
var unanswered int64

const unansweredCap = 4

func (g *rig) do(method, target string, body []byte, ctype string, dStatus int, dBody []byte) (o obs) {
	if atomic.LoadInt64(&unanswered) >= unansweredCap {
		R.NotExhaustive("the proxy stopped answering (several requests hit the client deadline): the remaining requests of the run were not sent")
		return obs{ClientErr: "not sent: the proxy stopped answering earlier in this run"}
	}
	for attempt := 0; ; attempt++ {
		o = g.do1(method, target, body, ctype, dStatus, dBody)
		if o.ClientErr == "" || attempt == 4 {
			return o
		}
		if strings.Contains(o.ClientErr, "Client.Timeout") || strings.Contains(o.ClientErr, "deadline exceeded") {
			atomic.AddInt64(&unanswered, 1)
			return o
		}
		atomic.AddInt64(&transportRetries, 1)
	}
}

// do1 sends one request through the proxy. target is the raw request target
// (path[?rawquery]) and is sent verbatim.
func (g *rig) do1(method, target string, body []byte, ctype string, dStatus int, dBody []byte) (o obs) {
	g.d.prime(dStatus, dBody)
	g.rec.take()
	defer func() {
		if r := recover(); r != nil {
			o.Panic = fmt.Sprint(r)
		}
		o.RPC = g.rec.take()
		o.Daemon, o.DaemonAux = g.d.take()
		o.BodyShown = show(o.Body)
	}()
	var rd io.Reader
	if body != nil {
		rd = bytes.NewReader(body)
	}
	req, err := http.NewRequest(method, g.base+target, rd)
	if err != nil {
		o.ClientErr = "newrequest: " + err.Error()
		return
	}
	if ctype != "" {
		req.Header.Set("Content-Type", ctype)
	}
	res, err := g.client.Do(req)
	if err != nil {
		o.ClientErr = err.Error()
		return
	}
	b, rerr := io.ReadAll(res.Body)
	res.Body.Close()
	o.Status = res.StatusCode
	o.Body = b
	if rerr != nil {
		o.ClientErr = "read body: " + rerr.Error()
	}
	o.Location = res.Header.Get("Location")
	if v := res.Header.Get("X-Stream-Error"); v != "" {
		o.StreamError = v
	}
	if v := res.Trailer.Get("X-Stream-Error"); v != "" {
		o.StreamError = v
	}
	return
}

func mutations(l []rcall) []rcall {
	var out []rcall
	for _, c := range l {
		if c.mutating() {
			out = append(out, c)
		}
	}
	return out
}

func callsOf(l []rcall, id string, okOnly bool) []rcall {
	var out []rcall
	for _, c := range l {
		if c.id() == id && (c.OK || !okOnly) {
			out = append(out, c)
		}
	}
	return out
}

func callIDs(l []rcall) string {
	var s []string
	for _, c := range l {
		x := c.id()
		if !c.OK {
			x += "!"
		}
		s = append(s, x)
	}
	return strings.Join(s, ",")
}
