package c12

import (
	"bytes"
	"crypto/sha256"
	"encoding/hex"
	"fmt"
	"io"
	"net/http"
	"sort"
	"testing"
	"time"
)

// Two relayed requests in flight together. The relay's transport (the process
// default, which ipfsproxy.New picks up) is wrapped by a gate that holds each
// tagged request after the proxy has prepared it (Director done) and lets the
// harness decide the order in which the two go out: both orders, for every
// ordered pair of a small alphabet of requests that differ in method, path,
// query and body. Each request must reach the daemon as itself and each
// client must get the answer to its own request.

type gateRT struct {
	base    http.RoundTripper
	arrived chan string
	release map[string]chan struct{}
}

func (g *gateRT) RoundTrip(req *http.Request) (*http.Response, error) {
	tag := req.Header.Get("X-C12-Gate")
	if tag == "" {
		return g.base.RoundTrip(req)
	}
	g.arrived <- tag
	<-g.release[tag]
	return g.base.RoundTrip(req)
}

type creq struct {
	Method, Target string
	Body           []byte
}

func (c creq) want() string {
	h := sha256.Sum256(c.Body)
	return fmt.Sprintf("%s %s %s", c.Method, c.Target, hex.EncodeToString(h[:6]))
}

func TestConcurrentRelay(t *testing.T) {
	sec := R.Sec("two-relayed-requests-in-flight")
	gate := &gateRT{base: http.DefaultTransport}
	old := http.DefaultTransport
	http.DefaultTransport = gate
	defer func() { http.DefaultTransport = old }()
	g, err := newRig()
	if err != nil {
		R.Broken("concurrent relay: %v", err)
		return
	}
	defer g.close()
	alphabet := []creq{
		{"POST", echoPrefix + "block/rm?arg=QmX", nil},
		{"POST", echoPrefix + "files/rm?arg=/some/dir&recursive=true", nil},
		{"GET", echoPrefix + "cat?arg=QmY&offset=3", nil},
		{"POST", echoPrefix + "dag/put", []byte(`{"a":1}`)},
		{"POST", echoPrefix + "block/rm?", nil},
	}
	send := func(tag string, c creq, out chan<- string) {
		var rd io.Reader
		if c.Body != nil {
			rd = bytes.NewReader(c.Body)
		}
		req, err := http.NewRequest(c.Method, g.base+c.Target, rd)
		if err != nil {
			out <- "newrequest: " + err.Error()
			return
		}
		req.Header.Set("X-C12-Gate", tag)
		res, err := g.client.Do(req)
		if err != nil {
			out <- "client error: " + err.Error()
			return
		}
		b, _ := io.ReadAll(res.Body)
		res.Body.Close()
		out <- string(b)
	}
	// is the gate in the relay's path at all? (it is when the relay uses the
	// process default transport, as ipfsproxy.New does)
	{
		gate.arrived = make(chan string, 2)
		gate.release = map[string]chan struct{}{"A": make(chan struct{})}
		close(gate.release["A"])
		probe := make(chan string, 1)
		go send("A", alphabet[0], probe)
		select {
		case <-gate.arrived:
			<-probe
		case <-probe:
			sec.Exhaustive = false
			sec.CapHit = "the relay does not go through the process default transport: the gate is not in its path and the order of two requests in flight cannot be controlled"
			R.NotExhaustive("two-relayed-requests-in-flight: " + sec.CapHit)
			return
		case <-time.After(40 * time.Second):
			sec.Exhaustive = false
			sec.CapHit = "the probe request was neither seen by the gate nor answered within 40s"
			R.NotExhaustive("two-relayed-requests-in-flight: " + sec.CapHit)
			return
		}
	}
	n := 0
	for i, a := range alphabet {
		for j, b := range alphabet {
			if i == j {
				continue
			}
			for _, first := range []string{"A", "B"} {
				gate.arrived = make(chan string, 2)
				gate.release = map[string]chan struct{}{"A": make(chan struct{}), "B": make(chan struct{})}
				g.d.prime(200, []byte("{}"))
				ra, rb := make(chan string, 1), make(chan string, 1)
				go send("A", a, ra)
				<-gate.arrived // A prepared by the proxy, held at the transport
				go send("B", b, rb)
				<-gate.arrived // B too
				var gotA, gotB string
				if first == "A" {
					close(gate.release["A"])
					gotA = <-ra
					close(gate.release["B"])
					gotB = <-rb
				} else {
					close(gate.release["B"])
					gotB = <-rb
					close(gate.release["A"])
					gotA = <-ra
				}
				log, _ := g.d.take()
				var seen []string
				for _, d := range log {
					seen = append(seen, fmt.Sprintf("%s %s %s", d.Method, d.URI, d.BodySHA))
				}
				sort.Strings(seen)
				wantSeen := []string{a.want(), b.want()}
				sort.Strings(wantSeen)
				n++
				okDaemon := fmt.Sprint(seen) == fmt.Sprint(wantSeen)
				okAnswers := gotA == a.want() && gotB == b.want()
				R.Eval(sec, fmt.Sprintf("A=%s %s|B=%s %s|first-out=%s|daemon-ok=%v|answers-ok=%v", a.Method, a.Target, b.Method, b.Target, first, okDaemon, okAnswers), true)
				if !okDaemon || !okAnswers {
					sym := "request-reached-the-daemon-changed"
					if okDaemon {
						sym = "answer-of-another-request"
					}
					R.Violation("C12|passthrough|two-in-flight|"+sym, map[string]interface{}{
						"A": a.want(), "B": b.want(), "first_written_to_the_daemon": first,
						"daemon_received": seen, "answer_to_A": gotA, "answer_to_B": gotB})
				}
			}
		}
	}
	sec.Bounds["pairs"] = fmt.Sprintf("%d executions: every ordered pair of %d relayed requests x which of the two is written first", n, len(alphabet))
}
