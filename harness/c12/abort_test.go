package c12

// A relayed request whose daemon answer dies in the middle of the body: the
// proxy "returns the daemon's response", so the client must see what it would
// see talking to the daemon directly: a broken transfer - never a complete,
// well-terminated answer that holds only the first half.

import (
	"bytes"
	"fmt"
	"testing"
)

func TestPassThroughDaemonAbortsMidway(t *testing.T) {
	sec := R.Sec("pass-through/daemon-aborts-midway")
	g, err := newRig()
	if err != nil {
		t.Fatal(err)
	}
	defer g.close()
	body := bytes.Repeat([]byte("0123456789abcdef"), 4096) // 64 KiB
	n := 0
	for _, m := range []string{"POST", "GET"} {
		for _, p := range []string{"/api/v0/cat", "/api/v0/block/get", "/api/v0/dag/export", "/ipfs/bafy/file", "/other"} {
			target := p + abortMidwaySuffix + "?arg=x"
			o := g.do1(m, target, nil, "", 200, body)
			outcome := "client-sees-broken-transfer"
			switch {
			case o.ClientErr != "":
			case len(o.Body) == len(body):
				outcome = "harness:daemon-did-not-abort"
				R.Broken("daemon-abort: the fake daemon delivered the whole body for %s %s", m, target)
			default:
				outcome = "truncated-answer-presented-as-complete"
				R.Violation("C12|passthrough|daemon-aborts-midway|truncated-answer-presented-as-complete", map[string]interface{}{
					"request": m + " " + target, "daemon_body_bytes": len(body), "client_got_status": o.Status, "client_got_bytes": len(o.Body),
					"expected": "the client sees the transfer break (as it would talking to the daemon), not a well-terminated answer with half the body"})
			}
			R.Eval(sec, fmt.Sprintf("%s %s|%s", m, p, outcome), true)
			R.Outcome(sec, outcome)
			n++
		}
	}
	sec.Bounds["requests"] = n
	sec.Bounds["daemon"] = "streams half of a 64 KiB body without Content-Length, then aborts the connection"
}
