package c12

import (
	"bytes"
	"fmt"
	"strings"
	"testing"

	"verif/harness/lib/ev"
)

type problem struct{ symptom, what string }

// relayProblems is the pass-through clause of the property: the daemon
// received the same method, path, raw query and body bytes (exactly once),
// no cluster operation was involved, and the client received the daemon's
// status and body.
func relayProblems(method, target string, body []byte, dStatus int, dBody []byte, o obs) []problem {
	var p []problem
	if len(o.RPC) != 0 {
		// answered through the cluster instead of being relayed; everything
		// else that differs is a consequence of that.
		return []problem{{"cluster-rpc", fmt.Sprintf("cluster RPC on a request that must be relayed: %s; proxy answered %d %s", callIDs(o.RPC), o.Status, show(o.Body))}}
	}
	if len(o.Daemon) != 1 {
		sym := fmt.Sprintf("daemon-got-%d-requests", len(o.Daemon))
		if len(o.Daemon) == 0 {
			sym = fmt.Sprintf("not-relayed:proxy-answered-%d", o.Status)
		}
		p = append(p, problem{sym, fmt.Sprintf("daemon received %d requests for one client request; proxy answered %d location=%q", len(o.Daemon), o.Status, o.Location)})
		return p
	}
	d := o.Daemon[0]
	if d.Method != method {
		p = append(p, problem{"method-changed", fmt.Sprintf("sent %s, daemon received %s", method, d.Method)})
	}
	if d.URI != target {
		sp, sq, _ := strings.Cut(target, "?")
		dp, dq, _ := strings.Cut(d.URI, "?")
		if sp != dp {
			p = append(p, problem{"path-changed", fmt.Sprintf("sent path %q, daemon received %q", sp, dp)})
		}
		if sq != dq || strings.Contains(target, "?") != strings.Contains(d.URI, "?") {
			p = append(p, problem{"query-changed", fmt.Sprintf("sent raw query %q, daemon received %q", sq, dq)})
		}
	}
	if !bytes.Equal(d.body, body) {
		p = append(p, problem{"body-changed", fmt.Sprintf("sent %d body bytes, daemon received %d (sha %s)", len(body), d.BodyLen, d.BodySHA)})
	}
	if o.Status != dStatus {
		p = append(p, problem{"status-changed", fmt.Sprintf("daemon answered %d, client received %d", dStatus, o.Status)})
	}
	if method != "HEAD" && !bytes.Equal(o.Body, dBody) {
		p = append(p, problem{"answer-body-changed", fmt.Sprintf("daemon answered %d bytes, client received %s", len(dBody), show(o.Body))})
	}
	return p
}

type ppath struct {
	Class string // stable name used in violation keys
	Path  string
}

// passPaths: paths that are not one of the seven commands. "near" paths are
// one edit away from a hijacked route.
var passPaths = []ppath{
	{"other-command", "/api/v0/version"},
	{"other-command", "/api/v0/id"},
	{"other-command", "/api/v0/block/put"},
	{"other-command", "/api/v0/files/write"},
	{"other-command", "/api/v0/dag/put"},
	{"other-command", "/api/v0/name/publish"},
	{"other-command", "/api/v0/refs/local"},
	{"other-command", "/api/v0/swarm/peers"},
	{"other-pin-command", "/api/v0/pin/verify"},
	{"other-pin-command", "/api/v0/pin/remote/add"},
	{"other-repo-command", "/api/v0/repo/version"},
	{"other-repo-command", "/api/v0/repo/verify"},
	{"near:misspelt", "/api/v0/pins/add"},
	{"near:misspelt", "/api/v0/pin/addx"},
	{"near:misspelt", "/api/v0/pin/ls2"},
	{"near:misspelt", "/api/v0/addx"},
	{"near:misspelt", "/api/v0/add-extra"},
	{"near:misspelt", "/api/v0/repo/gcx"},
	{"near:case", "/API/V0/PIN/ADD"},
	{"near:case", "/api/v0/Pin/Add"},
	{"near:other-version", "/api/v1/pin/add"},
	{"near:other-version", "/api/v00/pin/rm"},
	{"near:no-version", "/api/pin/add"},
	{"near:no-version", "/pin/add"},
	{"near:no-version", "/add"},
	{"near:prefixed", "/x/api/v0/pin/add"},
	{"near:prefix-only", "/api/v0"},
	{"near:prefix-only", "/api/v0/"},
	{"near:prefix-only", "/api/v0/pin"},
	{"near:prefix-only", "/api/v0/repo"},
	{"root", "/"},
	{"webui", "/webui"},
	{"gateway-like", "/ipfs/" + "QmUNLLsPACCz1vLxQVkXqqLX5R1X345qqfHbsf67hvA3Nn" + "/a/b.txt"},
	{"escaped", "/api/v0/key/gen%20x"},
	{"escaped", "/api/v0/files/a%2Fb"},
	{"escaped", "/api/v0/get/a+b;c"},
}

// uncleanPaths: syntactically non-canonical paths (dot segments, doubled
// slashes). They are "other" paths by the property text.
var uncleanPaths = []ppath{
	{"unclean:double-slash", "//api/v0/pin/add"},
	{"unclean:double-slash", "/api/v0//version"},
	{"unclean:double-slash", "/api//v0/pin/add"},
	{"unclean:dot-segment", "/api/v0/./version"},
	{"unclean:dot-segment", "/api/v0/../v0/version"},
	{"unclean:dot-segment", "/api/v0/pin/../pin/add"},
}

var passQueries = []string{
	"",
	"arg=" + "QmUNLLsPACCz1vLxQVkXqqLX5R1X345qqfHbsf67hvA3Nn",
	"arg=a&arg=b&x=1",
	"b=2&a=1&a=0&flag",
	"q=%2F%20+%26&r=%7e",
	"bad=%zz&semi=a;b",
	"arg=/ipfs/x/y&only-hash=true&pin=false",
	"=&&x==",
}

var (
	bodySmall = []byte("hello=world&\x00\xff binary-ish")
	body64k   = func() []byte {
		b := make([]byte, 64*1024)
		x := uint32(12345)
		for i := range b {
			x = x*1664525 + 1013904223
			b[i] = byte(x >> 24)
		}
		return b
	}()
)

type pbody struct {
	Name string
	B    []byte
}

var passBodies = []pbody{{"empty", nil}, {"small", bodySmall}, {"64KiB-binary", body64k}}

var passMethods = []string{"POST", "GET", "PUT", "OPTIONS", "HEAD", "DELETE", "PATCH"}

type dAnswer struct {
	Status int
	Name   string
	Body   []byte
}

var daemonAnswers = []dAnswer{
	{200, "200-json", []byte(`{"Version":"0.9.1","Commit":"c12"}`)},
	{404, "404-text", []byte("404 page not found\n")},
	{500, "500-json", []byte(`{"Message":"daemon says no","Code":0,"Type":"error"}`)},
	{403, "403-empty", []byte{}},
	{200, "200-64KiB", body64k},
	{202, "202-binary", bodySmall},
}

type pcase struct {
	Class  string `json:"path_class"`
	Method string `json:"method"`
	Target string `json:"target"`
	Body   string `json:"body"`
	Answer string `json:"daemon_answer"`
	body   []byte
	ans    dAnswer
}

func runPass(t *testing.T, sec *ev.Section, paths []ppath) {
	var cases []pcase
	i := 0
	for _, p := range paths {
		for _, q := range passQueries {
			for _, b := range passBodies {
				for _, m := range passMethods {
					tgt := p.Path
					if q != "" {
						tgt += "?" + q
					}
					answers := []dAnswer{daemonAnswers[i%len(daemonAnswers)]}
					if ev.Thorough() {
						answers = daemonAnswers
					}
					i++
					for _, a := range answers {
						cases = append(cases, pcase{Class: p.Class, Method: m, Target: tgt, Body: b.Name, Answer: a.Name, body: b.B, ans: a})
					}
				}
			}
		}
	}
	var pl []string
	for _, p := range paths {
		pl = append(pl, p.Path)
	}
	sec.Bounds["paths"] = pl
	sec.Bounds["raw_queries"] = passQueries
	sec.Bounds["bodies"] = []string{"empty", "small (24 bytes, binary)", "64KiB pseudo-random binary"}
	sec.Bounds["methods"] = passMethods
	if ev.Thorough() {
		sec.Bounds["daemon_answers"] = "all 6 per request"
	} else {
		sec.Bounds["daemon_answers"] = "6 canned (status, body) answers, assigned round-robin"
	}
	runParallel(t, len(cases), func(g *rig, i int) {
		c := cases[i]
		o := g.do(c.Method, c.Target, c.body, "", c.ans.Status, c.ans.Body)
		outcome := "relayed"
		var probs []problem
		switch {
		case o.Panic != "":
			probs = []problem{{"harness-panic", o.Panic}}
			outcome = "panic"
		case o.ClientErr != "":
			probs = []problem{{"no-http-answer", o.ClientErr}}
			outcome = "no-answer"
		default:
			probs = relayProblems(c.Method, c.Target, c.body, c.ans.Status, c.ans.Body, o)
			if len(probs) > 0 {
				outcome = "deviates:" + probs[0].symptom
			}
		}
		R.Outcome(sec, outcome)
		R.Eval(sec, strings.Join([]string{c.Class, c.Method, c.Target, c.Body, c.Answer, outcome}, "|"), o.ClientErr == "" && o.Panic == "")
		if i%1499 == 0 {
			R.SampleTagged("pass-through-space", 5, map[string]interface{}{"case": c, "outcome": outcome, "daemon_received": o.Daemon, "client_status": o.Status})
		}
		for _, p := range probs {
			key := fmt.Sprintf("C12|passthrough|%s|%s", c.Class, p.symptom)
			if needsConfirm(key) && !confirm(key, func() []string {
				o2 := g.do(c.Method, c.Target, c.body, "", c.ans.Status, c.ans.Body)
				var ks []string
				if o2.ClientErr != "" {
					ks = append(ks, fmt.Sprintf("C12|passthrough|%s|no-http-answer", c.Class))
				}
				for _, x := range relayProblems(c.Method, c.Target, c.body, c.ans.Status, c.ans.Body, o2) {
					ks = append(ks, fmt.Sprintf("C12|passthrough|%s|%s", c.Class, x.symptom))
				}
				return ks
			}) {
				continue
			}
			R.Violation(key, map[string]interface{}{
				"request":  c,
				"expected": "relayed to the daemon unchanged (method, raw path and query, body bytes), daemon's status and body returned, no cluster RPC",
				"observed": p.what,
				"answer":   o,
			})
		}
	})
}

// TestPassThrough: every non-hijacked path x raw query x body x method.
func TestPassThrough(t *testing.T) {
	runPass(t, R.Sec("pass-through"), passPaths)
}

// TestPassThroughUnclean: the same product for non-canonical paths.
func TestPassThroughUnclean(t *testing.T) {
	runPass(t, R.Sec("pass-through/non-canonical-paths"), uncleanPaths)
}
