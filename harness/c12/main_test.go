package c12

import (
	"fmt"
	"io"
	"log"
	"sync"
	"sync/atomic"
	"testing"
	"time"

	logging "github.com/ipfs/go-log/v2"

	"verif/harness/lib/ev"
)

var R *ev.Run

func TestMain(m *testing.M) {
	// The proxy logs every request; keep the run output readable.
	logging.SetAllLoggers(logging.LevelFatal)
	log.SetOutput(io.Discard) // net/http server error log (superfluous WriteHeader notices)
	R = ev.New("C12", "exploration")
	R.Rule("finite product, every element sent as a real HTTP request through a real ipfsproxy.Server standing between a recording fake IPFS daemon and recording RPC services. " +
		"Hijack space: command {pin/add,pin/rm,pin/ls,pin/update,add,repo/stat,repo/gc} x argument style {?arg=, /{arg}} x argument alphabet x option set (none, each option alone, every pair of options with different keys) x HTTP method; " +
		"pass-through space: path grammar x raw query alphabet x body {empty, small, 64KiB binary} x HTTP method x canned daemon answer. " +
		"A case is distinct by (command|path class, style, argument class, option keys=values, method, body class) together with the observed outcome class; " +
		"it is non-trivial when the proxy produced an HTTP answer for it (every case reaches the router; cases without an answer are reported, not counted).")
	R.Assume("fake daemon and recording RPC services answer deterministically and never fail on their own; the only rejecting input is the designated CID 'cid-rejected' (every Cluster operation on it fails) and 'cid-unpinned' (PinGet fails)")
	R.Assume("methods OPTIONS/HEAD/DELETE/PATCH on a command path, a trailing path segment on commands without string arguments (add, repo/stat, repo/gc), a multi-segment or empty trailing argument: the property text does not say on which side they fall; the oracle accepts a complete hijack, a faithful relay, or a proxy-made non-2xx answer without any effect, and still applies every safety clause")
	R.Assume("the proxy's own auxiliary requests to the daemon while answering a hijacked request (OPTIONS pre-flight carrying Access-Control-Request-Method, and the one-off POST to the configured extract_headers_path, set to a path no case uses) are not 'the mutating call it replaces'; the daemon counts them separately and answers them 204")
	R.Assume("HTTP hop-by-hop details (header set, X-Forwarded-For, connection reuse) are outside the property; 'unchanged' is decided on method, raw request target (path and raw query) and body bytes, 'the daemon's response' on status code and body bytes")
	ev.Main(func() int {
		c := m.Run()
		R.Note("transport_retries", atomic.LoadInt64(&transportRetries))
		R.Note("violations_reexecuted", atomic.LoadInt64(&reexecuted))
		return c
	}, R)
}

// workers is the number of independent rigs (proxy + daemon + recorder)
// cases are spread over. Verdicts are per case and do not depend on it.
func workers() int {
	if ev.Thorough() {
		return 8
	}
	return 4
}

// daemonDown: the rigs' IPFS daemon is stopped after the warm-up request, so
// every request finds it unreachable (connection refused).
var daemonDown bool

// coldHeaders: rigs whose header cache (extract_headers_ttl) expires at once.
var coldHeaders bool

// headerTimeout: rigs with this read_header_timeout instead of the default.
var headerTimeout time.Duration

// runParallel feeds n indices to w rigs.
func runParallel(t *testing.T, n int, fn func(g *rig, i int)) {
	w := workers()
	rigs := make([]*rig, w)
	for i := range rigs {
		g, err := newRig()
		if err != nil {
			t.Fatalf("rig: %v", err)
		}
		if daemonDown {
			g.d.srv.CloseClientConnections()
			g.d.srv.Close()
		}
		rigs[i] = g
	}
	defer func() {
		for _, g := range rigs {
			g.close()
		}
	}()
	ch := make(chan int, 256)
	var wg sync.WaitGroup
	var pmu sync.Mutex
	var panics []string
	for _, g := range rigs {
		wg.Add(1)
		go func(g *rig) {
			defer wg.Done()
			for i := range ch {
				func() {
					defer func() {
						if r := recover(); r != nil {
							pmu.Lock()
							panics = append(panics, fmt.Sprintf("case %d: %v", i, r))
							pmu.Unlock()
						}
					}()
					fn(g, i)
				}()
			}
		}(g)
	}
	for i := 0; i < n; i++ {
		ch <- i
	}
	close(ch)
	wg.Wait()
	if len(panics) > 0 {
		t.Fatalf("harness panics: %v", panics[:1])
	}
}

// Every violation is re-executed before it is reported (first occurrences of
// each key): a symptom that does not reproduce is an internal error of the
// check (exit 2), never a verdict.
var (
	reexecuted int64
	confirmMu  sync.Mutex
	confirmed  = map[string]int{}
)

const confirmRuns = 2   // extra executions per confirmed violation
const confirmPerKey = 3 // occurrences of one key that are re-executed

func needsConfirm(key string) bool {
	confirmMu.Lock()
	defer confirmMu.Unlock()
	confirmed[key]++
	return confirmed[key] <= confirmPerKey
}

// confirm re-runs a case and says whether symptom shows up every time.
func confirm(key string, again func() []string) bool {
	for i := 0; i < confirmRuns; i++ {
		atomic.AddInt64(&reexecuted, 1)
		found := false
		for _, s := range again() {
			if s == key {
				found = true
			}
		}
		if !found {
			R.Broken("FLAKY-INTERNAL: violation %s did not reproduce on re-execution", key)
			return false
		}
	}
	return true
}
