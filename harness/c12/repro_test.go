package c12

import (
	"fmt"
	"testing"
)

// TestCandidateDefects reproduces, each with one request, the two candidate
// defects listed for C12 in DESIGN.md section 6 (addHandler) and records what
// was observed in the evidence file. A confirmed defect is reported under the
// same narrow key the enumeration uses for it.
func TestCandidateDefects(t *testing.T) {
	sec := R.Sec("direct-reproductions")
	g, err := newRig()
	if err != nil {
		t.Fatal(err)
	}
	defer g.close()
	b := addBodyByName("file5")
	notes := map[string]interface{}{}
	for _, q := range []string{"only-hash=true", "pin=false", "pin=false&stream-channels=false"} {
		target := "/api/v0/add?" + q
		o := g.do("POST", target, b.Body, b.CType, 200, []byte("{}"))
		pins := callsOf(o.RPC, "Cluster.Pin", true)
		unpins := callsOf(o.RPC, "Cluster.Unpin", false)
		puts := callsOf(o.RPC, "IPFSConnector.BlockPut", true)
		obsd := map[string]interface{}{
			"request": "POST " + target + " (multipart, one 5-byte file)", "status": o.Status, "stream_error": o.StreamError, "body": o.BodyShown,
			"cluster_pin_calls": len(pins), "cluster_unpin_calls_received": len(unpins), "block_puts": len(puts),
		}
		confirmed := false
		switch q {
		case "only-hash=true":
			confirmed = isErrorAnswer(o) && len(pins)+len(puts) > 0
			if len(pins)+len(puts) > 0 {
				R.Violation("C12|add|only-hash=true|content-added-anyway", map[string]interface{}{"request": obsd["request"], "observed": obsd,
					"expected": "only-hash=true: either honoured (nothing written, nothing pinned) or refused with an error and no cluster operation"})
			}
		default:
			confirmed = len(pins) > 0 && len(unpins) == 0
			if confirmed {
				R.Violation("C12|add|pin=false|root-left-pinned", map[string]interface{}{"request": obsd["request"], "observed": obsd,
					"expected": "pin=false: the added root is not left pinned in the cluster (and an error answer means no cluster operation)"})
			}
		}
		obsd["defect_confirmed"] = confirmed
		notes[q] = obsd
		R.Outcome(sec, fmt.Sprintf("%s:confirmed=%v", q, confirmed))
		R.Eval(sec, "direct|"+q+fmt.Sprintf("|%d|%v", o.Status, confirmed), true)
	}
	R.Note("candidate_defects", notes)
}
