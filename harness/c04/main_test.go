// Package c04 checks property C04 of ipfs-cluster on the real code: "Pin,
// unpin and update change the pinset exactly as requested, or not at all".
//
// Explicit-state breadth-first search over call histories of a real
// single-peer ipfscluster.Cluster (recording in-memory consensus, model IPFS
// connector, injectable monitor with three healthy peers). A state is the
// canonical pinset; every call of the alphabet is applied from every reached
// state; every transition is an execution of the real Cluster method and is
// judged against a reference written from the property text (model_test.go).
package c04

import (
	"fmt"
	"os"
	"path/filepath"
	"runtime"
	"strconv"
	"strings"
	"sync/atomic"
	"testing"
	"testing/synctest"
	"time"

	"github.com/ipfs/ipfs-cluster/api"

	"verif/harness/lib/ev"
)

var R *ev.Run

func TestMain(m *testing.M) {
	R = ev.New("C04", "model_checking")
	R.Rule("explicit-state BFS over call histories on a real single-peer Cluster: a state is the canonical pinset (every stored field of every entry, allocations as a set); " +
		"from EVERY reached state of depth < D every call of the alphabet (Pin, PinPath, PinUpdate, Pin/PinPath with the update option, Unpin, UnpinPath over the CID universe x option alphabet) is executed on the real code and judged against the reference; " +
		"states are deduplicated; a case (transition) is identified by configuration + entry point + situation (fresh / which options differ from the stored entry / which refusal applies / pin type unpinned) + outcome class, " +
		"and is non-trivial unless it is a follower-mode refusal on an empty pinset")
	R.Assume("go1.26 builds the repo with the same semantics as the project's toolchain for the code under test")
	R.Assume("the consensus component is the harness's recording in-memory Consensus over a real dsstate: LogPin/LogUnpin apply immediately (C01/C02 cover the real consensus layers)")
	R.Assume("successor states are produced by writing the observed pinset into the consensus state (State.Add) instead of replaying the history: the Cluster keeps no other pin-related mutable state that influences Pin/Unpin/PinUpdate; a sample of states of every depth is re-reached by replaying the shortest history on a fresh peer with the pin tracker attached and compared (section replay)")
	R.Assume("all three peers of the peerset have a valid unexpired metric throughout (allocation under unhealthy peers is C03's subject)")
	R.Assume("Pin.UserAllocations is a transient request field that is not stored; it is judged through the allocation it produces only")
	R.Assume("where several current holders exceed a lowered maximum the code drops arbitrary ones (map order): successor states, and therefore the exact state count, may differ slightly between runs; verdicts do not")
	go watchdog()
	ev.Main(m.Run, R)
}

// progress counts executed calls; the watchdog turns a stalled run (a bubble
// that never ends) into a prompt "broken check" exit with a goroutine dump
// instead of vcheck's 25-minute timeout. It runs outside every bubble, on the
// real clock.
var progress atomic.Int64

func watchdog() {
	last, since := int64(-1), time.Now()
	for {
		time.Sleep(2 * time.Second)
		if p := progress.Load(); p != last {
			last, since = p, time.Now()
			continue
		}
		if time.Since(since) > 3*time.Minute {
			buf := make([]byte, 8<<20)
			buf = buf[:runtime.Stack(buf, true)]
			dump := filepath.Join(ev.Root, "replays", "C04", "stall-goroutines.txt")
			os.MkdirAll(filepath.Dir(dump), 0o755)
			os.WriteFile(dump, buf, 0o644)
			fmt.Printf("BROKEN: C04 made no progress for 3 minutes after %d calls (a bubble does not end); goroutine dump in %s\n", last, dump)
			os.Exit(2)
		}
	}
}

type bounds struct {
	plain      []string
	depth      int
	followerTo int // follower mode: every call from every state of depth <= followerTo
	replays    int // per configuration
	budget     time.Duration
}

func tierBounds() (main bounds, deep *bounds) {
	if ev.Thorough() {
		return bounds{plain: []string{"a", "b", "c"}, depth: 3, followerTo: 2, replays: 400, budget: 14 * time.Minute},
			&bounds{plain: []string{"a", "b"}, depth: 4, followerTo: -1, replays: 100, budget: 10 * time.Minute}
	}
	return bounds{plain: []string{"a", "b"}, depth: 3, followerTo: 1, replays: 60, budget: 45 * time.Second}, nil
}

var processStart = time.Now()

// overall wall limit of the whole run; section budgets never reach past it
func overallLeft() time.Duration {
	limit := 80 * time.Second
	if ev.Thorough() {
		limit = 27 * time.Minute
	}
	return limit - time.Since(processStart)
}

// testBudget caps a section budget by what is left of the overall limit, and
// lets the budget handling itself be exercised (C04_BUDGET_S=1).
func testBudget(d time.Duration) time.Duration {
	if s, err := strconv.Atoi(os.Getenv("C04_BUDGET_S")); err == nil && s > 0 {
		return time.Duration(s) * time.Second
	}
	if l := overallLeft(); l < d {
		d = l
	}
	return d
}

func runBFS(t *testing.T, name string, b bounds) {
	sec := R.Sec(name)
	calls := bfsCalls(b.plain)
	sec.Bounds["cid_universe"] = append(append([]string{}, b.plain...), "x(never pinned)", "m(meta)", "d(cluster-DAG)", "s0,s1(shards)")
	sec.Bounds["depth"] = b.depth
	sec.Bounds["calls_per_state"] = len(calls)
	sec.Bounds["configurations"] = "cluster default factors {-1/-1, 1/2, 2/2} x follower {off,on}"
	sec.Bounds["roots"] = "empty pinset; sharded fixture installed (meta + cluster-DAG + 2 shards)"
	sec.Bounds["option_alphabet"] = "empty + one deviation: name n1/n2; mode direct; factors 1/1 2/3 -1/-1 0/2 1/0 2/1 -1/2 -3/-3 4/4; expiry future1/future2/past/unix-epoch/before-unix-epoch; metadata {} {k:v} {k:v'} {k:v,k2:v2} {k2:v2} {k:\"\"} {\"\":x}; origins [o1] [o1,o2] [o2]; user allocations [P2] [P2,P1]; update source = other plain CID / never-pinned / meta"
	sec.Bounds["failing_ipfs_block_get"] = "the same states and calls once more with the daemon unable to deliver blocks (the cluster-DAG of sharded content cannot be read)"
	sec.Bounds["failing_consensus"] = "the same states and calls twice more: with every LogPin/LogUnpin of the consensus component failing, and with only the first one of each request failing"
	sec.Bounds["follower_mode"] = fmt.Sprintf("every call from every state of depth <= %d (states reached under the same factors with follower mode off)", b.followerTo)
	budget := ev.NewBudget(testBudget(b.budget))
	var nStates int64
	for _, cfg := range factorConfigs {
		fixture := buildFixtureState(t, cfg)
		e := &explorer{name: name, cfg: cfg, calls: calls, seen: map[hkey]struct{}{}, sec: sec}
		e.addRoot(nil, "[start: empty pinset]")
		e.addRoot(fixture, "[start: sharded fixture installed]")
		e.bfs(t, b.depth, budget)
		nStates += int64(len(e.nodes) + e.countedOnly)
		R.SampleTagged("state", 2, map[string]interface{}{"config": cfg.String(), "history": e.history(len(e.nodes) - 1), "pinset": canonSet(e.nodes[len(e.nodes)-1].pins)})

		// follower mode on: the same states, every call
		if b.followerTo >= 0 {
			var fr []int
			for i := range e.nodes {
				if e.nodes[i].depth <= b.followerTo {
					fr = append(fr, i)
				}
			}
			fcfg := cfg
			fcfg.Follower = true
			if _, complete := e.expand(t, fcfg, fr, 0, budget, false, false); !complete {
				sec.Exhaustive = false
				sec.CapHit = "time budget hit in the follower-mode pass under " + fcfg.String()
				R.NotExhaustive(name + ": " + sec.CapHit)
			}
		}
		// every consensus write fails: the same states, every call
		if b.followerTo >= 0 {
			var fr []int
			for i := range e.nodes {
				if e.nodes[i].depth <= b.followerTo {
					fr = append(fr, i)
				}
			}
			bcfg := cfg
			bcfg.BlockGetFails = true
			if _, complete := e.expand(t, bcfg, fr, 0, budget, false, false); !complete {
				sec.Exhaustive = false
				sec.CapHit = "time budget hit in the failing-block-get pass under " + bcfg.String()
				R.NotExhaustive(name + ": " + sec.CapHit)
			}
			for _, how := range []string{"all", "first"} {
				xcfg := cfg
				xcfg.ConsFail = how
				if _, complete := e.expand(t, xcfg, fr, 0, budget, false, false); !complete {
					sec.Exhaustive = false
					sec.CapHit = "time budget hit in the failing-consensus pass under " + xcfg.String()
					R.NotExhaustive(name + ": " + sec.CapHit)
				}
			}
		}
		replaySample(t, e, b.replays)
	}
	R.States(sec, nStates)
}

func TestBFS(t *testing.T) {
	b, deep := tierBounds()
	runBFS(t, "bfs", b)
	if deep != nil {
		runBFS(t, "bfs-deep", *deep)
	} else {
		// quick tier: the three-CID universe one level less deep
		runBFS(t, "bfs-3cid", bounds{plain: []string{"a", "b", "c"}, depth: 2, followerTo: 0, replays: 20, budget: 15 * time.Second})
	}
	// vacuity guard: the search must have seen the operations succeed
	for _, o := range []string{"Pin:ok", "PinPath:ok", "PinUpdate:ok", "Unpin:ok", "UnpinPath:ok"} {
		if R.Sec("bfs").Outcomes[o] == 0 {
			R.Broken("no successful %s in the whole search: the check would be vacuous", o)
		}
	}
}

// TestPairwise: single CID, the full pairwise option alphabet, depth 2: every
// ordered pair (first pin options, re-pin options) over empty + single +
// pairwise deviations, plus unpin.
func TestPairwise(t *testing.T) {
	sec := R.Sec("pairwise")
	calls := pairwiseCalls()
	depth := 2
	if ev.Thorough() {
		depth = 3
	}
	sec.Bounds["cid_universe"] = "a (update sources b, x, m are never pinned here)"
	sec.Bounds["depth"] = depth
	sec.Bounds["calls_per_state"] = len(calls)
	sec.Bounds["option_alphabet"] = "empty + every one-dimension deviation + every value combination of every pair of dimensions (name, mode, factors, expiry, metadata, origins, user allocations, update source)"
	sec.Bounds["configurations"] = "cluster default factors {-1/-1, 1/2, 2/2}, follower off"
	bud := 25 * time.Second
	if ev.Thorough() {
		bud = 8 * time.Minute
	}
	budget := ev.NewBudget(testBudget(bud))
	var nStates int64
	for _, cfg := range factorConfigs {
		e := &explorer{name: "pairwise", cfg: cfg, calls: calls, seen: map[hkey]struct{}{}, sec: sec}
		e.addRoot(nil, "[start: empty pinset]")
		e.bfs(t, depth, budget)
		nStates += int64(len(e.nodes) + e.countedOnly)
	}
	R.States(sec, nStates)
}

// ---------------------------------------------------------------------------
// replay: equivalence of "state written into the store" and "state reached by
// the real calls"
// ---------------------------------------------------------------------------

func maskAllocs(pins []api.Pin) string {
	c := canonSet(pins)
	for i := range c {
		c[i].Allocs = []string{fmt.Sprint(len(c[i].Allocs))}
	}
	return ev.JSON(c)
}

func replaySample(t *testing.T, e *explorer, want int) {
	sec := R.Sec("replay")
	sec.Bounds["what"] = "a deterministic sample of reached states (every k-th stored state of every depth; of the deepest level one state in 50 is stored) is re-reached by replaying its shortest history on a fresh peer with the real pin tracker attached; every step is judged again; the final pinset must equal the state the search stored, and the raw datastore content must equal what restoring that state writes"
	n := len(e.nodes)
	step := n / want
	if step < 1 {
		step = 1
	}
	var exact, byteSame, canonOnly, allocDiff int
	for i := 0; i < n; i += step {
		if overallLeft() < 0 {
			sec.Exhaustive = false
			sec.CapHit = "overall time limit reached: replay sample cut short"
			R.NotExhaustive("replay: " + sec.CapHit)
			break
		}
		nd := e.nodes[i]
		// path of nodes from the root
		var path []int
		for j := i; j >= 0; j = e.nodes[j].parent {
			path = append([]int{j}, path...)
		}
		bubble(t, func(t *testing.T) {
			r := newRig(t, e.cfg, true)
			defer r.stop()
			root := e.nodes[path[0]]
			if len(root.pins) > 0 {
				r.buildFixture(t)
				synctest.Wait()
			}
			var hist []string
			hist = append(hist, root.via)
			for _, j := range path[1:] {
				c := e.nodes[j].call
				pre := r.pins()
				r.sh.Reset()
				res := r.exec(c)
				synctest.Wait()
				post := r.pins()
				log := r.sh.Calls()
				vs, class, nt := judge(r.cfg, pre, c, res, post, log, stateKey(pre) != stateKey(post))
				hist = append(hist, c.String())
				R.Eval(sec, "replay|"+r.cfg.String()+"|"+class, nt)
				progress.Add(1)
				R.Transitions(1)
				if len(vs) > 0 {
					report(vs, r.cfg, hist, c, pre, post, res, len(log))
				}
			}
			final := r.pins()
			switch {
			case stateKey(final) == nd.key:
				exact++
				multi := false // protobuf writes map entries in Go map order
				for i := range final {
					multi = multi || len(final[i].Metadata) > 1
				}
				got := strings.Join(r.rawDump(), "\n")
				r.restore(final)
				if multi {
					canonOnly++
				} else if got == strings.Join(r.rawDump(), "\n") {
					byteSame++
				} else {
					R.Broken("replay of %v under %s: same pinset but the datastore bytes differ from what restore writes", hist, e.cfg)
				}
			case maskAllocs(final) == maskAllocs(nd.pins):
				allocDiff++ // the code's own arbitrary choice among over-max holders
			default:
				R.Broken("replay of %v under %s does not reach the stored state:\n want %s\n got  %s", hist, e.cfg, nd.key, stateKey(final))
			}
		})
	}
	for k := 0; k < byteSame; k++ {
		R.Outcome(sec, "replayed-to-identical-pinset-and-identical-store-bytes")
	}
	for k := 0; k < canonOnly; k++ {
		R.Outcome(sec, "replayed-to-identical-pinset(multi-key-metadata:store-bytes-not-comparable)")
	}
	for k := 0; k < allocDiff; k++ {
		R.Outcome(sec, "replayed-to-same-pinset-up-to-arbitrary-choice-of-dropped-holders")
	}
	_ = exact
}
