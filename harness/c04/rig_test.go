package c04

import (
	"context"
	"encoding/hex"
	"encoding/json"
	"errors"
	"fmt"
	"github.com/ipfs/ipfs-cluster/consensus/raft"
	"os"
	"sort"
	"strings"
	"sync"
	"testing"
	"testing/synctest"
	"time"

	ipfscluster "github.com/ipfs/ipfs-cluster"
	"github.com/ipfs/ipfs-cluster/api"
	"github.com/ipfs/ipfs-cluster/datastore/inmem"
	"github.com/ipfs/ipfs-cluster/state/dsstate"

	cid "github.com/ipfs/go-cid"
	ds "github.com/ipfs/go-datastore"
	dsq "github.com/ipfs/go-datastore/query"
	host "github.com/libp2p/go-libp2p-core/host"
	peer "github.com/libp2p/go-libp2p-core/peer"
	ma "github.com/multiformats/go-multiaddr"

	"verif/harness/lib/clus"
)

// config is one cluster configuration of the quantifier.
type config struct {
	Min, Max int
	Follower bool
	// ConsFail: "all": every LogPin/LogUnpin of the consensus component
	// fails during the call; "first": only the first one does. A failed
	// consensus call writes nothing, so a request that needed it must report
	// an error: a success would acknowledge a change that was not made.
	ConsFail string
	// Raft: the peer runs the real single-peer Raft consensus component.
	Raft bool
	// BlockGetFails: the IPFS daemon cannot deliver blocks during the call
	// (the cluster-DAG of sharded content is read from it on unpin).
	BlockGetFails bool
}

func (c config) String() string {
	f := "leader"
	if c.Follower {
		f = "follower"
	}
	if c.ConsFail != "" {
		f += "+consensus-fails:" + c.ConsFail
	}
	if c.Raft {
		f += "+raft"
	}
	if c.BlockGetFails {
		f += "+ipfs-block-get-fails"
	}
	return fmt.Sprintf("rf=%d/%d,%s", c.Min, c.Max, f)
}

var factorConfigs = []config{{Min: -1, Max: -1}, {Min: 1, Max: 2}, {Min: 2, Max: 2}}

// rig is one real single-peer Cluster inside the current bubble.
type rig struct {
	cfg          config
	p            *clus.Peer
	h            host.Host
	sh           *clus.Shared
	store        ds.Datastore
	ipfs         *clus.IPFS
	ctx          context.Context
	raftDir      string
	blockGetDown bool
}

// newRig builds the peer: real Cluster, recording in-memory consensus over a
// dsstate, model IPFS connector with Resolve/BlockGet, injectable monitor
// holding one healthy metric per peer of the 3-peer peerset.
func newRig(t *testing.T, cfg config, track bool) *rig {
	ctx := context.Background()
	_, hosts := clus.NewMocknet(ctx, 0, 1)
	r := &rig{cfg: cfg, h: hosts[0], ctx: ctx}
	r.sh = &clus.Shared{PeerSet: []peer.ID{P0, P1, P2}}
	r.freshState()
	var cons ipfscluster.Consensus
	if cfg.Raft {
		// the real Raft consensus component (single peer) instead of the
		// recording in-memory one: what is stored is what its FSM applied
		dir, err := os.MkdirTemp(os.Getenv("VERIF_SCRATCH"), "c04raft")
		if err != nil {
			t.Fatal(err)
		}
		r.raftDir = dir
		rcfg := &raft.Config{}
		rcfg.Default()
		rcfg.DataFolder = dir
		rcfg.InitPeerset = []peer.ID{hosts[0].ID()}
		rc, err := raft.NewConsensus(hosts[0], rcfg, inmem.New(), false)
		if err != nil {
			t.Fatal(err)
		}
		cons = rc
	} else {
		mc := clus.NewMemConsensus(P0, r.sh)
		mc.NoTrack = !track
		cons = mc
	}
	r.ipfs = clus.NewIPFS()
	r.ipfs.ResolveF = func(path string) (cid.Cid, error) {
		if l, ok := pathTable[path]; ok {
			return universe[l], nil
		}
		return cid.Undef, errors.New("model ipfs: cannot resolve " + path)
	}
	r.ipfs.BlockGetF = func(c cid.Cid) ([]byte, error) {
		if r.blockGetDown {
			return nil, errors.New("model ipfs: block/get failed (daemon fault)")
		}
		if c.Equals(universe["d"]) {
			return clusterDAGRaw, nil
		}
		return nil, errors.New("model ipfs: block not found")
	}
	mon := clus.NewMon()
	longTTL := 24 * 365 * 50 * time.Hour
	p, err := clus.NewPeer(ctx, &clus.PeerParts{
		Host:      hosts[0],
		Shared:    r.sh,
		Consensus: cons,
		IPFS:      r.ipfs,
		Monitor:   mon,
		Informers: []ipfscluster.Informer{&clus.Inf{MetricName: "freespace", TTL: longTTL, Value: func() string { return "300" }}},
		Cfg: func(c *ipfscluster.Config) {
			c.ReplicationFactorMin = cfg.Min
			c.ReplicationFactorMax = cfg.Max
			c.FollowerMode = cfg.Follower
		},
	})
	if err != nil {
		t.Fatal(err)
	}
	r.p = p
	<-p.C.Ready()
	// Cluster.ready() closes readyCh and only then takes shutdownLock; a
	// Shutdown that gets in between deadlocks with it (Shutdown holds the lock
	// and waits for that goroutine). Let ready() finish before anything else.
	synctest.Wait()
	for i, pid := range healthy {
		m := &api.Metric{Name: "freespace", Peer: pid, Value: fmt.Sprint(300 - 100*i), Valid: true}
		m.SetTTL(longTTL)
		mon.LogMetric(ctx, m)
	}
	if d := time.Since(bubbleEpoch); d < 0 || d > time.Hour {
		t.Fatalf("bubble clock is %s after the epoch: the fixed expiry instants are not past/future any more", d)
	}
	return r
}

func (r *rig) stop() {
	r.p.Stop()
	r.h.Close()
	if r.raftDir != "" {
		os.RemoveAll(r.raftDir)
	}
}

// freshState swaps an empty dsstate (over a datastore the rig can dump) under
// the consensus component.
func (r *rig) freshState() {
	r.store = inmem.New()
	st, err := dsstate.New(r.store, "", dsstate.DefaultHandle())
	if err != nil {
		panic(err)
	}
	r.sh.State = st
	r.sh.Reset()
}

// restore puts the pinset directly into the consensus state.
func (r *rig) restore(pins []api.Pin) {
	r.freshState()
	for i := range pins {
		p := pins[i]
		if err := r.sh.State.Add(r.ctx, &p); err != nil {
			panic(err)
		}
	}
}

// rawDump is the byte content of the datastore under the state.
func (r *rig) rawDump() []string {
	res, err := r.store.Query(dsq.Query{})
	if err != nil {
		panic(err)
	}
	ents, err := res.Rest()
	if err != nil {
		panic(err)
	}
	var out []string
	for _, e := range ents {
		out = append(out, e.Key+"="+hex.EncodeToString(e.Value))
	}
	sort.Strings(out)
	return out
}

// pins observes the pinset through Cluster.Pins, sorted by CID.
func (r *rig) pins() []api.Pin {
	l, err := r.p.C.Pins(r.ctx)
	if err != nil {
		panic(err)
	}
	out := make([]api.Pin, 0, len(l))
	for _, p := range l {
		out = append(out, *p)
	}
	sort.Slice(out, func(i, j int) bool { return out[i].Cid.String() < out[j].Cid.String() })
	return out
}

// result of one call.
type result struct {
	Err   string // "" = success
	Panic string
	Ret   *api.Pin
}

// exec runs one call of the alphabet on the real Cluster; a panic of the code
// under test is caught and reported as such.
func (r *rig) exec(c call) (res result) {
	if r.cfg.BlockGetFails {
		r.blockGetDown = true
		defer func() { r.blockGetDown = false }()
	}
	if r.cfg.ConsFail != "" {
		n := 0
		if r.cfg.ConsFail == "first" {
			n = 1
		}
		r.sh.SetFailNth(n, errors.New("injected: the consensus component could not commit"))
		defer r.sh.SetFailNth(0, nil)
	}
	defer func() {
		if x := recover(); x != nil {
			res.Panic = fmt.Sprint(x)
		}
	}()
	var pin *api.Pin
	var err error
	switch c.API {
	case "Pin":
		pin, err = r.p.C.Pin(r.ctx, universe[c.Cid], c.Opts.build())
	case "PinPath":
		pin, err = r.p.C.PinPath(r.ctx, c.Path, c.Opts.build())
	case "PinUpdate":
		pin, err = r.p.C.PinUpdate(r.ctx, universe[c.From], universe[c.Cid], c.Opts.build())
	case "Unpin":
		pin, err = r.p.C.Unpin(r.ctx, universe[c.Cid])
	case "UnpinPath":
		pin, err = r.p.C.UnpinPath(r.ctx, c.Path)
	default:
		panic("unknown call " + c.API)
	}
	if err != nil {
		res.Err = err.Error()
		if res.Err == "" {
			res.Err = "(empty error text)"
		}
	}
	res.Ret = pin
	return res
}

// ---------------------------------------------------------------------------
// canonical rendering of a pinset (the harness's own comparator, not Pin.Equals)
// ---------------------------------------------------------------------------

type cpin struct {
	Cid     string            `json:"cid"`
	Type    string            `json:"type"`
	Allocs  []string          `json:"allocs"`
	Depth   int               `json:"depth"`
	Ref     string            `json:"ref,omitempty"`
	Name    string            `json:"name,omitempty"`
	Mode    string            `json:"mode"`
	Min     int               `json:"min"`
	Max     int               `json:"max"`
	Shard   uint64            `json:"shardsize,omitempty"`
	Expire  int64             `json:"expire,omitempty"`
	Meta    map[string]string `json:"meta,omitempty"`
	Update  string            `json:"update,omitempty"`
	Origins []string          `json:"origins,omitempty"`
}

func expUnix(t time.Time) int64 {
	if t.IsZero() {
		return 0
	}
	return t.Unix()
}

func canonPin(p *api.Pin) cpin {
	c := cpin{Cid: lab(p.Cid), Type: p.Type.String(), Depth: int(p.MaxDepth), Name: p.Name, Mode: p.Mode.String(),
		Min: p.ReplicationFactorMin, Max: p.ReplicationFactorMax, Shard: p.ShardSize, Expire: expUnix(p.ExpireAt)}
	for _, a := range p.Allocations {
		c.Allocs = append(c.Allocs, peerLabel(a))
	}
	sort.Strings(c.Allocs)
	if p.Reference != nil {
		c.Ref = lab(*p.Reference)
	}
	if len(p.Metadata) > 0 {
		c.Meta = p.Metadata
	}
	if p.PinUpdate.Defined() {
		c.Update = lab(p.PinUpdate)
	}
	for _, o := range p.Origins {
		c.Origins = append(c.Origins, maString(o))
	}
	return c
}

func canonSet(pins []api.Pin) []cpin {
	out := make([]cpin, 0, len(pins))
	for i := range pins {
		out = append(out, canonPin(&pins[i]))
	}
	sort.Slice(out, func(i, j int) bool { return out[i].Cid < out[j].Cid })
	return out
}

func stateKey(pins []api.Pin) string {
	b, _ := json.Marshal(canonSet(pins))
	return string(b)
}

func clonePins(pins []api.Pin) []api.Pin {
	out := make([]api.Pin, len(pins))
	for i, p := range pins {
		q := p
		q.Allocations = append([]peer.ID(nil), p.Allocations...)
		if p.Metadata != nil {
			q.Metadata = map[string]string{}
			for k, v := range p.Metadata {
				q.Metadata[k] = v
			}
		}
		out[i] = q
	}
	return out
}

func errClass(e string) string {
	switch {
	case e == "":
		return "ok"
	case strings.Contains(e, "follower mode"):
		return "follower-mode"
	case strings.Contains(e, "not found"), strings.Contains(e, "not part of the pinset"):
		return "not-pinned"
	case strings.Contains(e, "replication_factor"):
		return "bad-factors"
	case strings.Contains(e, "ExpireAt"):
		return "expired"
	case strings.Contains(e, "different tracking method"):
		return "different-type"
	case strings.Contains(e, "already pinned in recursive"):
		return "recursive-to-direct"
	case strings.Contains(e, "not enough peers"):
		return "not-enough-peers"
	case strings.Contains(e, "cannot be updated"):
		return "update-of-non-data-pin"
	case strings.Contains(e, "cannot unpin a"):
		return "unpin-of-shard-or-clusterdag"
	case strings.Contains(e, "cannot resolve"):
		return "unresolvable-path"
	}
	if os.Getenv("C04_VERBOSE") != "" {
		if _, dup := otherSeen.LoadOrStore(e, true); !dup {
			fmt.Println("  unclassified error text:", e)
		}
	}
	return "other"
}

var otherSeen sync.Map

var maCache sync.Map

// maString is Multiaddr.String with a cache (it dominates canonicalisation otherwise).
func maString(m ma.Multiaddr) string {
	k := string(m.Bytes())
	if v, ok := maCache.Load(k); ok {
		return v.(string)
	}
	v := m.String()
	maCache.Store(k, v)
	return v
}

// bubble runs f in a fresh synctest bubble. libp2p's mocknet can leave a stream
// goroutine blocked for ever after its host was closed; the bubble then ends
// with synctest's "blocked goroutines remain" panic although f completed. That
// specific panic is absorbed (f's work is complete and already judged);
// anything else is re-raised.
func bubble(t *testing.T, f func(t *testing.T)) {
	completed := false
	defer func() {
		if r := recover(); r != nil {
			if completed && strings.Contains(fmt.Sprint(r), "blocked goroutines remain") {
				return
			}
			panic(r)
		}
	}()
	synctest.Test(t, func(t *testing.T) {
		f(t)
		completed = true
	})
}
