package c04

import (
	"fmt"
	"sort"
	"strings"
	"time"

	"github.com/ipfs/ipfs-cluster/api"

	peer "github.com/libp2p/go-libp2p-core/peer"

	"verif/harness/lib/clus"
	"verif/harness/lib/ev"
)

// nowUpper bounds every bubble's clock from above (asserted by the rig).
var nowUpper = bubbleEpoch.Add(time.Hour)

// The reference is written from the property text, one clause at a time:
//
//  (S) A successful pin leaves exactly one entry for that CID carrying the
//      requested options (cluster defaults substituted for unset replication
//      factors) and a valid allocation;
//  (K) re-pinning with identical options keeps the allocations;
//  (C) re-pinning with any option changed, added or removed stores the change;
//  (R) a request that is refused - invalid replication factors, expiry in the
//      past, a different pin type, recursive downgraded to direct, unpin or
//      update of a CID that is not pinned, any write in follower mode - leaves
//      the pinset unchanged (and, "or not at all": an error of any kind means
//      nothing was written: no LogPin/LogUnpin reached consensus);
//  (U) unpin removes exactly that CID's entry (for sharded content also its
//      cluster-DAG and shard entries) and nothing else;
//  (P) a pin update copies the source pin's allocations and options to the new
//      CID without removing the source.
//
// The model state is a map label -> stored pin (the observed pinset). The
// reference is a relation, not a function: where the text leaves a choice
// (which peers are allocated, whether an update takes the requested name or
// expiry) every admissible outcome is accepted.

type viol struct {
	Key string
	Why string
}

type mstate map[string]*api.Pin

func index(pins []api.Pin) mstate {
	m := mstate{}
	for i := range pins {
		m[lab(pins[i].Cid)] = &pins[i]
	}
	return m
}

func pinJSON(p *api.Pin) string {
	if p == nil {
		return "absent"
	}
	return ev.JSON(canonPin(p))
}

// wellFormedFactors: both -1 (everywhere), or 1 <= min <= max.
func wellFormedFactors(min, max int) bool {
	if min == -1 && max == -1 {
		return true
	}
	return min >= 1 && max >= min
}

func peerSet(l []peer.ID) string {
	var s []string
	for _, p := range l {
		s = append(s, peerLabel(p))
	}
	sort.Strings(s)
	return strings.Join(s, ",")
}

func sameMeta(a, b map[string]string) bool {
	if len(a) != len(b) {
		return false
	}
	for k, v := range a {
		if w, ok := b[k]; !ok || w != v {
			return false
		}
	}
	return true
}

func originsKey(p *api.PinOptions) string {
	var s []string
	for _, o := range p.Origins {
		s = append(s, maString(o))
	}
	sort.Strings(s)
	return strings.Join(s, ",")
}

// optionDiff lists, per option, how the requested options (with effective
// factors) differ from the stored ones. Empty = identical options.
// UserAllocations are not a stored option and are reported separately.
func optionDiff(stored *api.Pin, req *api.PinOptions, effMin, effMax int) []string {
	var d []string
	if stored.Name != req.Name {
		switch {
		case stored.Name == "":
			d = append(d, "name-added")
		case req.Name == "":
			d = append(d, "name-removed")
		default:
			d = append(d, "name-changed")
		}
	}
	if stored.Mode != req.Mode {
		if req.Mode == api.PinModeDirect {
			d = append(d, "mode-to-direct")
		} else {
			d = append(d, "mode-to-recursive")
		}
	}
	if stored.ReplicationFactorMin != effMin || stored.ReplicationFactorMax != effMax {
		d = append(d, "factors-changed")
	}
	se, re := expUnix(stored.ExpireAt), expUnix(req.ExpireAt)
	if se != re {
		switch {
		case se == 0:
			d = append(d, "expiry-added")
		case re == 0:
			d = append(d, "expiry-removed")
		default:
			d = append(d, "expiry-changed")
		}
	}
	if !sameMeta(stored.Metadata, req.Metadata) {
		// One descriptor per re-pin, by precedence, so that keys stay narrow:
		// an ordinary change (a key added with a value, a value changed) first,
		// then the kinds that only remove or add "empty" things.
		kinds := map[string]bool{}
		for k, v := range req.Metadata {
			w, ok := stored.Metadata[k]
			switch {
			case !ok && k == "":
				kinds["empty-key-added"] = true
			case !ok && v == "":
				kinds["key-added-with-empty-value"] = true
			case !ok:
				kinds["key-added"] = true
			case w != v:
				kinds["value-changed"] = true
			}
		}
		for k := range stored.Metadata {
			if _, ok := req.Metadata[k]; !ok {
				switch {
				case k == "":
					kinds["empty-key-removed"] = true
				case stored.Metadata[k] == "":
					kinds["empty-valued-key-removed"] = true
				default:
					kinds["key-removed"] = true
				}
			}
		}
		for _, k := range []string{"value-changed", "key-added", "key-removed", "empty-valued-key-removed", "empty-key-removed", "key-added-with-empty-value", "empty-key-added"} {
			if kinds[k] {
				d = append(d, "metadata("+k+")")
				break
			}
		}
	}
	if so, ro := originsKey(&stored.PinOptions), originsKey(req); so != ro {
		switch {
		case so == "":
			d = append(d, "origins-added")
		case ro == "":
			d = append(d, "origins-removed")
		default:
			d = append(d, "origins-changed")
		}
	}
	return d
}

// storedMismatch lists the option fields of the stored entry that do not carry
// the requested value.
func storedMismatch(got *api.Pin, req *api.PinOptions, effMin, effMax int) []string {
	var f []string
	if got.Name != req.Name {
		f = append(f, "name")
	}
	if got.Mode != req.Mode || got.MaxDepth != req.Mode.ToPinDepth() {
		f = append(f, "mode")
	}
	if got.ReplicationFactorMin != effMin || got.ReplicationFactorMax != effMax {
		f = append(f, "factors")
	}
	if expUnix(got.ExpireAt) != expUnix(req.ExpireAt) {
		f = append(f, "expiry")
	}
	if !sameMeta(got.Metadata, req.Metadata) {
		f = append(f, "metadata")
	}
	if originsKey(&got.PinOptions) != originsKey(req) {
		f = append(f, "origins")
	}
	return f
}

func subset(a, b []peer.ID) bool {
	for _, x := range a {
		found := false
		for _, y := range b {
			if x == y {
				found = true
			}
		}
		if !found {
			return false
		}
	}
	return true
}

// allocationProblem checks the "valid allocation" clause: with -1 the list is
// empty; otherwise no peer twice, only healthy peers, between min and max of
// them, still-healthy current holders kept (some dropped only when there are
// more than max), and for a fresh allocation the peers the user asked for come
// first. All three peers are healthy throughout this check.
func allocationProblem(got []peer.ID, min, max int, current []peer.ID, user []peer.ID) string {
	if min == -1 && max == -1 {
		if len(got) != 0 {
			return "not-empty-with-factor--1"
		}
		return ""
	}
	seen := map[peer.ID]bool{}
	for _, p := range got {
		if seen[p] {
			return "peer-listed-twice"
		}
		seen[p] = true
	}
	if !subset(got, healthy) {
		return "unknown-peer"
	}
	if len(got) < min {
		return "fewer-than-min"
	}
	if len(got) > max {
		return "more-than-max"
	}
	if len(current) > 0 {
		if len(current) <= max {
			if !subset(current, got) {
				return "healthy-current-holder-dropped"
			}
		} else if !subset(got, current) {
			return "over-max-holders-replaced-instead-of-reduced"
		}
		return ""
	}
	if len(user) > 0 {
		if len(user) <= max {
			if !subset(user, got) {
				return "user-allocation-not-preferred"
			}
		} else if !subset(got, user) {
			return "user-allocation-not-preferred"
		}
	}
	return ""
}

// apiName distinguishes the entry point in violation keys.
func apiName(c call, isUpdate bool) string {
	if isUpdate && c.API != "PinUpdate" {
		return c.API + "+update-option"
	}
	return c.API
}

// judge compares one executed transition with the reference. It returns the
// violations and a coarse class of the transition (for coverage accounting).
func judge(cfg config, pre []api.Pin, c call, res result, post []api.Pin, log []clus.LogCall, changed bool) (vs []viol, class string, nontrivial bool) {
	preM, postM := index(pre), index(post)
	add := func(api, situation, symptom, why string) {
		vs = append(vs, viol{Key: "C04|" + api + "|" + situation + "|" + symptom, Why: why})
	}
	role := "leader"
	if cfg.Follower {
		role = "follower"
	}
	if cfg.ConsFail != "" {
		role += "+consensus-fails:" + cfg.ConsFail
	}
	if cfg.BlockGetFails {
		role += "+ipfs-block-get-fails"
	}

	// which CID does the request address?
	target := c.Cid
	resolvable := true
	if c.API == "PinPath" || c.API == "UnpinPath" {
		target, resolvable = pathTable[c.Path]
	}
	req := c.Opts.build()
	isUnpin := c.API == "Unpin" || c.API == "UnpinPath"
	isUpdate := false
	source := ""
	if c.API == "PinUpdate" {
		isUpdate, source = true, c.From
	} else if !isUnpin && req.PinUpdate.Defined() && lab(req.PinUpdate) != target {
		isUpdate, source = true, lab(req.PinUpdate)
	}
	an := apiName(c, isUpdate)

	if res.Panic != "" {
		add(an, "any", "panic", res.Panic)
		return vs, "panic", true
	}

	effMin, effMax := req.ReplicationFactorMin, req.ReplicationFactorMax
	if effMin == 0 {
		effMin = cfg.Min
	}
	if effMax == 0 {
		effMax = cfg.Max
	}

	// ---- (R) the listed refusals ------------------------------------------
	var refusals []string
	if cfg.Follower {
		refusals = append(refusals, "follower-mode")
	}
	if !resolvable {
		// nothing is addressed: there is no CID a success could be about
		refusals = append(refusals, "unresolvable-path")
	} else {
		ex := preM[target]
		switch {
		case isUnpin:
			if ex == nil {
				refusals = append(refusals, "unpin-of-cid-not-pinned")
			}
		case isUpdate:
			src := preM[source]
			if src == nil {
				refusals = append(refusals, "update-source-not-pinned")
			} else if ex != nil && target != source {
				// the new entry is a copy of the source: a data pin with the
				// source's mode
				if ex.Type != src.Type {
					refusals = append(refusals, "different-pin-type")
				} else if ex.Mode == api.PinModeRecursive && src.Mode == api.PinModeDirect {
					refusals = append(refusals, "recursive-to-direct")
				}
			}
		default:
			if !wellFormedFactors(effMin, effMax) {
				refusals = append(refusals, "invalid-factors")
			}
			if !req.ExpireAt.IsZero() && req.ExpireAt.Before(bubbleEpoch) {
				refusals = append(refusals, "expiry-in-past")
			}
			if ex != nil {
				if ex.Type != api.DataType {
					refusals = append(refusals, "different-pin-type")
				} else if ex.Mode == api.PinModeRecursive && req.Mode == api.PinModeDirect {
					refusals = append(refusals, "recursive-to-direct")
				}
			}
		}
	}
	if len(refusals) > 0 {
		sit := role + ":must-refuse:" + strings.Join(refusals, "+")
		class = an + "|" + sit + "|" + errClass(res.Err)
		switch {
		case res.Err == "" && (changed || len(log) > 0):
			add(an, sit, "not-refused-and-written", fmt.Sprintf("no error; pinset changed=%v; %d log call(s) reached consensus", changed, len(log)))
		case res.Err == "":
			add(an, sit, "not-refused", "the call returned no error")
		case changed:
			add(an, sit, "error-but-pinset-changed", "error: "+res.Err)
		case len(log) > 0:
			add(an, sit, "error-but-reached-consensus", fmt.Sprintf("error: %s; %d log call(s)", res.Err, len(log)))
		}
		return vs, class, len(pre) > 0 || !cfg.Follower
	}

	// ---- "or not at all": any other error -----------------------------------
	if res.Err != "" {
		sit := role + ":error:" + errClass(res.Err)
		class = an + "|" + sit
		if changed {
			add(an, sit, "pinset-changed", "error: "+res.Err)
		} else if len(log) > 0 {
			add(an, sit, "reached-consensus", fmt.Sprintf("error: %s; %d log call(s)", res.Err, len(log)))
		}
		return vs, class, true
	}

	// ---- success -------------------------------------------------------------
	others := func(sit string, touched map[string]bool) {
		for l, p := range preM {
			if touched[l] {
				continue
			}
			q := postM[l]
			if q == nil {
				add(an, sit, "other-entry-removed:"+p.Type.String(), "entry "+l+" disappeared")
			} else if pinJSON(p) != pinJSON(q) {
				add(an, sit, "other-entry-changed:"+p.Type.String(), "entry "+l+": "+pinJSON(p)+" -> "+pinJSON(q))
			}
		}
		for l := range postM {
			if !touched[l] && preM[l] == nil {
				add(an, sit, "other-entry-created", "entry "+l+" appeared: "+pinJSON(postM[l]))
			}
		}
		for _, lc := range log {
			if !touched[lab(lc.Pin.Cid)] {
				add(an, sit, "log-call-for-other-cid", lc.Op+" "+lab(lc.Pin.Cid))
			}
		}
	}

	ex := preM[target]
	got := postM[target]
	switch {
	case isUnpin:
		// (U)
		sit := "unpin:" + ex.Type.String()
		class = an + "|" + sit
		gone := map[string]bool{target: true}
		if ex.Type == api.MetaType {
			if ex.Reference != nil {
				gone[lab(*ex.Reference)] = true
			}
			// the shards are the links of the cluster-DAG node (fixture: s0, s1)
			if ex.Reference != nil && lab(*ex.Reference) == "d" {
				gone["s0"], gone["s1"] = true, true
			}
		}
		var left []string
		for l := range gone {
			if p := postM[l]; p != nil {
				left = append(left, p.Type.String())
			}
		}
		sort.Strings(left)
		if len(left) > 0 {
			add(an, sit, "entry-left-behind:"+strings.Join(left, "+"), "still in the pinset after a successful unpin")
		}
		others(sit, gone)
		for _, lc := range log {
			if lc.Op != "unpin" {
				add(an, sit, "logpin-during-unpin", lc.Op+" "+lab(lc.Pin.Cid))
			}
		}
		return vs, class, true

	case isUpdate:
		// (P)
		src := preM[source]
		sit := "update:to-absent"
		if ex != nil {
			sit = "update:to-pinned"
		}
		if target == source {
			sit = "update:to-itself"
		}
		class = an + "|" + sit + "|src=" + src.Type.String()
		if got == nil {
			add(an, sit, "no-entry-for-new-cid", "successful update but "+target+" is not in the pinset")
			return vs, class, true
		}
		var f []string
		if got.Type != src.Type {
			f = append(f, "type")
		}
		if got.Mode != src.Mode || got.MaxDepth != src.MaxDepth {
			f = append(f, "mode")
		}
		if got.ReplicationFactorMin != src.ReplicationFactorMin || got.ReplicationFactorMax != src.ReplicationFactorMax {
			f = append(f, "factors")
		}
		if !sameMeta(got.Metadata, src.Metadata) {
			f = append(f, "metadata")
		}
		if originsKey(&got.PinOptions) != originsKey(&src.PinOptions) {
			f = append(f, "origins")
		}
		// name / expiry: the source's, or the one given with the request
		if got.Name != src.Name && got.Name != req.Name {
			f = append(f, "name")
		}
		ge := expUnix(got.ExpireAt)
		if ge != expUnix(src.ExpireAt) && !(ge == expUnix(req.ExpireAt) && req.ExpireAt.After(nowUpper)) {
			f = append(f, "expiry")
		}
		if len(f) > 0 {
			add(an, sit, "options-not-copied:"+strings.Join(f, "+"), "source "+pinJSON(src)+" new "+pinJSON(got))
		}
		if peerSet(got.Allocations) != peerSet(src.Allocations) {
			add(an, sit, "allocations-not-copied", "source "+peerSet(src.Allocations)+" new "+peerSet(got.Allocations))
		}
		if target != source {
			if s2 := postM[source]; s2 == nil {
				add(an, sit, "source-removed", source+" is gone")
			} else if pinJSON(s2) != pinJSON(src) {
				add(an, sit, "source-changed", pinJSON(src)+" -> "+pinJSON(s2))
			}
		}
		others(sit, map[string]bool{target: true, source: true})
		for _, lc := range log {
			if lc.Op != "pin" {
				add(an, sit, "logunpin-during-update", lc.Op+" "+lab(lc.Pin.Cid))
			}
		}
		return vs, class, true
	}

	// plain pin: (S) (K) (C)
	sit := "fresh"
	var diff []string
	if ex != nil {
		diff = optionDiff(ex, &req, effMin, effMax)
		if len(diff) == 0 {
			sit = "repin:identical"
		} else {
			sit = "repin:" + strings.Join(diff, "+")
		}
		if len(req.UserAllocations) > 0 {
			sit += "+user-allocations"
		}
	} else if len(req.UserAllocations) > 0 {
		sit = "fresh+user-allocations"
	}
	class = an + "|" + sit
	if got == nil {
		add(an, sit, "no-entry", "successful pin but "+target+" is not in the pinset")
		return vs, class, true
	}
	if got.Type != api.DataType || got.Reference != nil {
		add(an, sit, "stored-type", "stored as "+got.Type.String())
	}
	if f := storedMismatch(got, &req, effMin, effMax); len(f) > 0 {
		add(an, sit, "not-stored:"+strings.Join(f, "+"),
			fmt.Sprintf("requested %s (effective factors %d/%d); was %s; stored %s", c.Opts, effMin, effMax, pinJSON(ex), pinJSON(got)))
	}
	if ex != nil && len(diff) == 0 && len(req.UserAllocations) == 0 {
		if peerSet(got.Allocations) != peerSet(ex.Allocations) {
			add(an, sit, "allocations-not-kept", "was "+peerSet(ex.Allocations)+" now "+peerSet(got.Allocations))
		}
	}
	var cur []peer.ID
	if ex != nil {
		cur = ex.Allocations
	}
	if p := allocationProblem(got.Allocations, effMin, effMax, cur, req.UserAllocations); p != "" {
		add(an, sit, "allocation-invalid:"+p,
			fmt.Sprintf("factors %d/%d current [%s] user [%s] got [%s]", effMin, effMax, peerSet(cur), peerSet(req.UserAllocations), peerSet(got.Allocations)))
	}
	others(sit, map[string]bool{target: true})
	for _, lc := range log {
		if lc.Op != "pin" {
			add(an, sit, "logunpin-during-pin", lc.Op+" "+lab(lc.Pin.Cid))
		}
	}
	return vs, class, true
}
