package c04

import (
	"crypto/sha256"
	"fmt"
	"os"
	"runtime"
	"sort"
	"sync"
	"sync/atomic"
	"testing"
	"testing/synctest"
	"time"

	"github.com/ipfs/ipfs-cluster/api"

	cid "github.com/ipfs/go-cid"
	peer "github.com/libp2p/go-libp2p-core/peer"

	"verif/harness/lib/ev"
)

// hkey identifies a canonical state (128 bits of the SHA-256 of its rendering).
type hkey [16]byte

func hk(s string) hkey {
	h := sha256.Sum256([]byte(s))
	var k hkey
	copy(k[:], h[:16])
	return k
}

// node is one reached state with the shortest call history that reaches it.
type node struct {
	pins   []api.Pin
	key    string
	parent int
	via    string
	call   call // the call that produced it from parent (roots: zero)
	depth  int
}

type explorer struct {
	name  string
	cfg   config // configuration the states were produced under
	calls []call
	nodes []node
	seen  map[hkey]struct{}
	// states of the last level that were only counted (their pinsets are not
	// kept: nothing is applied from them)
	countedOnly int
	sec         *ev.Section
}

func (e *explorer) history(i int) []string {
	var h []string
	for i >= 0 {
		h = append([]string{e.nodes[i].via}, h...)
		i = e.nodes[i].parent
	}
	return h
}

func (e *explorer) addRoot(pins []api.Pin, how string) {
	k := stateKey(pins)
	if _, ok := e.seen[hk(k)]; ok {
		return
	}
	e.seen[hk(k)] = struct{}{}
	e.nodes = append(e.nodes, node{pins: clonePins(pins), key: k, parent: -1, via: how})
}

var workers = func() int {
	n := runtime.NumCPU() / 3
	if n < 2 {
		n = 2
	}
	if n > 5 {
		n = 5
	}
	return n
}()

// parallelRigs runs fn(rig, i) for i in [0,n) on `workers` real peers, each in
// its own bubble. fn must not block on anything outside the bubble.
func parallelRigs(t *testing.T, cfg config, n int, fn func(r *rig, i int)) {
	var next atomic.Int64
	var wg sync.WaitGroup
	w := workers
	if n < 200 {
		w = 1
	}
	for k := 0; k < w; k++ {
		wg.Add(1)
		go func() {
			defer wg.Done()
			bubble(t, func(t *testing.T) {
				r := newRig(t, cfg, false)
				for {
					i := int(next.Add(1) - 1)
					if i >= n {
						break
					}
					fn(r, i)
				}
				r.stop()
			})
		}()
	}
	wg.Wait()
}

var (
	reportMu sync.Mutex
	reported = map[string]bool{} // violation keys already written out with a detail
)

// report hands the violations of one transition to the evidence run.
func report(vs []viol, cfg config, hist []string, c call, pre, post []api.Pin, res result, nlog int) {
	reportMu.Lock()
	defer reportMu.Unlock()
	for _, v := range vs {
		if reported[v.Key] {
			R.Violation(v.Key, nil)
			continue
		}
		reported[v.Key] = true
		R.Violation(v.Key, map[string]interface{}{
			"config":            cfg.String(),
			"history":           hist,
			"call":              c.String(),
			"pinset_before":     canonSet(pre),
			"pinset_after":      canonSet(post),
			"error":             res.Err,
			"log_calls_reached": nlog,
			"why":               v.Why,
		})
	}
}

// transition restores the node's pinset into the peer, applies the call on the
// real Cluster, judges it and returns the successor state.
func transition(r *rig, hist func() []string, pins []api.Pin, key string, c call, sec *ev.Section, verify bool) (post []api.Pin, postKey string, res result) {
	r.restore(pins)
	pre := pins
	if verify { // what Cluster.Pins lists after a restore is the state itself
		if k := stateKey(r.pins()); k != key {
			R.Broken("restoring a state does not reproduce it: want %s got %s", key, k)
		}
	}
	res = r.exec(c)
	post = r.pins()
	postKey = stateKey(post)
	log := r.sh.Calls()
	vs, class, nontrivial := judge(r.cfg, pre, c, res, post, log, key != postKey)
	R.Eval(sec, r.cfg.String()+"|"+class, nontrivial)
	progress.Add(1)
	R.Outcome(sec, c.API+":"+errClass(res.Err))
	if len(vs) > 0 {
		report(vs, r.cfg, append(hist(), c.String()), c, pre, post, res, len(log))
	}
	return post, postKey, res
}

// expand applies every call from every node of the frontier (on peers running
// under runCfg) and returns the indices of the newly reached states.
//
// grow=false: only judge (follower pass). last=true: the successors are the
// deepest level; they are counted, and only every 50th of them is kept as a
// node (for the replay sample).
func (e *explorer) expand(t *testing.T, runCfg config, frontier []int, depth int, budget *ev.Budget, grow, last bool) (next []int, complete bool) {
	type fresh struct {
		idx  int
		key  string
		pins []api.Pin
	}
	var mu sync.Mutex
	found := map[hkey]fresh{}
	n := len(frontier) * len(e.calls)
	var capped atomic.Bool
	var done atomic.Int64
	// the wall budget is watched from outside the bubbles (inside, the clock is fake)
	stopWatch := make(chan struct{})
	go func() {
		for {
			select {
			case <-stopWatch:
				return
			case <-time.After(100 * time.Millisecond):
				if budget.Exceeded() {
					capped.Store(true)
					return
				}
			}
		}
	}()
	defer close(stopWatch)
	parallelRigs(t, runCfg, n, func(r *rig, i int) {
		if capped.Load() {
			return
		}
		ni := frontier[i/len(e.calls)]
		c := e.calls[i%len(e.calls)]
		nd := &e.nodes[ni]
		post, k, _ := transition(r, func() []string { return e.history(ni) }, nd.pins, nd.key, c, e.sec, i%61 == 0)
		done.Add(1)
		if !grow {
			return
		}
		h := hk(k)
		if _, ok := e.seen[h]; ok {
			return
		}
		mu.Lock()
		if f, ok := found[h]; !ok || i < f.idx {
			if last && i%50 != 0 {
				found[h] = fresh{idx: i}
			} else {
				found[h] = fresh{i, k, clonePins(post)}
			}
		}
		mu.Unlock()
	})
	R.Transitions(done.Load())
	var keys []hkey
	for k := range found {
		keys = append(keys, k)
	}
	sort.Slice(keys, func(a, b int) bool { return found[keys[a]].idx < found[keys[b]].idx })
	for _, k := range keys {
		f := found[k]
		e.seen[k] = struct{}{}
		if f.pins == nil && f.key == "" {
			e.countedOnly++
			continue
		}
		e.nodes = append(e.nodes, node{pins: f.pins, key: f.key, parent: frontier[f.idx/len(e.calls)], via: e.calls[f.idx%len(e.calls)].String(), call: e.calls[f.idx%len(e.calls)], depth: depth + 1})
		next = append(next, len(e.nodes)-1)
	}
	return next, done.Load() == int64(n)
}

// bfs explores to the given depth: every call from every state of depth <
// maxDepth.
func (e *explorer) bfs(t *testing.T, maxDepth int, budget *ev.Budget) {
	frontier := make([]int, len(e.nodes))
	for i := range frontier {
		frontier[i] = i
	}
	for d := 0; d < maxDepth && len(frontier) > 0; d++ {
		start := time.Now()
		next, complete := e.expand(t, e.cfg, frontier, d, budget, true, d == maxDepth-1)
		if os.Getenv("C04_VERBOSE") != "" {
			fmt.Printf("  %s %s depth %d: %d states x %d calls -> %d new states (%.1fs)\n", e.name, e.cfg, d, len(frontier), len(e.calls), len(next), time.Since(start).Seconds())
		}
		if !complete {
			e.sec.Exhaustive = false
			e.sec.CapHit = fmt.Sprintf("time budget hit while expanding depth %d under %s", d, e.cfg)
			R.NotExhaustive(e.name + ": " + e.sec.CapHit)
			return
		}
		frontier = next
	}
}

// ---------------------------------------------------------------------------
// the sharded fixture, built through the real pin path
// ---------------------------------------------------------------------------

// fixturePins are the four entries a sharded add leaves behind, built the way
// adder/sharding builds them (shard.Flush and DAGService.Finalize) and
// submitted through the "Cluster.Pin" RPC endpoint like adder.Pin does.
func fixtureRequests() []*api.Pin {
	opts := api.PinOptions{Name: "big"}
	mk := func(l string) *api.Pin { return api.PinWithOpts(universe[l], opts) }
	var out []*api.Pin
	prev := cid.Undef
	for i, l := range []string{"s0", "s1"} {
		p := mk(l)
		p.Name = fmt.Sprintf("%s-shard-%d", opts.Name, i)
		p.Type = api.ShardType
		pv := prev
		p.Reference = &pv
		p.MaxDepth = 1
		p.ShardSize = 1000
		out = append(out, p)
		prev = universe[l]
	}
	root := universe["m"]
	d := mk("d")
	d.ReplicationFactorMin, d.ReplicationFactorMax = -1, -1
	d.MaxDepth = 0
	d.Name = opts.Name + "-clusterDAG"
	d.Type = api.ClusterDAGType
	d.Reference = &root
	out = append(out, d)
	m := mk("m")
	m.Type = api.MetaType
	dag := universe["d"]
	m.Reference = &dag
	m.MaxDepth = 0
	out = append(out, m)
	return out
}

func (r *rig) buildFixture(t *testing.T) {
	for _, p := range fixtureRequests() {
		if p.ReplicationFactorMin < 0 { // adder.Pin
			p.Allocations = []peer.ID{}
		}
		var out api.Pin
		if err := r.p.API.Client.CallContext(r.ctx, "", "Cluster", "Pin", p, &out); err != nil {
			t.Fatalf("building the sharded fixture: %s: %v", lab(p.Cid), err)
		}
	}
}

func buildFixtureState(t *testing.T, cfg config) []api.Pin {
	var pins []api.Pin
	bubble(t, func(t *testing.T) {
		r := newRig(t, cfg, true)
		r.buildFixture(t)
		synctest.Wait()
		pins = clonePins(r.pins())
		r.stop()
	})
	m := index(pins)
	if len(pins) != 4 || m["m"] == nil || m["m"].Type != api.MetaType || m["d"] == nil || m["d"].Type != api.ClusterDAGType ||
		m["s0"] == nil || m["s0"].Type != api.ShardType || m["s1"] == nil {
		t.Fatalf("sharded fixture is not the expected four entries: %s", stateKey(pins))
	}
	return pins
}
