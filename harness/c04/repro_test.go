package c04

import (
	"testing"
	"testing/synctest"

	"github.com/ipfs/ipfs-cluster/api"
)

// play runs a call history on a fresh real peer (pin tracker attached), judges
// every step with the reference and returns the final pinset.
func play(t *testing.T, sec string, cfg config, withFixture bool, calls ...call) (final []api.Pin, last result) {
	s := R.Sec(sec)
	var fx []api.Pin
	if withFixture && cfg.Follower {
		// a follower cannot build it: write the entries a leader with the same
		// factors produces
		runCfg := cfg
		runCfg.Follower = false
		fx = buildFixtureState(t, runCfg)
	}
	bubble(t, func(t *testing.T) {
		r := newRig(t, cfg, true)
		defer r.stop()
		hist := []string{"[start: empty pinset]"}
		if withFixture {
			if cfg.Follower {
				r.restore(fx)
			} else {
				r.buildFixture(t)
				synctest.Wait()
			}
			hist[0] = "[start: sharded fixture installed]"
		}
		for _, c := range calls {
			pre := r.pins()
			r.sh.Reset()
			res := r.exec(c)
			synctest.Wait()
			post := r.pins()
			log := r.sh.Calls()
			vs, class, nt := judge(r.cfg, pre, c, res, post, log, stateKey(pre) != stateKey(post))
			hist = append(hist, c.String())
			R.Eval(s, sec+"|"+r.cfg.String()+"|"+class, nt)
			progress.Add(1)
			R.Transitions(1)
			if len(vs) > 0 {
				report(vs, r.cfg, hist, c, pre, post, res, len(log))
			}
			last = res
		}
		final = clonePins(r.pins())
		R.SampleTagged(sec, 8, map[string]interface{}{"config": cfg.String(), "history": hist, "last_error": last.Err, "pinset": canonSet(final)})
	})
	return final, last
}

func pinc(l string, d ...dev) call { return call{API: "Pin", Cid: l, Opts: optset(d)} }

// TestCandidates reproduces, as minimal histories on a fresh real peer, the
// candidate defects listed for C04 (DESIGN section 6) and the two bypasses the
// search found. Each goes through the same reference and reports under the same
// keys as the search.
func TestCandidates(t *testing.T) {
	leader := config{Min: -1, Max: -1}
	follower := config{Min: -1, Max: -1, Follower: true}
	m := devs["meta"]
	kv, kvk2, k2, kEmpty, emptyKey, none := m[1], m[3], m[4], m[5], m[6], m[0]

	// (1) PinOptions.Equals metadata loop: a removed key is not a change
	// (repaired by dd644b4; kept as a regression history)
	play(t, "candidates", leader, false, pinc("a", kvk2), pinc("a", k2))
	play(t, "candidates", leader, false, pinc("a", kv), pinc("a", none))
	// ... nor a key added with an empty value, nor anything under the empty key
	play(t, "candidates", leader, false, pinc("a"), pinc("a", kEmpty))
	play(t, "candidates", leader, false, pinc("a", kEmpty), pinc("a"))
	play(t, "candidates", leader, false, pinc("a"), pinc("a", emptyKey))
	play(t, "candidates", leader, false, pinc("a", emptyKey), pinc("a"))
	// the comparison itself, without a cluster
	{
		oldO := api.PinOptions{Metadata: map[string]string{"k": "v", "k2": "v2"}}
		newO := api.PinOptions{Metadata: map[string]string{"k2": "v2"}}
		R.SampleTagged("candidates", 8, map[string]interface{}{
			"PinOptions{meta:{k2:v2}}.Equals(PinOptions{meta:{k:v,k2:v2}})": newO.Equals(&oldO),
			"reverse": oldO.Equals(&newO)})
	}

	// (2) Cluster.PinUpdate called directly has no follower-mode guard
	play(t, "candidates", follower, true, call{API: "PinUpdate", From: "x", Cid: "a"}) // refused: source absent
	{
		// a follower whose pinset holds a (written by a trusted peer)
		s := R.Sec("candidates")
		bubble(t, func(t *testing.T) {
			r := newRig(t, follower, true)
			defer r.stop()
			a := api.PinWithOpts(universe["a"], api.PinOptions{ReplicationFactorMin: -1, ReplicationFactorMax: -1, Name: "n1"})
			pre := []api.Pin{*a}
			r.restore(pre)
			for _, c := range []call{{API: "PinUpdate", From: "a", Cid: "b"}, {API: "Pin", Cid: "b", Opts: optset{upd("a")}}} {
				r.restore(pre)
				res := r.exec(c)
				synctest.Wait()
				post := r.pins()
				log := r.sh.Calls()
				vs, class, nt := judge(r.cfg, pre, c, res, post, log, stateKey(pre) != stateKey(post))
				R.Eval(s, "candidates|"+r.cfg.String()+"|"+class, nt)
				R.Transitions(1)
				hist := []string{"[start: follower peer, pinset {a}]", c.String()}
				R.SampleTagged("candidates", 12, map[string]interface{}{"config": follower.String(), "history": hist, "error": res.Err, "log_calls_reached": len(log), "pinset": canonSet(post)})
				if len(vs) > 0 {
					report(vs, r.cfg, hist, c, pre, post, res, len(log))
				}
			}
		})
	}

	// (3) found by the search: an update onto a CID that is already pinned
	// skips the checks a pin makes: the meta pin of sharded content becomes a
	// plain pin (cluster-DAG and shards stay behind, and cannot be unpinned) ...
	play(t, "candidates", leader, true, pinc("a"), call{API: "PinUpdate", From: "a", Cid: "m"}, call{API: "Unpin", Cid: "m"}, call{API: "Unpin", Cid: "s0"})
	// ... and a recursive pin is downgraded to direct
	play(t, "candidates", leader, false, pinc("a"), pinc("b", devs["mode"][0]), pinc("a", upd("b")))
}
