package c04

// The search above runs on a recording in-memory consensus component, so what
// it sees stored is what the Cluster submitted. With Raft the stored entry is
// what the FSM made of the log entry, and go-libp2p-raft decodes every entry
// on top of one long-lived operation object: options of an earlier operation
// can leak into a later one. This section runs short call sequences on a real
// single-peer Raft-backed Cluster and judges every transition with the same
// reference model.

import (
	"fmt"
	"testing"
	"time"

	"github.com/ipfs/ipfs-cluster/api"

	"verif/harness/lib/ev"
)

func TestRaftSequences(t *testing.T) {
	sec := R.Sec("raft-sequences")
	plain := []string{"a", "b"}
	var pins []call
	for _, l := range plain {
		for _, o := range singles(l, plain) {
			pins = append(pins, call{API: "Pin", Cid: l, Opts: o})
		}
	}
	// sequences: first ; [Unpin(first.Cid)] ; second  -- every ordered pair of
	// pin calls, with and without the first CID being unpinned in between
	type seq []call
	var seqs []seq
	for _, c1 := range pins {
		for _, c2 := range pins {
			seqs = append(seqs, seq{c1, c2}, seq{c1, call{API: "Unpin", Cid: c1.Cid}, c2})
		}
	}
	sec.Bounds["consensus"] = "real raft.Consensus, one peer, boltdb on disk"
	sec.Bounds["pin_calls"] = len(pins)
	sec.Bounds["sequences"] = fmt.Sprintf("%d: every ordered pair of Pin calls over CIDs a,b x (empty + one option deviation), with and without Unpin of the first CID in between; the pinset is emptied by Unpin calls between sequences (the same peer keeps running)", len(seqs))
	cfg := config{Min: -1, Max: -1, Raft: true}
	budget := ev.NewBudget(testBudget(60 * time.Second))
	capped := false
	parallelRigs(t, cfg, len(seqs), func(r *rig, i int) {
		if budget.Exceeded() {
			capped = true
			return
		}
		var hist []string
		for _, c := range seqs[i] {
			pre := r.pins()
			res := r.exec(c)
			post := r.pins()
			vs, class, nontrivial := judge(cfg, pre, c, res, post, nil, stateKey(pre) != stateKey(post))
			R.Eval(sec, cfg.String()+"|"+class, nontrivial)
			R.Outcome(sec, c.API+":"+errClass(res.Err))
			R.Transitions(1)
			hist = append(hist, c.String())
			if len(vs) > 0 {
				report(vs, cfg, append([]string{}, hist...), c, pre, post, res, 0)
			}
		}
		// empty the pinset again (not judged)
		for _, p := range r.pins() {
			r.p.C.Unpin(r.ctx, p.Cid)
		}
		if left := r.pins(); len(left) != 0 {
			R.Broken("raft-sequences: could not empty the pinset between sequences: %v", canonSet(left))
		}
	})
	if capped {
		sec.Exhaustive = false
		sec.CapHit = "time budget reached before all sequences were run"
		R.NotExhaustive("raft-sequences: " + sec.CapHit)
	}
	_ = api.PinCid
}

// TestRaftShardedFixture: the four entries of sharded content written through
// the real pin path on the Raft-backed peer, next to an unrelated pin; then
// the unpin of the root. Same reference model.
func TestRaftShardedFixture(t *testing.T) {
	sec := R.Sec("raft-sharded-fixture")
	cfg := config{Min: -1, Max: -1, Raft: true}
	sec.Bounds["sequence"] = "Pin(a); the sharded fixture (2 shards, cluster-DAG, meta) through the Cluster.Pin RPC like the adder; Unpin(m); Unpin(a)"
	bubble(t, func(t *testing.T) {
		r := newRig(t, cfg, true)
		defer r.stop()
		step := func(c call) {
			pre := r.pins()
			res := r.exec(c)
			post := r.pins()
			vs, class, nt := judge(cfg, pre, c, res, post, nil, stateKey(pre) != stateKey(post))
			R.Eval(sec, cfg.String()+"|"+class, nt)
			R.Outcome(sec, c.API+":"+errClass(res.Err))
			R.Transitions(1)
			if len(vs) > 0 {
				report(vs, cfg, []string{c.String()}, c, pre, post, res, 0)
			}
		}
		step(call{API: "Pin", Cid: "a"})
		before := r.pins()
		r.buildFixture(t)
		after := index(r.pins())
		want := []string{"a", "m", "d", "s0", "s1"}
		ok := len(after) == len(want)
		for _, l := range want {
			if after[l] == nil {
				ok = false
			}
		}
		R.Eval(sec, fmt.Sprintf("fixture-on-raft|entries=%d|ok=%v", len(after), ok), true)
		if !ok {
			R.Violation("C04|Pin|raft:sharded-fixture|entries-lost-or-missing", map[string]interface{}{
				"config": cfg.String(), "pinset_before": canonSet(before), "pinset_after": canonSet(r.pins()),
				"expected": "the unrelated pin a plus meta, cluster-DAG and two shard entries"})
			return
		}
		step(call{API: "Unpin", Cid: "m"})
		step(call{API: "Unpin", Cid: "a"})
	})
}
