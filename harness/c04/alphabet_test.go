package c04

import (
	"fmt"
	"sort"
	"strings"
	"time"

	"github.com/ipfs/ipfs-cluster/adder/sharding"
	"github.com/ipfs/ipfs-cluster/api"

	cid "github.com/ipfs/go-cid"
	cbor "github.com/ipfs/go-ipld-cbor"
	peer "github.com/libp2p/go-libp2p-core/peer"
	ma "github.com/multiformats/go-multiaddr"
	mh "github.com/multiformats/go-multihash"

	"verif/harness/lib/clus"
)

// ---------------------------------------------------------------------------
// CID universe
// ---------------------------------------------------------------------------

// Labels: a b c = plain CIDs; x = a CID that is never pinned; m = meta pin
// (data root of the sharded fixture), d = its cluster-DAG, s0 s1 = its shards.
var (
	universe   = map[string]cid.Cid{}
	labelOfCid = map[string]string{}
	// clusterDAGRaw is the CBOR block the model IPFS daemon serves for d: a
	// node built exactly as adder/sharding.makeDAGSimple builds it
	// (cbor.WrapObject(map[string]cid.Cid{"0": s0, "1": s1}, sha2-256)).
	clusterDAGRaw []byte
)

func init() {
	for _, l := range []string{"a", "b", "c", "x", "m", "s0", "s1"} {
		universe[l] = clus.Cid(l)
	}
	// b and x are other CIDs of a's content (a is v1/raw; b the CIDv0, x the
	// v1/dag-pb of the same multihash): different CIDs are different entries,
	// and a never-pinned CID is not found because a sibling is pinned
	universe["b"] = clus.CidV0("a")
	universe["x"] = cid.NewCidV1(cid.DagProtobuf, clus.Cid("a").Hash())
	node, err := cbor.WrapObject(map[string]cid.Cid{"0": universe["s0"], "1": universe["s1"]},
		mh.SHA2_256, mh.DefaultLengths[mh.SHA2_256])
	if err != nil {
		panic(err)
	}
	clusterDAGRaw = node.RawData()
	universe["d"] = node.Cid()
	// the repository's own parser must read the two shard links back
	n2, err := sharding.CborDataToNode(clusterDAGRaw, "cbor")
	if err != nil || len(n2.Links()) != 2 || !n2.Cid().Equals(node.Cid()) {
		panic(fmt.Sprint("cluster-DAG fixture does not parse back: ", err))
	}
	for l, c := range universe {
		labelOfCid[c.String()] = l
	}
}

func lab(c cid.Cid) string {
	if l, ok := labelOfCid[c.String()]; ok {
		return l
	}
	if !c.Defined() {
		return "-"
	}
	return "?" + c.String()
}

// Path alphabet of the model daemon's Resolve: /ipfs/<l> -> l,
// /ipfs/<l>/sub -> another CID of the universe, anything else unresolvable.
var pathTable = map[string]string{
	"/ipfs/a":     "a",
	"/ipfs/b":     "b",
	"/ipfs/a/sub": "b",
	"/ipfs/b/sub": "a",
	"/ipfs/m":     "m",
	"/ipfs/x":     "x",
	// "/ipfs/a/nope" is not in the table: unresolvable
}

const pathUnresolvable = "/ipfs/a/nope"

// ---------------------------------------------------------------------------
// time, peers, origins
// ---------------------------------------------------------------------------

// Expiry instants are absolute; every bubble's clock starts at
// 2000-01-01T00:00:00Z and never advances by more than a few seconds in this
// check (asserted by the rig), so "past" and "future" do not depend on it.
var (
	bubbleEpoch = time.Date(2000, 1, 1, 0, 0, 0, 0, time.UTC)
	tFuture1    = bubbleEpoch.Add(48 * time.Hour)
	tFuture2    = bubbleEpoch.Add(72 * time.Hour)
	tPast       = bubbleEpoch.Add(-1 * time.Hour)
)

var (
	P0, P1, P2 = clus.PID(0), clus.PID(1), clus.PID(2)
	healthy    = []peer.ID{P0, P1, P2}
	origin1, _ = ma.NewMultiaddr("/ip4/192.0.2.1/tcp/4001/p2p/" + clus.PID(11).Pretty())
	origin2, _ = ma.NewMultiaddr("/ip4/192.0.2.2/tcp/4001/p2p/" + clus.PID(12).Pretty())
)

func peerLabel(p peer.ID) string {
	switch p {
	case P0:
		return "P0"
	case P1:
		return "P1"
	case P2:
		return "P2"
	}
	return "P?" + p.Pretty()
}

// ---------------------------------------------------------------------------
// option alphabet
// ---------------------------------------------------------------------------

// dev is one deviation from the empty options in one dimension.
type dev struct {
	Dim, Val string
	apply    func(o *api.PinOptions)
}

func rf(min, max int) dev {
	return dev{"rf", fmt.Sprintf("%d/%d", min, max), func(o *api.PinOptions) {
		o.ReplicationFactorMin, o.ReplicationFactorMax = min, max
	}}
}
func meta(name string, m map[string]string) dev {
	return dev{"meta", name, func(o *api.PinOptions) {
		c := map[string]string{}
		for k, v := range m {
			c[k] = v
		}
		o.Metadata = c
	}}
}
func upd(l string) dev {
	return dev{"update", l, func(o *api.PinOptions) { o.PinUpdate = universe[l] }}
}

// Deviations per dimension. "update" is handled separately because the source
// depends on the target CID.
var devs = map[string][]dev{
	"name": {
		{"name", "n1", func(o *api.PinOptions) { o.Name = "n1" }},
		{"name", "n2", func(o *api.PinOptions) { o.Name = "n2" }},
	},
	"mode": {
		{"mode", "direct", func(o *api.PinOptions) { o.Mode = api.PinModeDirect }},
	},
	"rf": {
		rf(1, 1), rf(2, 3), rf(-1, -1), // valid
		rf(0, 2), rf(1, 0), // one factor unset: the cluster default is substituted
		rf(2, 1), rf(-1, 2), rf(-3, -3), // invalid
		rf(4, 4), // well-formed but more than the 3 peers there are
	},
	"expiry": {
		{"expiry", "future1", func(o *api.PinOptions) { o.ExpireAt = tFuture1 }},
		{"expiry", "future2", func(o *api.PinOptions) { o.ExpireAt = tFuture2 }},
		{"expiry", "past", func(o *api.PinOptions) { o.ExpireAt = tPast }},
		// instants that stored pins encode specially (the Unix epoch reads
		// back as "no expiry"): as requests they are plain past expiries
		{"expiry", "unix-epoch", func(o *api.PinOptions) { o.ExpireAt = time.Unix(0, 0) }},
		{"expiry", "before-unix-epoch", func(o *api.PinOptions) { o.ExpireAt = time.Unix(-3600, 0) }},
	},
	"meta": {
		meta("{}", map[string]string{}),
		meta("{k:v}", map[string]string{"k": "v"}),
		meta("{k:v'}", map[string]string{"k": "v'"}),
		meta("{k:v,k2:v2}", map[string]string{"k": "v", "k2": "v2"}),
		meta("{k2:v2}", map[string]string{"k2": "v2"}),
		meta("{k:}", map[string]string{"k": ""}),
		meta("{:x}", map[string]string{"": "x"}),
	},
	"origins": {
		{"origins", "[o1]", func(o *api.PinOptions) { o.Origins = []ma.Multiaddr{origin1} }},
		{"origins", "[o1,o2]", func(o *api.PinOptions) { o.Origins = []ma.Multiaddr{origin1, origin2} }},
		{"origins", "[o2]", func(o *api.PinOptions) { o.Origins = []ma.Multiaddr{origin2} }},
	},
	"ualloc": {
		{"ualloc", "[P2]", func(o *api.PinOptions) { o.UserAllocations = []peer.ID{P2} }},
		{"ualloc", "[P2,P1]", func(o *api.PinOptions) { o.UserAllocations = []peer.ID{P2, P1} }},
	},
}

var dimOrder = []string{"name", "mode", "rf", "expiry", "meta", "origins", "ualloc", "update"}

// optset is a set of deviations in distinct dimensions (0, 1 or 2 of them).
type optset []dev

func (s optset) String() string {
	if len(s) == 0 {
		return "{}"
	}
	var p []string
	for _, d := range s {
		p = append(p, d.Dim+":"+d.Val)
	}
	return "{" + strings.Join(p, ",") + "}"
}

func (s optset) build() api.PinOptions {
	var o api.PinOptions
	for _, d := range s {
		d.apply(&o)
	}
	return o
}

func (s optset) dims() string {
	if len(s) == 0 {
		return "none"
	}
	var p []string
	for _, d := range s {
		p = append(p, d.Dim)
	}
	return strings.Join(p, "+")
}

// updateSources are the update-source labels tried for target t: every other
// plain CID of the universe in use (present or absent depending on the state),
// x (never pinned) and m (a meta pin, or absent once unpinned).
func updateSources(t string, plain []string) []string {
	var out []string
	for _, l := range plain {
		if l != t {
			out = append(out, l)
		}
	}
	for _, l := range []string{"x", "m"} {
		if l != t {
			out = append(out, l)
		}
	}
	return out
}

// singles returns the empty option set plus every one-dimension deviation.
func singles(t string, plain []string) []optset {
	out := []optset{{}}
	for _, dim := range dimOrder {
		if dim == "update" {
			for _, src := range updateSources(t, plain) {
				out = append(out, optset{upd(src)})
			}
			continue
		}
		for _, d := range devs[dim] {
			out = append(out, optset{d})
		}
	}
	return out
}

// pairs returns every two-dimension deviation (all value combinations of
// every pair of dimensions).
func pairs(t string, plain []string) []optset {
	byDim := map[string][]dev{}
	for k, v := range devs {
		byDim[k] = v
	}
	for _, src := range updateSources(t, plain) {
		byDim["update"] = append(byDim["update"], upd(src))
	}
	var out []optset
	for i := 0; i < len(dimOrder); i++ {
		for j := i + 1; j < len(dimOrder); j++ {
			for _, a := range byDim[dimOrder[i]] {
				for _, b := range byDim[dimOrder[j]] {
					out = append(out, optset{a, b})
				}
			}
		}
	}
	return out
}

// ---------------------------------------------------------------------------
// calls
// ---------------------------------------------------------------------------

type call struct {
	API  string // Pin PinPath PinUpdate Unpin UnpinPath
	Cid  string // target label (Pin, Unpin, PinUpdate "to")
	From string // PinUpdate source label
	Path string // PinPath / UnpinPath
	Opts optset
}

func (c call) String() string {
	switch c.API {
	case "Pin":
		return fmt.Sprintf("Pin(%s,%s)", c.Cid, c.Opts)
	case "PinPath":
		return fmt.Sprintf("PinPath(%s,%s)", c.Path, c.Opts)
	case "PinUpdate":
		return fmt.Sprintf("PinUpdate(%s->%s,%s)", c.From, c.Cid, c.Opts)
	case "Unpin":
		return fmt.Sprintf("Unpin(%s)", c.Cid)
	case "UnpinPath":
		return fmt.Sprintf("UnpinPath(%s)", c.Path)
	}
	return "?"
}

// bfsCalls is the call alphabet applied from every reached state: plain = the
// plain CIDs in use ({a,b} or {a,b,c}).
func bfsCalls(plain []string) []call {
	var out []call
	// Pin(c, o) for every plain CID and every single-deviation option set
	for _, t := range plain {
		for _, o := range singles(t, plain) {
			out = append(out, call{API: "Pin", Cid: t, Opts: o})
		}
	}
	// Pin on the fixture's entries (a data pin request for a CID tracked with
	// another type) and on them as update targets
	for _, t := range []string{"m", "d", "s0"} {
		out = append(out, call{API: "Pin", Cid: t, Opts: optset{}})
	}
	out = append(out, call{API: "Pin", Cid: "m", Opts: optset{devs["name"][0]}})
	out = append(out, call{API: "Pin", Cid: "m", Opts: optset{upd("a")}})
	// the update option naming the pinned CID itself (legal: an ordinary pin)
	for _, t := range plain {
		out = append(out, call{API: "Pin", Cid: t, Opts: optset{upd(t)}})
		out = append(out, call{API: "Pin", Cid: t, Opts: optset{upd(t), devs["meta"][1]}})
		out = append(out, call{API: "Pin", Cid: t, Opts: optset{upd(t), rf(2, 1)}})
	}
	// PinPath over the path alphabet with a few option sets
	pathOpts := []optset{{}, {devs["name"][1]}, {devs["mode"][0]}, {devs["meta"][4]}, {devs["expiry"][2]}, {rf(2, 1)}}
	for _, p := range []string{"/ipfs/a", "/ipfs/a/sub"} {
		for _, o := range pathOpts {
			out = append(out, call{API: "PinPath", Path: p, Opts: o})
		}
	}
	out = append(out, call{API: "PinPath", Path: "/ipfs/a/sub", Opts: optset{upd("a")}})
	out = append(out, call{API: "PinPath", Path: "/ipfs/m", Opts: optset{}})
	out = append(out, call{API: "PinPath", Path: pathUnresolvable, Opts: optset{}})
	// PinUpdate(from, to, o) called directly
	froms := append(append([]string{}, plain...), "x", "m")
	for _, f := range froms {
		for _, t := range plain {
			out = append(out, call{API: "PinUpdate", From: f, Cid: t, Opts: optset{}})
		}
	}
	for _, o := range []optset{{devs["name"][1]}, {devs["expiry"][1]}, {devs["expiry"][2]}, {rf(2, 1)}} {
		out = append(out, call{API: "PinUpdate", From: "a", Cid: "b", Opts: o})
	}
	for _, t := range []string{"m", "s0", "x"} {
		out = append(out, call{API: "PinUpdate", From: "a", Cid: t, Opts: optset{}})
	}
	// Unpin / UnpinPath
	for _, t := range append(append([]string{}, plain...), "x", "m", "d", "s0") {
		out = append(out, call{API: "Unpin", Cid: t})
	}
	for _, p := range []string{"/ipfs/a", "/ipfs/a/sub", "/ipfs/m", pathUnresolvable} {
		out = append(out, call{API: "UnpinPath", Path: p})
	}
	return out
}

// pairwiseCalls is Pin(a, o) for the empty, every single and every pairwise
// option set, plus Unpin(a).
func pairwiseCalls() []call {
	plain := []string{"a", "b"}
	var out []call
	for _, o := range singles("a", plain) {
		out = append(out, call{API: "Pin", Cid: "a", Opts: o})
	}
	for _, o := range pairs("a", plain) {
		out = append(out, call{API: "Pin", Cid: "a", Opts: o})
	}
	out = append(out, call{API: "Unpin", Cid: "a"})
	return out
}

func sortedKeys(m map[string]string) []string {
	var k []string
	for x := range m {
		k = append(k, x)
	}
	sort.Strings(k)
	return k
}
