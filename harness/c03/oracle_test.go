package c03

import (
	"fmt"
	"sort"
	"strconv"
	"strings"
)

// ---- input alphabet --------------------------------------------------------

// Per-peer state of the latest metric of the allocation informer.
const (
	stAbsent  = iota // no metric at all
	stExpired        // valid flag, numeric, attractive value, but past its expiry
	stInvalid        // Valid=false, numeric, attractive value, unexpired
	stNonNum         // Valid=true, unexpired, value does not parse as a number
	stV2             // Valid=true, unexpired, value "2"
	stV10            // ... "10"
	stV30            // ... "30"
	nStates
)

var stName = [...]string{"absent", "expired", "invalid", "nonnum", "v2", "v10", "v30"}

var fullAlphabet = []int{stAbsent, stExpired, stInvalid, stNonNum, stV2, stV10, stV30}

// reduced alphabet (used where the full product is too large): the three
// unhealthy kinds are still all present, numeric values keep one tie class.
var redAlphabet = []int{stAbsent, stExpired, stInvalid, stNonNum, stV2, stV10}

// smallest alphabet used for the largest peer counts.
var minAlphabet = []int{stExpired, stNonNum, stV2, stV10}

// quick-tier alphabet for 4 peers.
var tinyAlphabet = []int{stExpired, stV2, stV10}

func numericValue(st int) (uint64, bool) {
	switch st {
	case stV2:
		return 2, true
	case stV10:
		return 10, true
	case stV30:
		return 30, true
	}
	return 0, false
}

// Case is one input tuple.
type Case struct {
	N        int    `json:"peers"`
	St       []int  `json:"metric_state"` // per peer
	Cur      []int  `json:"current_allocation"`
	Existing string `json:"existing_pin"` // "none" | "everywhere" | "alloc"
	Prio     []int  `json:"priority_list"`
	Min      int    `json:"min"`
	Max      int    `json:"max"`
	DefMin   int    `json:"cluster_default_min"`
	DefMax   int    `json:"cluster_default_max"`
	Alloc    string `json:"allocator"` // "ascend" | "descend"
	Entry    string `json:"entry"`     // "pin" | "block" | "shortcut" | "remove" | "alert"
	Excluded int    `json:"excluded"`  // peer index removed/alerted (-1: none)
	Variant  string `json:"variant,omitempty"`
	NonNum   string `json:"nonnumeric_value"` // value carried by peers in state "nonnum"
}

func (c Case) states() string {
	s := make([]string, c.N)
	for i := 0; i < c.N; i++ {
		s[i] = stName[c.St[i]]
	}
	return strings.Join(s, ",")
}

func (c Case) String() string {
	return fmt.Sprintf("%s/%s n=%d st=[%s] cur=%v(%s) prio=%v rf=%d/%d def=%d/%d excl=%d %s",
		c.Entry, c.Alloc, c.N, c.states(), c.Cur, c.Existing, c.Prio, c.Min, c.Max, c.DefMin, c.DefMax, c.Excluded, c.Variant)
}

// effective replication factors: 0 means "cluster default".
func (c Case) eff() (int, int) {
	mn, mx := c.Min, c.Max
	if mn == 0 {
		mn = c.DefMin
	}
	if mx == 0 {
		mx = c.DefMax
	}
	return mn, mx
}

// Obs is what one call showed.
type Obs struct {
	Panic    string `json:"panic,omitempty"`
	Err      string `json:"error,omitempty"`
	Failed   bool   `json:"failed"`
	Returned []int  `json:"returned_allocations"` // peer indices (-1 = not a member of P)
	HasRet   bool   `json:"has_returned"`
	Stored   []int  `json:"stored_allocations"`
	HasStore bool   `json:"stored_present"`
	Logged   int    `json:"logpin_calls"`
	Unpins   int    `json:"logunpin_calls"`
	// pinset comparison with the pre-state (computed by the driver)
	Changed bool `json:"pinset_changed"`
}

// ---- the oracle (from the property text only) ------------------------------

type verdict struct {
	clause string
	msg    string
}

func has(l []int, x int) bool {
	for _, y := range l {
		if y == x {
			return true
		}
	}
	return false
}

// model facts about a case
type facts struct {
	H     map[int]bool // valid ∧ unexpired ∧ not excluded
	A     map[int]bool // H ∧ numeric ∧ not current: peers that may be newly added
	curH  []int
	reach int
}

func (c Case) facts() facts {
	f := facts{H: map[int]bool{}, A: map[int]bool{}}
	for i := 0; i < c.N; i++ {
		if i == c.Excluded {
			continue
		}
		switch c.St[i] {
		case stNonNum, stV2, stV10, stV30:
			f.H[i] = true
		}
	}
	for _, p := range c.Cur {
		if f.H[p] {
			f.curH = append(f.curH, p)
		}
	}
	for i := range f.H {
		if _, num := numericValue(c.St[i]); num && !has(c.Cur, i) {
			f.A[i] = true
		}
	}
	f.reach = len(f.curH) + len(f.A)
	return f
}

// judgeList applies the per-result clauses of the property to one allocation
// list (returned or stored). kind: "positive" | "shortcut".
func judgeList(c Case, res []int, mn, mx int, shortcut bool) []verdict {
	var out []verdict
	f := c.facts()
	seen := map[int]bool{}
	for _, p := range res {
		if seen[p] {
			out = append(out, verdict{"duplicate-peer", fmt.Sprintf("peer %d listed twice in %v", p, res)})
			break
		}
		seen[p] = true
	}
	var added []int
	for p := range seen {
		if !has(c.Cur, p) {
			added = append(added, p)
		}
	}
	sort.Ints(added)
	for _, p := range added {
		switch {
		case p < 0 || p >= c.N:
			out = append(out, verdict{"added-peer-not-healthy:unknown", fmt.Sprintf("result %v adds a peer that is not in the peer set", res)})
		case p == c.Excluded:
			out = append(out, verdict{"added-peer-not-healthy:excluded", fmt.Sprintf("result %v adds excluded peer %d", res, p)})
		case !f.H[p]:
			out = append(out, verdict{"added-peer-not-healthy:" + stName[c.St[p]], fmt.Sprintf("result %v adds peer %d whose latest metric is %s", res, p, stName[c.St[p]])})
		case !f.A[p]:
			out = append(out, verdict{"added-nonnumeric-peer", fmt.Sprintf("result %v adds peer %d whose metric value is not numeric", res, p)})
		}
	}
	nH, nCurH := 0, 0
	for p := range seen {
		if p >= 0 && p < c.N && f.H[p] {
			nH++
			if has(c.Cur, p) {
				nCurH++
			}
		}
	}
	if len(f.curH) > mx {
		// more healthy holders than max: exactly max of them remain
		if nCurH != mx {
			out = append(out, verdict{"over-max-holders-not-trimmed-to-max", fmt.Sprintf("%d healthy current holders > max %d, result %v keeps %d of them", len(f.curH), mx, res, nCurH)})
		}
	} else {
		for _, p := range f.curH {
			if !seen[p] {
				out = append(out, verdict{"healthy-holder-dropped", fmt.Sprintf("healthy current holder %d dropped (healthy holders %v <= max %d), result %v", p, f.curH, mx, res)})
				break
			}
		}
	}
	if nH > mx {
		out = append(out, verdict{"healthy-count-above-max", fmt.Sprintf("result %v has %d healthy holders, max %d", res, nH, mx)})
	}
	if nH < mn && !shortcut {
		out = append(out, verdict{"healthy-count-below-min", fmt.Sprintf("result %v has %d healthy holders, min %d", res, nH, mn)})
	}
	// preference: priority peers first, then the strategy's ranking
	var prioAvail, restAvail []int
	for p := range f.A {
		if has(c.Prio, p) {
			prioAvail = append(prioAvail, p)
		} else {
			restAvail = append(restAvail, p)
		}
	}
	sort.Ints(prioAvail)
	sort.Ints(restAvail)
	addedNonPrio := []int{}
	for _, p := range added {
		if f.A[p] && !has(c.Prio, p) {
			addedNonPrio = append(addedNonPrio, p)
		}
	}
	if len(addedNonPrio) > 0 {
		for _, q := range prioAvail {
			if !seen[q] {
				out = append(out, verdict{"priority-not-preferred", fmt.Sprintf("result %v adds non-priority peer %v while healthy priority peer %d was left out", res, addedNonPrio, q)})
				break
			}
		}
	}
	// ... and among the user's peers too: when they do not all fit, "peers are
	// chosen from this set in allocation order" (Cluster.Pin), i.e. in the
	// order the strategy ranks them
prank:
	for _, a := range added {
		if !f.A[a] || !has(c.Prio, a) {
			continue
		}
		va, oka := numericValue(c.St[a])
		for _, b := range prioAvail {
			if seen[b] {
				continue
			}
			vb, okb := numericValue(c.St[b])
			if oka && okb && ((c.Alloc == "ascend" && vb < va) || (c.Alloc == "descend" && vb > va)) {
				out = append(out, verdict{"ranking-not-followed-among-priority-peers", fmt.Sprintf("%s allocator: result %v adds priority peer %d (value %d) while priority peer %d (value %d) was left out", c.Alloc, res, a, va, b, vb)})
				break prank
			}
		}
	}
rank:
	for _, a := range addedNonPrio {
		va, _ := numericValue(c.St[a])
		for _, b := range restAvail {
			if seen[b] {
				continue
			}
			vb, _ := numericValue(c.St[b])
			if (c.Alloc == "ascend" && vb < va) || (c.Alloc == "descend" && vb > va) {
				out = append(out, verdict{"ranking-not-followed", fmt.Sprintf("%s allocator: result %v adds peer %d (value %d) while peer %d (value %d) was left out", c.Alloc, res, a, va, b, vb)})
				break rank
			}
		}
	}
	return out
}

// judge applies the whole oracle to one observation.
func judge(c Case, o Obs) []verdict {
	if o.Panic != "" {
		return []verdict{{"panic", o.Panic}}
	}
	mn, mx := c.eff()
	var out []verdict
	add := func(where string, vs []verdict) {
		for _, v := range vs {
			out = append(out, verdict{v.clause + "@" + where, v.msg})
		}
	}
	if c.Entry == "pin-read-fault" && o.Failed {
		// a request that fails on the injected read error is fine, as long
		// as it leaves the pinset alone
		if o.Logged > 0 || o.Changed {
			out = append(out, verdict{"failed-but-pinset-changed", fmt.Sprintf("request failed (%s) but the pinset changed", o.Err)})
		}
		return out
	}
	positive := mn > 0 && mx > 0
	everywhere := mn == -1 && mx == -1
	mutates := c.Entry != "block" && c.Entry != "allocate"
	if c.Entry == "rpcpin-preset" && !everywhere {
		// the caller supplied the placement: nothing of the property applies
		// beyond "a failed request changes nothing"
		if o.Failed && (o.Logged > 0 || o.Changed) {
			out = append(out, verdict{"failed-but-pinset-changed", fmt.Sprintf("request failed (%s) but the pinset changed", o.Err)})
		}
		return out
	}
	switch {
	case positive && mn > mx:
		// no list can hold between min and max healthy holders
		if !o.Failed {
			out = append(out, verdict{"succeeded-with-min-above-max", fmt.Sprintf("factors %d/%d accepted, returned %v stored %v", mn, mx, o.Returned, o.Stored)})
		}
	case positive:
		f := c.facts()
		shortcut := c.Entry == "shortcut"
		// (a "shortcut" request may also be treated as a normal request)
		mustFail := len(f.curH) <= mx && f.reach < mn
		if o.Failed {
			if !mustFail {
				out = append(out, verdict{"failed-although-min-reachable", fmt.Sprintf("healthy holders %v, addable %d, min %d: request failed: %s", f.curH, len(f.A), mn, o.Err)})
			}
		} else {
			if o.HasRet {
				add("returned", judgeList(c, o.Returned, mn, mx, shortcut))
			}
			if mutates {
				if !o.HasStore {
					out = append(out, verdict{"succeeded-but-not-stored", "call succeeded but the pinset has no such pin"})
				} else {
					add("stored", judgeList(c, o.Stored, mn, mx, shortcut))
				}
			}
		}
	case everywhere:
		if !o.Failed && mutates {
			if o.HasStore && len(o.Stored) != 0 {
				out = append(out, verdict{"everywhere-nonempty-allocations@stored", fmt.Sprintf("replication factor -1 but stored allocations %v", o.Stored)})
			}
			if o.HasRet && len(o.Returned) != 0 {
				out = append(out, verdict{"everywhere-nonempty-allocations@returned", fmt.Sprintf("replication factor -1 but returned allocations %v", o.Returned)})
			}
			if !o.HasStore {
				out = append(out, verdict{"succeeded-but-not-stored", "call succeeded but the pinset has no such pin"})
			}
		}
	default:
		// mixed / below -1 factors: the property text says nothing
	}
	// "the request fails and nothing changes"
	if o.Failed && (positive || everywhere) {
		if o.Logged > 0 || o.Unpins > 0 {
			out = append(out, verdict{"failed-but-logged", fmt.Sprintf("request failed (%s) but %d LogPin / %d LogUnpin reached consensus", o.Err, o.Logged, o.Unpins)})
		}
		if o.Changed {
			out = append(out, verdict{"failed-but-pinset-changed", fmt.Sprintf("request failed (%s) but the pinset differs from the pre-state", o.Err)})
		}
	}
	if c.Entry == "block" && (o.Logged > 0 || o.Changed) && o.Failed {
		out = append(out, verdict{"failed-but-pinset-changed", "BlockAllocate failed and changed the pinset"})
	}
	return out
}

// class is the canonical signature of (input class, observation class): peers
// are anonymised (multiset of states, sizes of the relevant sets).
func class(c Case, o Obs) (string, bool) {
	mn, mx := c.eff()
	f := c.facts()
	cnt := make([]int, nStates)
	for i := 0; i < c.N; i++ {
		cnt[c.St[i]]++
	}
	var sb strings.Builder
	sb.WriteString(c.Entry + "|" + c.Alloc + "|n" + strconv.Itoa(c.N) + "|")
	for s, k := range cnt {
		if k > 0 {
			sb.WriteString(stName[s] + strconv.Itoa(k))
		}
	}
	nPrioA := 0
	for _, p := range c.Prio {
		if f.A[p] {
			nPrioA++
		}
	}
	fmt.Fprintf(&sb, "|cur%d/%d|%s|prio%d/%d|rf%d,%d(%d,%d)|x%v|%s", len(f.curH), len(c.Cur), c.Existing, nPrioA, len(c.Prio), c.Min, c.Max, mn, mx, c.Excluded >= 0, c.Variant)
	out := "ok"
	if o.Failed {
		out = "fail"
	}
	lst := o.Returned
	if !o.HasRet {
		lst = o.Stored
	}
	nh := 0
	for _, p := range lst {
		if p >= 0 && f.H[p] {
			nh++
		}
	}
	fmt.Fprintf(&sb, "=>%s:%d/%d", out, nh, len(lst))
	// non-trivial: the allocation logic really ran on a non-empty metric set
	// with positive factors
	nontrivial := mn > 0 && mx > 0 && mn <= mx && len(f.H) > 0 && c.Entry != "shortcut"
	return sb.String(), nontrivial
}

// ---- enumeration helpers ---------------------------------------------------

func subsets(n int) [][]int {
	var out [][]int
	for m := 0; m < 1<<n; m++ {
		s := []int{}
		for i := 0; i < n; i++ {
			if m&(1<<i) != 0 {
				s = append(s, i)
			}
		}
		out = append(out, s)
	}
	return out
}

// ordered subsets of size <= 2
func prioLists(n int) [][]int {
	out := [][]int{{}}
	for i := 0; i < n; i++ {
		out = append(out, []int{i})
	}
	for i := 0; i < n; i++ {
		for j := 0; j < n; j++ {
			if i != j {
				out = append(out, []int{i, j})
			}
		}
	}
	return out
}

func vectors(n int, alphabet []int) [][]int {
	out := [][]int{{}}
	for i := 0; i < n; i++ {
		var next [][]int
		for _, v := range out {
			for _, a := range alphabet {
				w := append(append([]int{}, v...), a)
				next = append(next, w)
			}
		}
		out = next
	}
	return out
}

type pair struct{ mn, mx int }

var validPairs = []pair{{-1, -1}, {1, 1}, {1, 2}, {2, 2}, {2, 3}, {3, 3}}
var invalidPairs = []pair{{2, 1}, {-1, 2}, {1, -1}, {-2, -2}, {0, 0}}
var positivePairs = []pair{{1, 1}, {1, 2}, {2, 2}, {2, 3}, {3, 3}}
