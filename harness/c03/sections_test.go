package c03

import (
	"fmt"
	"testing"

	"verif/harness/lib/ev"
)

// consistent pre-states for paths where the stored pin carries the options
// under test: its number of holders lies within [min,max].
func consistentCurs(n int, pr pair) [][]int {
	var out [][]int
	for _, cur := range subsets(n) {
		if len(cur) >= pr.mn && len(cur) <= pr.mx {
			out = append(out, cur)
		}
	}
	return out
}

// ---- exclusion list: PeerRemove and the ping-alert path --------------------

func exclusionUnits() []unit {
	type cfg struct {
		entry    string
		n        int
		alphabet []int
		shards   int
	}
	var cfgs []cfg
	if !ev.Thorough() {
		cfgs = []cfg{{"remove", 1, fullAlphabet, 1}, {"remove", 2, fullAlphabet, 1}, {"remove", 3, fullAlphabet, 1}, {"remove", 4, minAlphabet, 1},
			{"alert", 1, fullAlphabet, 1}, {"alert", 2, fullAlphabet, 1}, {"alert", 3, fullAlphabet, 1}}
		R.Sec("exclusion/remove").Bounds["peers"] = "1..3 (full alphabet), 4 (" + alphMin + ")"
		R.Sec("exclusion/alert").Bounds["peers"] = "1..3 (full alphabet)"
	} else {
		cfgs = []cfg{{"remove", 1, fullAlphabet, 1}, {"remove", 2, fullAlphabet, 1}, {"remove", 3, fullAlphabet, 1}, {"remove", 4, fullAlphabet, 4}, {"remove", 5, minAlphabet, 4},
			{"alert", 1, fullAlphabet, 1}, {"alert", 2, fullAlphabet, 1}, {"alert", 3, fullAlphabet, 1}, {"alert", 4, fullAlphabet, 4}}
		R.Sec("exclusion/remove").Bounds["peers"] = "1..4 (full alphabet), 5 (" + alphMin + ")"
		R.Sec("exclusion/alert").Bounds["peers"] = "1..4 (full alphabet)"
	}
	for _, e := range []string{"remove", "alert"} {
		s := R.Sec("exclusion/" + e)
		s.Bounds["stored_pin"] = "factors in (1,1),(1,2),(2,2),(2,3),(3,3); holders: every subset with min<=|cur|<=max; no priority list (the pinset does not persist user allocations - api.Pin.ProtoMarshal drops them - so re-pinning paths never have one)"
		s.Bounds["excluded_peer"] = "every current holder (exclusion lists of exactly one peer: the only shape the code can produce)"
		s.Bounds["observed_at"] = "LogPin calls reaching the recording consensus and the stored pin"
	}
	var units []unit
	for _, cf := range cfgs {
		cf := cf
		sec := "exclusion/" + cf.entry
		for _, alloc := range []string{"ascend", "descend"} {
			alloc := alloc
			for si, shard := range split(vectors(cf.n, cf.alphabet), cf.shards) {
				shard := shard
				units = append(units, unit{
					name: fmt.Sprintf("excl-%s-n%d-%s-%d", cf.entry, cf.n, alloc, si),
					opts: rigOpts{alloc: alloc, defMin: -1, defMax: -1},
					body: func(r *rig) {
						for _, st := range shard {
							r.setMetrics(cf.n, st, defaultNonNum)
							for _, pr := range positivePairs {
								for _, cur := range consistentCurs(cf.n, pr) {
									for _, x := range cur {
										c := Case{N: cf.n, St: st, Cur: cur, Existing: "alloc", Prio: []int{}, Min: pr.mn, Max: pr.mx,
											DefMin: -1, DefMax: -1, Alloc: alloc, Entry: cf.entry, Excluded: x}
										o := r.evaluate(sec, c)
										maybeSample(sec, 1009, r, c, o, defaultNonNum)
									}
								}
							}
						}
					},
				})
			}
		}
	}
	return units
}

// ---- re-pin with identical options: allocation is skipped -------------------

func shortcutUnits() []unit {
	maxN := 3
	if ev.Thorough() {
		maxN = 4
	}
	s := R.Sec("shortcut")
	s.Bounds["peers"] = fmt.Sprintf("1..%d, full alphabet", maxN)
	s.Bounds["what"] = "Cluster.Pin with options identical to the stored pin (holders: every subset with min<=|cur|<=max): only the clauses 'no duplicates', 'added peers are healthy', 'healthy holders kept', 'at most max healthy' are judged; whether the list is kept verbatim and whether fewer than min healthy holders remain is recorded as an outcome class, not judged; plus entry raise-min: the same request over a stored pin that differs only by a lower minimum, judged as a full request"
	var units []unit
	for n := 1; n <= maxN; n++ {
		n := n
		shards := 1
		if n == 4 {
			shards = 6
		}
		for _, alloc := range []string{"ascend", "descend"} {
			alloc := alloc
			for si, shard := range split(vectors(n, fullAlphabet), shards) {
				shard := shard
				units = append(units, unit{
					name: fmt.Sprintf("shortcut-n%d-%s-%d", n, alloc, si),
					opts: rigOpts{alloc: alloc, defMin: -1, defMax: -1},
					body: func(r *rig) {
						for _, st := range shard {
							r.setMetrics(n, st, defaultNonNum)
							for _, pr := range positivePairs {
								for _, cur := range consistentCurs(n, pr) {
									for _, prio := range prioLists(n) {
										c := Case{N: n, St: st, Cur: cur, Existing: "alloc", Prio: prio, Min: pr.mn, Max: pr.mx,
											DefMin: -1, DefMax: -1, Alloc: alloc, Entry: "shortcut", Excluded: -1}
										o := r.evaluate("shortcut", c)
										maybeSample("shortcut", 5003, r, c, o, defaultNonNum)
										if pr.mn >= 2 {
											// the same request over a stored pin whose only
											// difference is a lower minimum (holders: every
											// subset with min-1 <= |cur| <= max): a full
											// request, judged as one
											for _, cur2 := range consistentCurs(n, pair{pr.mn - 1, pr.mx}) {
												if fmt.Sprint(cur2) != fmt.Sprint(cur) && len(cur2) >= pr.mn {
													continue // (each holder set once: the larger ones under cur == cur2)
												}
												c2 := c
												c2.Cur, c2.Entry = cur2, "raise-min"
												r.evaluate("shortcut", c2)
											}
										}
									}
								}
							}
						}
					},
				})
			}
		}
	}
	return units
}

// ---- the allocation function with every input free ---------------------------

// ---- the read of the existing entry fails -------------------------------------

func readFaultUnits() []unit {
	s := R.Sec("pin-with-state-read-fault")
	s.Bounds["what"] = "Cluster.Pin while the first read of the shared state's datastore fails with an error other than 'not found': peers 1..3, full metric alphabet, every positive factor pair, every consistent holder set, every priority list; the request may fail (pinset unchanged) or must satisfy the whole oracle"
	var units []unit
	for n := 1; n <= 3; n++ {
		n := n
		for _, alloc := range []string{"ascend", "descend"} {
			alloc := alloc
			units = append(units, unit{
				name: fmt.Sprintf("readfault-n%d-%s", n, alloc),
				opts: rigOpts{alloc: alloc, defMin: -1, defMax: -1},
				body: func(r *rig) {
					for _, st := range vectors(n, fullAlphabet) {
						r.setMetrics(n, st, defaultNonNum)
						for _, pr := range positivePairs {
							for _, cur := range subsets(n) {
								if len(cur) == 0 || len(cur) > pr.mx {
									continue
								}
								for _, prio := range prioLists(n) {
									c := Case{N: n, St: st, Cur: cur, Existing: "alloc", Prio: prio, Min: pr.mn, Max: pr.mx,
										DefMin: -1, DefMax: -1, Alloc: alloc, Entry: "pin-read-fault", Excluded: -1}
									r.evaluate("pin-with-state-read-fault", c)
								}
							}
						}
					}
				},
			})
		}
	}
	return units
}

func allocateUnits() []unit {
	s := R.Sec("allocate-direct")
	s.Bounds["what"] = "(*Cluster).allocate called directly (exported to the harness by a build-overlay file): peers 1..3, full metric alphabet, every positive factor pair, every current holder set with |cur| <= max, every priority list of <= 2 peers, excluded peer: none or any peer - holder or not, on the priority list or not"
	var units []unit
	for n := 1; n <= 3; n++ {
		n := n
		for _, alloc := range []string{"ascend", "descend"} {
			alloc := alloc
			units = append(units, unit{
				name: fmt.Sprintf("allocate-n%d-%s", n, alloc),
				opts: rigOpts{alloc: alloc, defMin: -1, defMax: -1},
				body: func(r *rig) {
					for _, st := range vectors(n, fullAlphabet) {
						r.setMetrics(n, st, defaultNonNum)
						for _, pr := range positivePairs {
							for _, cur := range subsets(n) {
								if len(cur) > pr.mx {
									continue
								}
								for _, prio := range prioLists(n) {
									for x := -1; x < n; x++ {
										ex := "alloc"
										if len(cur) == 0 {
											ex = "none"
										}
										c := Case{N: n, St: st, Cur: cur, Existing: ex, Prio: prio, Min: pr.mn, Max: pr.mx,
											DefMin: -1, DefMax: -1, Alloc: alloc, Entry: "allocate", Excluded: x}
										r.evaluate("allocate-direct", c)
									}
								}
							}
						}
					}
				},
			})
		}
	}
	return units
}

// ---- cluster default factors ------------------------------------------------

func defaultsUnits() []unit {
	defaults := []pair{{1, 1}, {1, 2}, {2, 3}, {3, 3}}
	zeroPairs := []pair{{0, 0}, {0, 2}, {2, 0}, {0, 3}, {1, 2}, {-1, -1}}

	type cfg struct {
		n        int
		alphabet []int
	}
	cfgs := []cfg{{2, fullAlphabet}, {3, minAlphabet}}
	if ev.Thorough() {
		cfgs = []cfg{{2, fullAlphabet}, {3, fullAlphabet}, {4, tinyAlphabet}}
	}
	for _, e := range []string{"pin", "block"} {
		s := R.Sec("defaults/" + e)
		s.Bounds["cluster_defaults"] = "(1,1),(1,2),(2,3),(3,3)  [(-1,-1) is the default of every other section]"
		s.Bounds["requested_factors"] = "(0,0),(0,2),(2,0),(0,3) resolved against the defaults, plus explicit (1,2) and (-1,-1)"
		if ev.Thorough() {
			s.Bounds["peers"] = "2,3 (full alphabet), 4 (" + alphTiny + ")"
		} else {
			s.Bounds["peers"] = "2 (full alphabet), 3 (" + alphMin + ")"
		}
	}
	var units []unit
	for _, cf := range cfgs {
		cf := cf
		for _, d := range defaults {
			d := d
			for _, alloc := range []string{"ascend", "descend"} {
				alloc := alloc
				units = append(units, unit{
					name: fmt.Sprintf("defaults-n%d-%s-%d_%d", cf.n, alloc, d.mn, d.mx),
					opts: rigOpts{alloc: alloc, defMin: d.mn, defMax: d.mx},
					body: func(r *rig) {
						for _, st := range vectors(cf.n, cf.alphabet) {
							r.setMetrics(cf.n, st, defaultNonNum)
							for _, cur := range subsets(cf.n) {
								for _, ex := range existingFor(cur) {
									for _, prio := range prioLists(cf.n) {
										for _, pr := range zeroPairs {
											for _, entry := range []string{"pin", "block"} {
												c := Case{N: cf.n, St: st, Cur: cur, Existing: ex, Prio: prio, Min: pr.mn, Max: pr.mx,
													DefMin: d.mn, DefMax: d.mx, Alloc: alloc, Entry: entry, Excluded: -1}
												o := r.evaluate("defaults/"+entry, c)
												maybeSample("defaults", 9001, r, c, o, defaultNonNum)
											}
										}
									}
								}
							}
						}
					},
				})
			}
		}
	}
	return units
}

// ---- requests that arrive with an allocation list already filled in ----------

// presetUnits: the "Cluster.Pin" RPC endpoint receives a whole pin object; the
// adder (and any RPC caller) fills in Allocations beforehand. The cluster then
// does not decide the placement, so only the last sentence of the property is
// judged: a pin stored with replication factor -1 has an empty list.
func presetUnits() []unit {
	s := R.Sec("preset-allocations")
	s.Bounds["what"] = "Cluster.Pin RPC with Allocations preset to every ordered subset (size 1..2) of 3 peers x requested factors (-1,-1),(0,0),(0,-1),(-1,0),(1,2),(0,2) x cluster defaults (-1,-1),(1,2) x existing pin none/everywhere/allocated; judged: factors -1 => stored and returned allocation list empty (positive factors: the caller decided, nothing to judge)"
	pairs := []pair{{-1, -1}, {0, 0}, {0, -1}, {-1, 0}, {1, 2}, {0, 2}}
	var units []unit
	for _, d := range []pair{{-1, -1}, {1, 2}} {
		d := d
		units = append(units, unit{
			name: fmt.Sprintf("preset-%d_%d", d.mn, d.mx),
			opts: rigOpts{alloc: "ascend", defMin: d.mn, defMax: d.mx},
			body: func(r *rig) {
				n := 3
				st := []int{stV2, stV10, stV30}
				r.setMetrics(n, st, defaultNonNum)
				for _, cur := range subsets(n) {
					for _, ex := range existingFor(cur) {
						for _, prio := range prioLists(n) {
							if len(prio) == 0 {
								continue
							}
							for _, pr := range pairs {
								c := Case{N: n, St: st, Cur: cur, Existing: ex, Prio: prio, Min: pr.mn, Max: pr.mx,
									DefMin: d.mn, DefMax: d.mx, Alloc: "ascend", Entry: "rpcpin-preset", Excluded: -1}
								o := r.evaluate("preset-allocations", c)
								maybeSample("preset-allocations", 101, r, c, o, defaultNonNum)
							}
						}
					}
				}
			},
		})
	}
	return units
}

// ---- only the LATEST metric of a peer counts --------------------------------

func historyUnits() []unit {
	n := 2
	if ev.Thorough() {
		n = 3
	}
	s := R.Sec("latest-metric")
	s.Bounds["peers"] = fmt.Sprintf("1..%d, full alphabet", n)
	s.Bounds["what"] = "every metric is preceded by an older one of the opposite health (healthy best-ranked metric before expired/invalid/non-numeric ones; invalid, expired or non-numeric one before valid ones); the oracle looks at the latest metric only"
	return variantUnits("latest-metric", "history", n, rigOpts{history: true}, []string{defaultNonNum})
}

// ---- non-numeric value variants ---------------------------------------------

// values that are not numbers under any reading (values such as "-1", "1.5",
// "1e3" or "0x10" are deliberately left out: whether they count as numeric is
// not settled by the property text)
var nonNumVariants = []string{"", "n/a", "12abc", "--", "1 2", "free: 10"}

func nonNumUnits() []unit {
	s := R.Sec("non-numeric-values")
	s.Bounds["values"] = nonNumVariants
	maxN := 2
	if ev.Thorough() {
		maxN = 3
	}
	s.Bounds["peers"] = fmt.Sprintf("1..%d, alphabet %s, vectors with at least one non-numeric peer", maxN, alphMin)
	var units []unit
	for n := 1; n <= maxN; n++ {
		n := n
		for _, alloc := range []string{"ascend", "descend"} {
			alloc := alloc
			units = append(units, unit{
				name: fmt.Sprintf("nonnum-n%d-%s", n, alloc),
				opts: rigOpts{alloc: alloc, defMin: -1, defMax: -1},
				body: func(r *rig) {
					for _, nn := range nonNumVariants {
						for _, st := range vectors(n, minAlphabet) {
							hasNN := false
							for _, x := range st {
								hasNN = hasNN || x == stNonNum
							}
							if !hasNN {
								continue
							}
							r.setMetrics(n, st, nn)
							innerPinBlock(r, "non-numeric-values", fmt.Sprintf("nonnum=%q", nn), n, st, nn, positivePairs, 997)
						}
					}
				},
			})
		}
	}
	return units
}

// ---- "expired" realised by a TTL already in the past at insertion -----------

func ttlPastUnits() []unit {
	n := 2
	if ev.Thorough() {
		n = 3
	}
	s := R.Sec("ttl-in-the-past")
	s.Bounds["peers"] = fmt.Sprintf("1..%d, full alphabet", n)
	s.Bounds["what"] = "expired metrics are logged with an expiry instant already in the past (no clock advance)"
	return variantUnits("ttl-in-the-past", "ttlpast", n, rigOpts{ttlPast: true}, []string{defaultNonNum})
}

// ---- a metric that runs out between the monitor's answer and its use --------

func expireDuringUnits() []unit {
	n := 2
	if ev.Thorough() {
		n = 3
	}
	s := R.Sec("expires-during-allocation")
	s.Bounds["peers"] = fmt.Sprintf("1..%d, full alphabet", n)
	s.Bounds["what"] = "the monitor answers 2s (fake clock) after compiling its list; an 'expired' metric is logged with 1s to live right before every case, so it passes the monitor's check and has run out when the allocator ranks the candidates. Cases in which such a peer is a current holder are left out: whether a holder whose metric runs out during the call is 'still healthy' depends on the instant one looks, and the text does not say"
	return variantUnits("expires-during-allocation", "expire-during", n, rigOpts{expireDuring: true}, []string{defaultNonNum})
}

func variantUnits(sec, variant string, maxN int, base rigOpts, nns []string) []unit {
	var units []unit
	for n := 1; n <= maxN; n++ {
		n := n
		for _, alloc := range []string{"ascend", "descend"} {
			o := base
			o.alloc, o.defMin, o.defMax = alloc, -1, -1
			units = append(units, unit{
				name: fmt.Sprintf("%s-n%d-%s", variant, n, alloc),
				opts: o,
				body: func(r *rig) {
					for _, st := range vectors(n, fullAlphabet) {
						for _, nn := range nns {
							r.setMetrics(n, st, nn)
							innerPinBlock(r, sec, variant, n, st, nn, append(append([]pair{}, validPairs...), pair{2, 1}), 2003)
						}
					}
				},
			})
		}
	}
	return units
}

// innerPinBlock runs every (cur, existing, prio, pair, entry) for one
// installed metric vector.
func innerPinBlock(r *rig, sec, variant string, n int, st []int, nn string, pairs []pair, k int) {
	for _, cur := range subsets(n) {
		for _, ex := range existingFor(cur) {
			for _, prio := range prioLists(n) {
				for _, pr := range pairs {
					for _, entry := range []string{"pin", "block"} {
						c := Case{N: n, St: st, Cur: cur, Existing: ex, Prio: prio, Min: pr.mn, Max: pr.mx,
							DefMin: r.defMin, DefMax: r.defMax, Alloc: r.alloc, Entry: entry, Excluded: -1, Variant: variant}
						o := r.evaluate(sec, c)
						if k > 0 {
							maybeSample(sec, k, r, c, o, nn)
						}
					}
				}
			}
		}
	}
}

// ---- second configuration: the real pubsubmon.Monitor ------------------------

func realMonUnits() []unit {
	maxN := 2
	if ev.Thorough() {
		maxN = 3
	}
	s := R.Sec("real-pubsubmon")
	s.Bounds["peers"] = fmt.Sprintf("1..%d, full alphabet; one fresh peer (real pubsubmon.Monitor over a gossipsub instance on the mocknet host, peerset filter on) per metric vector, metrics injected with Monitor.LogMetric", maxN)
	s.Bounds["factors"] = "valid pairs and (2,1)"
	var units []unit
	for n := 1; n <= maxN; n++ {
		n := n
		for _, alloc := range []string{"ascend", "descend"} {
			for vi, st := range vectors(n, fullAlphabet) {
				st := st
				units = append(units, unit{
					name: fmt.Sprintf("realmon-n%d-%s-%d", n, alloc, vi),
					opts: rigOpts{alloc: alloc, defMin: -1, defMax: -1, realMon: true},
					body: func(r *rig) {
						r.installMetrics(n, st, defaultNonNum)
						innerPinBlock(r, "real-pubsubmon", "realmon", n, st, defaultNonNum, append(append([]pair{}, validPairs...), pair{2, 1}), 0)
					},
				})
			}
		}
	}
	return units
}

// ---- independence of cases run on a shared peer ------------------------------

func independence(t *testing.T) {
	sampMu.Lock()
	ss := append([]sampled{}, samples...)
	sampMu.Unlock()
	independenceSection()
	var units []unit
	for i, s := range ss {
		s := s
		units = append(units, unit{
			name: fmt.Sprintf("indep-%d", i),
			opts: s.opts,
			body: func(r *rig) {
				if r.dry || skipCase(r.opts, s.c) {
					return
				}
				r.setMetrics(s.c.N, s.c.St, s.nn)
				if r.opts.expireDuring {
					r.refreshExpiring(s.c.N)
				}
				o := r.run(s.c)
				r.report("independence", s.c, o)
				// (cases on which the oracle already fires are reported as
				// violations; comparing them would only add noise)
				if len(judge(s.c, s.o)) == 0 && len(judge(s.c, o)) == 0 && !sameObs(s.c, s.o, o) {
					R.Broken("case gives different observations on a shared peer and on a fresh peer: %s: shared %s fresh %s", s.c, ev.JSON(s.o), ev.JSON(o))
				}
			},
		})
	}
	runUnits(t, units)
}

func independenceSection() {
	sec := R.Sec("independence")
	sec.Bounds["what"] = "a fixed every-k-th sample of the cases of the other sections (except real-pubsubmon, where every metric vector already has its own peer) is re-run, each on a fresh peer in a fresh bubble, and must show the same observation (same verdict, same list sizes; identical lists when the property leaves no freedom); a difference is reported as a broken check"
}

// ---- the adder commits what BlockAllocate decided ----------------------------

// adderUnits: an add asks Cluster.BlockAllocate where the content goes, sends
// every block there and finally pins with that decision preset. When some
// destinations cannot take a block (here: every peer but the one under test is
// unreachable) the committed list is still the decision: no peer twice, none
// replaced. The peer under test sits at every position of the decision.
func adderUnits() []unit {
	s := R.Sec("adder-commits-the-decision")
	s.Bounds["what"] = "real adder (single DAG service, one small file) on the real peer: 3 peers with metric values in every order x factors (2,2),(3,3) x both allocators; BlockPut reaches the peer under test only; judged: the stored allocation list equals Cluster.BlockAllocate's answer (as a set, no duplicates)"
	perms := [][]int{{stV2, stV10, stV30}, {stV2, stV30, stV10}, {stV10, stV2, stV30}, {stV10, stV30, stV2}, {stV30, stV2, stV10}, {stV30, stV10, stV2}}
	var units []unit
	for _, alloc := range []string{"ascend", "descend"} {
		alloc := alloc
		units = append(units, unit{
			name: "adder-" + alloc,
			opts: rigOpts{alloc: alloc, defMin: -1, defMax: -1},
			body: func(r *rig) {
				for _, st := range perms {
					r.setMetrics(3, st, defaultNonNum)
					for _, pr := range []pair{{2, 2}, {3, 3}} {
						r.runAdderCase(st, pr)
					}
				}
			},
		})
	}
	return units
}
