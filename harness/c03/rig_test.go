package c03

import (
	"context"
	"fmt"
	cid "github.com/ipfs/go-cid"
	files "github.com/ipfs/go-ipfs-files"
	"github.com/ipfs/ipfs-cluster/adder"
	"github.com/ipfs/ipfs-cluster/adder/single"
	"sort"
	"sync"
	"testing"
	"testing/synctest"
	"time"

	ipfscluster "github.com/ipfs/ipfs-cluster"
	"github.com/ipfs/ipfs-cluster/allocator/ascendalloc"
	"github.com/ipfs/ipfs-cluster/allocator/descendalloc"
	"github.com/ipfs/ipfs-cluster/api"
	"github.com/ipfs/ipfs-cluster/monitor/pubsubmon"
	"github.com/ipfs/ipfs-cluster/state"

	host "github.com/libp2p/go-libp2p-core/host"
	peer "github.com/libp2p/go-libp2p-core/peer"
	rpc "github.com/libp2p/go-libp2p-gorpc"
	pubsub "github.com/libp2p/go-libp2p-pubsub"

	"verif/harness/lib/clus"
)

const (
	maxPeers   = 5
	metricName = "freespace" // = c.informers[0].Name()
	expiryTTL  = 10 * time.Second
	validTTL   = 1000 * time.Hour
)

var theCid = clus.Cid("c03")

// rig is one real Cluster peer plus handles on the seams.
type rig struct {
	t        *testing.T
	ctx      context.Context
	p        *clus.Peer
	h        host.Host
	mon      *clus.Mon          // nil when the real pubsubmon is used
	rmon     *pubsubmon.Monitor // real monitor (second configuration)
	shared   *clus.Shared
	cons     *clus.MemConsensus
	pids     []peer.ID
	idx      map[peer.ID]int
	alloc    string
	defMin   int
	defMax   int
	curSt    []int // metric vector currently installed
	ttlPast  bool  // realise "expired" with a TTL already in the past at insertion
	history  bool  // precede every metric by an older one of the opposite health
	opts     rigOpts
	buf      []evalRec
	nSeen    int
	curNN    string
	sampled  map[string]bool
	dry      bool // count only (unit weights)
	nDry     int
	nSet     int
	psCancel context.CancelFunc
}

type rigOpts struct {
	alloc          string
	defMin, defMax int
	realMon        bool
	ttlPast        bool
	history        bool
	// expireDuring: the monitor answers 2s late and an "expired" metric is
	// one that is still good when the monitor compiles its answer and has
	// run out when the allocator ranks the candidates (TTL 1s, logged right
	// before every case)
	expireDuring bool
}

// deadInf is an informer whose own metric is never usable (the real monitor
// refuses to publish invalid metrics), so that with the real monitor, too, the
// harness alone decides which "freespace" metrics exist.
type deadInf struct{}

func (deadInf) SetClient(*rpc.Client)          {}
func (deadInf) Shutdown(context.Context) error { return nil }
func (deadInf) Name() string                   { return metricName }
func (deadInf) GetMetric(context.Context) *api.Metric {
	m := &api.Metric{Name: metricName, Value: "0", Valid: false}
	m.SetTTL(validTTL)
	return m
}

// newRig builds the peer. Must be called inside a bubble.
func newRig(t *testing.T, o rigOpts) *rig {
	ctx := context.Background()
	_, hosts := clus.NewMocknet(ctx, 0, 1)
	r := &rig{t: t, ctx: ctx, h: hosts[0], alloc: o.alloc, defMin: o.defMin, defMax: o.defMax, idx: map[peer.ID]int{}, ttlPast: o.ttlPast, history: o.history, opts: o}
	for i := 0; i < maxPeers; i++ {
		r.pids = append(r.pids, clus.PID(i))
		r.idx[clus.PID(i)] = i
	}
	r.shared = clus.NewShared(r.pids)
	r.cons = clus.NewMemConsensus(r.pids[0], r.shared)
	r.cons.NoTrack = true // allocation is decided before the tracker is involved
	parts := &clus.PeerParts{
		Host:      r.h,
		Shared:    r.shared,
		Consensus: r.cons,
		// the peer's own informer metric is pushed once at start and then
		// never again within the run (TTL/2 re-push period = 500h), so the
		// harness fully controls the "freespace" metrics of every peer
		Informers: []ipfscluster.Informer{&clus.Inf{MetricName: metricName, TTL: validTTL}},
		Cfg: func(c *ipfscluster.Config) {
			c.ReplicationFactorMin = o.defMin
			c.ReplicationFactorMax = o.defMax
			c.StateSyncInterval = 100000 * time.Hour
			c.PinRecoverInterval = 100000 * time.Hour
			c.DisableRepinning = false // the exclusion list only exists on re-pinning paths
		},
	}
	if o.alloc == "ascend" {
		parts.Allocator = ascendalloc.NewAllocator()
	} else {
		parts.Allocator = descendalloc.NewAllocator()
	}
	if o.realMon {
		pctx, pcancel := context.WithCancel(ctx)
		r.psCancel = pcancel
		ps, err := pubsub.NewGossipSub(pctx, r.h)
		if err != nil {
			t.Fatal(err)
		}
		mc := &pubsubmon.Config{}
		mc.Default()
		rm, err := pubsubmon.New(ctx, mc, ps, func(ctx context.Context) ([]peer.ID, error) { return r.cons.Peers(ctx) })
		if err != nil {
			t.Fatal(err)
		}
		r.rmon = rm
		parts.Monitor = rm
		parts.Informers = []ipfscluster.Informer{deadInf{}}
	} else {
		r.mon = clus.NewMon()
		if o.expireDuring {
			r.mon.LatestDelay = 2 * time.Second
		}
		parts.Monitor = r.mon
	}
	p, err := clus.NewPeer(ctx, parts)
	if err != nil {
		t.Fatal(err)
	}
	r.p = p
	<-p.C.Ready()
	synctest.Wait()
	if got := p.Cfg.ReplicationFactorMin; got != o.defMin {
		t.Fatalf("default factors not applied: %d", got)
	}
	return r
}

func (r *rig) stop() {
	r.flush()
	r.p.Stop()
	if r.psCancel != nil {
		r.psCancel()
		time.Sleep(2 * time.Second) // fake clock: lets pubsub's sleeping goroutines see the cancellation
	}
	r.h.Close()
	synctest.Wait()
}

// every metric the harness itself handed to the monitor
var harnessMetrics sync.Map // *api.Metric -> true

func (r *rig) logMetric(m *api.Metric) {
	harnessMetrics.Store(m, true)
	if r.mon != nil {
		r.mon.LogMetric(r.ctx, m)
	} else {
		r.rmon.LogMetric(r.ctx, m)
	}
}

// skipCase: cases a section deliberately leaves out (see expireDuringUnits).
func skipCase(o rigOpts, c Case) bool {
	if o.expireDuring {
		for _, p := range c.Cur {
			if c.St[p] == stExpired {
				return true
			}
		}
	}
	return false
}

// refreshExpiring logs, for every peer whose state is "expired", a metric that
// is good now and for one more second: it passes the (slow) monitor's check
// and has expired when its answer arrives.
func (r *rig) refreshExpiring(n int) {
	for i := 0; i < n && i < len(r.curSt); i++ {
		if r.curSt[i] == stExpired {
			r.logMetric(r.mkMetric(i, r.bait(), true, time.Second))
		}
	}
}

// attractive value for metrics that must NOT be used: the best rank
func (r *rig) bait() string {
	if r.alloc == "ascend" {
		return "1"
	}
	return "99"
}

func (r *rig) mkMetric(i int, value string, valid bool, ttl time.Duration) *api.Metric {
	m := &api.Metric{Name: metricName, Peer: r.pids[i], Value: value, Valid: valid}
	m.SetTTL(ttl)
	return m
}

// setMetrics installs the metric vector st for peers 0..n-1 (and no metric for
// the others). "expired" is realised by logging a metric with a 10s TTL and
// then advancing the fake clock by 11s (or, when ttlPast, by a TTL already in
// the past at insertion). nonnum is the non-numeric value to use.
func (r *rig) setMetrics(n int, st []int, nonnum string) {
	if r.dry {
		r.nSet++
		return
	}
	if r.mon == nil {
		r.t.Fatal("setMetrics needs the injectable monitor (the real monitor cannot forget metrics)")
	}
	for i := 0; i < maxPeers; i++ {
		r.mon.Store.RemovePeerMetrics(r.pids[i], metricName)
	}
	r.installMetrics(n, st, nonnum)
}

func (r *rig) installMetrics(n int, st []int, nonnum string) {
	if r.dry {
		r.nSet++
		return
	}
	anyExp := false
	injected := map[int]*api.Metric{}
	if r.history {
		// an older metric of the opposite health: only the LATEST one counts
		for i := 0; i < n; i++ {
			switch st[i] {
			case stAbsent:
			case stExpired, stInvalid, stNonNum:
				r.logMetric(r.mkMetric(i, r.bait(), true, validTTL))
			case stV2:
				r.logMetric(r.mkMetric(i, r.bait(), false, validTTL))
			case stV10:
				r.logMetric(r.mkMetric(i, r.bait(), true, -time.Second))
			case stV30:
				r.logMetric(r.mkMetric(i, nonnum, true, validTTL))
			}
		}
	}
	for i := 0; i < n; i++ {
		var m *api.Metric
		switch st[i] {
		case stAbsent:
			continue
		case stExpired:
			if r.opts.expireDuring {
				continue // logged by refreshExpiring right before every case
			}
			if r.ttlPast {
				m = r.mkMetric(i, r.bait(), true, -time.Second)
			} else {
				m = r.mkMetric(i, r.bait(), true, expiryTTL)
				anyExp = true
			}
		case stInvalid:
			m = r.mkMetric(i, r.bait(), false, validTTL)
		case stNonNum:
			m = r.mkMetric(i, nonnum, true, validTTL)
		default:
			v, _ := numericValue(st[i])
			m = r.mkMetric(i, fmt.Sprint(v), true, validTTL)
		}
		injected[i] = m
		r.logMetric(m)
	}
	if anyExp {
		time.Sleep(expiryTTL + time.Second) // fake clock
		synctest.Wait()
	}
	// harness sanity: nobody but the harness wrote "freespace" metrics
	if r.mon != nil {
		for i := 0; i < maxPeers; i++ {
			got := r.mon.Store.PeerLatest(metricName, r.pids[i])
			if _, ours := harnessMetrics.Load(got); got != injected[i] && got != nil && !ours {
				// somebody else wrote the metric: the harness lost control.
				// (a store that did not keep the injected metric as the
				// latest one is the code's problem, judged by the oracle)
				r.t.Fatalf("harness: metric of peer %d is not the injected one (%v vs %v)", i, got, injected[i])
			}
		}
	}
	r.curSt = append([]int{}, st...)
	r.curNN = nonnum
}

func (r *rig) peers(l []int) []peer.ID {
	out := make([]peer.ID, len(l))
	for i, x := range l {
		out[i] = r.pids[x]
	}
	return out
}

func (r *rig) indices(l []peer.ID) []int {
	out := make([]int, len(l))
	for i, x := range l {
		if j, ok := r.idx[x]; ok {
			out[i] = j
		} else {
			out[i] = -1
		}
	}
	return out
}

// existingPin builds the pre-existing pinset entry of a case (nil: none).
func (r *rig) existingPin(c Case) *api.Pin {
	switch c.Existing {
	case "none":
		return nil
	case "everywhere":
		return api.PinWithOpts(theCid, api.PinOptions{Name: "old", ReplicationFactorMin: -1, ReplicationFactorMax: -1})
	}
	var opts api.PinOptions
	if c.Entry == "raise-min" {
		// the stored pin differs from the request in nothing but a lower
		// minimum: the request is not "the same options again"
		mn, mx := c.eff()
		opts = api.PinOptions{Name: "same", ReplicationFactorMin: mn - 1, ReplicationFactorMax: mx, UserAllocations: r.peers(c.Prio)}
	} else if c.Entry == "shortcut" || c.Entry == "remove" || c.Entry == "alert" {
		// the stored pin carries exactly the options under test
		mn, mx := c.eff()
		// (user allocations are not persisted by the pinset: api.Pin.ProtoMarshal drops them)
		opts = api.PinOptions{Name: "same", ReplicationFactorMin: mn, ReplicationFactorMax: mx, UserAllocations: r.peers(c.Prio)}
	} else {
		// a consistent earlier pin: factors equal to its number of holders
		opts = api.PinOptions{Name: "old", ReplicationFactorMin: len(c.Cur), ReplicationFactorMax: len(c.Cur)}
	}
	p := api.PinWithOpts(theCid, opts)
	p.Allocations = r.peers(c.Cur)
	return p
}

func samePin(a, b *api.Pin) bool {
	if a == nil || b == nil {
		return a == b
	}
	if a.Name != b.Name || a.ReplicationFactorMin != b.ReplicationFactorMin || a.ReplicationFactorMax != b.ReplicationFactorMax {
		return false
	}
	if len(a.Allocations) != len(b.Allocations) {
		return false
	}
	for i := range a.Allocations {
		if a.Allocations[i] != b.Allocations[i] {
			return false
		}
	}
	return true
}

func (r *rig) stored() *api.Pin {
	p, err := r.shared.State.Get(r.ctx, theCid)
	if err == state.ErrNotFound {
		return nil
	}
	if err != nil {
		r.t.Fatal(err)
	}
	return p
}

func recovered(f func()) (pan string) {
	defer func() {
		if x := recover(); x != nil {
			pan = fmt.Sprint(x)
		}
	}()
	f()
	return ""
}

// run executes one case on the rig (metrics must already be installed).
func (r *rig) run(c Case) Obs {
	// reset the pinset and the recording
	if err := r.shared.State.Rm(r.ctx, theCid); err != nil {
		r.t.Fatal(err)
	}
	pre := r.existingPin(c)
	if pre != nil {
		if err := r.shared.State.Add(r.ctx, pre); err != nil {
			r.t.Fatal(err)
		}
	}
	r.shared.Reset()
	var o Obs
	switch c.Entry {
	case "pin", "shortcut", "raise-min", "pin-read-fault":
		if c.Entry == "pin-read-fault" {
			// the read of the existing entry fails (once) with an error that
			// is not "not found"
			r.shared.Store.FailGets(1)
			defer r.shared.Store.FailGets(0)
		}
		opts := api.PinOptions{Name: "new", ReplicationFactorMin: c.Min, ReplicationFactorMax: c.Max, UserAllocations: r.peers(c.Prio)}
		if c.Entry == "shortcut" || c.Entry == "raise-min" {
			opts.Name = "same"
		}
		var res *api.Pin
		var err error
		o.Panic = recovered(func() { res, err = r.p.C.Pin(r.ctx, theCid, opts) })
		if err != nil {
			o.Failed, o.Err = true, err.Error()
		} else if res != nil {
			o.HasRet, o.Returned = true, r.indices(res.Allocations)
		}
	case "block":
		in := api.PinWithOpts(theCid, api.PinOptions{Name: "new", ReplicationFactorMin: c.Min, ReplicationFactorMax: c.Max, UserAllocations: r.peers(c.Prio)})
		var out []peer.ID
		var err error
		o.Panic = recovered(func() {
			err = r.p.API.Client.CallContext(r.ctx, "", "Cluster", "BlockAllocate", in, &out)
		})
		if err != nil {
			o.Failed, o.Err = true, err.Error()
		} else {
			o.HasRet, o.Returned = true, r.indices(out)
		}
	case "rpcpin-preset":
		// what adder.Pin sends: the pin object with its allocations filled in
		in := api.PinWithOpts(theCid, api.PinOptions{Name: "new", ReplicationFactorMin: c.Min, ReplicationFactorMax: c.Max})
		in.Allocations = r.peers(c.Prio)
		var out api.Pin
		var err error
		o.Panic = recovered(func() {
			err = r.p.API.Client.CallContext(r.ctx, "", "Cluster", "Pin", in, &out)
		})
		if err != nil {
			o.Failed, o.Err = true, err.Error()
		} else {
			o.HasRet, o.Returned = true, r.indices(out.Allocations)
		}
	case "allocate":
		// the allocation function itself, with every input free: also an
		// excluded peer that is not a current holder (no public path builds
		// such a call today; the function is where the property's
		// "exclusion lists" live)
		mn, mx := c.eff()
		var excl []peer.ID
		if c.Excluded >= 0 {
			excl = []peer.ID{r.pids[c.Excluded]}
		}
		var out []peer.ID
		var err error
		o.Panic = recovered(func() { out, err = r.p.C.VerifAllocate(r.ctx, theCid, pre, mn, mx, excl, r.peers(c.Prio)) })
		if err != nil {
			o.Failed, o.Err = true, err.Error()
		} else {
			o.HasRet, o.Returned = true, r.indices(out)
		}
	case "remove":
		var err error
		o.Panic = recovered(func() { err = r.p.C.PeerRemove(r.ctx, r.pids[c.Excluded]) })
		if err != nil {
			r.t.Fatalf("PeerRemove: %v", err)
		}
		synctest.Wait()
		r.shared.PeerSet = append([]peer.ID{}, r.pids...) // restore membership
	case "alert":
		self := r.pids[0]
		r.cons.Trusted = func(p peer.ID) bool { return p == self } // this peer is the closest one
		m := api.Metric{Name: "ping", Peer: r.pids[c.Excluded], Valid: true}
		m.SetTTL(-time.Second)
		select {
		case r.mon.AlertCh <- &api.Alert{Metric: m, TriggeredAt: time.Now()}:
		default:
			r.t.Fatal("harness: alert channel full (alert handler gone?)")
		}
		synctest.Wait()
		r.cons.Trusted = nil
	default:
		r.t.Fatalf("unknown entry %q", c.Entry)
	}
	for _, lc := range r.shared.Calls() {
		if lc.Op == "pin" {
			o.Logged++
		} else {
			o.Unpins++
		}
	}
	post := r.stored()
	if post != nil {
		o.HasStore, o.Stored = true, r.indices(post.Allocations)
	}
	o.Changed = !samePin(pre, post)
	if c.Entry == "remove" || c.Entry == "alert" {
		// the decision is only visible through the consensus log
		o.Failed = o.Logged == 0
		if o.Failed {
			o.Err = "no LogPin reached consensus"
		}
	}
	return o
}

// runAdderCase adds one small file through the real adder and compares the
// committed allocations with BlockAllocate's decision.
func (r *rig) runAdderCase(st []int, pr pair) {
	if r.dry {
		r.nDry++
		return
	}
	if err := r.shared.State.Rm(r.ctx, theCid); err != nil {
		r.t.Fatal(err)
	}
	r.shared.Reset()
	opts := api.PinOptions{Name: "added", ReplicationFactorMin: pr.mn, ReplicationFactorMax: pr.mx}
	var decision []peer.ID
	probe := api.PinWithOpts(theCid, opts)
	if err := r.p.API.Client.CallContext(r.ctx, "", "Cluster", "BlockAllocate", probe, &decision); err != nil {
		R.Broken("adder section: BlockAllocate failed for st=%v rf=%d/%d: %v", st, pr.mn, pr.mx, err)
		return
	}
	params := api.DefaultAddParams()
	params.PinOptions = opts
	dgs := single.New(r.p.API.Client, params.PinOptions, false)
	a := adder.New(dgs, params, nil)
	data := []byte(fmt.Sprintf("c03 adder case %v %d/%d", st, pr.mn, pr.mx))
	dir := files.NewSliceDirectory([]files.DirEntry{files.FileEntry("f", files.NewBytesFile(data))})
	var root cid.Cid
	var err error
	pan := recovered(func() { root, err = a.FromFiles(r.ctx, dir) })
	sig := fmt.Sprintf("adder|%s|rf%d,%d|self-at-%d", r.alloc, pr.mn, pr.mx, indexOf(decision, r.pids[0]))
	outcome := "committed-the-decision"
	key := ""
	detail := map[string]interface{}{"metric_state": st, "factors": fmt.Sprintf("%d/%d", pr.mn, pr.mx), "allocator": r.alloc, "block_allocate_answer": r.indices(decision)}
	switch {
	case pan != "":
		outcome, key = "panic", "C03|add|"+r.alloc+"|panic"
		detail["panic"] = pan
	case err != nil:
		outcome = "add-failed" // a legal outcome when blocks cannot be delivered
		detail["error"] = err.Error()
	default:
		st2, gerr := r.shared.State.Get(r.ctx, root)
		if gerr != nil {
			outcome, key = "not-stored", "C03|add|"+r.alloc+"|succeeded-but-not-stored"
			break
		}
		got := r.indices(st2.Allocations)
		detail["stored_allocations"] = got
		seen := map[int]bool{}
		dup := false
		for _, g := range got {
			if seen[g] {
				dup = true
			}
			seen[g] = true
		}
		want := map[int]bool{}
		for _, d := range r.indices(decision) {
			want[d] = true
		}
		same := len(seen) == len(want)
		for g := range seen {
			if !want[g] {
				same = false
			}
		}
		switch {
		case dup:
			outcome, key = "duplicate", "C03|add|"+r.alloc+"|duplicate-peer@stored"
		case !same:
			outcome, key = "differs", "C03|add|"+r.alloc+"|stored-allocations-differ-from-the-decision"
		}
	}
	flushMu.Lock()
	usedSecs["adder-commits-the-decision"] = true
	flushMu.Unlock()
	R.Eval(R.Sec("adder-commits-the-decision"), sig+"|"+outcome, true)
	R.Outcome(R.Sec("adder-commits-the-decision"), outcome)
	if key != "" {
		R.Violation(key, detail)
	}
}

func indexOf(l []peer.ID, p peer.ID) int {
	for i, x := range l {
		if x == p {
			return i
		}
	}
	return -1
}

// evaluate runs, judges and reports one case; returns the observation.
func (r *rig) evaluate(sec string, c Case) Obs {
	if skipCase(r.opts, c) {
		return Obs{}
	}
	if r.dry {
		r.nDry++
		return Obs{}
	}
	c.NonNum = r.curNN
	if r.opts.expireDuring {
		r.refreshExpiring(c.N)
	}
	o := r.run(c)
	r.report(sec, c, o)
	return o
}

// evaluation records are buffered per goroutine-local batch and flushed under
// one lock, so that parallel units do not contend on the Run's mutex.
type evalRec struct {
	sec, sig, outc, outc2 string
	nt                    bool
}

var (
	flushMu sync.Mutex
)

func flushRecs(recs []evalRec) {
	for _, e := range recs {
		usedSecs[e.sec] = true
		s := R.Sec(e.sec)
		R.Eval(s, e.sig, e.nt)
		R.Outcome(s, e.outc)
		if e.outc2 != "" {
			R.Outcome(s, e.outc2)
		}
	}
}

func (r *rig) record(e evalRec) {
	r.buf = append(r.buf, e)
	if len(r.buf) >= 8192 {
		r.flush()
	}
}

func (r *rig) flush() {
	flushMu.Lock()
	flushRecs(r.buf)
	flushMu.Unlock()
	r.buf = r.buf[:0]
}

func (r *rig) report(sec string, c Case, o Obs) {
	sig, nt := class(c, o)
	outc := "ok"
	if o.Failed {
		outc = "fail"
	}
	mn, mx := c.eff()
	switch {
	case mn > 0 && mx > 0 && mn <= mx:
		outc = "positive:" + outc
	case mn == -1 && mx == -1:
		outc = "everywhere:" + outc
	default:
		outc = fmt.Sprintf("invalid(%d,%d):%s", mn, mx, outc)
	}
	rec := evalRec{sec: sec, sig: sig, outc: outc, nt: nt}
	if nt && c.N >= 2 && len(c.Cur) > 0 {
		tag := sec + ":" + outc
		if !r.sampled[tag] && (o.Failed || len(o.Returned) > len(c.Cur) || len(o.Stored) > len(c.Cur)) {
			if r.sampled == nil {
				r.sampled = map[string]bool{}
			}
			r.sampled[tag] = true
			R.SampleTagged(tag, 1, map[string]interface{}{"case": c.String(), "observed": o})
		}
	}
	for _, v := range judge(c, o) {
		key := fmt.Sprintf("C03|%s|%s|%s", c.Entry, c.Alloc, v.clause)
		R.Violation(key, map[string]interface{}{"case": c, "case_text": c.String(), "observed": o, "why": v.msg,
			"replay": "/verif/vcheck C03 quick --replay <this file>",
			"legend": "metric_state codes: 0 absent,1 expired,2 invalid,3 nonnum,4 v2,5 v10,6 v30; peers are indices, 0 = the peer under test"})
	}
	if c.Entry == "shortcut" && !o.Failed {
		f := c.facts()
		nh := 0
		for _, p := range o.Stored {
			if p >= 0 && f.H[p] {
				nh++
			}
		}
		st := append([]int{}, o.Stored...)
		sort.Ints(st)
		kept := fmt.Sprint(st) == fmt.Sprint(c.Cur)
		switch {
		case !kept:
			rec.outc2 = "shortcut:allocations-changed"
		case nh < mn:
			rec.outc2 = "shortcut:kept-with-fewer-than-min-healthy"
		default:
			rec.outc2 = "shortcut:kept"
		}
	}
	r.record(rec)
}

// tieFree says whether the property determines the result uniquely enough to
// compare two executions list-for-list (no ties, nothing to drop).
func tieFree(c Case) bool {
	f := c.facts()
	_, mx := c.eff()
	if len(f.curH) > mx {
		return false
	}
	seen := map[uint64]bool{}
	for p := range f.A {
		v, _ := numericValue(c.St[p])
		if seen[v] {
			return false
		}
		seen[v] = true
	}
	return true
}

func sameObs(c Case, a, b Obs) bool {
	if a.Failed != b.Failed || a.Panic != b.Panic || a.Logged != b.Logged || a.HasStore != b.HasStore || a.Changed != b.Changed || len(a.Returned) != len(b.Returned) || len(a.Stored) != len(b.Stored) {
		return false
	}
	if tieFree(c) {
		x, y := append([]int{}, a.Returned...), append([]int{}, b.Returned...)
		sort.Ints(x)
		sort.Ints(y)
		if fmt.Sprint(x) != fmt.Sprint(y) {
			return false
		}
		x, y = append([]int{}, a.Stored...), append([]int{}, b.Stored...)
		sort.Ints(x)
		sort.Ints(y)
		if fmt.Sprint(x) != fmt.Sprint(y) {
			return false
		}
	}
	return true
}
