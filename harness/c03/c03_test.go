// Package c03 decides C03 (allocations honour the replication factors and use
// only healthy peers) by bounded-exhaustive enumeration of metric states x
// current allocations x priority lists x replication factors x allocators on
// one REAL ipfscluster.Cluster peer per bubble (fake clock), through the
// exported Cluster.Pin, the BlockAllocate RPC, Cluster.PeerRemove and the
// monitor-alert path. The oracle (oracle_test.go) is written from the
// property text only.
package c03

import (
	"encoding/json"
	"fmt"
	"os"
	"path/filepath"
	"runtime"
	"runtime/debug"
	"sort"
	"strings"
	"sync"
	"testing"
	"testing/synctest"
	"time"

	"verif/harness/lib/ev"
)

var R *ev.Run

func TestMain(m *testing.M) {
	debug.SetGCPercent(800) // allocation-heavy enumeration; verdicts do not depend on it
	R = ev.New("C03", "exploration")
	R.Rule("one evaluation = one call of Cluster.Pin / RPC Cluster.BlockAllocate / Cluster.PeerRemove / a ping alert on a real Cluster peer " +
		"with a fully specified input tuple (per-peer metric state, current allocation, priority list, min/max, cluster defaults, allocator), " +
		"judged by the property-text oracle on both the returned and the stored allocation list. Tuples are enumerated as full nested products within the stated bounds. " +
		"distinct_nontrivial counts distinct anonymised (input class, outcome class) signatures - multiset of metric states, sizes of current/healthy/priority sets, factors, entry point, ok/fail and healthy/total result sizes - " +
		"restricted to cases where the allocation logic really ran (valid positive factors, at least one healthy peer, not the same-options shortcut)")
	R.Assume("members agree on the pinset (one recording in-memory consensus); all peers of P are cluster members; the monitor is the injectable clus.Mon over the real metrics.Store (plus a smaller configuration with the real pubsubmon.Monitor)")
	R.Assume("metric values: numeric values 2,10,30 (ties when two peers share a state); one non-numeric value per section (variants in a separate section); unhealthy metrics carry the best-ranked value so that using them would be visible")
	R.Assume("the exclusion list is only reachable through re-pinning (PeerRemove / ping alert); it always holds exactly one peer, which is a current holder")
	R.Note("oracle_silent_on", []string{
		"which holders are dropped when more than max are healthy",
		"unhealthy (or excluded) current holders that stay listed or disappear",
		"how many peers between min and max are added, and the order of the list",
		"the position of priority peers within the stored list (which of them are taken when they do not all fit is judged: the strategy's ranking)",
		"ties between equal metric values",
		"BlockAllocate with factor -1 (returns the peers with a valid ping metric by design)",
		"factor pairs that are neither both positive nor (-1,-1): outcome recorded only",
		"re-pin with options identical to the stored pin (allocation skipped by design): only 'no duplicates / nothing unhealthy added / healthy holders kept / at most max healthy' are judged",
	})
	R.Note("observations", []string{
		"api.Pin.ProtoMarshal does not persist UserAllocations: re-pinning paths (PeerRemove, ping alert) have no priority list, and a re-pin with identical options plus a priority list is not recognised as identical",
		"the same-options shortcut accepts a pin whose stored holders are fewer than min healthy (outcome class shortcut:kept-with-fewer-than-min-healthy)",
	})
	ev.Main(m.Run, R)
}

// ---- work units: one bubble + one real peer each ---------------------------

type unit struct {
	name string
	opts rigOpts
	body func(r *rig)
}

func workers() int {
	w := 4
	if n := runtime.NumCPU() / 2; n < w {
		w = n
	}
	if w < 1 {
		w = 1
	}
	return w
}

// weight counts the evaluations of a unit by a dry run of its enumeration.
func (u unit) weight() int {
	r := &rig{dry: true, alloc: u.opts.alloc, defMin: u.opts.defMin, defMax: u.opts.defMax, opts: u.opts}
	u.body(r)
	return r.nDry + 10*r.nSet + 300
}

// assign distributes units over w groups (longest processing time first;
// deterministic, so parent and children compute the same assignment).
func assign(units []unit, w int) [][]unit {
	type wu struct {
		i, w int
	}
	ws := make([]wu, len(units))
	for i, u := range units {
		ws[i] = wu{i, u.weight()}
	}
	sort.SliceStable(ws, func(a, b int) bool { return ws[a].w > ws[b].w })
	groups := make([][]unit, w)
	load := make([]int, w)
	for _, x := range ws {
		k := 0
		for g := 1; g < w; g++ {
			if load[g] < load[k] {
				k = g
			}
		}
		groups[k] = append(groups[k], units[x.i])
		load[k] += x.w
	}
	return groups
}

// runUnits runs units one after the other, each in its own bubble on its own
// real peer.
func runUnits(t *testing.T, units []unit) {
	for _, u := range units {
		u := u
		ok := t.Run(u.name, func(t *testing.T) {
			synctest.Test(t, func(t *testing.T) {
				r := newRig(t, u.opts)
				// always shut the peer down, also when the body bails out
				// (t.Fatal) or panics: leftover goroutines would otherwise end
				// the bubble with synctest's own panic and hide the real cause
				defer r.stop()
				u.body(r)
			})
		})
		if !ok {
			R.Broken("unit %s failed", u.name)
		}
	}
}

// per-section counters travel from the children to the parent in side files
// (ev merges totals, violations and signatures, but not same-named sections).
type secCount struct {
	Evals    int64
	Outcomes map[string]int64
}

func sideFile(child string) string {
	d := os.Getenv("VERIF_SCRATCH")
	if d == "" {
		d = os.TempDir()
	}
	return filepath.Join(d, "c03-sections-"+child+".json")
}

func writeSide(child string) {
	out := map[string]secCount{}
	flushMu.Lock()
	var names []string
	for n := range usedSecs {
		names = append(names, n)
	}
	flushMu.Unlock()
	sort.Strings(names)
	for _, n := range names {
		s := R.Sec(n)
		out[n] = secCount{s.Evals, s.Outcomes}
	}
	b, _ := json.Marshal(out)
	if err := os.WriteFile(sideFile(child), b, 0o644); err != nil {
		R.Broken("cannot write side file: %v", err)
	}
}

func mergeSide(child string) {
	b, err := os.ReadFile(sideFile(child))
	os.Remove(sideFile(child))
	if err != nil {
		return // the child crashed or failed: ev reports that
	}
	var in map[string]secCount
	if json.Unmarshal(b, &in) != nil {
		R.Broken("bad side file of %s", child)
		return
	}
	for n, c := range in {
		s := R.Sec(n)
		s.Evals += c.Evals
		for k, v := range c.Outcomes {
			s.Outcomes[k] += v
		}
	}
}

var usedSecs = map[string]bool{} // guarded by flushMu

// ---- independence sample ---------------------------------------------------

type sampled struct {
	sec  string
	opts rigOpts
	c    Case
	o    Obs
	nn   string
}

var (
	sampMu  sync.Mutex
	samples []sampled
)

// maybeSample keeps every k-th case of a section for the independence re-run.
func maybeSample(sec string, k int, r *rig, c Case, o Obs, nonnum string) {
	if r.dry {
		return
	}
	r.nSeen++
	if r.nSeen%k != 0 {
		return
	}
	sampMu.Lock()
	samples = append(samples, sampled{sec, r.opts, c, o, nonnum})
	sampMu.Unlock()
}

func split(vs [][]int, parts int) [][][]int {
	if parts > len(vs) {
		parts = len(vs)
	}
	if parts < 1 {
		parts = 1
	}
	out := make([][][]int, parts)
	for i, v := range vs {
		out[i%parts] = append(out[i%parts], v)
	}
	return out
}

const defaultNonNum = "abc"

// existing-pin variants for a current allocation
func existingFor(cur []int) []string {
	if len(cur) == 0 {
		return []string{"none", "everywhere"}
	}
	return []string{"alloc"}
}

// ---- section: Pin and BlockAllocate, full product --------------------------

type mainBounds struct {
	n        int
	alphabet []int
	maxCur   int
	shards   int
	sampleK  int
	pairs    []pair // nil: all valid and invalid pairs
}

func mainUnits(sec string, b mainBounds, entries []string) []unit {
	var units []unit
	pairs := append(append([]pair{}, validPairs...), invalidPairs...)
	if b.pairs != nil {
		pairs = b.pairs
	}
	for _, alloc := range []string{"ascend", "descend"} {
		for si, shard := range split(vectors(b.n, b.alphabet), b.shards) {
			shard := shard
			alloc := alloc
			units = append(units, unit{
				name: fmt.Sprintf("%s-n%d-%s-%d", sec, b.n, alloc, si),
				opts: rigOpts{alloc: alloc, defMin: -1, defMax: -1},
				body: func(r *rig) {
					for _, st := range shard {
						r.setMetrics(b.n, st, defaultNonNum)
						for _, cur := range subsets(b.n) {
							if len(cur) > b.maxCur {
								continue
							}
							for _, ex := range existingFor(cur) {
								for _, prio := range prioLists(b.n) {
									for _, pr := range pairs {
										for _, entry := range entries {
											c := Case{N: b.n, St: st, Cur: cur, Existing: ex, Prio: prio, Min: pr.mn, Max: pr.mx,
												DefMin: -1, DefMax: -1, Alloc: alloc, Entry: entry, Excluded: -1}
											o := r.evaluate(sec+"/"+entry, c)
											maybeSample(sec, b.sampleK, r, c, o, defaultNonNum)
										}
									}
								}
							}
						}
					}
				},
			})
		}
	}
	return units
}

func mainSectionUnits() []unit {
	var units []unit
	entries := []string{"pin", "block"}
	note := func(sec string, peers interface{}, maxCur int, alph string) {
		for _, e := range entries {
			s := R.Sec(sec + "/" + e)
			s.Bounds["peers"] = peers
			s.Bounds["metric_states_per_peer"] = alph
			s.Bounds["current_allocation"] = fmt.Sprintf("every subset of P with at most %d peers; for the empty one both 'no existing pin' and 'existing pin-everywhere pin'; otherwise an existing pin named differently with factors |cur|/|cur|", maxCur)
			s.Bounds["priority_list"] = "every ordered subset of P of size <= 2"
			s.Bounds["factors"] = "valid (-1,-1),(1,1),(1,2),(2,2),(2,3),(3,3); invalid (2,1),(-1,2),(1,-1),(-2,-2),(0,0)->cluster default (-1,-1)"
			s.Bounds["allocators"] = "ascendalloc, descendalloc"
			s.Bounds["expired_realised_by"] = "metric logged with 10s TTL, fake clock advanced 11s"
		}
	}
	if !ev.Thorough() {
		for n := 1; n <= 3; n++ {
			b := mainBounds{n: n, alphabet: fullAlphabet, maxCur: n, shards: map[int]int{1: 1, 2: 1, 3: 6}[n], sampleK: 9001}
			units = append(units, mainUnits("full", b, entries)...)
		}
		note("full", "1..3", 3, alphFull)
		b4 := mainBounds{n: 4, alphabet: tinyAlphabet, maxCur: 4, shards: 4, sampleK: 9001}
		units = append(units, mainUnits("n4", b4, entries)...)
		note("n4", 4, 4, alphTiny)
	} else {
		for n := 1; n <= 4; n++ {
			b := mainBounds{n: n, alphabet: fullAlphabet, maxCur: n, shards: map[int]int{1: 1, 2: 1, 3: 2, 4: 24}[n], sampleK: 100003}
			units = append(units, mainUnits("full", b, entries)...)
		}
		note("full", "1..4", 4, alphFull)
		b5 := mainBounds{n: 5, alphabet: minAlphabet, maxCur: 3, shards: 12, sampleK: 100003, pairs: validPairs}
		units = append(units, mainUnits("n5", b5, entries)...)
		note("n5", 5, 3, alphMin)
		for _, e := range entries {
			R.Sec("n5/" + e).Bounds["factors"] = "valid pairs only: (-1,-1),(1,1),(1,2),(2,2),(2,3),(3,3)"
		}
	}
	return units
}

const (
	alphFull = "absent, expired, invalid-flag, non-numeric, valid 2, valid 10, valid 30"
	alphRed  = "absent, expired, invalid-flag, non-numeric, valid 2, valid 10"
	alphMin  = "expired, non-numeric, valid 2, valid 10"
	alphTiny = "expired, valid 2, valid 10"
)

// TestC03 runs every section's units on a small worker pool (one bubble and
// one real peer per unit), then re-runs a sample of the cases on fresh peers.
func TestC03(t *testing.T) {
	if p := os.Getenv("VERIF_REPLAY"); p != "" {
		replay(t, p)
		return
	}
	var units []unit
	units = append(units, mainSectionUnits()...)
	units = append(units, exclusionUnits()...)
	units = append(units, shortcutUnits()...)
	units = append(units, allocateUnits()...)
	units = append(units, readFaultUnits()...)
	units = append(units, defaultsUnits()...)
	units = append(units, historyUnits()...)
	units = append(units, nonNumUnits()...)
	units = append(units, ttlPastUnits()...)
	units = append(units, expireDuringUnits()...)
	units = append(units, presetUnits()...)
	units = append(units, adderUnits()...)
	units = append(units, realMonUnits()...)
	if only := os.Getenv("C03_ONLY"); only != "" {
		var f []unit
		for _, u := range units {
			if strings.HasPrefix(u.name, only) {
				f = append(f, u)
			}
		}
		units = f
		R.NotExhaustive("C03_ONLY filter set: " + only)
	}
	if len(units) == 0 {
		t.Fatal("no units")
	}
	w := workers()
	groups := assign(units, w)
	child := ev.ChildUnit()
	if child == "" && os.Getenv("C03_INPROC") == "" {
		var names []string
		for k := range groups {
			names = append(names, fmt.Sprintf("w%d", k))
		}
		per := 6 * time.Minute
		if ev.Thorough() {
			per = 90 * time.Minute
		}
		independenceSection()
		R.RunChildren("TestC03", names, w, per)
		for _, n := range names {
			mergeSide(n)
		}
		R.Note("workers", fmt.Sprintf("%d child processes, units assigned by evaluation count", w))
		return
	}
	if child == "" {
		runUnits(t, units)
		independence(t)
		return
	}
	var k int
	if _, err := fmt.Sscanf(child, "w%d", &k); err != nil || k < 0 || k >= len(groups) {
		t.Fatalf("bad child unit %q", child)
	}
	runUnits(t, groups[k])
	independence(t)
	writeSide(child)
}

func init() {
	if os.Getenv("GOLOG_LOG_LEVEL") == "" {
		os.Setenv("GOLOG_LOG_LEVEL", "fatal")
	}
}

// replay re-runs the single case recorded in a replay artefact on a fresh peer.
func replay(t *testing.T, path string) {
	b, err := os.ReadFile(path)
	if err != nil {
		t.Fatal(err)
	}
	var art struct {
		Key    string
		Detail struct {
			Case Case
		}
	}
	if err := json.Unmarshal(b, &art); err != nil || art.Detail.Case.N == 0 {
		t.Fatalf("not a C03 replay artefact: %v", err)
	}
	c := art.Detail.Case
	o := rigOpts{alloc: c.Alloc, defMin: c.DefMin, defMax: c.DefMax, history: c.Variant == "history", ttlPast: c.Variant == "ttlpast", realMon: c.Variant == "realmon", expireDuring: c.Variant == "expire-during"}
	R.NotExhaustive("replay of one recorded case")
	runUnits(t, []unit{{name: "replay", opts: o, body: func(r *rig) {
		if o.realMon {
			r.installMetrics(c.N, c.St, c.NonNum)
		} else {
			r.setMetrics(c.N, c.St, c.NonNum)
		}
		obs := r.evaluate("replay", c)
		vs := judge(c, obs)
		fmt.Printf("REPLAY %s\n  case: %s\n  observed: %s\n  violated clauses: %d (recorded key: %s)\n", path, c, ev.JSON(obs), len(vs), art.Key)
		for _, v := range vs {
			fmt.Printf("  - %s: %s\n", v.clause, v.msg)
		}
	}}})
}
