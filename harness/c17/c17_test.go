// Package c17 decides C17 (Raft membership changes are agreed by all members
// and never lose the pinset) by exhaustive enumeration of short histories of
// peer add / remove / join / restart / leave interleaved with pins, on 1..4
// REAL ipfscluster.Cluster peers with real Raft consensus over a mocknet
// inside testing/synctest bubbles.
package c17

import (
	"context"
	"fmt"
	"os"
	"path/filepath"
	"runtime"
	"runtime/pprof"
	"sort"
	"strconv"
	"strings"
	"testing"
	"testing/synctest"
	"time"

	ipfscluster "github.com/ipfs/ipfs-cluster"
	"github.com/ipfs/ipfs-cluster/api"
	"github.com/ipfs/ipfs-cluster/consensus/raft"
	"github.com/ipfs/ipfs-cluster/datastore/inmem"
	"github.com/ipfs/ipfs-cluster/monitor/metrics"

	host "github.com/libp2p/go-libp2p-core/host"
	peer "github.com/libp2p/go-libp2p-core/peer"
	ma "github.com/multiformats/go-multiaddr"

	"verif/harness/lib/clus"
	"verif/harness/lib/ev"
	ds "github.com/ipfs/go-datastore"
)

var R *ev.Run

const nShards = 12

func TestMain(m *testing.M) {
	R = ev.New("C17", "model_checking")
	R.Rule("one evaluation = one history (pin/unpin at leader or follower, join of a new staging peer through a chosen member, PeerAdd of a present peer, PeerRemove of follower/leader/self/absent issued at leader or follower, leave-on-shutdown, restart) executed on real Cluster peers with real Raft in a fresh bubble; invariants evaluated at every quiescent state; states = distinct canonical (peerset per member, pinset size, liveness) states; transitions = events applied")
	R.Assume("membership changes are issued one at a time (hashicorp/raft serialises them); peers address roles resolved at run time (leader identity is decided by randomised election timeouts)")
	R.Assume("all peers see every peer's informer metric (a shared metrics store stands in for the pubsub monitor), which is the precondition for re-homing pins on removal")
	ev.Main(m.Run, R)
}

type event struct {
	Kind string // pin unpin join addpresent rm leave restart
	At   string // L | F  (issuer)
	Tgt  string // rm: F | L | self | absent
	C    int
}

func (e event) String() string {
	switch e.Kind {
	case "pin", "unpin":
		return fmt.Sprintf("%s(c%d)@%s", e.Kind, e.C, e.At)
	case "rm":
		return fmt.Sprintf("rm(%s)@%s", e.Tgt, e.At)
	case "join":
		return "join@" + e.At
	case "rejoin":
		return "rejoin-of-a-removed-member@" + e.At
	case "updpin":
		return "pin-update(c3->c4)+unpin(c3)@" + e.At
	case "pinexp":
		return "pin(c5, expires in 3s)@" + e.At
	case "latestart":
		return "staging-peer-started-and-not-added-within-its-leader-timeout"
	}
	return e.Kind
}

type history struct {
	N   int
	Evs []event
	// CR0: every member runs with raft commit_retries 0 (legal: what a raft
	// section without that key loads as): one attempt per operation
	CR0 bool
	// SNAP: every member snapshots eagerly and keeps no trailing log
	// (snapshot_interval 15s, threshold 1, trailing_logs 0) and a full
	// snapshot interval passes before every join / re-join: the newcomer is
	// caught up by installing a snapshot, not by replaying the log
	SNAP bool
}

func (h history) String() string {
	var s []string
	for _, e := range h.Evs {
		s = append(s, e.String())
	}
	cr := ""
	if h.CR0 {
		cr = " [commit_retries=0]"
	}
	if h.SNAP {
		cr += " [eager snapshots, no trailing log]"
	}
	return fmt.Sprintf("n=%d %s%s", h.N, strings.Join(s, " "), cr)
}

func (h history) shape() string {
	var s []string
	for _, e := range h.Evs {
		x := e.Kind
		if e.Kind == "rm" {
			x += "-" + e.Tgt
		}
		s = append(s, x)
	}
	cr := ""
	if h.CR0 {
		cr = ":cr0"
	}
	if h.SNAP {
		cr += ":snap"
	}
	return fmt.Sprintf("n%d:%s%s", h.N, strings.Join(s, ","), cr)
}

func alphabet(n int) []event {
	a := []event{{Kind: "pin", At: "L", C: 0}, {Kind: "updpin", At: "L"}, {Kind: "pinexp", At: "L"}, {Kind: "join", At: "L"}, {Kind: "rm", At: "L", Tgt: "absent"}, {Kind: "rm", At: "L", Tgt: "L"}, {Kind: "restart"}, {Kind: "latestart"}}
	if n > 1 {
		a = append(a,
			event{Kind: "pin", At: "F", C: 1},
			event{Kind: "unpin", At: "F", C: 0},
			event{Kind: "join", At: "F"},
			event{Kind: "rejoin", At: "L"},
			event{Kind: "rejoin", At: "F"},
			event{Kind: "addpresent", At: "L"},
			event{Kind: "rm", At: "L", Tgt: "F"},
			event{Kind: "rm", At: "F", Tgt: "L"},
			event{Kind: "rm", At: "F", Tgt: "self"},
			event{Kind: "rm", At: "F", Tgt: "F2"},
			event{Kind: "leave"},
		)
	}
	return a
}

func enumerate() []history {
	th := ev.Thorough()
	var out, front []history
	sizes := []int{1, 2, 3}
	if th {
		sizes = []int{1, 2, 3, 4}
	}
	for _, n := range sizes {
		maxLen := 2
		if th {
			maxLen = 3
		}
		if n < 3 && !th {
			maxLen = 3
		}
		al := alphabet(n)
		var rec func(p []event)
		rec = func(p []event) {
			if len(p) > 0 {
				out = append(out, history{N: n, Evs: append([]event{}, p...)})
			}
			if len(p) == maxLen {
				return
			}
			joins := 0
			for _, e := range p {
				if e.Kind == "join" {
					joins++
				}
			}
			for _, e := range al {
				if e.Kind == "join" && joins >= 1 && !th {
					continue
				}
				if e.Kind == "join" && joins >= 2 {
					continue
				}
				rec(append(p, e))
			}
		}
		rec(nil)
		if th && n == 2 {
			// length 4 over the membership events only
			var mem []event
			for _, e := range al {
				if e.Kind != "pin" && e.Kind != "unpin" && e.Kind != "updpin" && e.Kind != "pinexp" {
					mem = append(mem, e)
				}
			}
			var rec4 func(p []event)
			rec4 = func(p []event) {
				if len(p) == 4 {
					joins := 0
					for _, e := range p {
						if e.Kind == "join" {
							joins++
						}
					}
					if joins <= 2 {
						out = append(out, history{N: n, Evs: append([]event{{Kind: "pin", At: "L", C: 0}}, p...)})
					}
					return
				}
				for _, e := range mem {
					rec4(append(p, e))
				}
			}
			rec4(nil)
		}
		if !th {
			// quick: pins first, then every membership event (the pinset must survive)
			for _, e := range al {
				if e.Kind == "pin" || e.Kind == "unpin" || e.Kind == "updpin" || e.Kind == "pinexp" {
					continue
				}
				out = append(out, history{N: n, Evs: []event{{Kind: "pin", At: "L", C: 0}, {Kind: "pin", At: "L", C: 2}, e}})
				out = append(out, history{N: n, Evs: []event{{Kind: "pin", At: "L", C: 0}, {Kind: "updpin", At: "L"}, e}})
			}
		}
	}
	// a member goes away, the pinset changes behind its back, it comes back
	// with the datastore it had (n=2; with and without eager snapshots)
	for _, gone := range []event{{Kind: "rm", At: "L", Tgt: "F"}, {Kind: "rm", At: "F", Tgt: "self"}, {Kind: "leave"}} {
		for _, ch := range []event{{Kind: "unpin", At: "F", C: 0}, {Kind: "updpin", At: "L"}, {Kind: "pin", At: "F", C: 1}, {Kind: "pinexp", At: "L"}} {
			evs := []event{{Kind: "pin", At: "L", C: 0}, gone, ch, {Kind: "rejoin", At: "L"}}
			front = append(front, history{N: 2, Evs: evs}, history{N: 2, Evs: evs, SNAP: true})
		}
	}
	// the same with eager snapshots, for the histories of length <= 3 on 1-2
	// peers that bring a peer in (join, re-join)
	for _, h := range append([]history{}, out...) {
		if len(h.Evs) > 3 || h.N > 2 || h.SNAP {
			continue
		}
		brings := false
		for _, e := range h.Evs {
			if e.Kind == "join" || e.Kind == "rejoin" {
				brings = true
			}
		}
		if brings {
			out = append(out, history{N: h.N, Evs: h.Evs, SNAP: true})
		}
	}
	// the same with commit_retries 0, for the histories of length <= 2
	for _, h := range append([]history{}, out...) {
		if len(h.Evs) <= 2 && h.N <= 3 && !h.SNAP {
			out = append(out, history{N: h.N, Evs: h.Evs, CR0: true})
		}
	}
	// (the targeted families and the special configurations run first: a
	// time-capped run on a loaded machine still covers them; the bulk of
	// plain histories comes last)
	var special, plain []history
	for _, h := range out {
		if h.SNAP || h.CR0 {
			special = append(special, h)
		} else {
			plain = append(plain, h)
		}
	}
	return append(append(front, special...), plain...)
}

// ---------- world ----------

type member struct {
	idx     int
	host    host.Host
	p       *clus.Peer
	rcfg    *raft.Config
	base    string
	alive   bool
	removed bool
	hung    bool // its Shutdown did not return: abandoned
}

type world struct {
	snap    bool
	stores  map[int]ds.Datastore // a peer's datastore outlives its removal (only the raft folder is discarded)
	cr0     bool
	ctx     context.Context
	t       *testing.T
	hosts   []host.Host
	members []*member // everything ever started
	store   *metrics.Store
	scratch string
	refSet  map[peer.ID]bool
	refPins map[string]string // cid -> PinSig without allocations
	viol    []finding
	states  map[string]bool
	trans   int
	next    int
}

type finding struct{ key, detail string }

func (w *world) fail(key, f string, a ...interface{}) {
	w.viol = append(w.viol, finding{key, fmt.Sprintf(f, a...)})
}

func (w *world) startMember(idx int, initPeers []peer.ID, staging bool, base string, keep ...bool) (*member, error) {
	keepStore := len(keep) > 0 && keep[0]

	h := w.hosts[idx]
	rcfg := &raft.Config{}
	rcfg.Default()
	rcfg.InitPeerset = initPeers
	rcfg.WaitForLeaderTimeout = 20 * time.Second
	if w.cr0 {
		rcfg.CommitRetries = 0
	}
	if w.snap {
		rcfg.RaftConfig.SnapshotInterval = 15 * time.Second
		rcfg.RaftConfig.SnapshotThreshold = 1
		rcfg.RaftConfig.TrailingLogs = 0
	}
	rcfg.DataFolder = base + "/raft"
	if w.snap {
		// (the same folder written with a trailing separator: legal, and it
		// names the same directory everywhere)
		rcfg.DataFolder = base + "/raft/"
	}
	// every backup slot is already taken by an older, non-empty backup (a
	// peer whose data was cleaned before): discarding the data of a removed
	// peer that holds a snapshot must still work (the oldest backup goes)
	rcfg.BackupsRotate = 1
	if old := filepath.Clean(rcfg.DataFolder) + ".old.0"; !exists(old) {
		os.MkdirAll(old+"/snapshots", 0o700)
		os.WriteFile(old+"/raft.db", []byte("older backup"), 0o600)
	}
	var store ds.Datastore = inmem.New()
	if keepStore {
		if w.stores == nil {
			w.stores = map[int]ds.Datastore{}
		}
		if old, ok := w.stores[idx]; ok {
			store = old
		}
	}
	if w.stores == nil {
		w.stores = map[int]ds.Datastore{}
	}
	w.stores[idx] = store
	cons, err := raft.NewConsensus(h, rcfg, store, staging)
	if err != nil {
		return nil, err
	}
	mon := clus.NewMon()
	mon.Store = w.store
	p, err := clus.NewPeer(w.ctx, &clus.PeerParts{Host: h, Consensus: cons, Monitor: mon, BaseDir: base, Cfg: func(c *ipfscluster.Config) {
		c.PeerWatchInterval = 2 * time.Second
		c.MonitorPingInterval = 5 * time.Second
		c.ReplicationFactorMin, c.ReplicationFactorMax = 1, 1
		c.DisableRepinning = false
	}})
	if err != nil {
		return nil, err
	}
	m := &member{idx: idx, host: h, p: p, rcfg: rcfg, base: base, alive: true}
	return m, nil
}

func exists(p string) bool { _, err := os.Stat(p); return err == nil }

func (w *world) live() []*member {
	var l []*member
	for _, m := range w.members {
		if m.alive {
			l = append(l, m)
		}
	}
	return l
}

func (w *world) leader() *member {
	for try := 0; try < 30; try++ {
		for _, m := range w.live() {
			l, err := m.p.Parts.Consensus.Leader(w.ctx)
			if err == nil {
				for _, x := range w.live() {
					if x.host.ID() == l {
						return x
					}
				}
			}
		}
		time.Sleep(time.Second)
	}
	return nil
}

func (w *world) followers() []*member {
	l := w.leader()
	var out []*member
	for _, m := range w.live() {
		if m != l && w.refSet[m.host.ID()] {
			out = append(out, m)
		}
	}
	return out
}

func (w *world) settle(d time.Duration) {
	time.Sleep(d)
	synctest.Wait()
}

func noAlloc(p *api.Pin) string {
	q := *p
	q.Allocations = nil
	return clus.PinSig(&q)
}

// check evaluates the invariants at a quiescent state.
func (w *world) check(where string) {
	var want []string
	for id := range w.refSet {
		want = append(want, id.String())
	}
	sort.Strings(want)
	var canon []string
	for _, m := range w.live() {
		if !w.refSet[m.host.ID()] {
			continue // removed, shutting down
		}
		peers, err := m.p.Parts.Consensus.Peers(w.ctx)
		if err != nil {
			w.fail("peers-error", "%s: member %d Peers(): %v", where, m.idx, err)
			continue
		}
		var got []string
		for _, p := range peers {
			got = append(got, p.String())
		}
		sort.Strings(got)
		if strings.Join(got, ",") != strings.Join(want, ",") {
			w.fail("peerset-disagreement", "%s: member %d reports peerset %v but the agreed peerset is %v", where, m.idx, short(got), short(want))
		}
		pins, err := m.p.C.Pins(w.ctx)
		if err != nil {
			w.fail("pins-error", "%s: member %d Pins(): %v", where, m.idx, err)
			continue
		}
		gotPins := map[string]string{}
		for _, p := range pins {
			gotPins[p.Cid.String()] = noAlloc(p)
		}
		for c, sig := range w.refPins {
			if g, ok := gotPins[c]; !ok {
				w.fail("pin-lost", "%s: member %d no longer holds pin %s", where, m.idx, c)
			} else if g != sig {
				w.fail("pin-changed", "%s: member %d holds %s as\n%s\nexpected\n%s", where, m.idx, c, g, sig)
			}
		}
		for c := range gotPins {
			if _, ok := w.refPins[c]; !ok {
				w.fail("pin-unexpected", "%s: member %d holds an unexpected pin %s", where, m.idx, c)
			}
		}
		canon = append(canon, fmt.Sprintf("%d:%d", m.idx, len(peers)))
	}
	w.states[fmt.Sprintf("%v|pins=%d|set=%d", canon, len(w.refPins), len(w.refSet))] = true
}

func short(l []string) []string {
	var o []string
	for _, s := range l {
		o = append(o, s[len(s)-4:])
	}
	return o
}

func (w *world) pick(role string) *member {
	l := w.leader()
	if l == nil {
		return nil
	}
	fs := w.followers()
	switch role {
	case "L":
		return l
	case "F":
		if len(fs) > 0 {
			return fs[0]
		}
		return l
	case "F2":
		if len(fs) > 1 {
			return fs[1]
		}
		return nil
	}
	return nil
}

// hungMembers counts the members abandoned by this process (each one leaks
// its whole peer): past a handful the process stops exploring.
var hungMembers int

// shutdown stops a member through its own Shutdown. A Shutdown that does not
// return (within 3 minutes of fake time) is reported and the member abandoned:
// nothing else may be asked of it, or the whole history would hang with it.
func (w *world) shutdown(m *member) bool {
	if m.hung {
		return false
	}
	done := make(chan struct{})
	go func() {
		defer close(done)
		m.p.C.Shutdown(context.Background())
	}()
	select {
	case <-done:
		return true
	case <-time.After(3 * time.Minute):
		m.hung = true
		m.alive = false
		hungMembers++
		w.fail("shutdown-hangs", "Shutdown of member %d did not return within 3 minutes", m.idx)
		return false
	}
}

// expectGone: the removed member stops itself and discards its consensus data.
func (w *world) expectGone(m *member, where string) {
	select {
	case <-m.p.C.Done():
	case <-time.After(5 * 2 * time.Second): // 5 peer-watch intervals
		w.fail("removed-peer-still-running", "%s: removed member %d did not shut itself down within 5 peer-watch intervals", where, m.idx)
		// it is out of the peerset all the same: stop it by hand so that the
		// rest of the history does not ask a removed peer for anything
		w.shutdown(m)
		m.alive = false
		m.removed = true
		return
	}
	m.alive = false
	m.removed = true
	if _, err := os.Stat(m.rcfg.GetDataFolder()); err == nil {
		w.fail("removed-peer-kept-consensus-data", "%s: removed member %d still has its raft data folder %s", where, m.idx, m.rcfg.GetDataFolder())
	}
}

func (w *world) apply(e event) bool {
	w.trans++
	ctx, cancel := context.WithTimeout(w.ctx, 90*time.Second)
	defer cancel()
	switch e.Kind {
	case "pin", "unpin":
		at := w.pick(e.At)
		if at == nil {
			return false
		}
		c := clus.Cid(fmt.Sprintf("c%d", e.C))
		if e.Kind == "pin" {
			pin, err := at.p.C.Pin(ctx, c, api.PinOptions{ReplicationFactorMin: 1, ReplicationFactorMax: 1, Name: fmt.Sprintf("pin-%d", e.C)})
			if err != nil {
				w.viol = append(w.viol, finding{"info:pin-error", err.Error()})
				return true
			}
			w.refPins[c.String()] = noAlloc(pin)
		} else {
			_, err := at.p.C.Unpin(ctx, c)
			if err == nil {
				delete(w.refPins, c.String())
			}
		}
	case "pinexp":
		// a pin that expires a few seconds later: until some peer's sweep
		// unpins it (not within these histories) it is part of the pinset
		// every member - also one that joins or restarts later - must hold
		at := w.pick(e.At)
		if at == nil {
			return false
		}
		c := clus.Cid("c5")
		pin, err := at.p.C.Pin(ctx, c, api.PinOptions{ReplicationFactorMin: 1, ReplicationFactorMax: 1, Name: "pin-expiring", ExpireAt: time.Now().Add(3 * time.Second)})
		if err != nil {
			w.viol = append(w.viol, finding{"info:pin-error", err.Error()})
			return true
		}
		w.refPins[c.String()] = noAlloc(pin)
	case "updpin":
		// a pin created through pin update whose source is then unpinned (the
		// documented workflow): its stored options keep the update marker
		at := w.pick(e.At)
		if at == nil {
			return false
		}
		src, dst := clus.Cid("c3"), clus.Cid("c4")
		if _, err := at.p.C.Pin(ctx, src, api.PinOptions{ReplicationFactorMin: 1, ReplicationFactorMax: 1, Name: "src"}); err != nil {
			w.viol = append(w.viol, finding{"info:pin-error", err.Error()})
			return true
		}
		w.settle(time.Second)
		pin, err := at.p.C.PinUpdate(ctx, src, dst, api.PinOptions{})
		if err != nil {
			w.viol = append(w.viol, finding{"info:pinupdate-error", err.Error()})
			return true
		}
		w.refPins[dst.String()] = noAlloc(pin)
		w.settle(time.Second)
		if _, err := at.p.C.Unpin(ctx, src); err != nil {
			w.refPins[src.String()] = "?"
			w.viol = append(w.viol, finding{"info:unpin-error", err.Error()})
		}
	case "join", "rejoin":
		via := w.pick(e.At)
		if via == nil {
			return false
		}
		var idx int
		if e.Kind == "join" {
			if w.next >= len(w.hosts) {
				return false
			}
			idx = w.next
			w.next++
		} else {
			// a member that was removed (or left) comes back under the same
			// identity, as a new staging peer without data
			idx = -1
			for _, x := range w.members {
				if !x.alive && !w.refSet[x.host.ID()] && x.host.ID() != via.host.ID() {
					idx = x.idx
				}
			}
			for _, x := range w.members {
				if x.idx == idx && x.alive {
					idx = -1 // already back
				}
			}
			if idx < 0 {
				return true // nobody to bring back: not applicable
			}
			for _, x := range w.members {
				if x.idx == idx {
					w.shutdown(x) // (a removed peer shuts itself down; make sure)
				}
			}
			w.settle(time.Second)
			os.RemoveAll(fmt.Sprintf("%s/m%d/raft", w.scratch, idx))
		}
		if w.snap {
			time.Sleep(31 * time.Second) // every member has snapshotted and dropped its log
			synctest.Wait()
		}
		m, err := w.startMember(idx, nil, true, fmt.Sprintf("%s/m%d", w.scratch, idx), e.Kind == "rejoin")
		if err != nil {
			w.fail("join-start-failed", "%v", err)
			return false
		}
		w.members = append(w.members, m)
		before := map[string]string{}
		for k, v := range w.refPins {
			before[k] = v
		}
		addr, _ := ma.NewMultiaddr(fmt.Sprintf("%s/p2p/%s", via.host.Addrs()[0], via.host.ID()))
		if err := m.p.C.Join(ctx, addr); err != nil {
			w.fail("join-failed", "joining through member %d failed: %v", via.idx, err)
			return false
		}
		w.refSet[m.host.ID()] = true
		// the newcomer holds the same pinset as the others before it reports ready
		pins, err := m.p.C.Pins(ctx)
		got := map[string]string{}
		for _, p := range pins {
			got[p.Cid.String()] = noAlloc(p)
		}
		if err != nil || fmt.Sprint(got) != fmt.Sprint(before) {
			w.fail("joined-peer-behind", "Join returned but the new peer's pinset is %v (err %v); the pinset committed before the add is %v", got, err, before)
		}
		select {
		case <-m.p.C.Ready():
		case <-time.After(60 * time.Second):
			w.fail("joined-peer-not-ready", "new peer did not report ready within 60s after Join returned")
		}
	case "addpresent":
		l := w.pick("L")
		f := w.pick("F")
		if l == nil || f == nil || f == l {
			return true
		}
		if _, err := l.p.C.PeerAdd(ctx, f.host.ID()); err != nil {
			w.fail("add-present-peer-failed", "PeerAdd of a present peer returned %v", err)
		}
	case "rm":
		at := w.pick(e.At)
		if at == nil {
			return false
		}
		var tgt peer.ID
		var tm *member
		switch e.Tgt {
		case "absent":
			tgt = clus.PID(777)
		case "self":
			tm = at
		case "L", "F", "F2":
			tm = w.pick(e.Tgt)
			if tm == nil {
				return true
			}
		}
		if tm != nil {
			tgt = tm.host.ID()
		}
		err := at.p.C.PeerRemove(ctx, tgt)
		switch {
		case e.Tgt == "absent":
			if err != nil {
				w.fail("remove-absent-peer-failed", "PeerRemove of an absent peer returned %v", err)
			}
		case len(w.refSet) == 1:
			if err == nil {
				w.fail("last-peer-removed", "PeerRemove of the only peer returned nil")
				delete(w.refSet, tgt)
			}
		default:
			if err != nil {
				w.fail("remove-failed", "PeerRemove(%s) issued at member %d failed: %v", e.Tgt, at.idx, err)
				return false
			}
			delete(w.refSet, tgt)
			w.expectGone(tm, "after "+e.String())
			w.settle(3 * time.Second)
			// its pins were re-homed first
			for _, m := range w.live() {
				if !w.refSet[m.host.ID()] {
					continue
				}
				pins, _ := m.p.C.Pins(w.ctx)
				for _, p := range pins {
					if !p.ExpireAt.IsZero() && p.ExpireAt.Before(time.Now()) {
						continue // an expired pin waits for the sweep: it cannot be re-pinned
					}
					for _, a := range p.Allocations {
						if a == tgt {
							w.fail("pin-still-allocated-to-removed-peer", "after removing member %d, pin %s still lists it as a holder (re-pinning is enabled and every remaining peer has a valid metric)", tm.idx, p.Cid)
						}
					}
				}
				break
			}
		}
	case "leave":
		f := w.pick("F")
		l := w.pick("L")
		if f == nil || f == l {
			return true
		}
		f.p.Cfg.LeaveOnShutdown = true
		w.shutdown(f)
		f.alive = false
		delete(w.refSet, f.host.ID())
		if _, err := os.Stat(f.rcfg.GetDataFolder()); err == nil {
			w.fail("left-peer-kept-consensus-data", "member %d left the cluster on shutdown but still has its raft data folder", f.idx)
		}
	case "latestart":
		// a new peer starts as a staging peer (what a joining daemon does) and
		// nobody adds it before its wait_for_leader_timeout (20s) has passed:
		// if it ever reports itself ready, it holds the cluster's pinset
		if w.next >= len(w.hosts) {
			return false
		}
		idx := w.next
		w.next++
		m, err := w.startMember(idx, nil, true, fmt.Sprintf("%s/m%d", w.scratch, idx))
		if err != nil {
			w.fail("join-start-failed", "%v", err)
			return false
		}
		w.members = append(w.members, m)
		m.alive = false // never a member of the peerset
		ready := false
		select {
		case <-m.p.Parts.Consensus.Ready(ctx):
			ready = true
		case <-time.After(45 * time.Second):
		}
		if ready {
			got := map[string]string{}
			if st, err := m.p.Parts.Consensus.State(ctx); err == nil {
				if pins, err := st.List(ctx); err == nil {
					for _, p := range pins {
						got[p.Cid.String()] = noAlloc(p)
					}
				}
			}
			if fmt.Sprint(got) != fmt.Sprint(w.refPins) {
				w.fail("ready-before-synced", "a staging peer that nobody added reported itself ready holding %v; the cluster's pinset is %v", got, w.refPins)
			}
		}
		w.shutdown(m)
		w.settle(time.Second)
	case "restart":
		m := w.pick("F")
		if m == nil {
			return false
		}
		w.shutdown(m)
		m.alive = false
		w.settle(time.Second)
		var ids []peer.ID
		for id := range w.refSet {
			ids = append(ids, id)
		}
		nm, err := w.startMember(m.idx, ids, false, m.base)
		if err != nil {
			w.fail("restart-failed", "member %d cannot restart on its data: %v", m.idx, err)
			return false
		}
		w.members = append(w.members, nm)
		select {
		case <-nm.p.C.Ready():
		case <-time.After(90 * time.Second):
			w.fail("restart-not-ready", "member %d did not become ready within 90s after restart", m.idx)
			return false
		}
	}
	return true
}

func run(t *testing.T, h history) (outcome string, viol []finding, states map[string]bool, trans int) {
	scratch, _ := os.MkdirTemp(os.Getenv("VERIF_SCRATCH"), "c17")
	defer os.RemoveAll(scratch)
	outcome = "ok"
	clus.Bubble(t, func(t *testing.T) {
		ctx := context.Background()
		_, hosts := clus.NewMocknet(ctx, 0, 7)
		w := &world{ctx: ctx, t: t, hosts: hosts, store: metrics.NewStore(), scratch: scratch, refSet: map[peer.ID]bool{}, refPins: map[string]string{}, states: map[string]bool{}, next: h.N, cr0: h.CR0, snap: h.SNAP}
		var ids []peer.ID
		for i := 0; i < h.N; i++ {
			ids = append(ids, hosts[i].ID())
			w.refSet[hosts[i].ID()] = true
		}
		defer func() {
			for _, m := range w.members {
				if w.shutdown(m) {
					m.p.Stop() // also for members shut down earlier: closes their DHT and context
				}
			}
			for _, hh := range hosts {
				hh.Close()
			}
		}()
		for i := 0; i < h.N; i++ {
			m, err := w.startMember(i, ids, false, fmt.Sprintf("%s/m%d", scratch, i))
			if err != nil {
				t.Fatal(err)
			}
			w.members = append(w.members, m)
		}
		for _, m := range w.members {
			select {
			case <-m.p.C.Ready():
			case <-time.After(90 * time.Second):
				R.Broken("cluster of %d not ready", h.N)
				outcome = "harness:not-ready"
				return
			}
		}
		w.settle(6 * time.Second) // metrics published by everyone
		w.check("initial")
		for i, e := range h.Evs {
			if !w.apply(e) {
				outcome = "stopped-at-" + e.Kind
				break
			}
			w.settle(4 * time.Second)
			w.check(fmt.Sprintf("after event %d (%s)", i, e))
		}
		viol = w.viol
		states = w.states
		trans = w.trans
	})
	return
}

func keyCtx(h history) string { return h.shape() }

// nUnits: histories are dealt to this many child processes, nShards of them
// running at a time. The thorough tier uses many short-lived children: a
// child's memory grows with the number of bubbles it has run (goroutines and
// mappings left behind by torn-down libp2p/raft instances), and 12 long-lived
// children were killed by the kernel's OOM killer.
func nUnits() int {
	if ev.Thorough() {
		return 8 * nShards
	}
	return nShards
}

func TestHistories(t *testing.T) {
	if os.Getenv("C17_DEBUG") != "" {
		t.Skip()
	}
	hs := enumerate()
	if os.Getenv("C17_COUNT") != "" {
		fmt.Println("COUNT", len(hs))
	}
	if ev.ChildUnit() == "" {
		var units []string
		for i := 0; i < nUnits(); i++ {
			units = append(units, strconv.Itoa(i))
		}
		per := 10 * time.Minute
		if ev.Thorough() {
			per = 40 * time.Minute
		}
		sec := R.Sec("histories")
		sec.Bounds["histories_enumerated"] = len(hs)
		sec.Bounds["shards"] = nUnits()
		sec.Bounds["parallel_children"] = nShards
		R.RunChildren("TestHistories", units, nShards, per)
		return
	}
	shard, _ := strconv.Atoi(ev.ChildUnit())
	sec := R.Sec(fmt.Sprintf("shard-%d", shard))
	budget := 270 * time.Second
	if ev.Thorough() {
		budget = 30 * time.Minute
	}
	start := time.Now()
	done := 0
	for i, h := range hs {
		if i%nUnits() != shard {
			continue
		}
		if time.Since(start) > budget {
			R.NotExhaustive(fmt.Sprintf("shard %d: time budget reached after %d histories", shard, done))
			sec.Exhaustive = false
			break
		}
		if hungMembers >= 8 {
			R.NotExhaustive(fmt.Sprintf("shard %d: stopped after %d histories: %d members whose Shutdown never returned had to be abandoned (each leaks a whole peer)", shard, done, hungMembers))
			sec.Exhaustive = false
			break
		}
		if os.Getenv("C17_TRACE") != "" {
			fmt.Println("TRACE", i, h.String())
		}
		outcome, viol, states, trans := run(t, h)
		done++
		if os.Getenv("VERIF_MEMTRACE") != "" && done%10 == 0 {
			var ms runtime.MemStats
			runtime.GC()
			runtime.ReadMemStats(&ms)
			if done == 30 && shard == 3 {
				f, _ := os.Create("/var/tmp/c17-gor.txt")
				pprof.Lookup("goroutine").WriteTo(f, 1)
				f.Close()
				f, _ = os.Create("/var/tmp/c17-heap.pb")
				pprof.Lookup("heap").WriteTo(f, 0)
				f.Close()
			}
			fmt.Printf("E2 MEMTRACE shard %d done=%d goroutines=%d heap=%dMB sys=%dMB\n", shard, done, runtime.NumGoroutine(), ms.HeapAlloc>>20, ms.Sys>>20)
		}
		real := 0
		for _, v := range viol {
			if !strings.HasPrefix(v.key, "info:") {
				real++
			}
		}
		if real > 0 {
			// a violation must reproduce before it is believed
			keep := map[string]bool{}
			for _, v := range viol {
				keep[v.key] = true
			}
			for k := 0; k < 2; k++ {
				_, again, _, _ := run(t, h)
				seen := map[string]bool{}
				for _, v := range again {
					seen[v.key] = true
				}
				for key := range keep {
					if !seen[key] {
						delete(keep, key)
					}
				}
			}
			var f []finding
			for _, v := range viol {
				if keep[v.key] {
					f = append(f, v)
				} else if !strings.HasPrefix(v.key, "info:") {
					R.NotExhaustive("a finding did not reproduce on re-execution and was discarded: " + v.key)
				}
			}
			viol = f
		}
		R.Eval(sec, h.shape()+"|"+outcome, true)
		R.Outcome(sec, outcome)
		R.States(sec, int64(len(states)))
		R.Transitions(int64(trans))
		if i < 2*nUnits() {
			R.SampleTagged("history", 6, map[string]string{"history": h.String(), "outcome": outcome})
		}
		seen := map[string]bool{}
		for _, v := range viol {
			if strings.HasPrefix(v.key, "info:") || seen[v.key] {
				continue
			}
			seen[v.key] = true
			R.Violation("C17|"+v.key+"|"+keyCtx(h), map[string]interface{}{"history": h.String(), "index": i, "finding": v.detail})
		}
	}
	fmt.Printf("E2 shard %d: %d histories in %s\n", shard, done, time.Since(start).Round(time.Second))
}

// TestDebug runs the histories whose description contains C17_DEBUG.
func TestDebug(t *testing.T) {
	pat := os.Getenv("C17_DEBUG")
	if pat == "" {
		t.Skip()
	}
	n := 0
	for _, h := range enumerate() {
		if strings.Contains(h.String(), pat) {
			st := time.Now()
			out, viol, _, _ := run(t, h)
			fmt.Println("DEBUG", h.String(), "=>", out, time.Since(st))
			for _, v := range viol {
				fmt.Println("   ", v.key, v.detail)
			}
			n++
			if n >= 4 {
				break
			}
		}
	}
	R.Eval(nil, "a", true)
	R.Eval(nil, "b", true)
	R.States(nil, 1)
	R.Transitions(1)
	R.Sample("debug")
}
