package c10

import (
	"fmt"
	"os"
	"testing"
	"testing/synctest"

	"github.com/ipfs/ipfs-cluster/api"

	peer "github.com/libp2p/go-libp2p-core/peer"

	"verif/harness/lib/clus"
)

// TestRepro is the minimal direct reproduction of the two confirmed findings
// through the public entry points only (Cluster.Pin / PinUpdate / Unpin /
// PeerRemove and the Cluster.Pin RPC the adder uses). It only prints; run it
// with C10_REPRO=1 (see FINDINGS.md).
func TestRepro(t *testing.T) {
	if os.Getenv("C10_REPRO") == "" {
		t.Skip("set C10_REPRO=1")
	}
	bubble(t, 0, 3, false, false, func(s *sim) {
		ctx := s.ctx
		sh := clus.NewShared(s.ids)
		for _, c := range s.cons {
			c.S = sh
		}
		s.setMetrics("vvv")
		a, f := s.peers[0], s.ids[2]
		show := func(what string) {
			fmt.Println("--", what)
			for _, p := range sh.Pins() {
				e := s.canon(p)
				fmt.Printf("   %-10s alloc=%v %s\n", s.labels[p.Cid.String()], e.Alloc, e.optsSig())
			}
		}

		// 1. pin created by pin-update whose source was unpinned afterwards
		src, dst := s.cidOf("src"), s.cidOf("dst")
		_, err := a.C.Pin(ctx, src, api.PinOptions{ReplicationFactorMin: 1, ReplicationFactorMax: 1, UserAllocations: []peer.ID{f}, Name: "v1"})
		fmt.Println("Pin(src) err:", err)
		_, err = a.C.PinUpdate(ctx, src, dst, api.PinOptions{Name: "v2"})
		fmt.Println("PinUpdate(src->dst) err:", err)
		_, err = a.C.Unpin(ctx, src)
		fmt.Println("Unpin(src) err:", err)

		// 2. indirect shard (max depth 2) as the sharding adder submits it
		prev := s.cidOf("prev")
		shard := api.PinCid(s.cidOf("shard"))
		shard.Type, shard.MaxDepth, shard.Reference = api.ShardType, 2, &prev
		shard.ReplicationFactorMin, shard.ReplicationFactorMax = 1, 1
		shard.Allocations = []peer.ID{f}
		err = a.API.Client.CallContext(ctx, "", "Cluster", "Pin", shard, &api.Pin{})
		fmt.Println("rpc Cluster.Pin(shard depth 2) err:", err)

		// 3. control: ordinary pin held by the same peer
		_, err = a.C.Pin(ctx, s.cidOf("plain"), api.PinOptions{ReplicationFactorMin: 1, ReplicationFactorMax: 1, UserAllocations: []peer.ID{f}})
		fmt.Println("Pin(plain) err:", err)
		synctest.Wait()
		show("before PeerRemove(peer 2); peers 0 and 1 have valid metrics")
		sh.Reset()
		err = a.C.PeerRemove(ctx, f)
		synctest.Wait()
		fmt.Println("PeerRemove err:", err)
		show("after PeerRemove(peer 2)")
		for _, c := range sh.Calls() {
			fmt.Printf("   log %s %s by peer %d\n", c.Op, s.labels[c.Pin.Cid.String()], s.idx[c.By])
		}
	})
}
