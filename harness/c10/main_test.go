package c10

import (
	"testing"

	"verif/harness/lib/ev"
)

var R *ev.Run

func TestMain(m *testing.M) {
	R = ev.New("C10", "exploration")
	ev.Main(m.Run, R)
}
