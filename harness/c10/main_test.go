// Package c10 decides C10 (peer failure or removal re-homes under-replicated
// pins once and drops none; expired pins are unpinned by exactly one peer) by
// exhaustive enumeration of a bounded input space on real ipfscluster.Cluster
// peers inside testing/synctest bubbles: n real peers share a recording
// in-memory consensus (agreeing peerset, everybody trusted), each has an
// injectable monitor (real metrics.Store, harness-fed alert channel) and the
// real allocator. The oracle is written from the property text
// (oracle_test.go).
package c10

import (
	"encoding/json"
	"fmt"
	"os"
	"strconv"
	"strings"
	"testing"
	"time"

	"verif/harness/lib/ev"
)

var R *ev.Run

func TestMain(m *testing.M) {
	// "exploration": the decided space is a finite product of inputs (pinsets x
	// peersets x failed peer x metric pictures x configuration x trigger), each
	// point executed once on the real code and judged; there is no state graph
	// and no transition relation to explore, so "model_checking" would overstate it.
	R = ev.New("C10", "exploration")
	R.Rule("one evaluation = one case (peerset, failed/removed peer, pinset, metric picture, configuration flags, trigger, shared|snapshot pinset) executed on real Cluster peers in a bubble until quiescence and judged by the text oracle; cases are enumerated by nested loops over the stated alphabets (no sampling); a case is non-trivial when the failed peer holds at least one pin of the pinset (expiry: at least one pin is expired); distinct_nontrivial counts distinct (configuration, trigger, per-pin class: kind/|alloc|/factors/held/healthy holders/candidates/expectation, observed outcome) signatures")
	R.Assume("members agree on the peerset and trust each other (the property's precondition): one in-memory consensus state shared by all peers; mode 'snapshot' gives every peer a private copy of the same pinset, i.e. every peer decides before any other peer's write becomes visible")
	R.Assume("every survivor's monitor holds the same metric picture; alerts are injected by the harness (when an alert is raised is C09's subject); the failed peer runs no alert handler")
	R.Assume("consensus writes succeed and are applied immediately to the state they are logged to; pin tracker and IPFS are not involved (NoTrack)")
	R.Assume("failure cases use at most 3 pins per pinset, replication factors <= 3, peersets of 1..5 peers (quick) / 1..8 (thorough); identities are fixed Ed25519 keys clus.Key(base+i)")
	R.Assume("fake clock (testing/synctest): no time passes during a case, metric expiry and pin expiry are fixed relative to the frozen instant")
	ev.Main(m.Run, R)
}

type unit struct {
	name string
	run  func(t *testing.T, name string)
}

func fs(n int, f string) []int {
	if f != "*" {
		x, _ := strconv.Atoi(f)
		return []int{x}
	}
	var l []int
	for i := 0; i < n; i++ {
		l = append(l, i)
	}
	return l
}

// units lists the work units of the tier, biggest first.
func units() []unit {
	var us []unit
	maxN := 5
	if ev.Thorough() {
		maxN = 8
	}
	addNF := func(kind string, n int, f string, run func(t *testing.T, name string, n, f int)) {
		name := fmt.Sprintf("%s|n=%d|f=%s", kind, n, f)
		us = append(us, unit{name, func(t *testing.T, name string) {
			for _, x := range fs(n, f) {
				run(t, name, n, x)
			}
		}})
	}
	single := func(t *testing.T, name string, n, f int) { runSingle(t, name, n, f) }
	pinsets3 := func(t *testing.T, name string, n, f int) { runPinsets(t, name, n, f, 3) }
	// biggest first
	for n := maxN; n >= 4; n-- {
		for f := 0; f < n; f++ {
			addNF("single", n, strconv.Itoa(f), single)
		}
	}
	for n := maxN; n >= 3; n-- {
		for f := 0; f < n; f++ {
			addNF("pinsets", n, strconv.Itoa(f), pinsets3)
		}
	}
	addNF("pinsets", 2, "*", pinsets3)
	for n := 3; n >= 1; n-- {
		addNF("single", n, "*", single)
	}
	// closest-peer partition on alternative identity sets
	nsets, salts, pmax := 6, 8, 8
	if ev.Thorough() {
		nsets, salts = 20, 24
	}
	var ns []int
	for n := 2; n <= pmax; n++ {
		ns = append(ns, n)
	}
	for k := 0; k <= nsets; k++ {
		base := 100 * k
		us = append(us, unit{fmt.Sprintf("partition|ids=%d", base), func(t *testing.T, name string) { runPartition(t, name, base, ns, salts) }})
	}
	dmax := 4
	if ev.Thorough() {
		dmax = 6
	}
	us = append(us, unit{"disabled-ping", func(t *testing.T, name string) { runDisabledPing(t, name, dmax) }})
	for n := 1; n <= maxN; n++ {
		bases := []int{0, 100}
		es := 2
		if ev.Thorough() {
			bases = []int{0, 100, 200, 300, 400}
			es = 4
		}
		us = append(us, unit{fmt.Sprintf("expiry|n=%d", n), func(t *testing.T, name string) { runExpiry(t, name, n, bases, es) }})
	}
	return us
}

// TestExplore runs every unit in a child process (a panic inside a Cluster
// goroutine must become a violation, not a dead check), 4 at a time.
func TestExplore(t *testing.T) {
	if p := os.Getenv("VERIF_REPLAY"); p != "" {
		replay(t, p)
		return
	}
	us := units()
	if u := ev.ChildUnit(); u != "" {
		for _, x := range us {
			if x.name == u {
				x.run(t, x.name)
				return
			}
		}
		t.Fatalf("unknown unit %q", u)
	}
	only := os.Getenv("C10_UNIT")
	var names []string
	for _, x := range us {
		if only == "" || strings.HasPrefix(x.name, only) {
			names = append(names, x.name)
		}
	}
	per := 6 * time.Minute
	if ev.Thorough() {
		per = 60 * time.Minute
	}
	R.Note("units", len(names))
	R.RunChildren("TestExplore", names, 4, per)
}

// replay re-executes the case stored in a replay artefact and prints the verdicts.
func replay(t *testing.T, path string) {
	b, err := os.ReadFile(path)
	if err != nil {
		t.Fatal(err)
	}
	var art struct {
		Key    string `json:"key"`
		Detail struct {
			Case   *caseIn     `json:"case"`
			Expiry *expiryCase `json:"expiry_case"`
		} `json:"detail"`
	}
	if err := json.Unmarshal(b, &art); err != nil {
		t.Fatal(err)
	}
	sec := R.Sec("replay")
	switch {
	case art.Detail.Case != nil:
		c := art.Detail.Case
		bubble(t, c.IDBase, c.N, c.Disable, c.Follower, func(s *sim) {
			o := s.runAlertCase(c)
			fmt.Printf("REPLAY %s\n  calls: %+v\n", art.Key, o.Calls)
			for _, ps := range c.Pins {
				fmt.Printf("  %s before: %s\n  %s after:  %s\n", ps.Label, o.Before[ps.Label].sig(), ps.Label, o.After[ps.Label][0].sig())
			}
			evalCase(sec, c, o)
		})
	case art.Detail.Expiry != nil:
		c := art.Detail.Expiry
		bubble(t, c.IDBase, c.N, c.Disable, c.Follower, func(s *sim) {
			o, specs := s.runExpiryCase(c)
			fmt.Printf("REPLAY %s\n  calls: %+v\n", art.Key, o.Calls)
			R.Eval(sec, art.Key, true)
			for _, v := range judgeExpiry(c, o, specs) {
				R.Violation(v.Key, map[string]interface{}{"expiry_case": c, "expected": v.Expect, "observed": v.Got, "log_calls": o.Calls})
			}
		})
	default:
		t.Fatalf("no case in %s", path)
	}
}
