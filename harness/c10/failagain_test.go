package c10

import (
	"context"
	"fmt"
	"testing"
	"testing/synctest"
	"time"

	ipfscluster "github.com/ipfs/ipfs-cluster"
	"github.com/ipfs/ipfs-cluster/api"
	"github.com/ipfs/ipfs-cluster/monitor/pubsubmon"

	peer "github.com/libp2p/go-libp2p-core/peer"
	pubsub "github.com/libp2p/go-libp2p-pubsub"

	"verif/harness/lib/clus"
)

// A peer can fail more than once in the lifetime of the peers watching it.
// The peer under test runs the real pubsubmon.Monitor with its failure
// checker on the fake clock. One of the other peers (the victim) lets its
// metrics run out, is re-homed away from, comes back (publishes again, and
// pins are allocated to it again), and fails again - three rounds. After
// every failure each pin the victim held for which this peer is the
// responsible survivor must have been re-homed onto healthy peers other than
// the victim.
func TestFailRecoverFailAgain(t *testing.T) {
	sec := R.Sec("fail-recover-fail-again(real pubsubmon + checker)")
	const n = 4
	const rounds = 3
	const npins = 8
	cases := 0
	for victim := 1; victim < n; victim++ {
		for _, renew := range []string{"once", "twice"} {
			victim, renew := victim, renew
			var bad []string
			broken := ""
			nontrivial := false
			rehomed := map[int]map[int]bool{}
			clus.Bubble(t, func(t *testing.T) {
				ctx := context.Background()
				_, hosts := clus.NewMocknet(ctx, 0, 1)
				h := hosts[0]
				defer h.Close()
				ids := []peer.ID{h.ID()}
				for i := 1; i < n; i++ {
					ids = append(ids, clus.PID(60+i))
				}
				idx := map[peer.ID]int{}
				for i, id := range ids {
					idx[id] = i
				}
				sh := clus.NewShared(ids)
				cons := clus.NewMemConsensus(h.ID(), sh)
				cons.NoTrack = true
				pctx, pcancel := context.WithCancel(ctx)
				defer pcancel()
				ps, err := pubsub.NewGossipSub(pctx, h)
				if err != nil {
					broken = err.Error()
					return
				}
				mc := &pubsubmon.Config{}
				mc.Default()
				mon, err := pubsubmon.New(ctx, mc, ps, func(ctx context.Context) ([]peer.ID, error) { return cons.Peers(ctx) })
				if err != nil {
					broken = err.Error()
					return
				}
				p, err := clus.NewPeer(ctx, &clus.PeerParts{Host: h, Consensus: cons, Shared: sh, Monitor: mon, Informers: []ipfscluster.Informer{quietInf{}},
					Cfg: func(c *ipfscluster.Config) {
						c.ReplicationFactorMin, c.ReplicationFactorMax = 2, 2
						c.DisableRepinning = false
						c.MonitorPingInterval = 100000 * time.Hour
					}})
				if err != nil {
					broken = err.Error()
					return
				}
				defer p.Stop()
				<-p.C.Ready()
				synctest.Wait()
				logm := func(i int, name string, ttl time.Duration) {
					m := &api.Metric{Name: name, Peer: ids[i], Value: fmt.Sprint(1000 + 10*i), Valid: true}
					m.SetTTL(ttl)
					mon.LogMetric(ctx, m)
				}
				// the survivors' allocation metrics last for the whole history;
				// only the local peer (by itself) and the victim publish pings
				for i := 0; i < n; i++ {
					if i != victim {
						logm(i, informerMetric, 1000*time.Hour)
					}
				}
				for r := 1; r <= rounds; r++ {
					// the victim is healthy: it publishes (once, or renewing
					// once more before going silent) and gets a pin of its own
					logm(victim, informerMetric, 30*time.Second)
					logm(victim, pingMetric, 30*time.Second)
					if renew == "twice" {
						time.Sleep(20 * time.Second)
						synctest.Wait()
						logm(victim, informerMetric, 30*time.Second)
						logm(victim, pingMetric, 30*time.Second)
					}
					// eight pins on the victim and one survivor each (the same
					// CIDs in every round, written afresh)
					for j := 0; j < npins; j++ {
						other := (victim + 1 + j) % n
						if other == victim {
							other = (other + 1) % n
						}
						l := fmt.Sprintf("again-%d", j)
						pin := api.PinWithOpts(clus.Cid(l), api.PinOptions{Name: l, ReplicationFactorMin: 2, ReplicationFactorMax: 2})
						pin.Allocations = []peer.ID{ids[victim], ids[other]}
						if err := sh.State.Add(ctx, pin); err != nil {
							broken = err.Error()
							return
						}
					}
					// the victim goes silent: its metrics run out and several
					// checks of the failure detector go by
					time.Sleep(2 * time.Minute)
					synctest.Wait()
					rehomed[r] = map[int]bool{}
					for j := 0; j < npins; j++ {
						l := fmt.Sprintf("again-%d", j)
						got, err := sh.State.Get(ctx, clus.Cid(l))
						if err != nil {
							bad = append(bad, fmt.Sprintf("after failure %d: pin %s dropped", r, l))
							continue
						}
						healthy, hasVictim := 0, false
						for _, a := range got.Allocations {
							if idx[a] == victim {
								hasVictim = true
							} else {
								healthy++
							}
						}
						if !hasVictim && healthy >= 2 {
							rehomed[r][j] = true
						}
					}
				}
				// Which of the pins this peer is responsible for depends on
				// the CID and the surviving members only, so it is the same in
				// every round: what was re-homed after the first failure must
				// be re-homed after every later one.
				nontrivial = len(rehomed[1]) > 0
				for r := 2; r <= rounds; r++ {
					for j := 0; j < npins; j++ {
						if rehomed[1][j] && !rehomed[r][j] {
							bad = append(bad, fmt.Sprintf("pin again-%d (on peer %d and one survivor, 2/2) was re-homed by this peer after failure 1 of peer %d but not after failure %d", j, victim, victim, r))
						}
					}
				}
			})
			if broken != "" {
				R.Broken("fail-recover-fail section: %s", broken)
				return
			}
			cases++
			R.Eval(sec, fmt.Sprintf("victim=%d|renew=%s|rehomed-here=%d|violations=%d", victim, renew, len(rehomed[1]), len(bad)), nontrivial)
			if len(bad) > 0 {
				R.Violation("C10|fail-recover-fail|real-pubsubmon|pin-of-a-failed-peer-not-rehomed", map[string]interface{}{
					"peers": n, "victim": victim, "rounds": rounds, "victim_renews": renew,
					"history": "per round: victim publishes ping+freespace (TTL 30s), eight 2/2 pins are written with allocations victim+one survivor, 2 minutes pass without renewal", "problems": bad})
			}
		}
	}
	sec.Bounds["cases"] = fmt.Sprintf("%d: every non-local victim x {publishes once, renews once} x 3 rounds of fail/recover; 4 peers, eight 2/2 pins per round on the victim and one survivor; oracle: the pins this peer re-homed after the first failure are re-homed after every later one", cases)
}
