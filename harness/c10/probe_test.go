package c10

import (
	"context"
	"fmt"
	"os"
	"testing"
	"testing/synctest"
	"time"

	ipfscluster "github.com/ipfs/ipfs-cluster"
	"github.com/ipfs/ipfs-cluster/api"
	"github.com/ipfs/ipfs-cluster/monitor/metrics"

	peer "github.com/libp2p/go-libp2p-core/peer"

	"verif/harness/lib/clus"
)

func TestProbe(t *testing.T) {
	if os.Getenv("C10_PROBE") == "" {
		t.Skip()
	}
	for _, N := range []int{0, 2000} {
	t0 := time.Now()
	synctest.Test(t, func(t *testing.T) {
		ctx := context.Background()
		n := 5
		_, hosts := clus.NewMocknet(ctx, 0, n)
		var ids []peer.ID
		for _, h := range hosts {
			ids = append(ids, h.ID())
		}
		shared := clus.NewShared(ids)
		var peers []*clus.Peer
		var mons []*clus.Mon
		var cons []*clus.MemConsensus
		for _, h := range hosts {
			mc := clus.NewMemConsensus(h.ID(), shared)
			mc.NoTrack = true
			mon := clus.NewMon()
			p, err := clus.NewPeer(ctx, &clus.PeerParts{Host: h, Consensus: mc, Monitor: mon, Cfg: func(c *ipfscluster.Config) {
				c.ReplicationFactorMin = 1
				c.ReplicationFactorMax = 1
			}})
			if err != nil {
				t.Fatal(err)
			}
			<-p.C.Ready()
			peers = append(peers, p)
			mons = append(mons, mon)
			cons = append(cons, mc)
		}
		synctest.Wait()
		fmt.Println("setup", time.Since(t0), "fake now", time.Now())
		t1 := time.Now()
		acted := 0
		for k := 0; k < N; k++ {
			sh := clus.NewShared(ids)
			pin := api.PinCid(clus.Cid(fmt.Sprint("x", k)))
			pin.ReplicationFactorMin = 1
			pin.ReplicationFactorMax = 2
			pin.Allocations = []peer.ID{ids[0]}
			sh.State.Add(ctx, pin)
			for i := range peers {
				cons[i].S = sh
				mons[i].Store = metrics.NewStore()
				for j := 1; j < n; j++ {
					m := &api.Metric{Name: "freespace", Peer: ids[j], Value: "10", Valid: true}
					m.SetTTL(30 * time.Second)
					mons[i].LogMetric(ctx, m)
				}
			}
			for i := 1; i < n; i++ {
				mons[i].AlertCh <- &api.Alert{Metric: api.Metric{Name: "ping", Peer: ids[0]}, TriggeredAt: time.Now()}
			}
			synctest.Wait()
			acted += len(sh.Calls())
			if k == 0 {
				for _, c := range sh.Calls() {
					fmt.Println(c.Op, c.By, c.Pin.Allocations)
				}
			}
		}
		fmt.Println("cases", N, time.Since(t1), "acted", acted, "fake now", time.Now())
		for i, p := range peers {
			p.Stop()
			hosts[i].Close()
		}
	})
	fmt.Println("total", N, time.Since(t0))
	}
}
