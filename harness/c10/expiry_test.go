package c10

import (
	"fmt"
	cid "github.com/ipfs/go-cid"
	cbor "github.com/ipfs/go-ipld-cbor"
	mh "github.com/multiformats/go-multihash"
	"testing"
	"testing/synctest"

	"github.com/ipfs/ipfs-cluster/api"
)

// expiryCase is one case of the expiry sweep: every peer of an n-peer cluster
// (nobody failed) runs Cluster.StateSync over a pinset of three data pins.
type expiryCase struct {
	Unit     string `json:"unit"`
	IDBase   int    `json:"id_base"`
	N        int    `json:"n"`
	Disable  bool   `json:"disable_repinning"`
	Follower bool   `json:"follower_mode"`
	Expire   [3]int `json:"expire_h"` // per pin: 0 none, -1 one hour ago, +1 in one hour
	Salt     int    `json:"cid_salt"`
	Style    string `json:"alloc_style"` // one | everywhere
	Mode     string `json:"mode"`        // seq | rev (shared pinset, peers in index order / reversed) | snapshot (private copies)
}

func (s *sim) runExpiryCase(c *expiryCase) (*outcome, []pinSpec) {
	o := &outcome{Before: map[string]entry{}, After: map[string][]entry{}, Called: -1}
	var specs []pinSpec
	var pins []*api.Pin
	for k := 0; k < 3; k++ {
		ps := pinSpec{Kind: "exp", Label: fmt.Sprintf("exp-%d-%d", c.Salt, k), Depth: -1, Min: 1, Max: 1, Alloc: []int{k % c.N}, Expire: c.Expire[k]}
		if c.Style == "everywhere" {
			ps.Min, ps.Max, ps.Alloc = -1, -1, nil
		}
		if c.Style == "sharded" && k == 0 {
			// the first item is sharded content added with an expiry: the
			// options of the add (and so the expiry) are on the meta pin,
			// the cluster-DAG pin and the shard pin alike
			sh := pinSpec{Kind: "exp-shard", Type: "shard", Label: ps.Label + "-shard", Depth: 1, Min: 1, Max: 1, Alloc: []int{0}, Expire: c.Expire[0]}
			dl := ps.Label + "-cdag"
			node, err := cbor.WrapObject(map[string]cid.Cid{"0": s.cidOf(sh.Label)}, mh.SHA2_256, mh.DefaultLengths[mh.SHA2_256])
			if err != nil {
				panic(err)
			}
			s.special[dl] = node.Cid()
			s.blocks[node.Cid().String()] = node.RawData()
			cd := pinSpec{Kind: "exp-cdag", Type: "cdag", Label: dl, Depth: 0, Min: -1, Max: -1, Ref: ps.Label, Expire: c.Expire[0]}
			ps.Kind, ps.Type, ps.Depth, ps.Ref = "exp-meta", "meta", 0, dl
			ps.Alloc = nil
			specs = append(specs, sh, cd)
			pins = append(pins, s.mkPin(sh), s.mkPin(cd))
		}
		specs = append(specs, ps)
		pins = append(pins, s.mkPin(ps))
	}
	mode := "shared"
	if c.Mode == "snapshot" {
		mode = "snapshot"
	}
	shs := s.states(mode, pins)
	for _, ps := range specs {
		o.Before[ps.Label] = s.get(shs[0], s.cidOf(ps.Label))
	}
	for k := 0; k < c.N; k++ {
		i := k
		if c.Mode == "rev" {
			i = c.N - 1 - k
		}
		if msg := guard(func() { s.peers[i].C.StateSync(s.ctx) }); msg != "" {
			o.Panic = msg
		}
		synctest.Wait()
	}
	s.collect(shs, specs, o)
	return o, specs
}

func judgeExpiry(c *expiryCase, o *outcome, specs []pinSpec) []verdict {
	var vs []verdict
	add := func(symptom, expect, got string) {
		vs = append(vs, verdict{Key: fmt.Sprintf("C10|expiry|%s|%s", c.Mode, symptom), Expect: expect, Got: got})
	}
	if o.Panic != "" {
		add("panic", "no panic", o.Panic)
	}
	for _, ps := range specs {
		unpins := callsOf(o, ps.Label, "unpin")
		switch {
		case ps.Expire < 0 && c.Follower:
			if len(unpins) > 0 {
				add("follower-unpinned-an-expired-pin", "no LogUnpin by a follower", fmt.Sprintf("%+v", unpins))
			}
		case ps.Expire < 0:
			// "by exactly one peer": the unpin of sharded content logs the
			// meta entry twice within the one operation (once as part of
			// the cluster-DAG's contents, once as the item itself)
			by := map[int]bool{}
			for _, u := range unpins {
				by[u.By] = true
			}
			if len(unpins) == 0 {
				add("expired-pin-not-unpinned", "unpinned by exactly one peer", "none")
			} else if len(by) > 1 {
				add("expired-pin-unpinned-by-several-peers", "unpinned by exactly one peer", fmt.Sprintf("%+v", unpins))
			}
		default:
			if len(unpins) > 0 {
				add("unexpired-pin-unpinned", "no LogUnpin", fmt.Sprintf("%+v", unpins))
			}
			for _, a := range o.After[ps.Label] {
				if !a.Present {
					add("unexpired-pin-gone", o.Before[ps.Label].sig(), "<absent>")
					break
				}
			}
		}
	}
	return vs
}

func runExpiry(t *testing.T, unit string, n int, bases []int, salts int) {
	sec := R.Sec(unit)
	sec.Bounds["peers"] = n
	sec.Bounds["identity_sets"] = bases
	sec.Bounds["pinset"] = fmt.Sprintf("3 items, ExpireAt in {none, now-1h, now+1h}^3, %d CID sets: data pins allocated to one peer | everywhere | the first item sharded content (meta pin + cluster-DAG pin + one shard pin, all carrying the item's expiry; the daemon serves the cluster-DAG block)", salts)
	sec.Bounds["run"] = "every peer runs StateSync once: on the shared pinset in index order, in reverse order, and on private snapshots of the pinset"
	sec.Bounds["config"] = "disable_repinning {F,T} x follower {F,T}"
	for _, base := range bases {
		for _, cfg := range []struct{ dis, fol bool }{{false, false}, {true, false}, {false, true}, {true, true}} {
			bubble(t, base, n, cfg.dis, cfg.fol, func(s *sim) {
				for e := 0; e < 27; e++ {
					ex := [3]int{e%3 - 1, (e/3)%3 - 1, (e/9)%3 - 1}
					for salt := 0; salt < salts; salt++ {
						for _, style := range []string{"one", "everywhere", "sharded"} {
							for _, mode := range []string{"seq", "rev", "snapshot"} {
								c := &expiryCase{Unit: unit, IDBase: base, N: n, Disable: cfg.dis, Follower: cfg.fol, Expire: ex, Salt: salt, Style: style, Mode: mode}
								o, specs := s.runExpiryCase(c)
								nexp := 0
								ob := ""
								for _, ps := range specs {
									if ps.Expire < 0 {
										nexp++
									}
									ob += fmt.Sprintf("%d>%d,", ps.Expire, len(callsOf(o, ps.Label, "unpin")))
								}
								R.Eval(sec, fmt.Sprintf("expiry|n%d|fol=%v|dis=%v|%s|%s|%s", n, cfg.fol, cfg.dis, style, mode, ob), nexp > 0)
								R.Outcome(sec, fmt.Sprintf("follower=%v expired=%d unpin-calls=%d", cfg.fol, nexp, len(o.Calls)))
								for _, v := range judgeExpiry(c, o, specs) {
									R.Violation(v.Key, map[string]interface{}{"expiry_case": c, "expected": v.Expect, "observed": v.Got, "log_calls": o.Calls})
								}
								if nexp > 0 && !cfg.fol {
									R.SampleTagged("expiry/"+mode, 1, map[string]interface{}{"case": c, "log_calls": o.Calls})
								}
							}
						}
					}
				}
			})
		}
	}
}
