package c10

import (
	"fmt"
	"strings"
)

// The oracle is written from the property TEXT:
//
//   When a peer is declared failed or is removed and re-pinning is enabled,
//   every pin it held whose healthy holders fell below the minimum is
//   re-allocated to healthy peers other than the failed one, by exactly one
//   surviving peer, with all of the pin's options preserved; pins that still
//   meet their minimum, and all pins when re-pinning is disabled or the peer is
//   a follower, are left untouched, and no pin is ever removed by this process.
//
// "healthy" = has a valid, unexpired informer metric in the monitors' view and
// is not the failed peer. Where the text is silent (a re-allocation that cannot
// find enough healthy peers fails and changes nothing: that is C03's business;
// pins not held by the failed peer that were already below their minimum; pins
// whose expiry has passed and that wait for the sweep) the oracle only keeps
// the clauses that still apply (never removed; if re-logged then to healthy
// peers other than the failed one with the options preserved).

type verdict struct {
	Key    string
	Expect string
	Got    string
}

// pinClass is the oracle's classification of one pin of a case.
type pinClass struct {
	HeldByF    bool
	Everywhere bool
	Healthy    int // healthy holders (failed peer not counted when it is declared failed/removed)
	Candidates int // healthy non-holders other than the failed peer
	MeetsMin   bool
	Feasible   bool
	Expect     string // untouched | rehomed | silent
}

func healthySet(c *caseIn, failedCounts bool) map[int]bool {
	h := map[int]bool{}
	for i := 0; i < c.N; i++ {
		if c.Health[i] != 'v' {
			continue
		}
		if i == c.F && !failedCounts {
			continue
		}
		h[i] = true
	}
	return h
}

func classify(c *caseIn, ps pinSpec) pinClass {
	declared := c.Trigger != "nonping" // ping alert or removal: the peer is declared failed / removed
	h := healthySet(c, !declared)
	var k pinClass
	k.Everywhere = ps.Min < 0 && ps.Max < 0
	inAlloc := map[int]bool{}
	for _, a := range ps.Alloc {
		inAlloc[a] = true
		if a == c.F {
			k.HeldByF = true
		}
		if h[a] {
			k.Healthy++
		}
	}
	for i := range h {
		if !inAlloc[i] && i != c.F {
			k.Candidates++
		}
	}
	k.MeetsMin = k.Everywhere || ps.Type == "meta" || k.Healthy >= ps.Min
	k.Feasible = k.Healthy+k.Candidates >= ps.Min
	enabled := !c.Disable && !c.Follower
	switch {
	case !enabled:
		k.Expect = "untouched"
	case k.MeetsMin:
		k.Expect = "untouched"
	case !declared:
		k.Expect = "silent" // below minimum but nobody was declared failed
	case !k.HeldByF:
		k.Expect = "silent" // below minimum for reasons other than this failure
	case ps.Expire < 0:
		k.Expect = "silent" // expired pin waiting for the sweep
	case !k.Feasible:
		k.Expect = "silent" // not enough healthy peers: the request fails, nothing changes (C03)
	default:
		k.Expect = "rehomed"
	}
	return k
}

func trigClass(t string) string {
	if strings.HasPrefix(t, "remove@") {
		return "remove"
	}
	if strings.HasSuffix(t, "+ping") {
		return "ping(after " + strings.TrimSuffix(t, "+ping") + ")"
	}
	return t
}

// judge applies the oracle to one executed case and returns the violations.
func judge(c *caseIn, o *outcome) []verdict {
	var vs []verdict
	tc := trigClass(c.Trigger)
	add := func(kind, symptom, expect, got string) {
		vs = append(vs, verdict{Key: fmt.Sprintf("C10|%s|%s|%s", tc, kind, symptom), Expect: expect, Got: got})
	}
	if o.Panic != "" {
		add("any", "panic", "no panic", o.Panic)
	}
	enabled := !c.Disable && !c.Follower
	known := map[string]bool{}
	for _, ps := range c.Pins {
		known[ps.Label] = true
	}
	for _, lc := range o.Calls {
		if !known[lc.Label] && lc.Op == "unpin" {
			add("any", "unpin-of-a-cid-outside-the-pinset", "no LogUnpin", fmt.Sprintf("%+v", lc))
		}
	}
	healthy := healthySet(c, false)
	for _, ps := range c.Pins {
		k := classify(c, ps)
		before := o.Before[ps.Label]
		pins := callsOf(o, ps.Label, "pin")
		unpins := callsOf(o, ps.Label, "unpin")

		// no pin is ever removed by this process
		if len(unpins) > 0 {
			add(ps.Kind, "unpinned", "no LogUnpin", fmt.Sprintf("%+v", unpins))
		}
		missing := false
		for _, a := range o.After[ps.Label] {
			if !a.Present {
				missing = true
			}
		}
		if missing {
			add(ps.Kind, "entry-gone", before.sig(), "<absent>")
			continue
		}
		// disabled / follower: no LogPin at all
		if !enabled && len(pins) > 0 {
			why := "repinning-disabled"
			if c.Follower {
				why = "follower"
			}
			add(ps.Kind, "logpin-while-"+why, "no LogPin", fmt.Sprintf("%+v", pins))
		}
		changed := ""
		for _, a := range o.After[ps.Label] {
			if a.sig() != before.sig() {
				changed = a.sig()
			}
		}
		switch k.Expect {
		case "untouched":
			if changed != "" {
				sym := "touched-though-it-meets-its-minimum"
				if !enabled {
					sym = "touched-though-disabled-or-follower"
				} else if tc == "nonping" {
					sym = "touched-on-a-non-ping-alert"
				}
				add(ps.Kind, sym, before.sig(), changed)
			}
		case "rehomed":
			if len(pins) == 0 {
				add(ps.Kind, "not-rehomed", "exactly one LogPin re-allocating it", "no LogPin; entry "+o.After[ps.Label][0].sig())
				continue
			}
			if len(pins) > 1 {
				add(ps.Kind, "rehomed-more-than-once", "exactly one LogPin in total", fmt.Sprintf("%+v", pins))
			}
			for _, lc := range pins {
				if lc.By == c.F && o.Called != c.F {
					add(ps.Kind, "rehomed-by-the-failed-peer", "a surviving peer", fmt.Sprintf("%+v", lc))
				}
				if o.Called >= 0 && lc.By != o.Called {
					add(ps.Kind, "rehomed-by-a-peer-that-was-not-asked", fmt.Sprint(o.Called), fmt.Sprintf("%+v", lc))
				}
			}
			vs = append(vs, judgeNew(c, ps, k, before, o, healthy, tc, true)...)
		case "silent":
			if len(pins) > 0 {
				vs = append(vs, judgeNew(c, ps, k, before, o, healthy, tc, false)...)
			}
		}
	}
	return vs
}

// judgeNew checks the entries a re-logged pin ended up with: allocations are
// healthy peers other than the failed one (enough of them when mustReach), all
// other fields identical to the old entry.
func judgeNew(c *caseIn, ps pinSpec, k pinClass, before entry, o *outcome, healthy map[int]bool, tc string, mustReach bool) []verdict {
	var vs []verdict
	add := func(symptom, expect, got string) {
		vs = append(vs, verdict{Key: fmt.Sprintf("C10|%s|%s|%s", tc, ps.Kind, symptom), Expect: expect, Got: got})
	}
	nchanged := 0
	for _, a := range o.After[ps.Label] {
		if a.sig() != before.sig() {
			nchanged++
		}
	}
	if mustReach && nchanged == 0 {
		add("relogged-with-the-old-allocations", "new allocations", before.sig())
	}
	for _, a := range o.After[ps.Label] {
		if a.sig() == before.sig() {
			continue
		}
		bad, hasF, n := false, false, 0
		for _, x := range a.Alloc {
			if x == c.F {
				hasF = true
			} else if !healthy[x] {
				bad = true
			} else {
				n++
			}
		}
		if hasF {
			add("new-allocations-contain-the-failed-peer", "allocations without peer "+fmt.Sprint(c.F), a.allocSig())
		}
		if bad {
			add("new-allocations-contain-an-unhealthy-peer", "only healthy peers", a.allocSig()+" health="+c.Health)
		}
		if mustReach && n < ps.Min {
			add("new-allocations-below-minimum", fmt.Sprintf(">= %d healthy holders", ps.Min), a.allocSig())
		}
		if d := diffOpts(before, a); len(d) > 0 {
			add("options-changed:"+strings.Join(d, ","), before.optsSig(), a.optsSig())
		}
	}
	return vs
}
