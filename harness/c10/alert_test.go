package c10

import (
	"fmt"
	"math/bits"
	"sort"
	"strings"
	"testing"
	"testing/synctest"

	"verif/harness/lib/ev"
)

// ---------------------------------------------------------------- running & reporting one case

// observed summarises what happened to one pin (for signatures and outcomes).
func observed(o *outcome, ps pinSpec) string {
	before := o.Before[ps.Label]
	np, nu := len(callsOf(o, ps.Label, "pin")), len(callsOf(o, ps.Label, "unpin"))
	changed := false
	for _, a := range o.After[ps.Label] {
		if a.sig() != before.sig() {
			changed = true
		}
	}
	switch {
	case nu > 0:
		return "unpinned"
	case np == 0:
		return "no-log"
	case !changed:
		return "relogged-identical"
	case np == 1:
		return "rehomed-once"
	default:
		return "rehomed-many"
	}
}

// evalCase runs the oracle on an executed case and reports it.
func evalCase(sec *ev.Section, c *caseIn, o *outcome) {
	nontrivial := false
	var parts []string
	for _, ps := range c.Pins {
		k := classify(c, ps)
		if k.HeldByF {
			nontrivial = true
		}
		ob := observed(o, ps)
		parts = append(parts, fmt.Sprintf("%s%s:a%d:%d/%d:f%v:h%d:c%d:%s>%s", ps.Kind, ps.Source, len(ps.Alloc), ps.Min, ps.Max, k.HeldByF, k.Healthy, k.Candidates, k.Expect, ob))
		R.Outcome(sec, "expect="+k.Expect+" observed="+ob)
	}
	sort.Strings(parts)
	sig := fmt.Sprintf("n%d|dis=%v|fol=%v|%s|%s|fm=%c|%s", c.N, c.Disable, c.Follower, trigClass(c.Trigger), c.Mode, c.Health[c.F], strings.Join(parts, ","))
	R.Eval(sec, sig, nontrivial)
	vs := judge(c, o)
	for _, v := range vs {
		R.Violation(v.Key, map[string]interface{}{
			"case": c, "expected": v.Expect, "observed": v.Got, "log_calls": o.Calls,
			"how_to_replay": "/verif/vcheck C10 quick --replay <absolute path of this file>",
		})
	}
	if nontrivial {
		R.SampleTagged(strings.SplitN(c.Unit, "|", 2)[0]+"/"+trigClass(c.Trigger), 1, map[string]interface{}{"case": c, "log_calls": o.Calls})
	}
}

// bubble runs body inside a fresh bubble with n running peers.
func bubble(t *testing.T, base, n int, disable, follower bool, body func(s *sim)) {
	synctest.Test(t, func(t *testing.T) {
		s := newSim(t, base, n, disable, follower)
		body(s)
		s.stop()
	})
}

// ---------------------------------------------------------------- health vectors

// healthVectors enumerates the metric pictures for the single-pin space:
// every survivor valid or expired, the failed peer's own informer metric
// still valid or gone (2^n vectors).
func healthVectors(n, f int) []string {
	var out []string
	for m := 0; m < 1<<uint(n); m++ {
		b := make([]byte, n)
		for i := 0; i < n; i++ {
			switch {
			case i == f && m&(1<<uint(i)) != 0:
				b[i] = 'a'
			case m&(1<<uint(i)) != 0:
				b[i] = 'e'
			default:
				b[i] = 'v'
			}
		}
		out = append(out, string(b))
	}
	return out
}

func survivors(n, f int) []int {
	var s []int
	for i := 0; i < n; i++ {
		if i != f {
			s = append(s, i)
		}
	}
	return s
}

// ---------------------------------------------------------------- unit: single pin, exhaustive

type rf struct{ min, max int }

// singlePins enumerates every single-pin pinset over n peers: every allocation
// set of 1..3 peers with every replication pair 1<=min<=max<=3 that admits it,
// plus the pin-everywhere pin.
func singlePins(n int) []pinSpec {
	var out []pinSpec
	out = append(out, pinSpec{Kind: "everywhere", Label: "single", Depth: -1, Min: -1, Max: -1})
	for m := 1; m < 1<<uint(n); m++ {
		sz := bits.OnesCount(uint(m))
		if sz > 3 {
			continue
		}
		var alloc []int
		for i := 0; i < n; i++ {
			if m&(1<<uint(i)) != 0 {
				alloc = append(alloc, i)
			}
		}
		for _, r := range []rf{{1, 1}, {1, 2}, {2, 2}, {1, 3}, {2, 3}, {3, 3}} {
			if sz > r.max {
				continue
			}
			out = append(out, pinSpec{Kind: "plain", Label: "single", Depth: -1, Min: r.min, Max: r.max, Alloc: alloc})
		}
	}
	return out
}

func holds(ps pinSpec, f int) bool {
	for _, a := range ps.Alloc {
		if a == f {
			return true
		}
	}
	return false
}

type trig struct{ trigger, mode string }

func runSingle(t *testing.T, unit string, n, f int) {
	sec := R.Sec(unit)
	sec.Bounds["peers"] = n
	sec.Bounds["failed_peer_index"] = f
	sec.Bounds["pinset"] = "every single pin: allocations = every set of 1..3 of the n peers x (min,max) in 1<=min<=max<=3 with |alloc|<=max, plus pin-everywhere"
	sec.Bounds["metrics"] = "every survivor valid|expired x failed peer's informer metric valid|absent (all 2^n pictures)"
	sec.Bounds["config"] = "repinning enabled & not follower: all triggers {ping, ping twice, ping after an earlier ping alert on an empty pinset, ping after an earlier ping alert during which reading the shared state failed, ping on private snapshots, non-ping alert, PeerRemove at first survivor, PeerRemove at the removed peer}; follower: same triggers, 3 metric pictures (all valid, none valid, first survivor expired); repinning disabled: non-ping alert and PeerRemove, same 3 pictures (ping alerts with repinning disabled: unit disabled-ping)"
	surv := survivors(n, f)
	pins := singlePins(n)
	hv := healthVectors(n, f)
	for _, cfg := range []struct{ dis, fol bool }{{false, false}, {false, true}, {true, false}, {true, true}} {
		full := !cfg.dis && !cfg.fol
		bubble(t, 0, n, cfg.dis, cfg.fol, func(s *sim) {
			var trigs, trigsLite []trig
			if len(surv) > 0 {
				if !cfg.dis {
					trigs = append(trigs, trig{"ping", "shared"}, trig{"ping", "snapshot"}, trig{"ping2", "shared"}, trig{"idleping+ping", "shared"}, trig{"stateerr+ping", "shared"})
					trigsLite = append(trigsLite, trig{"ping", "shared"})
				}
				trigs = append(trigs, trig{"nonping", "shared"}, trig{fmt.Sprintf("remove@%d", surv[0]), "shared"})
				trigsLite = append(trigsLite, trig{fmt.Sprintf("remove@%d", surv[0]), "shared"})
			}
			trigs = append(trigs, trig{fmt.Sprintf("remove@%d", f), "shared"})
			hs := hv
			if !full {
				allv := strings.Repeat("v", n)
				alle := []byte(strings.Repeat("e", n))
				alle[f] = 'a'
				hs = []string{allv, string(alle)}
				if n > 2 {
					one := []byte(allv)
					one[surv[0]] = 'e'
					hs = append(hs, string(one))
				}
			}
			for _, ps := range pins {
				tl := trigs
				if !holds(ps, f) {
					tl = trigsLite // nothing to decide for this pin: fewer triggers
					if len(tl) == 0 {
						tl = trigs
					}
				}
				for _, h := range hs {
					for _, tr := range tl {
						c := &caseIn{Unit: unit, N: n, F: f, Disable: cfg.dis, Follower: cfg.fol, Pins: []pinSpec{ps}, Health: h, Trigger: tr.trigger, Mode: tr.mode}
						evalCase(sec, c, s.runAlertCase(c))
					}
				}
			}
		})
	}
}

// ---------------------------------------------------------------- unit: pinsets of <= 3 pins from the kinds

// kinds builds the pin alphabet for (n, f): s0, s1 are the first survivors.
func kinds(n, f int) []pinSpec {
	sv := survivors(n, f)
	first := func(k int) []int {
		if k > len(sv) {
			k = len(sv)
		}
		return append([]int{}, sv[:k]...)
	}
	withF := func(k int) []int { return append([]int{f}, first(k)...) }
	ks := []pinSpec{
		{Kind: "nof", Depth: -1, Min: 1, Max: 2, Alloc: first(2)},
		{Kind: "f-ok", Depth: -1, Min: 1, Max: 3, Alloc: withF(2)},
		{Kind: "f-under1", Depth: -1, Min: 1, Max: 1, Alloc: []int{f}},
		{Kind: "f-under2", Depth: -1, Min: 2, Max: 3, Alloc: withF(1)},
		{Kind: "everywhere", Depth: -1, Min: -1, Max: -1},
		{Kind: "upd", Depth: -1, Min: 1, Max: 2, Alloc: []int{f}, Name: "updated-pin", Meta: 1, Update: "?"},
		{Kind: "allopts", Depth: -1, Min: 1, Max: 2, Alloc: []int{f}, Name: "all-options", Meta: 2, Expire: 1, Origins: 2, Shard: 4096},
		{Kind: "allopts-noorigins", Depth: -1, Min: 1, Max: 2, Alloc: []int{f}, Name: "all-options", Meta: 2, Expire: 1, Shard: 4096},
		{Kind: "direct", Depth: 0, Min: 1, Max: 1, Alloc: []int{f}},
		{Kind: "meta", Type: "meta", Depth: 0, Min: 1, Max: 2, Name: "sharded", Ref: "cdag-of-meta"},
		{Kind: "shard-depth1", Type: "shard", Depth: 1, Min: 1, Max: 1, Alloc: []int{f}, Name: "sharded-shard-0", Shard: 1 << 20, Ref: "prev-shard"},
		{Kind: "shard-depth2", Type: "shard", Depth: 2, Min: 1, Max: 1, Alloc: []int{f}, Name: "sharded-shard-1", Shard: 1 << 20, Ref: "prev-shard"},
		{Kind: "cdag-everywhere", Type: "cdag", Depth: 0, Min: -1, Max: -1, Name: "sharded-clusterDAG", Ref: "meta-of-cdag"},
		{Kind: "cdag-allocated", Type: "cdag", Depth: 0, Min: 1, Max: 1, Alloc: []int{f}, Name: "sharded-clusterDAG", Ref: "meta-of-cdag"},
		{Kind: "expired", Depth: -1, Min: 1, Max: 1, Alloc: []int{f}, Expire: -1},
	}
	for i := range ks {
		ks[i].Label = "pin-" + ks[i].Kind
	}
	return ks
}

// bindUpdate resolves the source of a pin created by pin-update: the first
// other data pin of the pinset, or a CID that is no longer in the pinset.
func bindUpdate(set []pinSpec) []pinSpec {
	out := append([]pinSpec{}, set...)
	for i := range out {
		if out[i].Update != "?" {
			continue
		}
		out[i].Update = "unpinned-source"
		out[i].Kind = "created-by-pin-update"
		out[i].Source = "absent"
		for j := range out {
			if j != i && out[j].Type == "" && out[j].Update == "" {
				out[i].Update = out[j].Label
				out[i].Source = out[j].Kind
				break
			}
		}
	}
	return out
}

// subsetsUpTo3 enumerates all subsets of 1..3 elements of 0..k-1, smallest
// sets first (so that the first counterexample recorded for a key is small).
func subsetsUpTo3(k int, f func(idx []int)) {
	for a := 0; a < k; a++ {
		f([]int{a})
	}
	for a := 0; a < k; a++ {
		for b := a + 1; b < k; b++ {
			f([]int{a, b})
		}
	}
	for a := 0; a < k; a++ {
		for b := a + 1; b < k; b++ {
			for c := b + 1; c < k; c++ {
				f([]int{a, b, c})
			}
		}
	}
}

// pinsetHealth returns the metric pictures used with pinsets.
func pinsetHealth(n, f int) []string {
	sv := survivors(n, f)
	mk := func(def byte, fm byte, over map[int]byte) string {
		b := []byte(strings.Repeat(string(def), n))
		b[f] = fm
		for i, c := range over {
			b[i] = c
		}
		return string(b)
	}
	hs := []string{mk('v', 'v', nil), mk('v', 'v', map[int]byte{sv[0]: 'e'})}
	if len(sv) > 1 {
		hs = append(hs, mk('v', 'a', map[int]byte{sv[0]: 'a', sv[1]: 'i'}))
		hs = append(hs, mk('e', 'a', map[int]byte{sv[len(sv)-1]: 'v'}))
	}
	hs = append(hs, mk('e', 'a', nil))
	return hs
}

func runPinsets(t *testing.T, unit string, n, f, maxSize int) {
	sec := R.Sec(unit)
	sec.Bounds["peers"] = n
	sec.Bounds["failed_peer_index"] = f
	ks := kinds(n, f)
	var names []string
	for _, k := range ks {
		names = append(names, k.Kind)
	}
	sec.Bounds["pin_kinds"] = names
	sec.Bounds["pinset"] = fmt.Sprintf("every set of 1..%d distinct kinds (a pin-update pin takes the first other data pin of the set as its source, or an absent source)", maxSize)
	sec.Bounds["metrics"] = "all valid; first survivor expired; first survivor absent + second invalid; only last survivor valid; none valid"
	sec.Bounds["config"] = "enabled & not follower: {ping, ping on private snapshots, non-ping, PeerRemove at last survivor}; follower: {ping, PeerRemove}; disabled: {non-ping, PeerRemove}"
	sv := survivors(n, f)
	hs := pinsetHealth(n, f)
	for _, cfg := range []struct{ dis, fol bool }{{false, false}, {false, true}, {true, false}} {
		full := !cfg.dis && !cfg.fol
		bubble(t, 0, n, cfg.dis, cfg.fol, func(s *sim) {
			rm := fmt.Sprintf("remove@%d", sv[len(sv)-1])
			var trigs []trig
			switch {
			case full:
				trigs = []trig{{"ping", "shared"}, {"ping", "snapshot"}, {"nonping", "shared"}, {rm, "shared"}}
			case cfg.fol:
				trigs = []trig{{"ping", "shared"}, {rm, "shared"}}
			default:
				trigs = []trig{{"nonping", "shared"}, {rm, "shared"}}
			}
			hh := hs
			ms := maxSize
			if !full {
				hh = hs[:1]
				if ms > 2 {
					ms = 2
				}
			}
			subsetsUpTo3(len(ks), func(idx []int) {
				if len(idx) > ms {
					return
				}
				var set []pinSpec
				for _, i := range idx {
					set = append(set, ks[i])
				}
				set = bindUpdate(set)
				for _, h := range hh {
					for _, tr := range trigs {
						c := &caseIn{Unit: unit, N: n, F: f, Disable: cfg.dis, Follower: cfg.fol, Pins: set, Health: h, Trigger: tr.trigger, Mode: tr.mode}
						evalCase(sec, c, s.runAlertCase(c))
					}
				}
			})
		})
	}
}

// ---------------------------------------------------------------- unit: closest-peer partition over identity sets

func runPartition(t *testing.T, unit string, base int, ns []int, salts int) {
	sec := R.Sec(unit)
	sec.Bounds["identity_set"] = fmt.Sprintf("clus.Key(%d+i)", base)
	sec.Bounds["peers"] = ns
	sec.Bounds["pinset"] = fmt.Sprintf("%d pinsets of 3 pins held only by the failed peer (min=max=1), different CIDs each", salts)
	sec.Bounds["trigger"] = "ping alert at every survivor, deciding on private snapshots of the pinset (and once on the shared pinset), all survivors healthy; every failed peer"
	for _, n := range ns {
		bubble(t, base, n, false, false, func(s *sim) {
			for f := 0; f < n; f++ {
				actors := map[int]bool{}
				for j := 0; j < salts; j++ {
					var set []pinSpec
					for k := 0; k < 3; k++ {
						set = append(set, pinSpec{Kind: "f-under1", Label: fmt.Sprintf("part-%d-%d", j, k), Depth: -1, Min: 1, Max: 1, Alloc: []int{f}})
					}
					for _, mode := range []string{"snapshot", "shared"} {
						if mode == "shared" && j > 0 {
							continue
						}
						c := &caseIn{Unit: unit, IDBase: base, N: n, F: f, Pins: set, Health: strings.Repeat("v", n), Trigger: "ping", Mode: mode}
						o := s.runAlertCase(c)
						evalCase(sec, c, o)
						for _, lc := range o.Calls {
							actors[lc.By] = true
						}
					}
				}
				R.Outcome(sec, fmt.Sprintf("n=%d distinct-acting-survivors=%d", n, len(actors)))
			}
		})
	}
}

// ---------------------------------------------------------------- unit: ping alerts with re-pinning disabled

// With re-pinning disabled the alert handler of a peer ends at its first ping
// alert, so every case gets fresh peers.
func runDisabledPing(t *testing.T, unit string, maxN int) {
	sec := R.Sec(unit)
	sec.Bounds["peers"] = fmt.Sprintf("2..%d, every failed peer", maxN)
	sec.Bounds["pinset"] = "the pin kinds in consecutive triples (every kind once), all survivors healthy; fresh peers per case"
	sec.Bounds["config"] = "repinning disabled x follower {F,T}; trigger: ping alert at every survivor"
	for n := 2; n <= maxN; n++ {
		for f := 0; f < n; f++ {
			ks := kinds(n, f)
			for i := 0; i < len(ks); i += 3 {
				j := i + 3
				if j > len(ks) {
					j = len(ks)
				}
				set := bindUpdate(ks[i:j])
				for _, fol := range []bool{false, true} {
					if fol && (f != 0 || i > 3) {
						continue
					}
					bubble(t, 0, n, true, fol, func(s *sim) {
						c := &caseIn{Unit: unit, N: n, F: f, Disable: true, Follower: fol, Pins: set, Health: strings.Repeat("v", n), Trigger: "ping", Mode: "shared"}
						evalCase(sec, c, s.runAlertCase(c))
					})
				}
			}
		}
	}
}
