package c10

import (
	"context"
	"errors"
	"fmt"
	"sort"
	"strings"
	"testing"
	"testing/synctest"
	"time"

	ipfscluster "github.com/ipfs/ipfs-cluster"
	"github.com/ipfs/ipfs-cluster/api"
	"github.com/ipfs/ipfs-cluster/monitor/metrics"

	cid "github.com/ipfs/go-cid"
	host "github.com/libp2p/go-libp2p-core/host"
	peer "github.com/libp2p/go-libp2p-core/peer"
	ma "github.com/multiformats/go-multiaddr"

	"verif/harness/lib/clus"
)

// informerMetric is the name of the metric the allocator reads (the default
// informer of clus.NewPeer); pingMetric is the repository's ping metric name.
const (
	informerMetric = "freespace"
	pingMetric     = "ping"
)

// ---------------------------------------------------------------- inputs

// pinSpec is one entry of the shared pinset before the event, in terms of peer
// indexes (JSON-able: it is the replay artefact).
type pinSpec struct {
	Kind    string `json:"kind"`
	Label   string `json:"cid_label"`
	Type    string `json:"type,omitempty"` // "" = data, meta, shard, cdag
	Depth   int    `json:"max_depth"`      // -1 recursive
	Min     int    `json:"rmin"`
	Max     int    `json:"rmax"`
	Alloc   []int  `json:"alloc"` // peer indexes
	Name    string `json:"name,omitempty"`
	Meta    int    `json:"metadata_keys,omitempty"`
	Expire  int    `json:"expire_h,omitempty"` // hours from now; 0 = none
	Origins int    `json:"origins,omitempty"`
	Shard   uint64 `json:"shard_size,omitempty"`
	Update  string `json:"pin_update_label,omitempty"` // label of the source CID
	Source  string `json:"pin_update_source_kind,omitempty"`
	Ref     string `json:"reference_label,omitempty"`
}

// caseIn is one enumerated case of the failure/removal process.
type caseIn struct {
	Unit     string    `json:"unit"`
	IDBase   int       `json:"id_base"` // peers are clus.Key(IDBase+i)
	N        int       `json:"n"`
	F        int       `json:"failed"` // index of the failed / removed peer
	Disable  bool      `json:"disable_repinning"`
	Follower bool      `json:"follower_mode"`
	Pins     []pinSpec `json:"pins"`
	// Health has one char per peer index: v valid metric, e expired metric,
	// i metric with Valid=false, a no metric (for index F: what the survivors'
	// monitors still hold for the failed peer).
	Health  string `json:"health"`
	Trigger string `json:"trigger"` // ping | ping2 | nonping | remove@<idx>
	Mode    string `json:"mode"`    // shared | snapshot
}

// ---------------------------------------------------------------- canonical entries

// entry is the canonical content of a pinset entry as read back from the state.
type entry struct {
	Present bool
	Alloc   []int // peer indexes, sorted; -1 = a peer outside the peerset
	Opts    map[string]string
}

func (e entry) allocSig() string { return fmt.Sprint(e.Alloc) }

func optFields() []string {
	return []string{"type", "max_depth", "reference", "rmin", "rmax", "name", "mode", "shard_size", "user_allocations", "expire_at", "metadata", "pin_update", "origins"}
}

func (e entry) optsSig() string {
	var b strings.Builder
	for _, k := range optFields() {
		b.WriteString(k + "=" + e.Opts[k] + ";")
	}
	return b.String()
}

func (e entry) sig() string {
	if !e.Present {
		return "<absent>"
	}
	return "alloc=" + e.allocSig() + ";" + e.optsSig()
}

func diffOpts(a, b entry) []string {
	var d []string
	for _, k := range optFields() {
		if a.Opts[k] != b.Opts[k] {
			d = append(d, k)
		}
	}
	return d
}

// ---------------------------------------------------------------- the simulated cluster

type sim struct {
	t        *testing.T
	ctx      context.Context
	base, n  int
	disable  bool
	follower bool
	hosts    []host.Host
	ids      []peer.ID
	idx      map[peer.ID]int
	peers    []*clus.Peer
	mons     []*clus.Mon
	cons     []*clus.MemConsensus
	labels   map[string]string  // cid string -> label
	special  map[string]cid.Cid // label -> CID that is not derived from the label (cluster-DAG nodes)
	blocks   map[string][]byte  // cid string -> block served by every peer's model daemon
}

// newSim starts n real Cluster peers (identities Key(base..base+n-1)) inside
// the current bubble, all with the same configuration flags.
func newSim(t *testing.T, base, n int, disable, follower bool) *sim {
	s := &sim{t: t, ctx: context.Background(), base: base, n: n, disable: disable, follower: follower,
		idx: map[peer.ID]int{}, labels: map[string]string{}, special: map[string]cid.Cid{}, blocks: map[string][]byte{}}
	_, s.hosts = clus.NewMocknet(s.ctx, base, n)
	for i, h := range s.hosts {
		s.ids = append(s.ids, h.ID())
		s.idx[h.ID()] = i
	}
	boot := clus.NewShared(s.ids)
	for _, h := range s.hosts {
		mc := clus.NewMemConsensus(h.ID(), boot)
		mc.NoTrack = true
		mon := clus.NewMon()
		model := clus.NewIPFS()
		model.BlockGetF = func(c cid.Cid) ([]byte, error) {
			if b, ok := s.blocks[c.String()]; ok {
				return b, nil
			}
			return nil, errors.New("model ipfs: block not found")
		}
		p, err := clus.NewPeer(s.ctx, &clus.PeerParts{Host: h, Consensus: mc, Monitor: mon, IPFS: model, Cfg: func(c *ipfscluster.Config) {
			c.ReplicationFactorMin = 1
			c.ReplicationFactorMax = 1
			c.DisableRepinning = disable
			c.FollowerMode = follower
		}})
		if err != nil {
			t.Fatalf("NewPeer: %v", err)
		}
		<-p.C.Ready()
		s.peers = append(s.peers, p)
		s.mons = append(s.mons, mon)
		s.cons = append(s.cons, mc)
	}
	synctest.Wait()
	return s
}

func (s *sim) stop() {
	for i, p := range s.peers {
		p.Stop()
		s.hosts[i].Close()
	}
	synctest.Wait()
}

func (s *sim) cidOf(label string) cid.Cid {
	c, ok := s.special[label]
	if !ok {
		c = clus.Cid(label)
	}
	s.labels[c.String()] = label
	return c
}

// mkPin builds the api.Pin of a spec.
func (s *sim) mkPin(ps pinSpec) *api.Pin {
	p := api.PinCid(s.cidOf(ps.Label))
	switch ps.Type {
	case "meta":
		p.Type = api.MetaType
	case "shard":
		p.Type = api.ShardType
	case "cdag":
		p.Type = api.ClusterDAGType
	}
	p.MaxDepth = api.PinDepth(ps.Depth)
	p.Mode = p.MaxDepth.ToPinMode()
	p.ReplicationFactorMin, p.ReplicationFactorMax = ps.Min, ps.Max
	p.Allocations = []peer.ID{}
	for _, i := range ps.Alloc {
		p.Allocations = append(p.Allocations, s.ids[i])
	}
	p.Name = ps.Name
	if ps.Meta > 0 {
		p.Metadata = map[string]string{}
		for k := 0; k < ps.Meta; k++ {
			p.Metadata[fmt.Sprintf("key%d", k)] = fmt.Sprintf("value-%s-%d", ps.Kind, k)
		}
	}
	if ps.Expire != 0 {
		p.ExpireAt = time.Now().Add(time.Duration(ps.Expire) * time.Hour).Truncate(time.Second)
	}
	for k := 0; k < ps.Origins; k++ {
		a, err := ma.NewMultiaddr(fmt.Sprintf("/ip4/192.168.7.%d/tcp/4001", k+1))
		if err != nil {
			panic(err)
		}
		p.Origins = append(p.Origins, a)
	}
	p.ShardSize = ps.Shard
	if ps.Update != "" {
		p.PinUpdate = s.cidOf(ps.Update)
	}
	if ps.Ref != "" {
		r := s.cidOf(ps.Ref)
		p.Reference = &r
	}
	return p
}

// canon reads a pin back into its canonical entry.
func (s *sim) canon(p *api.Pin) entry {
	e := entry{Present: true, Opts: map[string]string{}}
	for _, a := range p.Allocations {
		i, ok := s.idx[a]
		if !ok {
			i = -1
		}
		e.Alloc = append(e.Alloc, i)
	}
	sort.Ints(e.Alloc)
	lab := func(c cid.Cid) string {
		if !c.Defined() {
			return ""
		}
		if l, ok := s.labels[c.String()]; ok {
			return l
		}
		return c.String()
	}
	e.Opts["type"] = p.Type.String()
	e.Opts["max_depth"] = fmt.Sprint(int(p.MaxDepth))
	if p.Reference != nil {
		e.Opts["reference"] = lab(*p.Reference)
	}
	e.Opts["rmin"] = fmt.Sprint(p.ReplicationFactorMin)
	e.Opts["rmax"] = fmt.Sprint(p.ReplicationFactorMax)
	e.Opts["name"] = p.Name
	e.Opts["mode"] = p.Mode.String()
	e.Opts["shard_size"] = fmt.Sprint(p.ShardSize)
	ua := api.PeersToStrings(p.UserAllocations)
	sort.Strings(ua)
	e.Opts["user_allocations"] = strings.Join(ua, ",")
	if !p.ExpireAt.IsZero() {
		e.Opts["expire_at"] = fmt.Sprint(p.ExpireAt.Unix())
	}
	var mk []string
	for k, v := range p.Metadata {
		mk = append(mk, k+"="+v)
	}
	sort.Strings(mk)
	e.Opts["metadata"] = strings.Join(mk, ",")
	e.Opts["pin_update"] = lab(p.PinUpdate)
	var og []string
	for _, o := range p.Origins {
		og = append(og, o.String())
	}
	sort.Strings(og)
	e.Opts["origins"] = strings.Join(og, ",")
	return e
}

func (s *sim) get(sh *clus.Shared, c cid.Cid) entry {
	p, err := sh.State.Get(s.ctx, c)
	if err != nil || p == nil {
		return entry{}
	}
	return s.canon(p)
}

// setMetrics gives every peer's monitor the same metric picture.
func (s *sim) setMetrics(health string) {
	for i := range s.peers {
		st := metrics.NewStore()
		for j := 0; j < s.n; j++ {
			m := &api.Metric{Name: informerMetric, Peer: s.ids[j], Value: fmt.Sprint(1000 + 10*j), Valid: true}
			switch health[j] {
			case 'v':
				m.SetTTL(30 * time.Second)
			case 'e':
				m.SetTTL(-time.Second)
			case 'i':
				m.Valid = false
				m.SetTTL(30 * time.Second)
			default:
				continue
			}
			if health[j] != 'v' {
				// the unusable metric is the latest of two: an older one,
				// valid and still unexpired, sits below it in the window
				// (what counts is the most recent one)
				old := &api.Metric{Name: informerMetric, Peer: s.ids[j], Value: fmt.Sprint(5000 + 10*j), Valid: true}
				old.SetTTL(30 * time.Second)
				st.Add(old)
			}
			st.Add(m)
		}
		s.mons[i].Store = st
	}
}

// logged is one LogPin/LogUnpin that reached the (shared or per-peer) consensus.
type logged struct {
	Op    string `json:"op"`
	By    int    `json:"by_peer"`
	Label string `json:"cid_label"`
	Alloc []int  `json:"allocations"`
}

// outcome is everything observed for one case.
type outcome struct {
	Before map[string]entry   // label -> entry before
	After  map[string][]entry // label -> entry after, in every distinct state copy
	Calls  []logged
	Panic  string
	Called int // peer index PeerRemove was called at, -1
}

func callsOf(o *outcome, label, op string) []logged {
	var l []logged
	for _, c := range o.Calls {
		if c.Label == label && c.Op == op {
			l = append(l, c)
		}
	}
	return l
}

// guard runs f and turns a panic of the code under test into a string.
func guard(f func()) (msg string) {
	defer func() {
		if r := recover(); r != nil {
			msg = fmt.Sprint(r)
		}
	}()
	f()
	return ""
}

// states installs fresh pinset state(s) holding pins: one shared by all peers
// (mode shared), or one private copy per peer (mode snapshot: every peer
// decides on the same pinset before any other peer's write is visible).
func (s *sim) states(mode string, pins []*api.Pin) []*clus.Shared {
	k := 1
	if mode == "snapshot" {
		k = s.n
	}
	shs := make([]*clus.Shared, k)
	for j := range shs {
		sh := clus.NewShared(s.ids)
		for _, p := range pins {
			cp := *p
			if err := sh.State.Add(s.ctx, &cp); err != nil {
				s.t.Fatalf("state.Add: %v", err)
			}
		}
		shs[j] = sh
	}
	for i := range s.cons {
		if k == 1 {
			s.cons[i].S = shs[0]
		} else {
			s.cons[i].S = shs[i]
		}
	}
	return shs
}

func (s *sim) collect(shs []*clus.Shared, specs []pinSpec, o *outcome) {
	for _, sh := range shs {
		for _, c := range sh.Calls() {
			lc := logged{Op: c.Op, By: s.idx[c.By], Label: s.labels[c.Pin.Cid.String()]}
			if lc.Label == "" {
				lc.Label = c.Pin.Cid.String()
			}
			for _, a := range c.Pin.Allocations {
				i, ok := s.idx[a]
				if !ok {
					i = -1
				}
				lc.Alloc = append(lc.Alloc, i)
			}
			sort.Ints(lc.Alloc)
			o.Calls = append(o.Calls, lc)
		}
	}
	for _, ps := range specs {
		for _, sh := range shs {
			o.After[ps.Label] = append(o.After[ps.Label], s.get(sh, s.cidOf(ps.Label)))
		}
	}
}

// runAlertCase executes one failure/removal case on the running peers.
func (s *sim) runAlertCase(c *caseIn) *outcome {
	o := &outcome{Before: map[string]entry{}, After: map[string][]entry{}, Called: -1}
	var pins []*api.Pin
	for _, ps := range c.Pins {
		pins = append(pins, s.mkPin(ps))
	}
	failed := s.ids[c.F]
	prelude := func() {
		// an earlier ping alert that gives the peers nothing to do: the
		// pinset is empty (idleping+ping), or reading the shared state fails
		// just then (stateerr+ping). The alert that counts comes afterwards.
		for i := range s.peers {
			if i == c.F {
				continue
			}
			a := &api.Alert{Metric: api.Metric{Name: pingMetric, Peer: failed, Valid: false}, TriggeredAt: time.Now()}
			a.Metric.SetTTL(-time.Second)
			select {
			case s.mons[i].AlertCh <- a:
			default:
			}
		}
		synctest.Wait()
	}
	if c.Trigger == "idleping+ping" {
		s.states(c.Mode, nil)
		s.setMetrics(c.Health)
		prelude()
	}
	shs := s.states(c.Mode, pins)
	for _, ps := range c.Pins {
		o.Before[ps.Label] = s.get(shs[0], s.cidOf(ps.Label))
	}
	s.setMetrics(c.Health)
	if c.Trigger == "stateerr+ping" {
		for _, sh := range shs {
			sh.StateErrs = len(s.peers)
		}
		prelude()
		for _, sh := range shs {
			sh.StateErrs = 0
		}
	}

	deliver := func(name string) {
		for i := range s.peers {
			if i == c.F {
				continue
			}
			a := &api.Alert{Metric: api.Metric{Name: name, Peer: failed, Valid: false}, TriggeredAt: time.Now()}
			a.Metric.SetTTL(-time.Second)
			select {
			case s.mons[i].AlertCh <- a:
			default:
				// the peer's alert handler is gone and nobody reads any more:
				// make room (the cases judge the consequences by themselves)
				for len(s.mons[i].AlertCh) > 0 {
					<-s.mons[i].AlertCh
				}
				s.mons[i].AlertCh <- a
			}
		}
		synctest.Wait()
	}
	switch {
	case c.Trigger == "ping", c.Trigger == "idleping+ping", c.Trigger == "stateerr+ping":
		deliver(pingMetric)
	case c.Trigger == "ping2":
		deliver(pingMetric)
		deliver(pingMetric)
	case c.Trigger == "nonping":
		deliver(informerMetric)
	case strings.HasPrefix(c.Trigger, "remove@"):
		var at int
		fmt.Sscanf(c.Trigger, "remove@%d", &at)
		o.Called = at
		o.Panic = guard(func() { s.peers[at].C.PeerRemove(s.ctx, failed) })
		synctest.Wait()
	default:
		s.t.Fatalf("unknown trigger %q", c.Trigger)
	}
	s.collect(shs, c.Pins, o)
	return o
}
