package c10

import (
	"context"
	"fmt"
	"sort"
	"testing"
	"testing/synctest"
	"time"

	ipfscluster "github.com/ipfs/ipfs-cluster"
	"github.com/ipfs/ipfs-cluster/api"
	"github.com/ipfs/ipfs-cluster/monitor/pubsubmon"

	peer "github.com/libp2p/go-libp2p-core/peer"
	rpc "github.com/libp2p/go-libp2p-gorpc"
	pubsub "github.com/libp2p/go-libp2p-pubsub"

	"verif/harness/lib/clus"
)

// The other units give the peers an injectable monitor. Here the peer under
// test runs the real pubsubmon.Monitor with the consensus peerset as its
// peerset provider (what a Raft peer runs), and two peers are removed one
// right after the other: the pins of the second must be re-homed onto peers
// that are still members - not onto the peer removed a moment earlier, whose
// last metric is still fresh.

type quietInf struct{}

func (quietInf) SetClient(*rpc.Client)          {}
func (quietInf) Shutdown(context.Context) error { return nil }
func (quietInf) Name() string                   { return informerMetric }
func (quietInf) GetMetric(context.Context) *api.Metric {
	m := &api.Metric{Name: informerMetric, Value: "0", Valid: false}
	m.SetTTL(time.Hour)
	return m
}

func TestTwoRemovalsBackToBack(t *testing.T) {
	sec := R.Sec("two-removals-back-to-back(real pubsubmon)")
	const n = 5
	cases := 0
	for first := 1; first < n; first++ {
		for second := 1; second < n; second++ {
			if first == second {
				continue
			}
			first, second := first, second
			var after map[string][]int
			var members map[int]bool
			broken := ""
			clus.Bubble(t, func(t *testing.T) {
				ctx := context.Background()
				_, hosts := clus.NewMocknet(ctx, 0, 1)
				h := hosts[0]
				defer h.Close()
				ids := []peer.ID{h.ID()}
				for i := 1; i < n; i++ {
					ids = append(ids, clus.PID(40+i))
				}
				idx := map[peer.ID]int{}
				for i, id := range ids {
					idx[id] = i
				}
				sh := clus.NewShared(ids)
				cons := clus.NewMemConsensus(h.ID(), sh)
				cons.NoTrack = true
				pctx, pcancel := context.WithCancel(ctx)
				defer pcancel()
				ps, err := pubsub.NewGossipSub(pctx, h)
				if err != nil {
					broken = err.Error()
					return
				}
				mc := &pubsubmon.Config{}
				mc.Default()
				mon, err := pubsubmon.New(ctx, mc, ps, func(ctx context.Context) ([]peer.ID, error) { return cons.Peers(ctx) })
				if err != nil {
					broken = err.Error()
					return
				}
				p, err := clus.NewPeer(ctx, &clus.PeerParts{Host: h, Consensus: cons, Shared: sh, Monitor: mon, Informers: []ipfscluster.Informer{quietInf{}},
					Cfg: func(c *ipfscluster.Config) {
						c.ReplicationFactorMin, c.ReplicationFactorMax = 2, 2
						c.DisableRepinning = false
						c.MonitorPingInterval = 100000 * time.Hour
					}})
				if err != nil {
					broken = err.Error()
					return
				}
				defer p.Stop()
				<-p.C.Ready()
				synctest.Wait()
				for i, id := range ids {
					for _, name := range []string{informerMetric, pingMetric} {
						m := &api.Metric{Name: name, Peer: id, Value: fmt.Sprint(1000 + 10*i), Valid: true}
						m.SetTTL(time.Hour)
						mon.LogMetric(ctx, m)
					}
				}
				// one pin (2/2) on every pair of peers
				var labels []string
				for a := 0; a < n; a++ {
					for b := a + 1; b < n; b++ {
						l := fmt.Sprintf("pair-%d-%d", a, b)
						labels = append(labels, l)
						pin := api.PinWithOpts(clus.Cid(l), api.PinOptions{Name: l, ReplicationFactorMin: 2, ReplicationFactorMax: 2})
						pin.Allocations = []peer.ID{ids[a], ids[b]}
						if err := sh.State.Add(ctx, pin); err != nil {
							broken = err.Error()
							return
						}
					}
				}
				// a look at the metrics before anything happens (a monitor that
				// remembers what it saw then must not go on using it)
				mon.LatestMetrics(ctx, informerMetric)
				if err := p.C.PeerRemove(ctx, ids[first]); err != nil {
					broken = "first PeerRemove: " + err.Error()
					return
				}
				synctest.Wait()
				if err := p.C.PeerRemove(ctx, ids[second]); err != nil {
					broken = "second PeerRemove: " + err.Error()
					return
				}
				synctest.Wait()
				after = map[string][]int{}
				for _, l := range labels {
					pin, err := sh.State.Get(ctx, clus.Cid(l))
					if err != nil {
						after[l] = nil
						continue
					}
					var al []int
					for _, a := range pin.Allocations {
						al = append(al, idx[a])
					}
					sort.Ints(al)
					after[l] = al
				}
				members = map[int]bool{}
				ms, _ := cons.Peers(ctx)
				for _, m := range ms {
					members[idx[m]] = true
				}
			})
			if broken != "" {
				R.Broken("two-removals section: %s", broken)
				return
			}
			cases++
			var bad []string
			for l, al := range after {
				if al == nil {
					bad = append(bad, l+": pin dropped")
					continue
				}
				nm := 0
				for _, a := range al {
					if members[a] {
						nm++
					} else {
						bad = append(bad, fmt.Sprintf("%s: allocated to peer %d, which is not a member any more (allocations %v)", l, a, al))
					}
				}
				if nm < 2 && len(bad) == 0 {
					bad = append(bad, fmt.Sprintf("%s: fewer than min member holders: %v", l, al))
				}
			}
			sort.Strings(bad)
			R.Eval(sec, fmt.Sprintf("remove=%d,then=%d|violations=%d", first, second, len(bad)), true)
			if len(bad) > 0 {
				R.Violation("C10|remove-then-remove|real-pubsubmon|rehomed-onto-a-peer-that-has-left", map[string]interface{}{
					"peers": n, "removed_first": first, "removed_second": second, "remaining_members": fmt.Sprint(members),
					"pinset": "one pin (2/2) on every pair of the 5 peers", "problems": bad})
			}
		}
	}
	sec.Bounds["cases"] = fmt.Sprintf("%d: every ordered pair of distinct non-local peers removed back to back at the local peer; 5 peers, one pin (2/2) per pair of peers, every metric valid for 1h", cases)
}
