package c14

import (
	"fmt"
	"os"
	"path/filepath"
	"sort"
	"strings"
	"testing"
	"time"

	"github.com/ipfs/ipfs-cluster/pstoremgr"
	"github.com/ipfs/ipfs-cluster/test"

	libp2p "github.com/libp2p/go-libp2p"
	crypto "github.com/libp2p/go-libp2p-core/crypto"
	host "github.com/libp2p/go-libp2p-core/host"
	peer "github.com/libp2p/go-libp2p-core/peer"
	peerstore "github.com/libp2p/go-libp2p-core/peerstore"
	ma "github.com/multiformats/go-multiaddr"

	"verif/harness/lib/ev"
)

// Part (c): the peerstore file.

var psPeers = []peer.ID{test.PeerID1, test.PeerID2, test.PeerID3}

// address kinds of one peer (without the /p2p part)
var addrKinds = []string{"ip4", "dns4", "ip6", "two", "dns+ip"}

func kindAddrs(kind string, i int) []string {
	switch kind {
	case "ip4":
		return []string{fmt.Sprintf("/ip4/10.0.0.%d/tcp/9096", i+1)}
	case "dns4":
		return []string{fmt.Sprintf("/dns4/peer%d.cluster.example.org/tcp/9096", i+1)}
	case "ip6":
		return []string{fmt.Sprintf("/ip6/fd00::%d/tcp/9096", i+1)}
	case "two":
		return []string{fmt.Sprintf("/ip4/10.0.1.%d/tcp/9096", i+1), fmt.Sprintf("/ip6/fd00::1:%d/tcp/9097", i+1)}
	case "dns+ip":
		return []string{fmt.Sprintf("/dns4/mixed%d.cluster.example.org/tcp/9096", i+1), fmt.Sprintf("/ip4/10.0.2.%d/tcp/9096", i+1)}
	}
	panic(kind)
}

func newPlainHost() (host.Host, error) {
	priv, _, err := crypto.GenerateKeyPair(crypto.Ed25519, 0)
	if err != nil {
		return nil, err
	}
	return libp2p.New(bg, libp2p.Identity(priv), libp2p.NoListenAddrs)
}

func permutations(n int) [][]int {
	var out [][]int
	var rec func(cur []int, used []bool)
	rec = func(cur []int, used []bool) {
		if len(cur) == n {
			out = append(out, append([]int(nil), cur...))
			return
		}
		for i := 0; i < n; i++ {
			if !used[i] {
				used[i] = true
				rec(append(cur, i), used)
				used[i] = false
			}
		}
	}
	rec(nil, make([]bool, n))
	return out
}

func tuples(k, n int) [][]int {
	out := [][]int{{}}
	for i := 0; i < k; i++ {
		var next [][]int
		for _, t := range out {
			for v := 0; v < n; v++ {
				next = append(next, append(append([]int(nil), t...), v))
			}
		}
		out = next
	}
	return out
}

// canonical rendering of a list of AddrInfos: ordered peers, address sets
func renderInfos(pis []peer.AddrInfo) []string {
	var out []string
	for _, pi := range pis {
		var as []string
		for _, a := range pi.Addrs {
			if a == nil {
				as = append(as, "<nil>")
			} else {
				as = append(as, a.String())
			}
		}
		sort.Strings(as)
		out = append(out, peer.Encode(pi.ID)+" "+strings.Join(as, " "))
	}
	return out
}

// groupLoaded turns the flat list returned by LoadPeerstore into ordered
// per-peer blocks (adjacent lines of the same peer collapse).
func groupLoaded(addrs []ma.Multiaddr) (infos []peer.AddrInfo, nils int, bad []string) {
	for _, a := range addrs {
		if a == nil {
			nils++
			continue
		}
		pi, err := peer.AddrInfoFromP2pAddr(a)
		if err != nil {
			bad = append(bad, a.String())
			continue
		}
		if n := len(infos); n > 0 && infos[n-1].ID == pi.ID {
			infos[n-1].Addrs = append(infos[n-1].Addrs, pi.Addrs...)
		} else {
			infos = append(infos, *pi)
		}
	}
	return
}

func TestPeerstoreRoundTrip(t *testing.T) {
	t.Parallel()
	sec := R.Sec("c1:peerstore save>load/import")
	nk := 4
	if ev.Thorough() {
		nk = 5
	}
	kinds := addrKinds[:nk]
	sec.Bounds["peers"] = "1..3"
	sec.Bounds["address_kinds_per_peer"] = kinds
	sec.Bounds["priorities"] = "every permutation of distinct priority values {0,7,9999} over the peers"
	sec.Bounds["save_variants"] = []string{"SavePeerstore(PeerInfos(ids))", "SavePeerstoreForPeers(ids)"}
	sec.Bounds["pre_existing_file"] = "first save on a missing file, every later save over the file written by the previous case"
	dir := scratch(t, "pstore")
	defer os.RemoveAll(dir)
	prioVals := []int{0, 7, 9999}
	ttl := time.Duration(peerstore.PermanentAddrTTL)

	for k := 1; k <= 3; k++ {
		for _, kt := range tuples(k, len(kinds)) {
			for _, perm := range permutations(k) {
				var kn []string
				for _, v := range kt {
					kn = append(kn, kinds[v])
				}
				label := fmt.Sprintf("kinds=%s prio=%v", strings.Join(kn, ","), perm)
				ids := psPeers[:k]

				hA, err := newPlainHost()
				if err != nil {
					t.Fatal(err)
				}
				pmA := pstoremgr.New(bg, hA, "")
				input := map[string]interface{}{}
				wantOrder := make([]peer.ID, k)
				for j := 0; j < k; j++ {
					var lines []string
					for _, a := range kindAddrs(kinds[kt[j]], j) {
						full := a + "/p2p/" + peer.Encode(ids[j])
						lines = append(lines, full)
						if _, err := pmA.ImportPeer(mustMA(full), false, ttl); err != nil {
							t.Fatal(err)
						}
					}
					pmA.SetPriority(ids[j], prioVals[perm[j]])
					wantOrder[perm[j]] = ids[j]
					input[fmt.Sprintf("peer%d(prio %d)", j+1, prioVals[perm[j]])] = lines
				}
				pinfosA := pmA.PeerInfos(ids)
				base := renderInfos(pinfosA)
				detail := func(extra map[string]interface{}) map[string]interface{} {
					d := map[string]interface{}{"case": label, "input": input, "peerinfos_at_save": base}
					for k, v := range extra {
						d[k] = v
					}
					return d
				}
				held := true
				// the saving side's own view must follow the priorities set
				if len(pinfosA) != k {
					held = false
					R.Violation("C14|peerstore|roundtrip|peerinfos-before-save|peer-count", detail(nil))
				} else {
					for j := range pinfosA {
						if pinfosA[j].ID != wantOrder[j] {
							held = false
							R.Violation("C14|peerstore|roundtrip|peerinfos-before-save|priority-order", detail(map[string]interface{}{"expected_order": api2str(wantOrder)}))
							break
						}
					}
				}

				for _, variant := range []string{"SavePeerstore", "SavePeerstoreForPeers"} {
					// the file of the previous case / variant is still there:
					// a shutdown overwrites the peerstore of the previous run
					file := filepath.Join(dir, "peerstore")
					pmS := pstoremgr.New(bg, hA, file)
					key := "C14|peerstore|roundtrip|" + variant + "|"
					err, p := guard(func() error {
						if variant == "SavePeerstore" {
							return pmS.SavePeerstore(pinfosA)
						}
						return pmS.SavePeerstoreForPeers(ids)
					})
					if err != nil || p != "" {
						held = false
						R.Violation(key+"save|error-or-panic", detail(map[string]interface{}{"error": fmt.Sprint(err), "panic": p}))
						continue
					}
					content, _ := os.ReadFile(file)

					// 1. plain load
					var loaded []ma.Multiaddr
					_, p = guard(func() error { loaded = pstoremgr.New(bg, nil, file).LoadPeerstore(); return nil })
					if p != "" {
						held = false
						R.Violation(key+"load|panic", detail(map[string]interface{}{"file": string(content), "panic": p}))
					} else {
						infos, nils, bad := groupLoaded(loaded)
						got := renderInfos(infos)
						switch {
						case nils > 0 || len(bad) > 0:
							held = false
							R.Violation(key+"load|nil-or-peerless-entry", detail(map[string]interface{}{"file": string(content), "loaded": got, "nil_entries": nils, "bad": bad}))
						case strings.Join(got, "\n") != strings.Join(base, "\n"):
							held = false
							sym := "addresses-differ"
							if sameMultiset(got, base) {
								sym = "priority-order-differs"
							}
							R.Violation(key+"load|"+sym, detail(map[string]interface{}{"file": string(content), "loaded": got}))
						}
					}

					// 2. a fresh peer imports the file and lists its peers
					hB, err := newPlainHost()
					if err != nil {
						t.Fatal(err)
					}
					pmB := pstoremgr.New(bg, hB, file)
					var pinfosB []peer.AddrInfo
					rev := make([]peer.ID, k)
					for j := range ids {
						rev[k-1-j] = ids[j]
					}
					err, p = guard(func() error {
						if err := pmB.ImportPeersFromPeerstore(false, ttl); err != nil {
							return err
						}
						pinfosB = pmB.PeerInfos(rev)
						return nil
					})
					hB.Close()
					got := renderInfos(pinfosB)
					switch {
					case err != nil || p != "":
						held = false
						R.Violation(key+"import|error-or-panic", detail(map[string]interface{}{"file": string(content), "error": fmt.Sprint(err), "panic": p}))
					case strings.Join(got, "\n") != strings.Join(base, "\n"):
						held = false
						sym := "addresses-differ"
						if sameMultiset(got, base) {
							sym = "priority-order-differs"
						}
						R.Violation(key+"import|"+sym, detail(map[string]interface{}{"file": string(content), "peerinfos_after_import": got}))
					}
					R.SampleTagged("c:peerstore", 1, map[string]interface{}{"case": label, "file": string(content), "peerinfos_after_import": got})
				}
				hA.Close()
				res := "same"
				if !held {
					res = "DIFFERENT"
				}
				R.Outcome(sec, "roundtrip:"+res)
				R.Eval(sec, "pstore-rt|"+label+"|"+res, k >= 2)
			}
		}
	}
}

func api2str(ps []peer.ID) []string {
	var out []string
	for _, p := range ps {
		out = append(out, peer.Encode(p))
	}
	return out
}

func sameMultiset(a, b []string) bool {
	x := append([]string(nil), a...)
	y := append([]string(nil), b...)
	sort.Strings(x)
	sort.Strings(y)
	return strings.Join(x, "\n") == strings.Join(y, "\n")
}

// ---- files with malformed lines -------------------------------------------------------

type badLine struct {
	Name, Class, Text string
	// Parses: a well-formed multiaddress that names no peer (LoadPeerstore
	// returns it; importing it is refused and must be skipped like the rest)
	Parses bool
}

func badLines() []badLine {
	valid := "/ip4/127.0.0.1/tcp/9096/p2p/" + peer.Encode(test.PeerID4)
	return []badLine{
		{"word", "nonslash", "garbage", false},
		{"comment", "nonslash", "#" + valid, false},
		{"leading-space", "nonslash", " " + valid, false},
		{"empty", "empty", "", false},
		{"cr-only", "empty", "\r", false},
		{"slash-garbage", "slash-unparsable", "/garbage", false},
		{"truncated", "slash-unparsable", "/ip4/1.2.3.4/tcp", false},
		{"bad-ip", "slash-unparsable", "/ip4/999.0.0.1/tcp/9096/p2p/" + peer.Encode(test.PeerID4), false},
		{"bad-peerid", "slash-unparsable", "/ip4/1.2.3.4/tcp/9096/p2p/notapeerid", false},
		{"address-without-peer", "multiaddress-naming-no-peer", "/ip4/10.0.0.3/tcp/9096", true},
		{"dnsaddr-without-peer", "multiaddress-naming-no-peer", "/dnsaddr/bootstrap.cluster.example.org", true},
	}
}

func TestPeerstoreMalformedLines(t *testing.T) {
	t.Parallel()
	sec := R.Sec("c2:peerstore files with malformed lines")
	bad := badLines()
	for _, b := range bad {
		// sanity of the harness alphabet against the multiaddr library itself
		if _, err := ma.NewMultiaddr(strings.TrimSuffix(b.Text, "\r")); (err == nil) != b.Parses {
			t.Fatalf("harness bug: %q parses as a multiaddress: %v", b.Text, err == nil)
		}
	}
	p := func(i int, a string) string { return a + "/p2p/" + peer.Encode(psPeers[i]) }
	baseFiles := [][]string{
		{},
		{p(0, "/ip4/10.0.0.1/tcp/9096")},
		{p(0, "/dns4/peer1.cluster.example.org/tcp/9096"), p(1, "/ip6/fd00::2/tcp/9096")},
		{p(0, "/ip4/10.0.0.1/tcp/9096"), p(0, "/ip4/192.168.1.1/tcp/9097"), p(1, "/dns4/peer2.cluster.example.org/tcp/9096"), p(2, "/ip6/fd00::3/tcp/9096")},
	}
	var names []string
	for _, b := range bad {
		names = append(names, b.Name)
	}
	sec.Bounds["base_files"] = "0, 1, 2 and 4 valid lines (ip4, dns4, ip6, two lines for one peer)"
	sec.Bounds["malformed_lines"] = names
	sec.Bounds["insertions"] = "0, 1 or 2 malformed lines (ordered) at every position; file with and without final newline"

	dir := scratch(t, "pstore-bad")
	defer os.RemoveAll(dir)
	file := filepath.Join(dir, "peerstore")
	hB, err := newPlainHost()
	if err != nil {
		t.Fatal(err)
	}
	defer hB.Close()
	pmB := pstoremgr.New(bg, hB, file)
	pmL := pstoremgr.New(bg, nil, file)
	ttl := time.Duration(peerstore.PermanentAddrTTL)
	failsAlone := map[string]bool{} // symptom|class

	type ins struct {
		pos int
		b   badLine
	}
	runCase := func(fi int, valid []string, inserted []ins, finalNL bool) {
		// build the file
		var lines, wantLoad []string
		k := 0
		for pos := 0; pos <= len(valid); pos++ {
			for ; k < len(inserted) && inserted[k].pos == pos; k++ {
				lines = append(lines, inserted[k].b.Text)
				if inserted[k].b.Parses {
					wantLoad = append(wantLoad, inserted[k].b.Text)
				}
			}
			if pos < len(valid) {
				lines = append(lines, valid[pos])
				wantLoad = append(wantLoad, valid[pos])
			}
		}
		content := strings.Join(lines, "\n")
		if finalNL && len(lines) > 0 {
			content += "\n"
		}
		if err := os.WriteFile(file, []byte(content), 0o600); err != nil {
			t.Fatal(err)
		}
		var classes, inames []string
		cseen := map[string]bool{}
		for _, in := range inserted {
			inames = append(inames, fmt.Sprintf("%s@%d", in.b.Name, in.pos))
			if !cseen[in.b.Class] {
				cseen[in.b.Class] = true
				classes = append(classes, in.b.Class)
			}
		}
		sort.Strings(classes)
		report := func(stage, symptom string, extra map[string]interface{}) {
			var cul []string
			for _, c := range classes {
				if failsAlone[stage+"|"+symptom+"|"+c] {
					cul = append(cul, c)
				}
			}
			if len(inserted) == 1 {
				failsAlone[stage+"|"+symptom+"|"+classes[0]] = true
				cul = classes
			}
			if len(cul) == 0 {
				cul = classes
			}
			if len(cul) == 0 {
				cul = []string{"none"}
			}
			d := map[string]interface{}{"file": content, "valid_lines": valid, "inserted": inames}
			for k, v := range extra {
				d[k] = v
			}
			R.Violation("C14|peerstore|malformed-file|"+stage+"|"+symptom+"|line-class="+strings.Join(cul, "+"), d)
		}
		held := true

		// LoadPeerstore: malformed lines skipped, valid ones in order
		var loaded []ma.Multiaddr
		_, pn := guard(func() error { loaded = pmL.LoadPeerstore(); return nil })
		if pn != "" {
			held = false
			report("load", "panic", map[string]interface{}{"panic": pn})
		} else {
			var got []string
			nils := 0
			for _, a := range loaded {
				if a == nil {
					nils++
					continue
				}
				got = append(got, a.String())
			}
			if nils > 0 {
				held = false
				report("load", "nil-entry", map[string]interface{}{"returned": len(loaded), "nil_entries": nils, "expected": "unparsable lines are skipped"})
			}
			if strings.Join(got, "\n") != strings.Join(wantLoad, "\n") {
				held = false
				report("load", "valid-lines-not-returned-in-order", map[string]interface{}{"loaded": got})
			}
		}

		// a peer starting on this file: not fatal, valid peers known in order
		for _, id := range psPeers {
			pmB.RmPeer(id)
		}
		pmB.RmPeer(test.PeerID4)
		var want []peer.AddrInfo
		{
			var vm []ma.Multiaddr
			for _, v := range valid {
				vm = append(vm, mustMA(v))
			}
			want, _, _ = groupLoaded(vm)
		}
		var pinfos []peer.AddrInfo
		err, pn := guard(func() error {
			if err := pmB.ImportPeersFromPeerstore(false, ttl); err != nil {
				return err
			}
			pinfos = pmB.PeerInfos([]peer.ID{psPeers[2], psPeers[1], psPeers[0], test.PeerID4})
			return nil
		})
		switch {
		case pn != "":
			held = false
			report("import", "panic", map[string]interface{}{"panic": firstLines(pn, 14), "expected": "unparsable lines are skipped rather than fatal"})
		case err != nil:
			held = false
			report("import", "error", map[string]interface{}{"error": err.Error()})
		default:
			if g, w := renderInfos(pinfos), renderInfos(want); strings.Join(g, "\n") != strings.Join(w, "\n") {
				held = false
				report("import", "peers-differ", map[string]interface{}{"peerinfos": g, "expected": w})
			}
		}
		res := "skipped-and-in-order"
		if !held {
			res = "VIOLATION"
		}
		R.Outcome(sec, res)
		R.Eval(sec, fmt.Sprintf("pstore-bad|file%d|%s|nl=%v|%s", fi, strings.Join(inames, ","), finalNL, res), len(inserted) > 0)
		if len(inserted) == 2 {
			R.SampleTagged("c:malformed", 1, map[string]interface{}{"file": content, "inserted": inames, "result": res})
		}
	}

	for _, nIns := range []int{0, 1, 2} { // singles before doubles (attribution)
		for fi, valid := range baseFiles {
			for _, nl := range []bool{true, false} {
				switch nIns {
				case 0:
					runCase(fi, valid, nil, nl)
				case 1:
					for pos := 0; pos <= len(valid); pos++ {
						for _, b := range bad {
							runCase(fi, valid, []ins{{pos, b}}, nl)
						}
					}
				case 2:
					for p1 := 0; p1 <= len(valid); p1++ {
						for p2 := p1; p2 <= len(valid); p2++ {
							for _, b1 := range bad {
								for _, b2 := range bad {
									runCase(fi, valid, []ins{{p1, b1}, {p2, b2}}, nl)
								}
							}
						}
					}
				}
			}
		}
	}
}
