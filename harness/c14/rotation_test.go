package c14

import (
	"fmt"
	"io"
	"os"
	"path/filepath"
	"runtime"
	"sort"
	"strconv"
	"strings"
	"sync"
	"sync/atomic"
	"testing"
	"time"

	"github.com/ipfs/ipfs-cluster/consensus/raft"
	"github.com/ipfs/ipfs-cluster/datastore/inmem"

	crypto "github.com/libp2p/go-libp2p-core/crypto"
	peer "github.com/libp2p/go-libp2p-core/peer"

	"verif/harness/lib/ev"
)

// Part (b): rotation of Raft data backups, explored as an explicit-state
// search over REAL directory trees. Every transition is an execution of
// raft.SnapshotSave / raft.CleanupRaft on a copy of the directory tree of the
// state it starts from.

const (
	liveAbsent = ""  // no data folder
	liveNoSnap = "-" // data folder without any snapshot
	unreadable = "!unreadable"
)

// rstate is the observable state: what the live folder holds and the identity
// tag of every <data>.old.i folder.
type rstate struct {
	Live    string         `json:"live"`    // liveAbsent | liveNoSnap | tag of the snapshot
	Backups map[int]string `json:"backups"` // index -> tag
	Other   []string       `json:"other,omitempty"`
}

func (s rstate) liveClass() string {
	switch s.Live {
	case liveAbsent:
		return "absent"
	case liveNoSnap:
		return "nosnapshot"
	default:
		return "snapshot"
	}
}

func (s rstate) indices() []int {
	var ix []int
	for i := range s.Backups {
		ix = append(ix, i)
	}
	sort.Ints(ix)
	return ix
}

// canon is the state up to renaming of identity tags (every tag occurs once,
// so only the shape remains).
func (s rstate) canon() string {
	var b []string
	for _, i := range s.indices() {
		b = append(b, strconv.Itoa(i))
	}
	return "live=" + s.liveClass() + "|old={" + strings.Join(b, ",") + "}"
}

// pretty shows tags relabelled by age position for samples.
func (s rstate) pretty() string {
	var b []string
	for _, i := range s.indices() {
		b = append(b, fmt.Sprintf("old.%d=%s", i, s.Backups[i]))
	}
	l := s.Live
	if l == liveAbsent {
		l = "(absent)"
	} else if l == liveNoSnap {
		l = "(no snapshot)"
	}
	return "live=" + l + " " + strings.Join(b, " ")
}

var tagSeq int64

func freshTag() string { return fmt.Sprintf("T%d", atomic.AddInt64(&tagSeq, 1)) }

// tagged state: one pin whose name is the tag.
func saveTagged(base string, keep int, tag string, pid peer.ID) error {
	return saveTaggedAs(base, "", keep, tag, pid)
}

// saveTaggedAs: suffix is appended to the data_folder setting ("/": the same
// folder spelled with a trailing slash).
func saveTaggedAs(base, suffix string, keep int, tag string, pid peer.ID) error {
	st := newDsState()
	p := dataPin(cidV1("rotation-tag"))
	p.Name = tag
	if err := st.Add(bg, p); err != nil {
		return err
	}
	return raft.SnapshotSave(raftCfg(filepath.Join(base, "raft")+suffix, keep), st, []peer.ID{pid})
}

// readTag recovers the identity of a data folder the way an operator would:
// offline read of its newest snapshot.
func readTag(folder string) (tag string, hasSnapshot bool) {
	cfg := raftCfg(folder, 1)
	var found bool
	err, p := guard(func() error {
		_, f, err := raft.LastStateRaw(cfg)
		found = f
		return err
	})
	if err != nil || p != "" {
		return unreadable, true
	}
	if !found {
		return "", false
	}
	tag = unreadable
	guard(func() error {
		st, err := raft.OfflineState(cfg, inmem.New())
		if err != nil {
			return err
		}
		pins, err := st.List(bg)
		if err != nil {
			return err
		}
		if len(pins) == 1 {
			tag = pins[0].Name
		}
		return nil
	})
	return tag, true
}

func observe(base string) rstate {
	s := rstate{Backups: map[int]string{}}
	ents, _ := os.ReadDir(base)
	for _, e := range ents {
		n := e.Name()
		switch {
		case n == "raft":
			tag, has := readTag(filepath.Join(base, n))
			if has {
				s.Live = tag
			} else {
				s.Live = liveNoSnap
			}
		case strings.HasPrefix(n, "raft.old."):
			i, err := strconv.Atoi(strings.TrimPrefix(n, "raft.old."))
			if err != nil {
				s.Other = append(s.Other, n)
				continue
			}
			tag, has := readTag(filepath.Join(base, n))
			if !has {
				tag = unreadable
			}
			s.Backups[i] = tag
		default:
			s.Other = append(s.Other, n)
		}
	}
	return s
}

func copyTree(src, dst string) error {
	return filepath.Walk(src, func(p string, info os.FileInfo, err error) error {
		if err != nil {
			return err
		}
		rel, _ := filepath.Rel(src, p)
		target := filepath.Join(dst, rel)
		if info.IsDir() {
			return os.MkdirAll(target, 0o700)
		}
		in, err := os.Open(p)
		if err != nil {
			return err
		}
		defer in.Close()
		out, err := os.OpenFile(target, os.O_CREATE|os.O_WRONLY|os.O_TRUNC, info.Mode())
		if err != nil {
			return err
		}
		if _, err := io.Copy(out, in); err != nil {
			out.Close()
			return err
		}
		return out.Close()
	})
}

// materialise builds an initial state: pre-existing backup folders at the
// given indices (each a real data folder holding a real snapshot with its
// own tag) and a live folder that is absent or present without snapshot.
func materialise(base string, idx []int, live string, pid peer.ID) error {
	for _, i := range idx {
		tmp := filepath.Join(base, "mk")
		if err := saveTagged(tmp, 1, freshTag(), pid); err != nil {
			return err
		}
		if err := os.Rename(filepath.Join(tmp, "raft"), filepath.Join(base, fmt.Sprintf("raft.old.%d", i))); err != nil {
			return err
		}
		os.RemoveAll(tmp)
	}
	if live == liveNoSnap {
		return os.MkdirAll(filepath.Join(base, "raft", "snapshots"), 0o700)
	}
	return nil
}

type rviolation struct {
	Symptom string
	Info    string
}

// inRange restricts the backups to the rotation range [0,N).
func inRange(b map[int]string, n int) (idx []int, tags []string) {
	for i := range b {
		if i < n {
			idx = append(idx, i)
		}
	}
	sort.Ints(idx)
	for _, i := range idx {
		tags = append(tags, b[i])
	}
	return
}

func contiguous(idx []int) bool {
	for k, i := range idx {
		if i != k {
			return false
		}
	}
	return true
}

// checkRotation is the list model read off the property text: after cleaning
// data that holds snapshot `data`, the newest backup IS that data, the older
// backups follow in unchanged age order (shifted by exactly one when they
// were numbered without gaps), at most N are kept and only the oldest may be
// discarded, and only when keeping it would exceed N.
func checkRotation(n int, data string, pre, post map[int]string) []rviolation {
	var v []rviolation
	preIdx, preTags := inRange(pre, n)
	postIdx, postTags := inRange(post, n)

	newest, ok := post[0]
	switch {
	case !ok:
		v = append(v, rviolation{"newest-backup-missing", "no .old.0 after cleaning data that held a snapshot"})
	case newest == unreadable:
		v = append(v, rviolation{"newest-backup-unrecoverable", ".old.0 cannot be read back offline"})
	case newest != data:
		v = append(v, rviolation{"newest-backup-is-not-the-cleaned-data", fmt.Sprintf(".old.0 holds %s, cleaned data was %s", newest, data)})
	}

	expected := append([]string{data}, preTags...)
	dropped := ""
	if len(expected) > n {
		dropped = expected[len(expected)-1]
		expected = expected[:n]
	}
	// "at most N": when nothing was lying beyond the retention range before,
	// nothing may be pushed there (with leftovers from a larger retention
	// already present the text does not say what happens to them).
	preBeyond, postBeyond := 0, 0
	for i := range pre {
		if i >= n {
			preBeyond++
		}
	}
	for i := range post {
		if i >= n {
			postBeyond++
		}
	}
	if preBeyond == 0 && postBeyond > 0 {
		v = append(v, rviolation{"more-than-N-kept", fmt.Sprintf("%d backup folders after the clean, retention is %d", len(post), n)})
	}
	postSet := map[string]bool{}
	for _, t := range postTags {
		postSet[t] = true
	}
	expSet := map[string]bool{}
	for _, t := range expected {
		expSet[t] = true
	}
	for _, t := range expected {
		if !postSet[t] && t != data {
			v = append(v, rviolation{"backup-discarded-that-was-not-the-oldest-over-N", fmt.Sprintf("backup %s is gone", t)})
		}
	}
	if dropped != "" && postSet[dropped] {
		v = append(v, rviolation{"oldest-not-discarded", fmt.Sprintf("%s should have been rotated out", dropped)})
	}
	for _, t := range postTags {
		if !expSet[t] && t != dropped {
			v = append(v, rviolation{"unknown-backup-appeared", t})
		}
	}
	if len(v) == 0 && strings.Join(postTags, ",") != strings.Join(expected, ",") {
		v = append(v, rviolation{"age-order-changed", fmt.Sprintf("expected newest-to-oldest %v, found %v", expected, postTags)})
	}
	// exact "shift by one" only where the text is unambiguous: backups that
	// were numbered 0..k-1 without gaps.
	if len(v) == 0 && contiguous(preIdx) {
		for _, i := range preIdx {
			if i+1 < n && post[i+1] != pre[i] {
				v = append(v, rviolation{"shift-not-by-one", fmt.Sprintf(".old.%d (%s) should now be .old.%d, which holds %q", i, pre[i], i+1, post[i+1])})
			}
		}
		if len(v) == 0 && !contiguous(postIdx) {
			v = append(v, rviolation{"shift-not-by-one", fmt.Sprintf("indices after clean: %v", postIdx)})
		}
	}
	return v
}

func sameBackups(a, b map[int]string, n int) bool {
	ai, at := inRange(a, n)
	bi, bt := inRange(b, n)
	return fmt.Sprint(ai, at) == fmt.Sprint(bi, bt)
}

type rnode struct {
	st    rstate
	dir   string
	depth int
	hist  []string
}

type rotationStats struct {
	states, transitions, closedAt int64
}

// explore runs the search for one retention value. dedup=true: classic
// explicit-state BFS (a state already reached is not expanded again);
// dedup=false: the full history tree to the depth bound.
func explore(root string, sec *ev.Section, n, depth int, dedup bool, pid peer.ID) (rotationStats, error) {
	return exploreAs(root, sec, n, depth, dedup, pid, "")
}

// exploreAs: the operations are given the data_folder setting with suffix
// appended (observation always uses the plain path).
func exploreAs(root string, sec *ev.Section, n, depth int, dedup bool, pid peer.ID, suffix string) (rotationStats, error) {
	defer os.RemoveAll(root)
	var seq int
	newDir := func() string {
		seq++
		d := filepath.Join(root, strconv.Itoa(seq))
		os.MkdirAll(d, 0o700)
		return d
	}
	var stats rotationStats
	visited := map[string]bool{}
	var frontier []rnode

	for _, idx := range subsets(n+1, n+1) {
		for _, live := range []string{liveAbsent, liveNoSnap} {
			d := newDir()
			if err := materialise(d, idx, live, pid); err != nil {
				return stats, fmt.Errorf("materialise: %v", err)
			}
			st := observe(d)
			if len(st.Backups) != len(idx) || st.liveClass() == "snapshot" {
				return stats, fmt.Errorf("materialised state not as intended: %s", st.pretty())
			}
			if !visited[st.canon()] {
				visited[st.canon()] = true
				stats.states++
				R.States(sec, 1)
			}
			frontier = append(frontier, rnode{st: st, dir: d, depth: 0, hist: []string{"init " + st.canon()}})
		}
	}

	mode := "bfs"
	if !dedup {
		mode = "tree"
	}
	for len(frontier) > 0 {
		var nd rnode
		if dedup { // FIFO
			nd, frontier = frontier[0], frontier[1:]
		} else { // LIFO keeps few directories alive
			nd, frontier = frontier[len(frontier)-1], frontier[:len(frontier)-1]
		}
		if nd.depth >= depth {
			os.RemoveAll(nd.dir)
			continue
		}
		for _, op := range []string{"SnapshotSave", "CleanupRaft"} {
			child := newDir()
			if err := copyTree(nd.dir, child); err != nil {
				return stats, fmt.Errorf("copy: %v", err)
			}
			pre := nd.st
			newTag := ""
			var err error
			var panicked string
			switch op {
			case "SnapshotSave":
				newTag = freshTag()
				err, panicked = guard(func() error { return saveTaggedAs(child, suffix, n, newTag, pid) })
			case "CleanupRaft":
				err, panicked = guard(func() error { return raft.CleanupRaft(raftCfg(filepath.Join(child, "raft")+suffix, n)) })
			}
			post := observe(child)
			stats.transitions++
			R.Transitions(1)
			if stats.transitions%300 == 0 {
				// the code under test leaks one descriptor per snapshot read until
				// the os.File finalizer runs: collect synchronously on long runs
				runtime.GC()
				time.Sleep(2 * time.Millisecond)
				runtime.GC()
			}

			gap := "contiguous"
			if pi, _ := inRange(pre.Backups, n); !contiguous(pi) {
				gap = "gapped"
			}
			var vio []rviolation
			outcome := ""
			cleansSnapshot := false
			switch {
			case panicked != "":
				vio = append(vio, rviolation{"panic", panicked})
			case err != nil:
				vio = append(vio, rviolation{"error", err.Error()})
			case op == "CleanupRaft" && pre.liveClass() == "snapshot":
				cleansSnapshot = true
				if post.liveClass() == "snapshot" {
					vio = append(vio, rviolation{"live-data-still-holds-a-snapshot", post.Live})
				}
				vio = append(vio, checkRotation(n, pre.Live, pre.Backups, post.Backups)...)
				outcome = "clean(snapshot):rotated"
			case op == "CleanupRaft":
				// text is silent about cleaning data without a snapshot
				if sameBackups(pre.Backups, post.Backups, n) {
					outcome = "clean(no snapshot):backups-untouched"
				} else {
					outcome = "clean(no snapshot):backups-changed(not judged)"
				}
			case op == "SnapshotSave":
				if post.Live != newTag {
					vio = append(vio, rviolation{"saved-snapshot-not-readable-from-live-data", fmt.Sprintf("live holds %q, saved %q", post.Live, newTag)})
				}
				if pre.liveClass() == "snapshot" {
					// SnapshotSave over data that holds a snapshot cleans
					// it first: either nothing was backed up (text silent)
					// or the backup obeys the rotation rule.
					if sameBackups(pre.Backups, post.Backups, n) {
						outcome = "save-over-snapshot:old-data-not-backed-up(not judged)"
					} else {
						cleansSnapshot = true
						vio = append(vio, checkRotation(n, pre.Live, pre.Backups, post.Backups)...)
						outcome = "save-over-snapshot:old-data-rotated-into-backups"
					}
				} else if sameBackups(pre.Backups, post.Backups, n) {
					outcome = "save-on-empty:backups-untouched"
				} else {
					outcome = "save-on-empty:backups-changed(not judged)"
				}
			}
			if _, ok := pre.Backups[n]; ok {
				if pre.Backups[n] == post.Backups[n] {
					R.Outcome(sec, "folder .old.N beyond the retention range: left alone (not judged)")
				} else {
					R.Outcome(sec, "folder .old.N beyond the retention range: changed (not judged)")
				}
			}
			hist := append(append([]string(nil), nd.hist...), op)
			verdict := "ok"
			for _, x := range vio {
				verdict = "VIOLATION"
				opk := "clean"
				if op == "SnapshotSave" {
					opk = "snapshotsave"
				}
				R.Violation("C14|rotation|"+opk+"|"+x.Symptom+"|pre="+gap, map[string]interface{}{
					"keep_N": n, "history": hist, "op": op, "pre": pre, "post": post, "problem": x.Info,
					"expected": "newest backup = cleaned data; older ones keep their age order, shifted by one; at most N; only the oldest discarded",
				})
			}
			if outcome != "" {
				R.Outcome(sec, outcome)
			}
			R.Eval(sec, fmt.Sprintf("%s|N=%d|%s|%s|->%s|%s", mode, n, pre.canon(), op, post.canon(), verdict), cleansSnapshot)
			if cleansSnapshot {
				R.SampleTagged("b:rotation", 3, map[string]interface{}{"keep_N": n, "pre": pre.pretty(), "op": op, "post": post.pretty()})
			}

			c := post.canon()
			isNew := !visited[c]
			if isNew {
				visited[c] = true
				stats.states++
				R.States(sec, 1)
				stats.closedAt = int64(nd.depth + 1)
			}
			if nd.depth+1 >= depth || (dedup && !isNew) {
				if !dedup && nd.depth+1 >= depth {
					R.SampleTagged("b:history", 2, map[string]interface{}{"keep_N": n, "history": hist, "final": post.pretty()})
				}
				os.RemoveAll(child)
				continue
			}
			frontier = append(frontier, rnode{st: post, dir: child, depth: nd.depth + 1, hist: hist})
		}
		os.RemoveAll(nd.dir)
	}
	return stats, nil
}

func TestBackupRotation(t *testing.T) {
	t.Parallel()
	_, pub, _ := crypto.GenerateKeyPair(crypto.Ed25519, 0)
	pid, _ := peer.IDFromPublicKey(pub)

	depth := 4
	treeNs := []int{1, 2, 3}
	if ev.Thorough() {
		depth = 6
		treeNs = []int{1, 2, 3, 5}
	}
	secB := R.Sec("b1:backup rotation, explicit-state BFS")
	secB.Bounds["keep_N"] = []int{1, 2, 3, 5}
	secB.Bounds["initial_states"] = "every subset of pre-existing backup indices {0..N} (gaps and the out-of-range index N included) x live folder {absent, present without snapshot}"
	secB.Bounds["ops"] = []string{"raft.SnapshotSave(fresh tag)", "raft.CleanupRaft"}
	secB.Bounds["depth"] = depth
	secB.Bounds["state"] = "live folder class + set of .old.i indices (identity tags compared up to renaming); already-reached states are not re-expanded"
	secT := R.Sec("b2:backup rotation, full history trees (no state merging)")
	secT.Bounds["keep_N"] = treeNs
	secT.Bounds["depth"] = depth
	secT.Bounds["initial_states"] = secB.Bounds["initial_states"]

	var wg sync.WaitGroup
	var mu sync.Mutex
	closed := map[string]interface{}{}
	sem := make(chan struct{}, 4)
	run := func(sec *ev.Section, n int, dedup bool) {
		wg.Add(1)
		root := scratch(t, fmt.Sprintf("rot-n%d", n))
		go func() {
			defer wg.Done()
			sem <- struct{}{}
			defer func() { <-sem }()
			st, err := explore(root, sec, n, depth, dedup, pid)
			mu.Lock()
			defer mu.Unlock()
			mode := "tree"
			if dedup {
				mode = "bfs"
			}
			if err != nil {
				R.Broken("rotation %s N=%d: %v", mode, n, err)
			}
			closed[fmt.Sprintf("%s N=%d", mode, n)] = map[string]int64{"states": st.states, "transitions": st.transitions, "last_new_state_at_depth": st.closedAt}
		}()
	}
	for _, n := range []int{1, 2, 3, 5} {
		run(secB, n, true)
	}
	// the same folder named with a trailing slash in the configuration
	secS := R.Sec("b3:backup rotation, data_folder spelled with a trailing slash")
	secS.Bounds["keep_N"] = []int{1, 2}
	secS.Bounds["depth"] = depth
	secS.Bounds["data_folder"] = "<dir>/raft/ (filepath-equivalent to <dir>/raft)"
	for _, n := range []int{1, 2} {
		n := n
		wg.Add(1)
		root := scratch(t, fmt.Sprintf("rot-slash-n%d", n))
		go func() {
			defer wg.Done()
			sem <- struct{}{}
			defer func() { <-sem }()
			if _, err := exploreAs(root, secS, n, depth, true, pid, "/"); err != nil {
				mu.Lock()
				R.Broken("rotation (trailing slash) N=%d: %v", n, err)
				mu.Unlock()
			}
		}()
	}
	for _, n := range treeNs {
		run(secT, n, false)
	}
	wg.Wait()
	R.Note("rotation_search", closed)
}
