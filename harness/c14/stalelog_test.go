package c14

// "Import replaces whatever was there" and "saving as a Raft snapshot, then
// starting a peer on it reproduces the same pinset" when what was there is a
// Raft data folder WITHOUT any snapshot but with committed log entries: the
// disk of a peer that was killed before it ever took a snapshot. The import
// path (cmdutils raft state manager: CleanupRaft, then SnapshotSave) must
// leave a folder on which a started peer holds exactly the imported pinset:
// nothing of the old log may be replayed over the new snapshot.

import (
	"fmt"
	"os"
	"path/filepath"
	"sync"
	"testing"
	"time"

	"github.com/ipfs/ipfs-cluster/api"
	"github.com/ipfs/ipfs-cluster/consensus/raft"
	"github.com/ipfs/ipfs-cluster/datastore/inmem"
	"github.com/ipfs/ipfs-cluster/test"

	libp2p "github.com/libp2p/go-libp2p"
	crypto "github.com/libp2p/go-libp2p-core/crypto"
	peer "github.com/libp2p/go-libp2p-core/peer"

	"verif/harness/lib/ev"
)

func fastRaftCfg(data string) *raft.Config {
	cfg := raftCfg(data, 2)
	cfg.RaftConfig.HeartbeatTimeout = 50 * time.Millisecond
	cfg.RaftConfig.ElectionTimeout = 50 * time.Millisecond
	cfg.RaftConfig.LeaderLeaseTimeout = 50 * time.Millisecond
	cfg.RaftConfig.CommitTimeout = 5 * time.Millisecond
	cfg.WaitForLeaderTimeout = 60 * time.Second
	return cfg
}

// killedBeforeFirstSnapshot leaves in data the disk image of a single-peer
// Raft consensus that committed old and was killed before any snapshot.
func killedBeforeFirstSnapshot(t testing.TB, data string, priv crypto.PrivKey, old []apin) error {
	removeRaftData(data)
	h, err := libp2p.New(bg, libp2p.Identity(priv), libp2p.ListenAddrStrings("/ip4/127.0.0.1/tcp/0"))
	if err != nil {
		return err
	}
	defer h.Close()
	cc, err := raft.NewConsensus(h, fastRaftCfg(data), inmem.New(), false)
	if err != nil {
		return err
	}
	cc.SetClient(test.NewMockRPCClientWithHost(t, h))
	select {
	case <-cc.Ready(bg):
	case <-time.After(90 * time.Second):
		cc.Shutdown(bg)
		return errNotReady
	}
	for _, a := range old {
		if err := cc.LogPin(bg, a.Pin); err != nil {
			cc.Shutdown(bg)
			return fmt.Errorf("LogPin(%s): %w", a.Name, err)
		}
	}
	// the image is taken while nothing is in flight (LogPin returns after
	// the entry is committed and applied on this single peer)
	img := data + ".image"
	os.RemoveAll(img)
	// (copied in-process: a fork+exec here would briefly duplicate the file
	// descriptors of the badger stores other sections hold, and with them
	// their directory locks)
	if err := copyTree(data, img); err != nil {
		cc.Shutdown(bg)
		return fmt.Errorf("copying the data folder: %v", err)
	}
	cc.Shutdown(bg) // takes a snapshot: discarded with the live folder
	removeRaftData(data)
	if err := os.Rename(img, data); err != nil {
		return err
	}
	if m, _ := filepath.Glob(filepath.Join(data, "snapshots", "*")); len(m) != 0 {
		return fmt.Errorf("the image already holds a snapshot: %v", m)
	}
	if _, err := os.Stat(filepath.Join(data, "raft.db")); err != nil {
		return fmt.Errorf("the image has no raft.db: %v", err)
	}
	return nil
}

func runImportOverStaleLog(t testing.TB, dir string, priv crypto.PrivKey, pid peer.ID, ps pinset) (runs []pathRun, broken error) {
	data := filepath.Join(dir, "raft")
	if err := killedBeforeFirstSnapshot(t, data, priv, targetPins()); err != nil {
		return nil, fmt.Errorf("preparing the killed peer's folder: %w", err)
	}
	off := pathRun{Path: "killed-before-snapshot>clean+snapshotsave>offlinestate", Target: "nonempty"}
	start := pathRun{Path: "killed-before-snapshot>clean+snapshotsave>raftstart", Target: "nonempty"}

	st := newDsState()
	off.Stage = "clean+snapshotsave"
	off.Err, off.Panic = guard(func() error {
		if err := raft.CleanupRaft(fastRaftCfg(data)); err != nil {
			return err
		}
		if err := fill(st, ps.Pins); err != nil {
			return err
		}
		return raft.SnapshotSave(fastRaftCfg(data), st, []peer.ID{pid})
	})
	if off.Err != nil || off.Panic != "" {
		return []pathRun{off}, nil
	}
	off.Stage = "offlinestate"
	off.Err, off.Panic = guard(func() error {
		ost, err := raft.OfflineState(fastRaftCfg(data), inmem.New())
		if err != nil {
			return err
		}
		off.Got, err = ost.List(bg)
		return err
	})

	h, err := libp2p.New(bg, libp2p.Identity(priv), libp2p.ListenAddrStrings("/ip4/127.0.0.1/tcp/0"))
	if err != nil {
		return nil, fmt.Errorf("cannot create libp2p host: %w", err)
	}
	defer h.Close()
	var cc *raft.Consensus
	start.Stage = "newconsensus"
	start.Err, start.Panic = guard(func() error {
		var err error
		cc, err = raft.NewConsensus(h, fastRaftCfg(data), inmem.New(), false)
		return err
	})
	if start.Err != nil || start.Panic != "" {
		return []pathRun{off, start}, nil
	}
	cc.SetClient(test.NewMockRPCClientWithHost(t, h))
	select {
	case <-cc.Ready(bg):
	case <-time.After(90 * time.Second):
		cc.Shutdown(bg)
		return nil, errNotReady
	}
	// Ready means the log known at start has been applied; a marker makes
	// sure of it without relying on that
	marker := &api.Pin{}
	*marker = *dataPin(cidV1("stale-log-marker"))
	start.Stage = "marker"
	start.Err, start.Panic = guard(func() error { return cc.LogPin(bg, marker) })
	if start.Err == nil && start.Panic == "" {
		start.Stage = "state.list"
		start.Err, start.Panic = guard(func() error {
			rst, err := cc.State(bg)
			if err != nil {
				return err
			}
			l, err := rst.List(bg)
			for _, p := range l {
				if !p.Cid.Equals(marker.Cid) {
					start.Got = append(start.Got, p)
				}
			}
			return err
		})
	}
	cc.Shutdown(bg)
	return []pathRun{off, start}, nil
}

func TestRoundTripImportOverStaleLog(t *testing.T) {
	t.Parallel()
	maxSize := 1
	if ev.Thorough() {
		maxSize = 2
	}
	sets := allPinsets(maxSize, false)
	rp := newReporter()
	sec := R.Sec("a5:import over a raft folder killed before its first snapshot>start")
	sec.Bounds["pinsets"] = fmt.Sprintf("all subsets of size<=%d of the alphabet (%d)", maxSize, len(sets))
	sec.Bounds["prior_folder"] = "disk image of a single-peer raft consensus that committed the two target pins and was killed before any snapshot (raft.db with log entries, empty snapshots folder)"
	const workers = 8
	dirs := make([]string, workers)
	privs := make([]crypto.PrivKey, workers)
	pids := make([]peer.ID, workers)
	for i := range dirs {
		dirs[i] = scratch(t, "stalelog")
		priv, pub, _ := crypto.GenerateKeyPair(crypto.Ed25519, 0)
		privs[i] = priv
		pids[i], _ = peer.IDFromPublicKey(pub)
	}
	var mu sync.Mutex
	var brokenErrs []string
	inPhases(sets, workers, func(w int, ps pinset) {
		runs, broken := runImportOverStaleLog(t, dirs[w], privs[w], pids[w], ps)
		if broken != nil {
			mu.Lock()
			brokenErrs = append(brokenErrs, ps.Label+": "+broken.Error())
			mu.Unlock()
			return
		}
		for _, run := range runs {
			rp.judge(sec, ps, run)
		}
	})
	for _, b := range brokenErrs {
		R.Broken("import over stale log: %s", b)
	}
	for _, d := range dirs {
		os.RemoveAll(d)
	}
}

// ---- several snapshots in one folder: the newest one is the state ------------

// runTwoSnapshots leaves two snapshots in one data folder, taken by a real
// peer at shutdown: first the target pins, then (after unpinning them and
// pinning ps) the pinset ps - which may be empty. Read offline, read raw, and
// a peer started on the folder must all show ps.
func runTwoSnapshots(t testing.TB, dir string, priv crypto.PrivKey, pid peer.ID, ps pinset) (runs []pathRun, broken error) {
	data := filepath.Join(dir, "raft")
	removeRaftData(data)
	session := func(f func(cc *raft.Consensus) error) error {
		h, err := libp2p.New(bg, libp2p.Identity(priv), libp2p.ListenAddrStrings("/ip4/127.0.0.1/tcp/0"))
		if err != nil {
			return err
		}
		defer h.Close()
		cc, err := raft.NewConsensus(h, fastRaftCfg(data), inmem.New(), false)
		if err != nil {
			return err
		}
		cc.SetClient(test.NewMockRPCClientWithHost(t, h))
		select {
		case <-cc.Ready(bg):
		case <-time.After(90 * time.Second):
			cc.Shutdown(bg)
			return errNotReady
		}
		err = f(cc)
		cc.Shutdown(bg) // takes a snapshot
		return err
	}
	old := targetPins()
	if err := session(func(cc *raft.Consensus) error {
		for _, a := range old {
			if err := cc.LogPin(bg, a.Pin); err != nil {
				return err
			}
		}
		return nil
	}); err != nil {
		return nil, fmt.Errorf("first session: %w", err)
	}
	if err := session(func(cc *raft.Consensus) error {
		for _, a := range old {
			if err := cc.LogUnpin(bg, a.Pin); err != nil {
				return err
			}
		}
		for _, a := range ps.Pins {
			if err := cc.LogPin(bg, a.Pin); err != nil {
				return err
			}
		}
		return nil
	}); err != nil {
		return nil, fmt.Errorf("second session: %w", err)
	}
	if m, _ := filepath.Glob(filepath.Join(data, "snapshots", "*")); len(m) < 2 {
		return nil, fmt.Errorf("expected two snapshots in the folder, found %v", m)
	}
	off := pathRun{Path: "two-snapshots(newest=input)>offlinestate", Target: "nonempty", Stage: "offlinestate"}
	off.Err, off.Panic = guard(func() error {
		ost, err := raft.OfflineState(fastRaftCfg(data), inmem.New())
		if err != nil {
			return err
		}
		off.Got, err = ost.List(bg)
		return err
	})
	bk := pathRun{Path: "two-snapshots(newest=input)>clean>read-backup.old.0", Target: "nonempty", Stage: "clean"}
	bk.Err, bk.Panic = guard(func() error {
		if err := raft.CleanupRaft(fastRaftCfg(data)); err != nil {
			return err
		}
		ost, err := raft.OfflineState(raftCfg(data+".old.0", 1), inmem.New())
		if err != nil {
			return err
		}
		bk.Got, err = ost.List(bg)
		return err
	})
	return []pathRun{off, bk}, nil
}

func TestRoundTripTwoSnapshots(t *testing.T) {
	t.Parallel()
	maxSize := 1
	if ev.Thorough() {
		maxSize = 2
	}
	sets := append([]pinset{{Label: "empty"}}, allPinsets(maxSize, false)...)
	rp := newReporter()
	sec := R.Sec("a7:two snapshots in one folder (newest = input pinset, possibly empty)>offline read / clean+backup")
	sec.Bounds["pinsets"] = fmt.Sprintf("the empty pinset and all subsets of size<=%d of the alphabet (%d)", maxSize, len(sets))
	sec.Bounds["how"] = "a real single-peer raft consensus commits the target pins and shuts down (snapshot 1), starts again, unpins them, pins the input and shuts down (snapshot 2)"
	const workers = 8
	dirs := make([]string, workers)
	privs := make([]crypto.PrivKey, workers)
	pids := make([]peer.ID, workers)
	for i := range dirs {
		dirs[i] = scratch(t, "twosnap")
		priv, pub, _ := crypto.GenerateKeyPair(crypto.Ed25519, 0)
		privs[i] = priv
		pids[i], _ = peer.IDFromPublicKey(pub)
	}
	var mu sync.Mutex
	var brokenErrs []string
	inPhases(sets, workers, func(w int, ps pinset) {
		runs, broken := runTwoSnapshots(t, dirs[w], privs[w], pids[w], ps)
		if broken != nil {
			mu.Lock()
			brokenErrs = append(brokenErrs, ps.Label+": "+broken.Error())
			mu.Unlock()
			return
		}
		for _, run := range runs {
			rp.judge(sec, ps, run)
		}
	})
	for _, b := range brokenErrs {
		R.Broken("two snapshots: %s", b)
	}
	for _, d := range dirs {
		os.RemoveAll(d)
	}
}
