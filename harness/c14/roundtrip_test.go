package c14

import (
	"bytes"
	"context"
	"errors"
	"fmt"
	"io"
	"os"
	"path/filepath"
	"sort"
	"strings"
	"sync"
	"testing"
	"time"

	"github.com/ipfs/ipfs-cluster/api"
	"github.com/ipfs/ipfs-cluster/cmdutils"
	"github.com/ipfs/ipfs-cluster/consensus/raft"
	"github.com/ipfs/ipfs-cluster/datastore/inmem"
	"github.com/ipfs/ipfs-cluster/state"
	"github.com/ipfs/ipfs-cluster/state/dsstate"
	"github.com/ipfs/ipfs-cluster/test"

	libp2p "github.com/libp2p/go-libp2p"
	crypto "github.com/libp2p/go-libp2p-core/crypto"
	peer "github.com/libp2p/go-libp2p-core/peer"

	"verif/harness/lib/ev"
)

var bg = context.Background()

// pinset is one enumerated input of part (a).
type pinset struct {
	Label string // "+"-joined alphabet names, "{}" or "bulk200"
	Pins  []apin
	Size  int // number of alphabet pins (bulk: 200)
	Bulk  bool
}

func allPinsets(maxSize int, withBulk bool) []pinset {
	n := len(alphabet())
	var out []pinset
	for _, idx := range subsets(n, maxSize) {
		al := alphabet() // fresh objects per pinset
		ps := pinset{Size: len(idx)}
		var names []string
		for _, i := range idx {
			ps.Pins = append(ps.Pins, al[i])
			names = append(names, al[i].Name)
		}
		ps.Label = "{" + strings.Join(names, "+") + "}"
		out = append(out, ps)
	}
	if withBulk {
		out = append(out, pinset{Label: "bulk200", Pins: bulkSet(200), Size: 200, Bulk: true})
	}
	return out
}

// ---- reporting ----------------------------------------------------------------

// outcome of pushing one pinset through one path.
type pathRun struct {
	Path   string // e.g. "export:raft>import:leveldb"
	Target string // "empty" | "nonempty" | "-"
	Stage  string // stage at which an error/panic happened
	Err    error
	Panic  string
	Got    []*api.Pin
	Want   []apin // expected pinset when it is not the input pinset itself
	// TolerateTargetLeftovers: pins of the pre-existing target that are not
	// in the input may legitimately survive (Unmarshal into a non-empty
	// state: the property text does not say the target is emptied).
	TolerateTargetLeftovers bool
}

type rtReporter struct {
	mu         sync.Mutex
	failsAlone map[string]map[string]bool // path|target -> pin name -> op fails for the singleton
}

func newReporter() *rtReporter { return &rtReporter{failsAlone: map[string]map[string]bool{}} }

func (rp *rtReporter) culprits(pt string, ps pinset) string {
	rp.mu.Lock()
	defer rp.mu.Unlock()
	var c []string
	for _, n := range pinNames(ps.Pins) {
		if rp.failsAlone[pt][n] {
			c = append(c, n)
		}
	}
	if len(c) == 0 { // nothing fails alone: the combination itself is the culprit
		if ps.Bulk {
			return "bulk200"
		}
		if ps.Size == 0 {
			return "{}"
		}
		c = pinNames(ps.Pins)
	}
	return strings.Join(c, "+")
}

// judge compares the observation of one run against the oracle ("the same
// pinset") and reports violations. Returns true when the case held.
func (rp *rtReporter) judge(sec *ev.Section, ps pinset, run pathRun) bool {
	pt := run.Path + "|target=" + run.Target
	base := "C14|roundtrip|" + pt + "|"
	ok := true
	detail := func(extra map[string]interface{}) map[string]interface{} {
		d := map[string]interface{}{"path": run.Path, "target": run.Target, "pinset": ps.Label, "input": describe(ps.Pins)}
		if run.Target == "nonempty" {
			d["target_pins"] = describe(targetPins())
		}
		for k, v := range extra {
			d[k] = v
		}
		return d
	}
	switch {
	case run.Panic != "":
		ok = false
		if ps.Size == 1 {
			rp.markFails(pt, ps.Pins[0].Name)
		}
		R.Violation(base+"panic@"+run.Stage+"|pins="+rp.culprits(pt, ps), detail(map[string]interface{}{"panic": run.Panic, "expected": "round trip reproduces the pinset"}))
	case run.Err != nil:
		ok = false
		if ps.Size == 1 {
			rp.markFails(pt, ps.Pins[0].Name)
		}
		R.Violation(base+"error@"+run.Stage+"|pins="+rp.culprits(pt, ps), detail(map[string]interface{}{"error": run.Err.Error(), "expected": "round trip reproduces the pinset"}))
	default:
		names := namesOf(targetPins(), ps.Pins)
		want := ps.Pins
		if run.Want != nil {
			want = run.Want
			names = namesOf(ps.Pins, targetPins())
		}
		leftovers := 0
		for _, is := range comparePinsets(want, run.Got, names) {
			if run.TolerateTargetLeftovers && is.Symptom == "extra-pin" && strings.HasPrefix(is.Pin, "target-") {
				leftovers++
				continue
			}
			ok = false
			exp := "exactly the input pinset"
			if run.Want != nil {
				exp = "exactly the pinset the target held before the import cleaned it"
			}
			R.Violation(base+is.Symptom+"|pin="+is.Pin, detail(map[string]interface{}{"issue": is, "observed": describePins(run.Got), "expected": exp}))
		}
		if run.TolerateTargetLeftovers {
			if leftovers > 0 {
				R.Outcome(sec, "unmarshal-into-nonempty:pre-existing-pins-kept(observation,not-judged)")
			} else {
				R.Outcome(sec, "unmarshal-into-nonempty:pre-existing-pins-gone")
			}
		}
	}
	res := "same-pinset"
	if !ok {
		res = "DIFFERENT"
	}
	R.Outcome(sec, run.Path+":"+res)
	R.Eval(sec, pt+"|"+ps.Label+"|"+res, ps.Size > 0)
	return ok
}

func (rp *rtReporter) markFails(pt, name string) {
	rp.mu.Lock()
	if rp.failsAlone[pt] == nil {
		rp.failsAlone[pt] = map[string]bool{}
	}
	rp.failsAlone[pt][name] = true
	rp.mu.Unlock()
}

func describe(ps []apin) []map[string]interface{} {
	var out []map[string]interface{}
	for i, a := range ps {
		if i >= 6 {
			out = append(out, map[string]interface{}{"more": len(ps) - i})
			break
		}
		out = append(out, map[string]interface{}{"name": a.Name, "pin": pinJSON(a.Pin)})
	}
	return out
}

func describePins(ps []*api.Pin) []interface{} {
	var out []interface{}
	for i, p := range ps {
		if i >= 6 {
			out = append(out, fmt.Sprintf("... %d more", len(ps)-i))
			break
		}
		out = append(out, pinJSON(p))
	}
	return out
}

// pinJSON renders a pin for a replay artefact without going through the
// code under test's JSON (which is part of what is being checked).
func pinJSON(p *api.Pin) map[string]interface{} {
	m := map[string]interface{}{
		"cid": p.Cid.String(), "type": p.Type.String(), "max_depth": int(p.MaxDepth), "mode": p.Mode.String(),
		"allocations": sortedPeers(p.Allocations), "rf": fmt.Sprintf("%d/%d", p.ReplicationFactorMin, p.ReplicationFactorMax),
		"name": p.Name, "shard_size": p.ShardSize, "metadata": metaString(p.Metadata), "origins": sortedAddrs(p.Origins),
	}
	if p.Reference != nil {
		m["reference"] = p.Reference.String()
	}
	if !p.ExpireAt.IsZero() {
		m["expire_at"] = p.ExpireAt.UTC().Format(time.RFC3339Nano)
	}
	if p.PinUpdate.Defined() {
		m["pin_update"] = p.PinUpdate.String()
	}
	return m
}

// ---- helpers on the real code ------------------------------------------------------

func newDsState() *dsstate.State {
	st, err := dsstate.New(inmem.New(), "/r", dsstate.DefaultHandle())
	if err != nil {
		panic(err)
	}
	return st
}

// fill adds the pins to st through the state's own Add.
func fill(st state.State, pins []apin) error {
	for _, a := range pins {
		if err := st.Add(bg, a.Pin); err != nil {
			return fmt.Errorf("Add(%s): %w", a.Name, err)
		}
	}
	return nil
}

func raftCfg(dataFolder string, keep int) *raft.Config {
	cfg := &raft.Config{}
	cfg.Default()
	cfg.DataFolder = dataFolder
	cfg.BackupsRotate = keep
	return cfg
}

func removeRaftData(dataFolder string) {
	os.RemoveAll(dataFolder)
	m, _ := filepath.Glob(dataFolder + ".old.*")
	for _, f := range m {
		os.RemoveAll(f)
	}
}

// ---- path: dsstate Marshal -> Unmarshal ------------------------------------------------

func runMarshal(ps pinset, nonEmptyTarget bool) pathRun {
	run := pathRun{Path: "marshal>unmarshal", Target: "empty"}
	src := newDsState()
	dst := newDsState()
	if nonEmptyTarget {
		run.Target = "nonempty"
		run.TolerateTargetLeftovers = true
		if err := fill(dst, targetPins()); err != nil {
			run.Stage, run.Err = "fill-target", err
			return run
		}
	}
	var buf bytes.Buffer
	steps := []struct {
		stage string
		f     func() error
	}{
		{"add", func() error { return fill(src, ps.Pins) }},
		{"marshal", func() error { return src.Marshal(&buf) }},
		{"unmarshal", func() error { return dst.Unmarshal(bytes.NewReader(buf.Bytes())) }},
		{"list", func() (err error) { run.Got, err = dst.List(bg); return }},
	}
	for _, s := range steps {
		run.Stage = s.stage
		if run.Err, run.Panic = guard(s.f); run.Err != nil || run.Panic != "" {
			return run
		}
	}
	return run
}

// ---- paths: SnapshotSave -> OfflineState / LastStateRaw ------------------------------------

// runSnapshot saves ps as a Raft snapshot in a private data folder (optionally
// over a folder already holding a snapshot of the target pins) and reads it
// back offline in both ways.
func runSnapshot(dir string, pid peer.ID, ps pinset, nonEmptyTarget bool) []pathRun {
	data := filepath.Join(dir, "raft")
	removeRaftData(data)
	cfg := raftCfg(data, 2)
	target := "empty"
	off := pathRun{Path: "snapshotsave>offlinestate"}
	raw := pathRun{Path: "snapshotsave>laststateraw"}
	fail := func(stage string, err error, p string) []pathRun {
		off.Target, raw.Target = target, target
		off.Stage, off.Err, off.Panic = stage, err, p
		raw.Stage, raw.Err, raw.Panic = stage, err, p
		return []pathRun{off, raw}
	}
	if nonEmptyTarget {
		target = "nonempty"
		st := newDsState()
		if err := fill(st, targetPins()); err != nil {
			return fail("fill-target", err, "")
		}
		if err, p := guard(func() error { return raft.SnapshotSave(cfg, st, []peer.ID{pid}) }); err != nil || p != "" {
			return fail("snapshotsave-target", err, p)
		}
	}
	st := newDsState()
	if err, p := guard(func() error { return fill(st, ps.Pins) }); err != nil || p != "" {
		return fail("add", err, p)
	}
	if err, p := guard(func() error { return raft.SnapshotSave(cfg, st, []peer.ID{pid}) }); err != nil || p != "" {
		return fail("snapshotsave", err, p)
	}
	off.Target, raw.Target = target, target

	off.Stage = "offlinestate"
	off.Err, off.Panic = guard(func() error {
		ost, err := raft.OfflineState(cfg, inmem.New())
		if err != nil {
			return err
		}
		off.Got, err = ost.List(bg)
		return err
	})

	raw.Stage = "laststateraw"
	raw.Err, raw.Panic = guard(func() error {
		r, found, err := raft.LastStateRaw(cfg)
		if err != nil {
			return err
		}
		if !found {
			return errors.New("LastStateRaw reports no snapshot right after SnapshotSave")
		}
		b, err := io.ReadAll(r)
		if err != nil {
			return err
		}
		fresh := newDsState()
		if err := fresh.Unmarshal(bytes.NewReader(b)); err != nil {
			return err
		}
		raw.Got, err = fresh.List(bg)
		return err
	})
	return []pathRun{off, raw}
}

// ---- path: SnapshotSave -> start a real single-peer Raft consensus on it ------------------------

var errNotReady = errors.New("raft consensus did not signal Ready within the harness cap")

func runRaftStart(t testing.TB, dir string, priv crypto.PrivKey, pid peer.ID, ps pinset) (runs []pathRun, broken error) {
	data := filepath.Join(dir, "raft")
	removeRaftData(data)
	start := pathRun{Path: "snapshotsave>raftstart", Target: "-"}
	after := pathRun{Path: "snapshotsave>raftstart>shutdown>offlinestate", Target: "-"}

	mkcfg := func() *raft.Config {
		cfg := raftCfg(data, 2)
		cfg.RaftConfig.HeartbeatTimeout = 50 * time.Millisecond
		cfg.RaftConfig.ElectionTimeout = 50 * time.Millisecond
		cfg.RaftConfig.LeaderLeaseTimeout = 50 * time.Millisecond
		cfg.RaftConfig.CommitTimeout = 5 * time.Millisecond
		cfg.WaitForLeaderTimeout = 60 * time.Second
		return cfg
	}
	st := newDsState()
	start.Stage = "snapshotsave"
	start.Err, start.Panic = guard(func() error {
		if err := fill(st, ps.Pins); err != nil {
			return err
		}
		return raft.SnapshotSave(mkcfg(), st, []peer.ID{pid})
	})
	if start.Err != nil || start.Panic != "" {
		return []pathRun{start}, nil
	}

	h, err := libp2p.New(bg, libp2p.Identity(priv), libp2p.ListenAddrStrings("/ip4/127.0.0.1/tcp/0"))
	if err != nil {
		return nil, fmt.Errorf("cannot create libp2p host: %w", err)
	}
	defer h.Close()

	var cc *raft.Consensus
	start.Stage = "newconsensus"
	start.Err, start.Panic = guard(func() error {
		var err error
		cc, err = raft.NewConsensus(h, mkcfg(), inmem.New(), false)
		return err
	})
	if start.Err != nil || start.Panic != "" {
		return []pathRun{start}, nil
	}
	cc.SetClient(test.NewMockRPCClientWithHost(t, h))
	select {
	case <-cc.Ready(bg):
	case <-time.After(90 * time.Second):
		cc.Shutdown(bg)
		return nil, errNotReady
	}
	start.Stage = "state.list"
	start.Err, start.Panic = guard(func() error {
		rst, err := cc.State(bg)
		if err != nil {
			return err
		}
		start.Got, err = rst.List(bg)
		return err
	})
	after.Stage = "shutdown"
	after.Err, after.Panic = guard(func() error { return cc.Shutdown(bg) })
	if after.Err == nil && after.Panic == "" {
		after.Stage = "offlinestate"
		after.Err, after.Panic = guard(func() error {
			ost, err := raft.OfflineState(mkcfg(), inmem.New())
			if err != nil {
				return err
			}
			after.Got, err = ost.List(bg)
			return err
		})
	}
	return []pathRun{start, after}, nil
}

// ---- paths: cmdutils state managers ExportState -> ImportState ------------------------------------

// site is a real configuration folder (service.json + identity.json written
// and re-loaded by cmdutils.ConfigHelper) with its state manager.
type site struct {
	kind string // "raft" | "leveldb" | "badger"
	dir  string
	ch   *cmdutils.ConfigHelper
	mgr  cmdutils.StateManager
	pid  peer.ID
}

func newSite(dir, kind string) (*site, error) {
	consensus, dstore := "crdt", kind
	if kind == "raft" {
		consensus, dstore = "raft", ""
	}
	cfgPath := filepath.Join(dir, "service.json")
	idPath := filepath.Join(dir, "identity.json")
	ch := cmdutils.NewConfigHelper(cfgPath, idPath, consensus, dstore)
	if err := ch.Manager().Default(); err != nil {
		return nil, err
	}
	priv, pub, err := crypto.GenerateKeyPair(crypto.Ed25519, 0)
	if err != nil {
		return nil, err
	}
	pid, err := peer.IDFromPublicKey(pub)
	if err != nil {
		return nil, err
	}
	ch.Identity().ID = pid
	ch.Identity().PrivateKey = priv
	if err := ch.SaveConfigToDisk(); err != nil {
		return nil, err
	}
	if err := ch.SaveIdentityToDisk(); err != nil {
		return nil, err
	}
	ch.Manager().Shutdown()

	// what ipfs-cluster-service does for "state export/import"
	loaded, err := cmdutils.NewLoadedConfigHelper(cfgPath, idPath)
	if err != nil {
		return nil, err
	}
	if loaded.GetConsensus() != consensus {
		return nil, fmt.Errorf("site %s: consensus detected as %q", kind, loaded.GetConsensus())
	}
	mgr, err := cmdutils.NewStateManagerWithHelper(loaded)
	if err != nil {
		return nil, err
	}
	return &site{kind: kind, dir: dir, ch: loaded, mgr: mgr, pid: pid}, nil
}

func (s *site) close() { s.ch.Manager().Shutdown() }

// reset puts exactly pins into the site's storage WITHOUT using import:
// storage is wiped at the filesystem level, then filled through the
// consensus component's own offline state.
func (s *site) reset(pins []apin) error {
	cfgs := s.ch.Configs()
	switch s.kind {
	case "raft":
		removeRaftData(cfgs.Raft.GetDataFolder())
		if len(pins) == 0 {
			return nil
		}
		st := newDsState()
		if err := fill(st, pins); err != nil {
			return err
		}
		return raft.SnapshotSave(cfgs.Raft, st, []peer.ID{s.pid})
	default:
		if s.kind == "leveldb" {
			os.RemoveAll(cfgs.LevelDB.GetFolder())
		} else {
			os.RemoveAll(cfgs.Badger.GetFolder())
		}
		if len(pins) == 0 {
			return nil
		}
		store, err := s.mgr.GetStore()
		if err != nil {
			return err
		}
		defer store.Close()
		st, err := s.mgr.GetOfflineState(store)
		if err != nil {
			return err
		}
		if err := fill(st, pins); err != nil {
			return err
		}
		return st.(state.BatchingState).Commit(bg)
	}
}

// read lists the site's pinset offline.
func (s *site) read() ([]*api.Pin, error) {
	store, err := s.mgr.GetStore()
	if err != nil {
		return nil, err
	}
	defer store.Close()
	st, err := s.mgr.GetOfflineState(store)
	if err != nil {
		return nil, err
	}
	return st.List(bg)
}

type siteSet struct {
	src, dst map[string]*site
}

var siteKinds = []string{"raft", "leveldb", "badger"}

func newSiteSet(dir string) (*siteSet, error) {
	ss := &siteSet{src: map[string]*site{}, dst: map[string]*site{}}
	var mu sync.Mutex
	var wg sync.WaitGroup
	var firstErr error
	for _, role := range []string{"src", "dst"} {
		for _, k := range siteKinds {
			wg.Add(1)
			go func(role, k string) {
				defer wg.Done()
				s, err := newSite(filepath.Join(dir, role+"-"+k), k)
				mu.Lock()
				defer mu.Unlock()
				if err != nil {
					if firstErr == nil {
						firstErr = fmt.Errorf("site %s/%s: %w", role, k, err)
					}
					return
				}
				if role == "src" {
					ss.src[k] = s
				} else {
					ss.dst[k] = s
				}
			}(role, k)
		}
	}
	wg.Wait()
	return ss, firstErr
}

func (ss *siteSet) close() {
	// config.Manager.Shutdown waits for its 1 s save ticker: do it concurrently
	var wg sync.WaitGroup
	for _, m := range []map[string]*site{ss.src, ss.dst} {
		for _, s := range m {
			wg.Add(1)
			go func(s *site) { defer wg.Done(); s.close() }(s)
		}
	}
	wg.Wait()
}

// exportImportPairs: source kind -> destination kinds ("elsewhere" includes
// the same kind of peer and a peer of the other consensus flavour).
var exportImportPairs = [][2]string{
	{"raft", "raft"}, {"raft", "leveldb"},
	{"leveldb", "leveldb"}, {"leveldb", "raft"},
	{"badger", "badger"}, {"badger", "raft"},
}

func pairMaxSize(src, dst string) int {
	if ev.Thorough() || (src == "raft" && dst == "raft") {
		return 3
	}
	// quick tier: the crdt stores cost 0.1-0.3 s of fsync-heavy I/O per pinset
	if src == "badger" || dst == "badger" {
		return 1
	}
	return 2
}

// runExportImport exports ps from a source site of kind src and imports the
// stream into destination sites, over an empty and a non-empty target.
func runExportImport(ss *siteSet, ps pinset, src string, dsts []string) []pathRun {
	var runs []pathRun
	failAll := func(stage string, err error, p string) []pathRun {
		for _, d := range dsts {
			for _, tg := range []string{"empty", "nonempty"} {
				runs = append(runs, pathRun{Path: "export:" + src + ">import:" + d, Target: tg, Stage: stage, Err: err, Panic: p})
			}
		}
		return runs
	}
	s := ss.src[src]
	t0 := time.Now()
	defer func() { addTiming("exportimport src="+src+" dsts="+strings.Join(dsts, ","), time.Since(t0)) }()
	if err, p := guard(func() error { return s.reset(ps.Pins) }); err != nil || p != "" {
		return failAll("fill-source", err, p)
	}
	var stream bytes.Buffer
	if err, p := guard(func() error { return s.mgr.ExportState(&stream) }); err != nil || p != "" {
		return failAll("export", err, p)
	}
	for _, d := range dsts {
		ds := ss.dst[d]
		for _, tg := range []string{"empty", "nonempty"} {
			run := pathRun{Path: "export:" + src + ">import:" + d, Target: tg}
			var tpins []apin
			if tg == "nonempty" {
				tpins = targetPins()
			}
			steps := []struct {
				stage string
				f     func() error
			}{
				{"fill-target", func() error { return ds.reset(tpins) }},
				{"import", func() error { return ds.mgr.ImportState(bytes.NewReader(stream.Bytes())) }},
				{"read-after-import", func() (err error) { run.Got, err = ds.read(); return }},
			}
			for _, st := range steps {
				run.Stage = st.stage
				if run.Err, run.Panic = guard(st.f); run.Err != nil || run.Panic != "" {
					break
				}
			}
			runs = append(runs, run)

			// Importing into a Raft peer cleans its data first: data that
			// held a snapshot must stay recoverable as the newest backup
			// (whether or not the import itself then succeeded).
			if d == "raft" && tg == "nonempty" && run.Stage != "fill-target" {
				bk := pathRun{Path: "export:" + src + ">import:raft>read-backup.old.0", Target: tg, Want: tpins, Stage: "offlinestate(.old.0)"}
				bk.Err, bk.Panic = guard(func() error {
					cfg := raftCfg(ds.ch.Configs().Raft.GetDataFolder()+".old.0", 1)
					_, found, err := raft.LastStateRaw(cfg)
					if err != nil {
						return err
					}
					if !found {
						return errors.New("no snapshot in <data>.old.0 after importing over data that held one")
					}
					ost, err := raft.OfflineState(cfg, inmem.New())
					if err != nil {
						return err
					}
					bk.Got, err = ost.List(bg)
					return err
				})
				runs = append(runs, bk)
			}
		}
	}
	return runs
}

var timingMu sync.Mutex
var timing = map[string]time.Duration{}
var timingN = map[string]int{}

func addTiming(k string, d time.Duration) {
	timingMu.Lock()
	timing[k] += d
	timingN[k]++
	timingMu.Unlock()
}

func dumpTiming() {
	if os.Getenv("C14_TIMING") == "" {
		return
	}
	timingMu.Lock()
	defer timingMu.Unlock()
	var ks []string
	for k := range timing {
		ks = append(ks, k)
	}
	sort.Strings(ks)
	for _, k := range ks {
		fmt.Printf("TIMING %-60s n=%-6d total=%v\n", k, timingN[k], timing[k])
	}
}

// ---- drivers ---------------------------------------------------------------------

// inPhases runs f over the pinsets with w workers: first all pinsets of size
// <= 1 (so that "fails alone" attribution is complete), then the rest.
func inPhases(sets []pinset, w int, f func(worker int, ps pinset)) {
	var small, big []pinset
	for _, ps := range sets {
		if ps.Size <= 1 {
			small = append(small, ps)
		} else {
			big = append(big, ps)
		}
	}
	for _, phase := range [][]pinset{small, big} {
		ch := make(chan pinset)
		var wg sync.WaitGroup
		for i := 0; i < w; i++ {
			wg.Add(1)
			go func(i int) {
				defer wg.Done()
				for ps := range ch {
					f(i, ps)
				}
			}(i)
		}
		for _, ps := range phase {
			ch <- ps
		}
		close(ch)
		wg.Wait()
	}
}

func TestRoundTripInMemoryAndSnapshots(t *testing.T) {
	t.Parallel()
	sets := allPinsets(3, true)
	rp := newReporter()

	secM := R.Sec("a1:dsstate Marshal>Unmarshal")
	secM.Bounds["pinsets"] = fmt.Sprintf("all subsets of size<=3 of the %d-pin alphabet (%d) + one 200-pin set", len(alphabet()), len(sets)-1)
	secM.Bounds["targets"] = "unmarshal into an empty state and into a state holding 2 other pins (one clashing CID)"
	secS := R.Sec("a2:raft.SnapshotSave>OfflineState/LastStateRaw")
	secS.Bounds["pinsets"] = secM.Bounds["pinsets"]
	secS.Bounds["targets"] = "fresh data folder; data folder already holding a snapshot of 2 other pins"

	const workers = 4
	dirs := make([]string, workers)
	pids := make([]peer.ID, workers)
	for i := range dirs {
		dirs[i] = scratch(t, "snap")
		_, pub, _ := crypto.GenerateKeyPair(crypto.Ed25519, 0)
		pids[i], _ = peer.IDFromPublicKey(pub)
	}
	inPhases(sets, workers, func(w int, ps pinset) {
		for _, nonEmpty := range []bool{false, true} {
			rp.judge(secM, ps, runMarshal(ps, nonEmpty))
			for _, run := range runSnapshot(dirs[w], pids[w], ps, nonEmpty) {
				rp.judge(secS, ps, run)
			}
		}
	})
	R.SampleTagged("a:pinset", 2, map[string]interface{}{"label": sets[20].Label, "pins": describe(sets[20].Pins)})
	for _, d := range dirs {
		os.RemoveAll(d)
	}
}

func TestRoundTripExportImport(t *testing.T) {
	t.Parallel()
	sets := allPinsets(3, true)
	rp := newReporter()
	sec := R.Sec("a3:cmdutils ExportState>ImportState")
	bounds := map[string]string{}
	for _, p := range exportImportPairs {
		bounds[p[0]+">"+p[1]] = fmt.Sprintf("all pinsets of size<=%d + the 200-pin set", pairMaxSize(p[0], p[1]))
	}
	sec.Bounds["pairs (source manager > destination manager)"] = bounds
	sec.Bounds["targets"] = "import into a fresh peer and into a peer already holding 2 other pins (one clashing CID): import must replace"
	sec.Bounds["setup"] = "real service.json/identity.json written and re-loaded through cmdutils.ConfigHelper; raft, crdt+leveldb, crdt+badger"

	const workers = 4
	sss := make([]*siteSet, workers)
	tSetup := time.Now()
	defer func() { addTiming("exportimport whole test", time.Since(tSetup)) }()
	{
		var wg sync.WaitGroup
		errs := make([]error, workers)
		for i := range sss {
			wg.Add(1)
			d := scratch(t, "sites")
			go func(i int) { defer wg.Done(); sss[i], errs[i] = newSiteSet(d) }(i)
		}
		wg.Wait()
		for _, err := range errs {
			if err != nil {
				t.Fatal(err)
			}
		}
	}
	addTiming("exportimport site setup", time.Since(tSetup))
	inPhases(sets, workers, func(w int, ps pinset) {
		for _, src := range siteKinds {
			var dsts []string
			for _, p := range exportImportPairs {
				if p[0] == src && (ps.Bulk || ps.Size <= pairMaxSize(p[0], p[1])) {
					dsts = append(dsts, p[1])
				}
			}
			if len(dsts) == 0 {
				continue
			}
			for _, run := range runExportImport(sss[w], ps, src, dsts) {
				rp.judge(sec, ps, run)
			}
		}
	})
	var wg sync.WaitGroup
	for _, ss := range sss {
		wg.Add(1)
		go func(ss *siteSet) {
			defer wg.Done()
			ss.close()
			for _, s := range ss.src {
				os.RemoveAll(filepath.Dir(s.dir))
			}
		}(ss)
	}
	wg.Wait()
}

func TestRoundTripRaftStart(t *testing.T) {
	t.Parallel()
	maxSize := 2
	if ev.Thorough() {
		maxSize = 3
	}
	sets := allPinsets(maxSize, true)
	rp := newReporter()
	sec := R.Sec("a4:raft.SnapshotSave>start single-peer raft.NewConsensus")
	sec.Bounds["pinsets"] = fmt.Sprintf("all subsets of size<=%d of the alphabet (%d) + one 200-pin set", maxSize, len(sets)-1)
	sec.Bounds["peer"] = "real libp2p host on TCP loopback, real boltdb/file snapshot store; readiness = the component's own Ready() channel"

	const workers = 8
	dirs := make([]string, workers)
	privs := make([]crypto.PrivKey, workers)
	pids := make([]peer.ID, workers)
	for i := range dirs {
		dirs[i] = scratch(t, "raftstart")
		priv, pub, _ := crypto.GenerateKeyPair(crypto.Ed25519, 0)
		privs[i] = priv
		pids[i], _ = peer.IDFromPublicKey(pub)
	}
	var mu sync.Mutex
	var brokenErrs []string
	inPhases(sets, workers, func(w int, ps pinset) {
		runs, broken := runRaftStart(t, dirs[w], privs[w], pids[w], ps)
		if broken != nil {
			mu.Lock()
			brokenErrs = append(brokenErrs, ps.Label+": "+broken.Error())
			mu.Unlock()
			return
		}
		for _, run := range runs {
			rp.judge(sec, ps, run)
		}
	})
	sort.Strings(brokenErrs)
	for _, b := range brokenErrs {
		R.Broken("raft start: %s", b)
	}
	for _, d := range dirs {
		os.RemoveAll(d)
	}
}
