package c14

// Serialising the state (Marshal: what a Raft snapshot is made of) while the
// datastore under it fails in the middle of the iteration: a result that
// carries an error after k good entries, which is how badger/leveldb report an
// I/O or corruption error. "Serialising then deserialising reproduces the same
// pinset" then has two legal outcomes only: Marshal reports the error, or
// what it wrote reads back as the whole pinset. A snapshot written through
// raft.SnapshotSave likewise: an error and no snapshot, or the whole pinset.

import (
	"bytes"
	"errors"
	"fmt"
	"os"
	"path/filepath"
	"testing"

	"github.com/ipfs/ipfs-cluster/consensus/raft"
	"github.com/ipfs/ipfs-cluster/datastore/inmem"
	"github.com/ipfs/ipfs-cluster/state/dsstate"

	ds "github.com/ipfs/go-datastore"
	dsq "github.com/ipfs/go-datastore/query"
	crypto "github.com/libp2p/go-libp2p-core/crypto"
	peer "github.com/libp2p/go-libp2p-core/peer"
)

// faultDS delivers an error result after failAfter entries of every query
// (failAfter < 0: never).
type faultDS struct {
	ds.Datastore
	failAfter int
}

var errReadFault = errors.New("injected: datastore read error in the middle of the iteration")

func (f *faultDS) Query(q dsq.Query) (dsq.Results, error) {
	res, err := f.Datastore.Query(q)
	if err != nil || f.failAfter < 0 {
		return res, err
	}
	entries, err := res.Rest()
	if err != nil {
		return nil, err
	}
	ch := make(chan dsq.Result, len(entries)+1)
	for i, e := range entries {
		if i == f.failAfter {
			break
		}
		ch <- dsq.Result{Entry: e}
	}
	if f.failAfter <= len(entries) {
		ch <- dsq.Result{Error: errReadFault}
	}
	close(ch)
	return dsq.ResultsWithChan(q, ch), nil
}

func TestMarshalReadFault(t *testing.T) {
	sec := R.Sec("a6:Marshal / SnapshotSave with a datastore read fault in mid-iteration")
	sets := allPinsets(2, false)
	sec.Bounds["pinsets"] = fmt.Sprintf("all subsets of size<=2 of the alphabet (%d)", len(sets))
	sec.Bounds["fault"] = "the datastore's query delivers an error result after k entries, k = 0..|pinset|"
	dir := scratch(t, "readfault")
	defer os.RemoveAll(dir)
	priv, pub, _ := crypto.GenerateKeyPair(crypto.Ed25519, 0)
	_ = priv
	pid, _ := peer.IDFromPublicKey(pub)
	rp := newReporter()
	for _, ps := range sets {
		for k := 0; k <= len(ps.Pins); k++ {
			fd := &faultDS{Datastore: inmem.New(), failAfter: -1}
			st, err := dsstate.New(fd, "/r", dsstate.DefaultHandle())
			if err != nil {
				t.Fatal(err)
			}
			if err := fill(st, ps.Pins); err != nil {
				R.Broken("read-fault: filling the state: %v", err)
				return
			}
			fd.failAfter = k

			// (a) Marshal > Unmarshal
			var buf bytes.Buffer
			merr, mp := guard(func() error { return st.Marshal(&buf) })
			run := pathRun{Path: fmt.Sprintf("marshal(read-fault)>unmarshal"), Target: "empty", Stage: "marshal", Panic: mp}
			if mp == "" && merr == nil {
				// reported success: what was written must be everything
				dst := newDsState()
				run.Stage = "unmarshal"
				run.Err, run.Panic = guard(func() error { return dst.Unmarshal(bytes.NewReader(buf.Bytes())) })
				if run.Err == nil && run.Panic == "" {
					run.Stage = "list"
					run.Err, run.Panic = guard(func() (err error) { run.Got, err = dst.List(bg); return })
				}
				rp.judge(sec, ps, run)
			} else if mp != "" {
				rp.judge(sec, ps, run)
			} else {
				R.Eval(sec, "marshal(read-fault):error-reported", true)
				R.Outcome(sec, "marshal(read-fault):error-reported")
			}

			// (b) SnapshotSave > OfflineState
			data := filepath.Join(dir, "raft")
			removeRaftData(data)
			serr, sp := guard(func() error { return raft.SnapshotSave(raftCfg(data, 2), st, []peer.ID{pid}) })
			srun := pathRun{Path: "snapshotsave(read-fault)>offlinestate", Target: "-", Stage: "snapshotsave", Panic: sp}
			_, found, lerr := raft.LastStateRaw(raftCfg(data, 2))
			switch {
			case sp != "":
				rp.judge(sec, ps, srun)
			case serr != nil && (found || lerr != nil) && lerr == nil:
				srun.Stage = "snapshotsave"
				srun.Err = fmt.Errorf("SnapshotSave reported %q but left a snapshot behind", serr)
				rp.judge(sec, ps, srun)
			case serr != nil:
				R.Eval(sec, "snapshotsave(read-fault):error-reported-no-snapshot", true)
				R.Outcome(sec, "snapshotsave(read-fault):error-reported-no-snapshot")
			default:
				srun.Stage = "offlinestate"
				srun.Err, srun.Panic = guard(func() error {
					ost, err := raft.OfflineState(raftCfg(data, 2), inmem.New())
					if err != nil {
						return err
					}
					srun.Got, err = ost.List(bg)
					return err
				})
				rp.judge(sec, ps, srun)
			}
		}
	}
}
