// Package c14 checks property C14 of ipfs-cluster on the real code:
// state export/import, Raft snapshots (offline read and single-peer start),
// dsstate Marshal/Unmarshal, rotation of Raft data backups, and the peerstore
// file round trip.
//
// Everything is bounded-exhaustive enumeration; no sampling, no wall-clock
// oracle (the only real-time wait is for the Raft component's own Ready()
// signal; a timeout there is a broken check, never a verdict).
package c14

import (
	"fmt"
	"os"
	"path/filepath"
	"runtime"
	"runtime/debug"
	"sync"
	"sync/atomic"
	"testing"
	"time"

	logging "github.com/ipfs/go-log/v2"

	"verif/harness/lib/ev"
)

var R *ev.Run

func TestMain(m *testing.M) {
	R = ev.New("C14", "model_checking")
	R.Rule("(a) every pinset = subset of size<=3 of a 15-pin alphabet (one pin per distinguishing feature) plus one 200-pin set, pushed through every round-trip path on the real code; a case is the (path, target-state, pinset) triple, non-trivial when the pinset is non-empty. " +
		"(b) explicit-state search over the real directory tree: state = live Raft folder (absent / no snapshot / snapshot) + set of <data>.old.i folders with identity tags; every op (SnapshotSave, CleanupRaft) applied from every reached state, for keep N in {1,2,3,5}, from every subset of pre-existing backup indices {0..N}; a transition is non-trivial when it cleans data holding a snapshot. " +
		"(c) every address set of 1-3 peers x address kinds x priority permutations saved and re-loaded on real libp2p hosts; every base file with 0-2 malformed lines at every position; non-trivial when >=2 peers or >=1 malformed line.")
	R.Assume("go1.26 builds the repo with the same semantics as the project's toolchain for the code under test")
	R.Assume("Pin.UserAllocations, sub-second expiry, Pin.Mode when it disagrees with MaxDepth, metadata entries with an empty key, nil-vs-empty slices/maps and the order of allocations/origins are not part of 'the same pinset' (documented lossy or derived fields)")
	R.Assume("backup folders with an index >= N (left over from a larger retention) are outside the property text; the oracle is silent about them")
	if os.Getenv("C14_VERBOSE") == "" {
		// hashicorp/raft's file snapshot store logs every snapshot to
		// os.Stderr (thousands of lines); the verdict lines must not be
		// pushed out of vcheck's tail.
		logging.SetAllLoggers(logging.LevelFatal)
		if dn, err := os.OpenFile(os.DevNull, os.O_WRONLY, 0); err == nil {
			os.Stderr = dn
		}
	}
	// raft.SnapshotSave / CleanupRaft / OfflineState / LastStateRaw never close
	// the snapshot reader they open (latestSnapshot); the descriptors are only
	// released by the os.File finalizer. Force collections so that long runs
	// do not hit the descriptor limit (observation recorded in FINDINGS.md).
	go func() {
		for range time.Tick(500 * time.Millisecond) {
			runtime.GC()
		}
	}()
	ev.Main(func() int {
		code := m.Run()
		dumpTiming()
		if scratchMade != "" {
			os.RemoveAll(scratchMade)
		}
		return code
	}, R)
}

var scratchMade string
var scratchMu sync.Mutex
var scratchSeq int64

// scratch returns a fresh private directory under $VERIF_SCRATCH (or a temp
// dir under /var/tmp for manual runs).
func scratch(t testing.TB, name string) string {
	scratchMu.Lock()
	defer scratchMu.Unlock()
	base := os.Getenv("VERIF_SCRATCH")
	if base == "" {
		if scratchMade == "" {
			d, err := os.MkdirTemp("/var/tmp", "verif-c14-")
			if err != nil {
				t.Fatal(err)
			}
			scratchMade = d
		}
		base = scratchMade
	}
	d := filepath.Join(base, fmt.Sprintf("c14-%s-%d", name, atomic.AddInt64(&scratchSeq, 1)))
	if err := os.MkdirAll(d, 0o700); err != nil {
		t.Fatal(err)
	}
	return d
}

// guard runs f and converts a panic of the code under test into a value.
func guard(f func() error) (err error, panicked string) {
	defer func() {
		if r := recover(); r != nil {
			panicked = fmt.Sprintf("%v\n%s", r, firstLines(string(debug.Stack()), 30))
		}
	}()
	return f(), ""
}

func firstLines(s string, n int) string {
	c := 0
	for i := range s {
		if s[i] == '\n' {
			c++
			if c == n {
				return s[:i]
			}
		}
	}
	return s
}
