package c14

import (
	"bytes"
	"encoding/json"
	"context"
	"fmt"
	"os"
	"path/filepath"
	"testing"
	"time"

	"github.com/ipfs/ipfs-cluster/api"
	"github.com/ipfs/ipfs-cluster/cmdutils"
	"github.com/ipfs/ipfs-cluster/consensus/raft"
	"github.com/ipfs/ipfs-cluster/datastore/inmem"
	"github.com/ipfs/ipfs-cluster/state/dsstate"
	"github.com/ipfs/ipfs-cluster/test"

	libp2p "github.com/libp2p/go-libp2p"
	crypto "github.com/libp2p/go-libp2p-core/crypto"
	peer "github.com/libp2p/go-libp2p-core/peer"
	ma "github.com/multiformats/go-multiaddr"
)

func TestProbe(t *testing.T) {
	ctx := context.Background()
	dir := t.TempDir()
	priv, pub, _ := crypto.GenerateKeyPair(crypto.Ed25519, 0)
	pid, _ := peer.IDFromPublicKey(pub)

	mkState := func(n int) *dsstate.State {
		st, _ := dsstate.New(inmem.New(), "/r", dsstate.DefaultHandle())
		p := api.PinCid(test.Cid1)
		p.Name = fmt.Sprint("tag", n)
		st.Add(ctx, p)
		return st
	}
	cfg := &raft.Config{}
	cfg.Default()
	cfg.DataFolder = filepath.Join(dir, "raft")
	cfg.BackupsRotate = 3
	t0 := time.Now()
	for i := 0; i < 20; i++ {
		if err := raft.SnapshotSave(cfg, mkState(i), []peer.ID{pid}); err != nil {
			t.Fatal(err)
		}
	}
	fmt.Println("20 SnapshotSave (with cleanup):", time.Since(t0))
	t0 = time.Now()
	for i := 0; i < 20; i++ {
		st, err := raft.OfflineState(cfg, inmem.New())
		if err != nil {
			t.Fatal(err)
		}
		st.List(ctx)
	}
	fmt.Println("20 OfflineState:", time.Since(t0))
	ents, _ := os.ReadDir(dir)
	for _, e := range ents {
		fmt.Println(" ", e.Name())
	}

	// single-peer raft start
	for i := 0; i < 3; i++ {
		t0 = time.Now()
		h, err := libp2p.New(ctx, libp2p.Identity(priv), libp2p.ListenAddrStrings("/ip4/127.0.0.1/tcp/0"))
		if err != nil {
			t.Fatal(err)
		}
		fmt.Println("host:", time.Since(t0))
		cfg.RaftConfig.HeartbeatTimeout = 50 * time.Millisecond
		cfg.RaftConfig.ElectionTimeout = 50 * time.Millisecond
		cfg.RaftConfig.LeaderLeaseTimeout = 50 * time.Millisecond
		cfg.RaftConfig.CommitTimeout = 5 * time.Millisecond
		cc, err := raft.NewConsensus(h, cfg, inmem.New(), false)
		if err != nil {
			t.Fatal(err)
		}
		cc.SetClient(test.NewMockRPCClientWithHost(t, h))
		select {
		case <-cc.Ready(ctx):
		case <-time.After(20 * time.Second):
			t.Fatal("not ready")
		}
		st, _ := cc.State(ctx)
		pins, _ := st.List(ctx)
		fmt.Println("raft start→ready:", time.Since(t0), len(pins), pins[0].Name)
		cc.Shutdown(ctx)
		h.Close()
		fmt.Println("raft total:", time.Since(t0))
	}
	st, err := raft.OfflineState(cfg, inmem.New())
	if err != nil {
		t.Fatal(err)
	}
	pins, _ := st.List(ctx)
	fmt.Println("after restart offline:", len(pins))

	// cmdutils managers
	for _, kind := range [][2]string{{"raft", ""}, {"crdt", "leveldb"}, {"crdt", "badger"}} {
		d := filepath.Join(dir, "cfg-"+kind[0]+kind[1])
		cfgPath := filepath.Join(d, "service.json")
		idPath := filepath.Join(d, "identity.json")
		t0 = time.Now()
		ch := cmdutils.NewConfigHelper(cfgPath, idPath, kind[0], kind[1])
		if err := ch.Manager().Default(); err != nil {
			t.Fatal(err)
		}
		ch.Identity().ID = pid
		ch.Identity().PrivateKey = priv
		if err := ch.SaveConfigToDisk(); err != nil {
			t.Fatal(err)
		}
		if err := ch.SaveIdentityToDisk(); err != nil {
			t.Fatal(err)
		}
		ch.Manager().Shutdown()
		ch2, err := cmdutils.NewLoadedConfigHelper(cfgPath, idPath)
		if err != nil {
			t.Fatal(err)
		}
		fmt.Println(kind, "consensus:", ch2.GetConsensus(), "datastore:", ch2.GetDatastore(), "cfg setup:", time.Since(t0))
		mgr, err := cmdutils.NewStateManagerWithHelper(ch2)
		if err != nil {
			t.Fatal(err)
		}
		p := api.PinCid(test.Cid1)
		p.Name = "x"
		js, _ := json.Marshal(p)
		for i := 0; i < 3; i++ {
			t0 = time.Now()
			if err := mgr.ImportState(bytes.NewReader(append(js, '\n'))); err != nil {
				t.Fatal(err)
			}
			ti := time.Since(t0)
			t0 = time.Now()
			var buf bytes.Buffer
			if err := mgr.ExportState(&buf); err != nil {
				t.Fatal(err)
			}
			fmt.Println(kind, "import:", ti, "export:", time.Since(t0), buf.String())
		}
	}
	_ = bytes.NewBuffer
	_ = ma.StringCast
}
