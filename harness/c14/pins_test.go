package c14

import (
	"fmt"
	"sort"
	"strings"
	"time"

	"github.com/ipfs/ipfs-cluster/api"
	"github.com/ipfs/ipfs-cluster/test"

	cid "github.com/ipfs/go-cid"
	peer "github.com/libp2p/go-libp2p-core/peer"
	ma "github.com/multiformats/go-multiaddr"
	mh "github.com/multiformats/go-multihash"
)

// ---- pin alphabet ---------------------------------------------------------

func cidV0(seed string) cid.Cid {
	h, err := mh.Sum([]byte("c14-"+seed), mh.SHA2_256, -1)
	if err != nil {
		panic(err)
	}
	return cid.NewCidV0(h)
}

func cidV1(seed string) cid.Cid {
	h, err := mh.Sum([]byte("c14-"+seed), mh.SHA2_256, -1)
	if err != nil {
		panic(err)
	}
	return cid.NewCidV1(cid.Raw, h)
}

func mustMA(s string) ma.Multiaddr {
	a, err := ma.NewMultiaddr(s)
	if err != nil {
		panic(err)
	}
	return a
}

// apin is one alphabet entry: a well-formed pin carrying one distinguishing
// feature.
type apin struct {
	Name     string
	Pin      *api.Pin
	SkipMode bool // Mode deliberately disagrees with MaxDepth (as the adder's meta pin): derived field, not compared
}

// frozen reference instants (far in the future, nothing here consults a clock)
var (
	expWhole  = time.Date(2040, 3, 4, 5, 6, 7, 0, time.UTC)
	expSubsec = time.Date(2041, 1, 2, 3, 4, 5, 678912345, time.FixedZone("x", 5*3600+1800))
)

func dataPin(c cid.Cid) *api.Pin {
	p := api.PinCid(c) // DataType, MaxDepth -1, Allocations []
	p.ReplicationFactorMin = -1
	p.ReplicationFactorMax = -1
	return p
}

// alphabet builds fresh pin objects on every call (paths may mutate them).
func alphabet() []apin {
	var al []apin
	add := func(name string, p *api.Pin, skipMode bool) {
		al = append(al, apin{Name: name, Pin: p, SkipMode: skipMode})
	}

	// 1. default recursive data pin, CIDv0, no allocations, factors -1/-1
	add("data-default-v0", dataPin(cidV0("default")), false)

	// 2. direct data pin, CIDv1, 1 allocation, factors 1/1, ascii name
	p := dataPin(cidV1("direct"))
	p.MaxDepth = 0
	p.Mode = api.PinModeDirect
	p.Allocations = []peer.ID{test.PeerID1}
	p.ReplicationFactorMin, p.ReplicationFactorMax = 1, 1
	p.Name = "plain ascii name"
	add("data-direct-v1", p, false)

	// 3. meta pin as the sharding adder builds it: reference to the cluster
	// DAG, MaxDepth 0 but user Mode recursive, shard size, factors 2/3
	ref := cidV1("clusterdag")
	p = dataPin(cidV0("meta"))
	p.Type = api.MetaType
	p.MaxDepth = 0
	p.Reference = &ref
	p.ShardSize = 100 * 1024 * 1024
	p.ReplicationFactorMin, p.ReplicationFactorMax = 2, 3
	p.Name = "sharded-thing"
	add("meta-ref", p, true)

	// 4. cluster DAG pin: reference to the meta pin, direct, everywhere
	ref2 := cidV0("meta")
	p = dataPin(cidV1("clusterdag"))
	p.Type = api.ClusterDAGType
	p.MaxDepth = 0
	p.Mode = api.PinModeDirect
	p.Reference = &ref2
	add("clusterdag-ref", p, false)

	// 5. shard pin: MaxDepth 1, reference to the previous shard, 2 allocations
	ref3 := cidV1("shard-first")
	p = dataPin(cidV1("shard"))
	p.Type = api.ShardType
	p.MaxDepth = 1
	p.Reference = &ref3
	p.Allocations = []peer.ID{test.PeerID2, test.PeerID3}
	p.ReplicationFactorMin, p.ReplicationFactorMax = 2, 2
	p.Name = "shard-1"
	add("shard-ref-2allocs", p, false)

	// 6. first shard: MaxDepth 1, no reference
	p = dataPin(cidV1("shard-first"))
	p.Type = api.ShardType
	p.MaxDepth = 1
	p.Allocations = []peer.ID{test.PeerID4}
	p.ReplicationFactorMin, p.ReplicationFactorMax = 1, 1
	add("shard-noref", p, false)

	// 7. unicode name, user allocations (transient by documentation), factors 0/0
	p = dataPin(cidV0("unicode"))
	p.Name = "ñandú — пин 📌 \"quoted\" \\ back/slash\ttab"
	p.UserAllocations = []peer.ID{test.PeerID5, test.PeerID6}
	p.Allocations = []peer.ID{test.PeerID5, test.PeerID6}
	p.ReplicationFactorMin, p.ReplicationFactorMax = 0, 0
	add("name-unicode", p, false)

	// 8. metadata: ascii, unicode and an empty value
	p = dataPin(cidV1("metadata"))
	p.Metadata = map[string]string{"k": "v", "ключ": "значение ✓", "empty-value": "", "sp ace": "a=b&c"}
	add("metadata-map", p, false)

	// 9. metadata with an empty key
	p = dataPin(cidV0("metadata-emptykey"))
	p.Metadata = map[string]string{"": "value-of-empty-key", "other": "x"}
	add("metadata-emptykey", p, false)

	// 10. expiry on a whole second
	p = dataPin(cidV1("expire-whole"))
	p.ExpireAt = expWhole
	add("expire-whole", p, false)

	// 11. expiry with sub-second part in a non-UTC zone
	p = dataPin(cidV0("expire-subsec"))
	p.ExpireAt = expSubsec
	add("expire-subsec", p, false)

	// 12. one origin
	p = dataPin(cidV1("origins1"))
	p.Origins = []ma.Multiaddr{mustMA("/ip4/1.2.3.4/tcp/4001/p2p/" + peer.Encode(test.PeerID1))}
	add("origins-1", p, false)

	// 13. two origins (dns4 and ip6)
	p = dataPin(cidV0("origins2"))
	p.Origins = []ma.Multiaddr{
		mustMA("/dns4/origin.example.org/tcp/4001/p2p/" + peer.Encode(test.PeerID2)),
		mustMA("/ip6/2001:db8::1/tcp/4001/p2p/" + peer.Encode(test.PeerID3)),
	}
	add("origins-2", p, false)

	// 14. pin update from a CIDv0
	p = dataPin(cidV1("update-from-v0"))
	p.PinUpdate = cidV0("update-source-v0")
	add("pinupdate-v0", p, false)

	// 15. pin update from a CIDv1
	p = dataPin(cidV0("update-from-v1"))
	p.PinUpdate = cidV1("update-source-v1")
	add("pinupdate-v1", p, false)

	return al
}

// targetPins is the pre-existing content of a non-empty import/unmarshal
// target: one pin foreign to the alphabet and one that clashes (same CID,
// different everything else) with alphabet pin "data-direct-v1".
func targetPins() []apin {
	o := dataPin(cidV1("target-only"))
	o.Name = "pre-existing pin of the target"
	o.Metadata = map[string]string{"target": "yes"}

	c := dataPin(cidV1("direct"))
	c.Name = "stale version in target"
	c.Allocations = []peer.ID{test.PeerID6}
	c.ReplicationFactorMin, c.ReplicationFactorMax = 3, 4
	c.Metadata = map[string]string{"stale": "1"}
	c.ExpireAt = expWhole
	return []apin{{Name: "target-other", Pin: o}, {Name: "target-clash", Pin: c}}
}

// bulkSet returns n pins cycling through the alphabet's features with fresh
// CIDs; each keeps its template's name for attribution.
func bulkSet(n int) []apin {
	var out []apin
	for i := 0; len(out) < n; i++ {
		for _, a := range alphabet() {
			if len(out) >= n {
				break
			}
			seed := fmt.Sprintf("bulk-%d-%s", i, a.Name)
			if a.Pin.Cid.Version() == 0 {
				a.Pin.Cid = cidV0(seed)
			} else {
				a.Pin.Cid = cidV1(seed)
			}
			out = append(out, a)
		}
	}
	return out
}

// subsets enumerates all subsets of {0..n-1} of size <= k, by size then
// lexicographically.
func subsets(n, k int) [][]int {
	var out [][]int
	var rec func(start int, cur []int, size int)
	for size := 0; size <= k; size++ {
		rec = func(start int, cur []int, size int) {
			if len(cur) == size {
				out = append(out, append([]int(nil), cur...))
				return
			}
			for i := start; i < n; i++ {
				rec(i+1, append(cur, i), size)
			}
		}
		rec(0, nil, size)
	}
	return out
}

// ---- comparator (the oracle's notion of "the same pinset") ------------------

func sortedPeers(ps []peer.ID) string {
	s := api.PeersToStrings(ps)
	sort.Strings(s)
	return strings.Join(s, ",")
}

func sortedAddrs(as []ma.Multiaddr) string {
	var s []string
	for _, a := range as {
		if a == nil {
			s = append(s, "<nil>")
			continue
		}
		s = append(s, a.String())
	}
	sort.Strings(s)
	return strings.Join(s, ",")
}

func cleanMeta(m map[string]string) map[string]string {
	out := map[string]string{}
	for k, v := range m {
		if k != "" {
			out[k] = v
		}
	}
	return out
}

func metaString(m map[string]string) string {
	m = cleanMeta(m)
	ks := make([]string, 0, len(m))
	for k := range m {
		ks = append(ks, k)
	}
	sort.Strings(ks)
	var b strings.Builder
	for _, k := range ks {
		fmt.Fprintf(&b, "%q=%q;", k, m[k])
	}
	return b.String()
}

type fieldDiff struct {
	Field string `json:"field"`
	Want  string `json:"want"`
	Got   string `json:"got"`
}

// comparePin lists the fields in which got differs from want.
func comparePin(want, got *api.Pin, skipMode bool) []fieldDiff {
	var d []fieldDiff
	add := func(f string, w, g interface{}) {
		d = append(d, fieldDiff{f, fmt.Sprint(w), fmt.Sprint(g)})
	}
	if !want.Cid.Equals(got.Cid) {
		add("cid", want.Cid, got.Cid)
	}
	if want.Type != got.Type {
		add("type", want.Type, got.Type)
	}
	if a, b := sortedPeers(want.Allocations), sortedPeers(got.Allocations); a != b {
		add("allocations", a, b)
	}
	if want.MaxDepth != got.MaxDepth {
		add("max_depth", want.MaxDepth, got.MaxDepth)
	}
	switch {
	case want.Reference == nil && got.Reference != nil:
		add("reference", "nil", got.Reference.String())
	case want.Reference != nil && got.Reference == nil:
		add("reference", want.Reference.String(), "nil")
	case want.Reference != nil && !want.Reference.Equals(*got.Reference):
		add("reference", want.Reference.String(), got.Reference.String())
	}
	if want.ReplicationFactorMin != got.ReplicationFactorMin {
		add("replication_factor_min", want.ReplicationFactorMin, got.ReplicationFactorMin)
	}
	if want.ReplicationFactorMax != got.ReplicationFactorMax {
		add("replication_factor_max", want.ReplicationFactorMax, got.ReplicationFactorMax)
	}
	if want.Name != got.Name {
		add("name", want.Name, got.Name)
	}
	if !skipMode && want.Mode != got.Mode {
		add("mode", want.Mode, got.Mode)
	}
	if want.ShardSize != got.ShardSize {
		add("shard_size", want.ShardSize, got.ShardSize)
	}
	switch {
	case want.ExpireAt.IsZero():
		if !got.ExpireAt.IsZero() {
			add("expire_at", "none", got.ExpireAt.UTC().Format(time.RFC3339Nano))
		}
	case got.ExpireAt.IsZero():
		add("expire_at", want.ExpireAt.UTC().Format(time.RFC3339Nano), "none")
	default:
		diff := want.ExpireAt.Sub(got.ExpireAt)
		if diff < 0 {
			diff = -diff
		}
		if diff >= time.Second || (want.ExpireAt.Nanosecond() == 0 && diff != 0) {
			add("expire_at", want.ExpireAt.UTC().Format(time.RFC3339Nano), got.ExpireAt.UTC().Format(time.RFC3339Nano))
		}
	}
	if a, b := metaString(want.Metadata), metaString(got.Metadata); a != b {
		add("metadata", a, b)
	}
	if !want.PinUpdate.Equals(got.PinUpdate) {
		add("pin_update", want.PinUpdate, got.PinUpdate)
	}
	if a, b := sortedAddrs(want.Origins), sortedAddrs(got.Origins); a != b {
		add("origins", a, b)
	}
	return d
}

// issue is one discrepancy between an expected and an observed pinset.
type issue struct {
	Symptom string      `json:"symptom"` // missing-pin | extra-pin | duplicate-pin | field:<name>
	Pin     string      `json:"pin"`     // alphabet name (attribution)
	Cid     string      `json:"cid"`
	Diff    []fieldDiff `json:"diff,omitempty"`
}

// comparePinsets checks got against want. names maps CID string -> alphabet
// name (for attribution, including target pins).
func comparePinsets(want []apin, got []*api.Pin, names map[string]string) []issue {
	var out []issue
	wantBy := map[string]apin{}
	for _, w := range want {
		wantBy[w.Pin.Cid.String()] = w
	}
	seen := map[string]int{}
	for _, g := range got {
		k := g.Cid.String()
		seen[k]++
		if seen[k] > 1 {
			out = append(out, issue{Symptom: "duplicate-pin", Pin: nameOf(names, k), Cid: k})
			continue
		}
		w, ok := wantBy[k]
		if !ok {
			out = append(out, issue{Symptom: "extra-pin", Pin: nameOf(names, k), Cid: k})
			continue
		}
		for _, fd := range comparePin(w.Pin, g, w.SkipMode) {
			out = append(out, issue{Symptom: "field:" + fd.Field, Pin: w.Name, Cid: k, Diff: []fieldDiff{fd}})
		}
	}
	for _, w := range want {
		if seen[w.Pin.Cid.String()] == 0 {
			out = append(out, issue{Symptom: "missing-pin", Pin: w.Name, Cid: w.Pin.Cid.String()})
		}
	}
	sort.SliceStable(out, func(i, j int) bool {
		if out[i].Symptom != out[j].Symptom {
			return out[i].Symptom < out[j].Symptom
		}
		return out[i].Pin < out[j].Pin
	})
	return out
}

func nameOf(names map[string]string, cidStr string) string {
	if n, ok := names[cidStr]; ok {
		return n
	}
	return "unknown"
}

func namesOf(sets ...[]apin) map[string]string {
	m := map[string]string{}
	for _, s := range sets {
		for _, a := range s {
			m[a.Pin.Cid.String()] = a.Name
		}
	}
	return m
}

func pinNames(s []apin) []string {
	seen := map[string]bool{}
	var out []string
	for _, a := range s {
		if !seen[a.Name] {
			seen[a.Name] = true
			out = append(out, a.Name)
		}
	}
	sort.Strings(out)
	return out
}
