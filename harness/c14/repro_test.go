package c14

import (
	"bytes"
	"encoding/json"
	"fmt"
	"os"
	"path/filepath"
	"strings"
	"testing"

	"github.com/ipfs/ipfs-cluster/api"
	"github.com/ipfs/ipfs-cluster/pstoremgr"
	"github.com/ipfs/ipfs-cluster/test"

	ma "github.com/multiformats/go-multiaddr"
)

// Minimal direct reproductions of the findings listed in FINDINGS.md, free of
// the enumeration machinery. Run with:
//
//	C14_REPRO=1 C14_VERBOSE=1 <test binary> -test.run TestRepro -test.v
//
// They only print; the verdicts come from the enumerating tests.
func TestRepro(t *testing.T) {
	if os.Getenv("C14_REPRO") == "" {
		t.Skip("set C14_REPRO=1")
	}
	dir := scratch(t, "repro")
	defer os.RemoveAll(dir)

	// 1. LoadPeerstore: nil entry for an unparsable line starting with '/'
	file := filepath.Join(dir, "peerstore")
	os.WriteFile(file, []byte("/garbage\n/ip4/127.0.0.1/tcp/9096/p2p/"+test.PeerID1.Pretty()+"\n"), 0o600)
	addrs := pstoremgr.New(bg, nil, file).LoadPeerstore()
	fmt.Printf("REPRO 1: LoadPeerstore returned %d entries, first is nil: %v\n", len(addrs), len(addrs) > 0 && addrs[0] == nil)
	h, _ := newPlainHost()
	_, p := guard(func() error { return pstoremgr.New(bg, h, file).ImportPeersFromPeerstore(false, 0) })
	fmt.Printf("REPRO 1: ImportPeersFromPeerstore panic: %q\n", firstLines(p, 1))
	h.Close()

	// 2. JSON round trip of a pin with origins (what export/import does)
	pin := api.PinCid(test.Cid1)
	pin.Origins = []ma.Multiaddr{mustMA("/ip4/1.2.3.4/tcp/4001")}
	js, err := json.Marshal(pin)
	var back api.Pin
	fmt.Printf("REPRO 2: marshal err=%v; unmarshal err=%v\n", err, json.Unmarshal(js, &back))

	// 3. importing an empty export into a crdt peer
	s, err := newSite(filepath.Join(dir, "crdt"), "leveldb")
	if err != nil {
		t.Fatal(err)
	}
	defer s.close()
	var buf bytes.Buffer
	fmt.Printf("REPRO 3: export of the empty crdt peer: err=%v, %d bytes\n", s.mgr.ExportState(&buf), buf.Len())
	err, p = guard(func() error { return s.mgr.ImportState(strings.NewReader(buf.String())) })
	fmt.Printf("REPRO 3: ImportState(empty stream) err=%v panic=%q\n", err, firstLines(p, 1))

	// observation: Unmarshal into a non-empty state keeps what was there
	src, dst := newDsState(), newDsState()
	src.Add(bg, api.PinCid(test.Cid1))
	dst.Add(bg, api.PinCid(test.Cid2))
	var b2 bytes.Buffer
	src.Marshal(&b2)
	dst.Unmarshal(&b2)
	pins, _ := dst.List(bg)
	fmt.Printf("OBSERVATION: Unmarshal of a 1-pin dump into a state holding another pin lists %d pins\n", len(pins))
}
