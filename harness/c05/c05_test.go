// Package c05 decides C05 (each peer's IPFS pinset converges to what the shared
// pinset assigns to it) by event-level explicit-state exploration of the real
// stateless.Tracker: the harness plays consensus (edits a dsstate, then calls
// Track/Untrack like the consensus hooks do) and the IPFS daemon (a model
// daemon behind the IPFSConnector RPC service whose Pin/Unpin calls are parked
// and later completed or failed), inside testing/synctest bubbles.
package c05

import (
	"encoding/json"
	"fmt"
	"os"
	"testing"
	"time"

	logging "github.com/ipfs/go-log/v2"

	"verif/harness/lib/ev"
)

var R *ev.Run

func TestMain(m *testing.M) {
	logging.SetLogLevel("*", "fatal")
	R = ev.New("C05", "model_checking")
	R.Rule("events: issue one instruction (track local-recursive / local-direct / everywhere / remote / meta, untrack, recover(c), recoverAll over the CID universe; the shared pinset is edited first, then the tracker is told), apply(call) or fail(call) for a Pin/Unpin call parked in the model daemon; a later instruction may be issued while calls are parked. " +
		"DFS over events from the empty tracker, bounded by instructions per path and by deviations (a call left parked past the next instruction, a completion out of order, a daemon failure); every path ends by completing what is parked, quiescing (clause 1), then a healthy recover round (clause 2); clause 3 is checked at every instruction. " +
		"A state = canonical (per CID: shared-pinset entry, daemon pin, tracker operation type/phase/mode/error, parked call, tolerated-failure flag, and for a direct-mode entry whether the daemon held a recursive pin when it was tracked and whether a recover was issued since; queue occupancy; blocked instructions); a state reached again with no more remaining budget (instructions, deviations) than before is not re-expanded (the abstraction is cross-checked against an unpruned exploration in every run). " +
		"states = distinct canonical states, transitions = distinct events applied (replays excluded); one evaluation = one complete path ending in both clause evaluations on the real code; non-trivial = the path made the tracker call the daemon and has >= 2 instructions or >= 1 deviation; distinct = (config, quiescent state, per-CID verdicts)")
	R.Assume("instructions are issued one at a time by the harness (as one consensus component does); only daemon completions are concurrent with them. Lock-level interleavings inside the tracker are the E1 refinement's job, not this check's")
	R.Assume("the shared pinset changes only the way Cluster.setupPin allows: an entry never changes between data and meta type and a recursive entry never becomes direct without being removed first")
	R.Assume("model daemon semantics (clus.IPFS, mirrors ipfshttp.Connector over go-ipfs): a call cancelled while in flight has no effect; pin direct over recursive is refused; pin recursive upgrades direct; unpin of nothing succeeds")
	R.Assume("the code under test does not look at CID values: the first CID a path mentions is 'a', the next 'b'")
	R.Assume("the order in which one RecoverAll call walks its status map (Go map iteration) is not controlled by the harness: when a recoverAll event creates >= 2 operations its distinct outcomes are collected by re-executing the event (up to 60 times after the last new outcome) and each outcome is explored as its own branch; replays whose prefix diverges are retried (up to 600 times, else the branch is counted as abandoned and the run marked not exhaustive). Every other choice is enumerated exhaustively")
	ev.Main(m.Run, R)
}

const bigQueue = 100

var allKinds = []kind{kLR, kLD, kEV, kRM, kMT, kUN, kRC, kRA}

func configs() []config {
	// two CIDs, the whole alphabet
	two := []pass{{3, unbounded}, {4, 2}}
	// queue pressure: three CIDs, small alphabet, smallest queue
	three := []pass{{4, unbounded}}
	if ev.Thorough() {
		two = []pass{{5, unbounded}, {6, 2}}
		three = []pass{{6, unbounded}}
	}
	var out []config
	for _, cp := range []int{1, 2} {
		for _, q := range []int{1, 2, bigQueue} {
			qn := fmt.Sprint(q)
			if q == bigQueue {
				qn = "big"
			}
			out = append(out, config{Name: fmt.Sprintf("workers=%d,queue=%s", cp, qn), ConcurrentPins: cp, Queue: q,
				Cids: []string{"a", "b"}, Kinds: allKinds, Passes: two})
		}
	}
	for _, cp := range []int{1, 2} {
		out = append(out, config{Name: fmt.Sprintf("3cids,workers=%d,queue=1", cp), ConcurrentPins: cp, Queue: 1,
			Cids: []string{"a", "b", "c"}, Kinds: []kind{kLR, kUN, kRC, kRA}, Passes: three})
	}
	// the real connector between tracker and daemon (its translation of
	// Pin/Unpin/PinLs into daemon requests is then part of the loop)
	rc := []pass{{3, unbounded}}
	if ev.Thorough() {
		rc = []pass{{4, unbounded}}
	}
	out = append(out, config{Name: "workers=1,queue=big,failures=connector-gave-up", ConcurrentPins: 1, Queue: bigQueue,
		Cids: []string{"a", "b"}, Kinds: allKinds, Passes: rc, FailCanceled: true})
	// one CID, pin/unpin only, longer scripts: the daemon may carry a call out
	// and answer late, after the operation has been superseded
	late := []pass{{4, unbounded}}
	if ev.Thorough() {
		late = []pass{{6, unbounded}}
	}
	for _, cp := range []int{1, 2} {
		out = append(out, config{Name: fmt.Sprintf("late-answers,1cid,workers=%d,queue=big", cp), ConcurrentPins: cp, Queue: bigQueue,
			Cids: []string{"a"}, Kinds: []kind{kLR, kUN, kRA}, Passes: late, LateAnswers: true})
	}
	out = append(out, config{Name: "real-connector,workers=1,queue=big", ConcurrentPins: 1, Queue: bigQueue,
		Cids: []string{"a", "b"}, Kinds: allKinds, Passes: rc, RealConn: true})
	return out
}

func findConfig(name string) (config, bool) {
	for _, c := range configs() {
		if c.Name == name {
			return c, true
		}
	}
	return config{}, false
}

const selfcheckUnit = "selfcheck:pruning"
const reproUnit = "repro"

// replay re-executes the path of a replay artefact (vcheck C05 --replay <file>)
// in this process and reports what it shows.
func replay(t *testing.T, file string) {
	b, err := os.ReadFile(file)
	if err != nil {
		t.Fatal(err)
	}
	var art struct {
		Key    string
		Detail struct {
			Config string
			Path   []string
		}
	}
	if err := json.Unmarshal(b, &art); err != nil {
		t.Fatal(err)
	}
	cfg, ok := findConfig(art.Detail.Config)
	if !ok {
		cfg, _ = findConfig("workers=1,queue=1")
	}
	cfg.MaxInstr = 99
	sec := R.Sec("replay")
	fmt.Printf("REPLAY %s on %s: %v\n", art.Key, cfg.Name, art.Detail.Path)
	for try := 0; try < 40; try++ {
		fs, ok := replayPath(t, cfg, art.Detail.Path)
		if !ok {
			continue
		}
		hit := false
		for _, f := range fs {
			fmt.Println("  shows:", f.Key)
			if f.Key == art.Key {
				hit = true
			}
		}
		if !hit && try < 39 {
			continue // recoverAll order is not controlled: try again
		}
		for _, f := range fs {
			R.Violation(f.Key, f.Detail)
		}
		R.Eval(sec, art.Key+fmt.Sprint(hit), true)
		R.States(sec, int64(len(art.Detail.Path)))
		R.Transitions(int64(len(art.Detail.Path)))
		return
	}
	R.Broken("replay: the path is not executable on this tree: %v", art.Detail.Path)
}

func TestExplore(t *testing.T) {
	if f := os.Getenv("VERIF_REPLAY"); f != "" && ev.ChildUnit() == "" {
		replay(t, f)
		return
	}
	unit := ev.ChildUnit()
	if unit == "" {
		if only := os.Getenv("VERIF_UNIT"); only != "" {
			unit = only
		}
	}
	if unit == "" {
		// parent: one child process per configuration (a panic in a tracker
		// goroutine must not take the whole check down)
		units := []string{reproUnit}
		for _, c := range configs() {
			units = append(units, c.Name)
		}
		units = append(units, selfcheckUnit)
		per := 4 * time.Minute
		if ev.Thorough() {
			per = 28 * time.Minute
		}
		R.RunChildren("TestExplore", units, 4, per)
		return
	}
	switch unit {
	case reproUnit:
		repro(t)
		return
	case selfcheckUnit:
		selfcheck(t)
		return
	}
	cfg, ok := findConfig(unit)
	if !ok {
		t.Fatalf("unknown unit %q", unit)
	}
	sec := R.Sec("e2:" + cfg.Name)
	sec.Bounds["concurrent_pins"] = cfg.ConcurrentPins
	sec.Bounds["max_pin_queue_size"] = cfg.Queue
	sec.Bounds["cids"] = cfg.Cids
	sec.Bounds["instruction_kinds"] = cfg.Kinds
	var ps []string
	for _, p := range cfg.Passes {
		ps = append(ps, p.String())
	}
	sec.Bounds["paths"] = ps
	budget := 70 * time.Second
	if ev.Thorough() {
		budget = 25 * time.Minute
	}
	x := &explorer{cfg: cfg, prune: true, sec: sec, report: true, deadline: time.Now().Add(budget)}
	start := time.Now()
	x.run(t)
	x.emit(t)
	R.States(sec, int64(len(x.visited)))
	R.Transitions(x.newEvents)
	if x.capped {
		sec.Exhaustive = false
		sec.CapHit = fmt.Sprintf("wall budget %s", budget)
		R.NotExhaustive(cfg.Name + ": wall budget reached before the bounded space was exhausted")
	}
	if x.ndAbandoned > 0 {
		sec.Exhaustive = false
		R.NotExhaustive(fmt.Sprintf("%s: %d branches abandoned because their prefix did not replay (uncontrolled order inside RecoverAll)", cfg.Name, x.ndAbandoned))
	}
	sec.Bounds["executions"] = x.executions
	sec.Bounds["replayed_events"] = x.replayedEvents
	sec.Bounds["pruned_revisits"] = x.pruned
	sec.Bounds["replay_retries"] = x.ndRetries
	sec.Bounds["recoverall_extra_outcomes_found"] = x.ndOutcomes
	sec.Bounds["recoverall_outcome_searches"] = x.ndSearches
	sec.Bounds["max_path_events"] = x.maxDepth
	fmt.Printf("E2 %-28s %v executions=%d states=%d transitions=%d evaluated=%d pruned=%d nd-retries=%d nd-outcomes=+%d nd-searches=%d abandoned=%d depth=%d %.1fs%s\n",
		cfg.Name, ps, x.executions, len(x.visited), x.newEvents, sec.Evals, x.pruned, x.ndRetries, x.ndOutcomes, x.ndSearches, x.ndAbandoned, x.maxDepth,
		time.Since(start).Seconds(), map[bool]string{true: " CAPPED", false: ""}[x.capped])
}

// selfcheck validates the state abstraction the pruning relies on: on a smaller
// bound the pruned and the unpruned exploration must reach the same states,
// evaluate the same quiescent states and find the same violation keys. The
// unpruned exploration is itself part of the check (it reports what it finds).
// On a tree that violates the property in ways no known finding covers the
// comparison is only informative: the abstraction describes the unchanged
// tracker (e.g. it does not know about operations that were replaced without
// being cancelled), and the verdict is VIOLATION anyway.
func selfcheck(t *testing.T) {
	cfg, _ := findConfig("workers=1,queue=1")
	cfg.Name = selfcheckUnit
	cfg.Passes = []pass{{3, 2}}
	cfg.Kinds = []kind{kLR, kLD, kEV, kRM, kMT, kUN, kRC} // no recoverAll: its map-walk order is not controlled, the comparison must be exact
	sec := R.Sec(selfcheckUnit)
	sec.Bounds["what"] = "unpruned exploration (reported) compared with the pruned one: workers=1 queue=1, <=3 instructions, <=2 deviations, alphabet without recoverAll"
	a := &explorer{cfg: cfg, prune: true}
	a.run(t)
	b := &explorer{cfg: cfg, prune: false, sec: sec, report: true}
	b.run(t)
	b.emit(t)
	R.States(sec, int64(len(b.visited)))
	R.Transitions(b.newEvents)
	ea, eb := sortedKeys(a.ends), sortedKeys(b.ends)
	va, vb := sortedKeys(a.vioKeys), sortedKeys(b.vioKeys)
	sec.Bounds["pruned_executions"] = a.executions
	sec.Bounds["unpruned_executions"] = b.executions
	sec.Bounds["quiescent_states"] = len(eb)
	same := fmt.Sprint(ea) == fmt.Sprint(eb) && fmt.Sprint(va) == fmt.Sprint(vb) && len(a.visited) == len(b.visited)
	for k := range b.visited {
		if _, ok := a.visited[k]; !ok {
			same = false
			fmt.Println("E2 only-unpruned:", k)
		}
	}
	if !same {
		msg := fmt.Sprintf("pruned exploration: %d quiescent states / %d states / %d violation keys, unpruned: %d / %d / %d",
			len(ea), len(a.visited), len(va), len(eb), len(b.visited), len(vb))
		if R.Unlisted() == 0 {
			R.Broken("the state abstraction used for pruning is unsound on a tree without unlisted violations: %s (see 'E2 only-unpruned' lines)", msg)
		} else {
			fmt.Println("NOTE: pruning cross-check differs on a tree that already violates the property:", msg)
		}
	}
	fmt.Printf("E2 %-28s pruned: %d executions, unpruned: %d executions, identical=%v: %d quiescent states, %d states, %d violation keys\n",
		selfcheckUnit, a.executions, b.executions, same, len(eb), len(b.visited), len(vb))
}
