package c05

// Direct, straight-line reproductions of the candidate defect of DESIGN §6 row
// C05 (recoverWithPinInfo re-issues api.PinCid(c) instead of the pin recorded
// in the shared pinset). They do not use the explorer; they report under the
// same keys the explorer uses for the same observations.

import (
	"context"
	"fmt"
	"strings"
	"testing"
	"testing/synctest"

	"github.com/ipfs/ipfs-cluster/api"
	"github.com/ipfs/ipfs-cluster/pintracker/stateless"
	"github.com/ipfs/ipfs-cluster/state"

	"verif/harness/lib/clus"
)

func repro(t *testing.T) {
	sec := R.Sec("repro")
	sec.Bounds["what"] = "two straight-line scenarios on the real tracker: Recover(c) after a failed direct pin; RecoverAll over a healthy direct pin"

	// 1. a direct-mode pin whose IPFS pin failed is recovered with Recover(c)
	synctest.Test(t, func(t *testing.T) {
		ctx := context.Background()
		sh := clus.NewShared(nil)
		model := clus.NewIPFS()
		fail := true
		model.Decide = func(c *clus.Call) clus.Action {
			if fail && c.Kind == "pin" {
				return clus.Fail
			}
			return clus.Apply
		}
		cfg := &stateless.Config{}
		cfg.Default()
		tr := stateless.New(cfg, self, "p0", func(context.Context) (state.ReadOnly, error) { return sh.State, nil })
		tr.SetClient(clus.LocalRPC(map[string]interface{}{"IPFSConnector": &clus.IPFSSvc{M: model}}))
		defer func() { tr.Shutdown(ctx); synctest.Wait() }()

		pin := mkPin(kLD, "a")
		c := pin.Cid
		sh.State.Add(ctx, pin)
		if err := tr.Track(ctx, pin); err != nil {
			R.Outcome(sec, "track-returned-error")
			return
		}
		synctest.Wait()
		st1 := tr.Status(ctx, c).Status
		if st1 != api.TrackerStatusPinError || model.Get(c) != api.IPFSPinStatusUnpinned {
			// the scenario's starting point was not reached (only on a modified tree)
			R.Outcome(sec, fmt.Sprintf("scenario-1-start-not-reached:%s/%s", st1, daemonName(model.Get(c))))
			return
		}
		first := model.Calls[0].Pin
		fail = false
		pos := len(model.Calls)
		if _, err := tr.Recover(ctx, c); err != nil {
			R.Outcome(sec, "recover-returned-error")
			return
		}
		synctest.Wait()
		var re *api.Pin
		for _, call := range model.Calls[pos:] {
			if call.Kind == "pin" {
				re = call.Pin
			}
		}
		rec, _ := sh.State.Get(ctx, c)
		obs := map[string]interface{}{
			"scenario":                  "Track(direct pin) with the daemon failing the pin -> pin_error; daemon healthy; Recover(c)",
			"recorded_pin":              rec.String(),
			"first_pin_call_max_depth":  int(first.MaxDepth),
			"status_before_recover":     st1.String(),
			"daemon_after_recover":      daemonName(model.Get(c)),
			"status_after_recover":      tr.Status(ctx, c).Status.String(),
			"daemon_calls":              model.CallLog(),
			"reissued_pin":              fmt.Sprint(re),
			"reissued_pin_max_depth":    depthOf(re),
			"expected_daemon":           "direct",
			"expected_reissued_options": "those recorded in the shared pinset (MaxDepth 0, mode direct, name, allocations...)",
		}
		R.Eval(sec, "recover-after-failed-direct-pin|daemon="+daemonName(model.Get(c))+"|reissued-depth="+depthOf(re), true)
		R.States(sec, 1)
		R.Transitions(3)
		if re == nil {
			R.Outcome(sec, "scenario-1-recover-issued-no-pin-call")
		} else if d := pinDiff(re, rec); len(d) > 0 {
			R.Violation("C05|clause2|reissued-pin-differs-from-recorded|recorded=local-direct|lost="+strings.Join(d, "+"), obs)
		}
		if model.Get(c) != api.IPFSPinStatusDirect {
			R.Violation("C05|clause2|daemon-mismatch|last=local-direct|daemon-at-instruction=not-recursive|recovered-while-direct=false|daemon-before-recover-round=unpinned|daemon-after="+daemonName(model.Get(c)), obs)
		}
		R.Sample(map[string]interface{}{"tag": "repro", "case": obs})
	})

	// 2. a direct pin that IS pinned as recorded; a RecoverAll round converts it
	synctest.Test(t, func(t *testing.T) {
		ctx := context.Background()
		sh := clus.NewShared(nil)
		model := clus.NewIPFS()
		cfg := &stateless.Config{}
		cfg.Default()
		tr := stateless.New(cfg, self, "p0", func(context.Context) (state.ReadOnly, error) { return sh.State, nil })
		tr.SetClient(clus.LocalRPC(map[string]interface{}{"IPFSConnector": &clus.IPFSSvc{M: model}}))
		defer func() { tr.Shutdown(ctx); synctest.Wait() }()

		pin := mkPin(kLD, "a")
		c := pin.Cid
		sh.State.Add(ctx, pin)
		if err := tr.Track(ctx, pin); err != nil {
			R.Outcome(sec, "track-returned-error")
			return
		}
		synctest.Wait()
		if model.Get(c) != api.IPFSPinStatusDirect || tr.Status(ctx, c).Status != api.TrackerStatusPinned {
			R.Outcome(sec, fmt.Sprintf("scenario-2-start-not-reached:%s/%s", tr.Status(ctx, c).Status, daemonName(model.Get(c))))
			return
		}
		pos := len(model.Calls)
		if _, err := tr.RecoverAll(ctx); err != nil {
			R.Outcome(sec, "recoverall-returned-error")
			return
		}
		synctest.Wait()
		var re *api.Pin
		for _, call := range model.Calls[pos:] {
			if call.Kind == "pin" {
				re = call.Pin
			}
		}
		rec, _ := sh.State.Get(ctx, c)
		obs := map[string]interface{}{
			"scenario":             "Track(direct pin) succeeds (daemon: direct, Status: pinned); RecoverAll with the daemon healthy",
			"recorded_pin":         rec.String(),
			"daemon_after_recover": daemonName(model.Get(c)),
			"status_after_recover": tr.Status(ctx, c).Status.String(),
			"daemon_calls":         model.CallLog(),
			"reissued_pin":         fmt.Sprint(re),
			"expected_daemon":      "direct",
		}
		R.Eval(sec, "recoverall-over-healthy-direct-pin|daemon="+daemonName(model.Get(c))+"|reissued-depth="+depthOf(re), true)
		R.States(sec, 1)
		R.Transitions(2)
		if re != nil {
			if d := pinDiff(re, rec); len(d) > 0 {
				R.Violation("C05|clause2|reissued-pin-differs-from-recorded|recorded=local-direct|lost="+strings.Join(d, "+"), obs)
			}
		}
		if model.Get(c) != api.IPFSPinStatusDirect {
			R.Violation("C05|clause2|daemon-mismatch|last=local-direct|daemon-at-instruction=not-recursive|recovered-while-direct=false|daemon-before-recover-round=direct|daemon-after="+daemonName(model.Get(c)), obs)
		}
		R.Sample(map[string]interface{}{"tag": "repro", "case": obs})
	})
}

func depthOf(p *api.Pin) string {
	if p == nil {
		return "none"
	}
	return fmt.Sprint(int(p.MaxDepth))
}
