package c05

import (
	"context"
	"fmt"
	"sort"
	"strings"
	"testing"
	"testing/synctest"
	"time"

	"github.com/ipfs/ipfs-cluster/api"
	"github.com/ipfs/ipfs-cluster/pintracker/stateless"
	"github.com/ipfs/ipfs-cluster/state"

	cid "github.com/ipfs/go-cid"

	"verif/harness/lib/clus"
	"verif/harness/lib/e1"
	"verif/harness/lib/ev"
)

// TestLockLevel is the lock-level (E1) refinement: one thread issues the
// instructions in order while the tracker's own workers run as separately
// scheduled threads, so that a later instruction can land while a worker is
// between dequeuing an operation and setting its phase, between the IPFS call
// and Clean, or while enqueue finds the queue full. The model daemon answers
// at once. Oracle = clause 1 and clause 3 of C05 at quiescence.
func TestLockLevel(t *testing.T) {
	switch ev.ChildUnit() {
	case "":
		// explored in a child process with a time limit, so that a hung bubble
		// ends as a broken check instead of hanging the whole run
		per := 4 * time.Minute
		if ev.Thorough() {
			per = 45 * time.Minute
		}
		R.RunChildren("TestLockLevel", []string{"locklevel"}, 1, per)
		return
	case "locklevel":
	default:
		t.Skip()
	}
	type instr struct {
		kind string // track | trackdirect | untrack | recover
		c    string
	}
	scripts := map[string]struct {
		queue int
		ins   []instr
	}{
		"track-untrack":              {10, []instr{{"track", "a"}, {"untrack", "a"}}},
		"track-untrack-track":        {10, []instr{{"track", "a"}, {"untrack", "a"}, {"track", "a"}}},
		"untrack-track-untrack":      {10, []instr{{"track", "a"}, {"untrack", "a"}, {"track", "a"}, {"untrack", "a"}}},
		"queue1-three-tracks":        {1, []instr{{"track", "a"}, {"track", "b"}, {"track", "c"}}},
		"queue1-track-untrack-burst": {1, []instr{{"track", "a"}, {"track", "b"}, {"untrack", "a"}, {"untrack", "b"}}},
		"track-recover":              {10, []instr{{"trackdirect", "a"}, {"recover", "a"}, {"untrack", "a"}}},
	}
	var names []string
	for n := range scripts {
		names = append(names, n)
	}
	sort.Strings(names)
	bound, budget := 2, 20*time.Second
	if ev.Thorough() {
		bound, budget = 3, 6*time.Minute
	}
	for _, name := range names {
		sc := scripts[name]
		sec := R.Sec("e1-lock-level:" + name)
		scenario := func(t *testing.T) *e1.Exec {
			ctx := context.Background()
			sh := clus.NewShared(nil)
			model := clus.NewIPFS()
			cfg := &stateless.Config{}
			cfg.Default()
			cfg.ConcurrentPins = 1
			cfg.MaxPinQueueSize = sc.queue
			tr := stateless.New(cfg, clus.PID(0), "p0", func(context.Context) (state.ReadOnly, error) { return sh.State, nil })
			tr.SetClient(clus.LocalRPC(map[string]interface{}{"IPFSConnector": &clus.IPFSSvc{M: model}}))
			last := map[string]string{} // cid label -> last instruction kind
			errs := map[string]error{}  // cid label -> error of its last instruction
			mk := func(label string, direct bool) *api.Pin {
				p := api.PinCid(clus.Cid(label))
				p.ReplicationFactorMin, p.ReplicationFactorMax = -1, -1
				if direct {
					p.Mode = api.PinModeDirect
					p.MaxDepth = 0
				}
				return p
			}
			return &e1.Exec{
				Threads: map[string]func(){
					"T0": func() {
						for _, in := range sc.ins {
							switch in.kind {
							case "track", "trackdirect":
								p := mk(in.c, in.kind == "trackdirect")
								sh.State.Add(ctx, p)
								errs[in.c] = tr.Track(ctx, p)
								last[in.c] = in.kind
							case "untrack":
								sh.State.Rm(ctx, clus.Cid(in.c))
								errs[in.c] = tr.Untrack(ctx, clus.Cid(in.c))
								last[in.c] = in.kind
							case "recover":
								tr.Recover(ctx, clus.Cid(in.c))
							}
						}
					},
				},
				After: func(runErr error) (string, []e1.Finding) {
					synctest.Wait()
					var fs []e1.Finding
					var out []string
					var labels []string
					for l := range last {
						labels = append(labels, l)
					}
					sort.Strings(labels)
					for _, l := range labels {
						c := clus.Cid(l)
						st := tr.Status(ctx, c).Status
						d := model.Get(c)
						isErr := st == api.TrackerStatusPinError || st == api.TrackerStatusUnpinError || st == api.TrackerStatusClusterError || st == api.TrackerStatusUnexpectedlyUnpinned
						ok := isErr
						switch last[l] {
						case "track":
							ok = ok || d == api.IPFSPinStatusRecursive
						case "trackdirect":
							ok = ok || d == api.IPFSPinStatusDirect
						case "untrack":
							ok = ok || d == api.IPFSPinStatusUnpinned
						}
						if !ok {
							fs = append(fs, e1.Finding{Key: fmt.Sprintf("clause1|last=%s|daemon=%d|status=%s", last[l], d, st),
								Detail: fmt.Sprintf("cid %s: last instruction %s, daemon holds %d, status %s (not an error status)", l, last[l], d, st)})
						}
						// clause 3: a full queue is reported, never dropped silently
						if errs[l] == nil && strings.Contains(tr.Status(ctx, c).Error, "queue is full") {
							fs = append(fs, e1.Finding{Key: "clause3|instruction-returned-nil-but-queue-was-full", Detail: l})
						}
						out = append(out, fmt.Sprintf("%s:%d/%s/err=%v", l, d, st, errs[l] != nil))
					}
					return strings.Join(out, " "), fs
				},
				Teardown: func() { tr.Shutdown(ctx) },
			}
		}
		st := e1.Explore(t, R, sec, "locklevel-"+name, scenario, e1.Options{Bound: bound, Budget: budget, TolerateND: true})
		fmt.Printf("E1 %-28s bound=%d executions=%d points=%d outcomes=%d %s\n", name, bound, st.Executions, st.Points, len(st.Outcomes), st.Capped)
	}
	_ = cid.Undef
}
