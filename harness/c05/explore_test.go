package c05

// Event-level explicit-state exploration (E2). One execution = one fresh
// bubble with a fresh tracker that follows a list of event labels and then the
// default policy (complete the held calls in order, then stop). Successors are
// produced by replaying the path plus one event (live objects cannot be
// cloned). DFS over events with deviation bounding and state-based pruning.

import (
	"fmt"
	"sort"
	"strings"
	"testing"
	"testing/synctest"
	"time"

	"verif/harness/lib/clus"
	"verif/harness/lib/ev"
)

type alt struct {
	Label string
	Cost  int // deviations this event costs
	In    *instr
}

type point struct {
	Key    string
	Alts   []alt
	Chosen int
	Count  int // instructions issued before this point
	Dev    int // deviations used before this point

	// outcomes of the chosen event when it is a recoverAll that touched >= 2
	// CIDs (the order in which it walks its status map is not controlled)
	Succ    map[string]bool
	NDWidth int
	NDDone  bool
}

// remaining budget (instructions, deviations) with which a state was expanded
type budgetPair struct{ instr, dev int }

type explorer struct {
	cfg     config
	prune   bool
	visited map[string][]budgetPair
	ends    map[string]bool // keys of states where the final phase was evaluated
	sec     *ev.Section
	report  bool

	executions, newEvents, replayedEvents, pruned, ndRetries, ndAbandoned, ndSearches, ndOutcomes int64
	maxDepth                                                                                      int
	vioKeys                                                                                       map[string]bool
	best                                                                                          map[string]finding
	occurrences                                                                                   map[string]int
	deadline                                                                                      time.Time
	capped                                                                                        bool
}

// enabled instructions at a state: CID labels are introduced in order (the
// first CID a script mentions is "a": the code under test does not look at CID
// values), and the shared pinset only changes the way Cluster.setupPin allows:
// an entry never changes its type and a recursive entry never becomes direct
// without being removed first.
func (x *explorer) instructions(w *world) []instr {
	used := 0
	for i, l := range x.cfg.Cids {
		if w.last[l] != kNo {
			used = i + 1
		}
	}
	var out []instr
	for i, l := range x.cfg.Cids {
		if i > used {
			break
		}
		cur := w.last[l]
		for _, k := range x.cfg.Kinds {
			if k == kRA {
				continue
			}
			if k.isTrack() {
				inState := cur != kNo && cur != kUN
				if inState {
					curMeta, newMeta := cur == kMT, k == kMT
					if curMeta != newMeta {
						continue // type change refused by Cluster.setupPin
					}
					curRecursive := cur == kLR || cur == kEV || cur == kRM
					if curRecursive && k == kLD {
						continue // recursive -> direct refused by Cluster.setupPin
					}
				}
			}
			out = append(out, instr{K: k, C: l})
		}
	}
	for _, k := range x.cfg.Kinds {
		if k == kRA {
			out = append(out, instr{K: kRA})
		}
	}
	return out
}

func (x *explorer) alts(w *world, count int) []alt {
	parked, pcalls := w.parked()
	var out []alt
	instrCost := 0
	if len(parked) == 0 {
		out = append(out, alt{Label: "END"})
	} else {
		instrCost = 1 // a call is left parked past the next instruction
		for i, l := range parked {
			c := 0
			if i > 0 {
				c = 1 // completion out of order
			}
			out = append(out, alt{Label: "A:" + l, Cost: c})
		}
		for _, l := range parked {
			if pcalls[l].Effected {
				continue // carried out: the answer is what it is
			}
			out = append(out, alt{Label: "F:" + l, Cost: 1}) // daemon failure
		}
		if x.cfg.LateAnswers {
			for _, l := range parked {
				if c := pcalls[l]; !c.Effected && (c.Kind == "pin" || c.Kind == "unpin") {
					out = append(out, alt{Label: "E:" + l, Cost: 1}) // carried out now, answer later
				}
			}
		}
	}
	if count < x.cfg.MaxInstr {
		for _, in := range x.instructions(w) {
			in := in
			out = append(out, alt{Label: in.label(), Cost: instrCost, In: &in})
		}
	}
	return out
}

func (x *explorer) dominated(key string, count, dev int) bool {
	for _, b := range x.visited[key] {
		if b.instr >= x.cfg.MaxInstr-count && b.dev >= x.cfg.MaxDev-dev {
			return true
		}
	}
	return false
}

type execResult struct {
	points   []point
	mismatch string // replay diverged from the recorded path (uncontrolled nondeterminism inside one call)
	pruned   bool
	same     bool   // the last prefix event produced an outcome already explored
	succKey  string // state reached by the last prefix event
	ndWidth  int    // operations created by the last prefix event when it is a recoverAll
	ended    bool
	findings []finding
	obs      map[string]interface{}
	sig      string
	outcomes []string
}

// execute follows prefix (labels, with the state keys recorded when the prefix
// was first explored) and then the default policy.
func (x *explorer) execute(t *testing.T, prefix []string, keys []string, avoid map[string]bool) *execResult {
	res := &execResult{}
	synctest.Test(t, func(t *testing.T) {
		w := newWorld(x.cfg)
		defer w.shutdown()
		count, dev := 0, 0
		for step := 0; ; step++ {
			key := w.canon()
			as := x.alts(w, count)
			ch := 0
			if step < len(prefix) {
				if keys[step] != key {
					res.mismatch = fmt.Sprintf("step %d: state %q, recorded %q", step, key, keys[step])
					return
				}
				ch = -1
				for i, a := range as {
					if a.Label == prefix[step] {
						ch = i
					}
				}
				if ch < 0 {
					res.mismatch = fmt.Sprintf("step %d: event %s not enabled", step, prefix[step])
					return
				}
				x.replayedEvents++
			} else {
				if step == len(prefix) {
					res.succKey = key
					res.ndWidth = w.lastRAWidth
					if avoid[key] {
						res.same = true
						return
					}
				}
				if x.prune && x.dominated(key, count, dev) {
					res.pruned = true
					return
				}
				x.visited[key] = append(x.visited[key], budgetPair{x.cfg.MaxInstr - count, x.cfg.MaxDev - dev})
				x.newEvents++
			}
			res.points = append(res.points, point{Key: key, Alts: as, Chosen: ch, Count: count, Dev: dev})
			a := as[ch]
			dev += a.Cost
			w.trace = append(w.trace, a.Label)
			switch {
			case a.Label == "END":
				if len(w.pending) != 0 {
					// nothing is held by the daemon and every goroutine is blocked, yet a call has not returned
					w.addFinding("C05|hang|"+kindName[w.pending[0].In.K]+"|instruction-never-returns", map[string]interface{}{
						"instruction": w.pending[0].In.label(), "state": key,
						"expected": "Track/Untrack/Recover return once the daemon has answered every call"})
				}
				o1 := w.clause1()
				o2 := w.clause2()
				res.ended = true
				x.ends[key] = true
				res.obs = map[string]interface{}{"config": x.cfg.Name, "path": w.trace, "quiescent_state": key,
					"clause1": o1, "clause2": o2, "daemon_calls": w.model.CallLog()}
				res.sig = x.cfg.Name + "|" + key + "|" + verdicts(o1) + "|" + verdicts(o2)
				res.findings = w.findings
				res.outcomes = w.outcomes
				for _, o := range o1 {
					res.outcomes = append(res.outcomes, "clause1:"+o.Verdict)
				}
				for _, o := range o2 {
					res.outcomes = append(res.outcomes, "clause2:"+o.Verdict)
				}
				return
			case a.In != nil:
				w.issue(*a.In)
				count++
			case strings.HasPrefix(a.Label, "A:"):
				w.complete(a.Label[2:], clus.Apply)
			case strings.HasPrefix(a.Label, "F:"):
				w.complete(a.Label[2:], clus.Fail)
			case strings.HasPrefix(a.Label, "E:"):
				w.effect(a.Label[2:])
			}
		}
	})
	x.executions++
	return res
}

func verdicts(os []cidObs) string {
	var s []string
	for _, o := range os {
		s = append(s, o.Cid+":"+o.Verdict)
	}
	return strings.Join(s, ",")
}

// run explores every pass of the configuration; passes share the visited set
// (a state is not re-expanded when it was expanded before with at least the
// same remaining budget).
func (x *explorer) run(t *testing.T) {
	x.visited = map[string][]budgetPair{}
	x.ends = map[string]bool{}
	x.vioKeys = map[string]bool{}
	x.best = map[string]finding{}
	x.occurrences = map[string]int{}
	for _, p := range x.cfg.Passes {
		x.cfg.MaxInstr, x.cfg.MaxDev = p.MaxInstr, p.MaxDev
		x.runPass(t)
		if x.capped {
			return
		}
	}
}

func (x *explorer) runPass(t *testing.T) {
	var stack []point
	first := true
	for {
		var prefix, keys []string
		var avoid map[string]bool
		if !first {
			i := len(stack) - 1
			for ; i >= 0; i-- {
				p := &stack[i]
				if cur := p.Alts[p.Chosen]; cur.In != nil && cur.In.K == kRA && p.NDWidth >= 2 && !p.NDDone && len(p.Succ) < factorial(p.NDWidth) {
					avoid = p.Succ // same event, look for another outcome
					break
				}
				next := p.Chosen + 1
				for next < len(p.Alts) && p.Dev+p.Alts[next].Cost > x.cfg.MaxDev {
					next++
				}
				if next < len(p.Alts) {
					p.Chosen, p.Succ, p.NDWidth, p.NDDone = next, nil, 0, false
					break
				}
			}
			if i < 0 {
				return
			}
			stack = stack[:i+1]
			for _, p := range stack {
				prefix = append(prefix, p.Alts[p.Chosen].Label)
				keys = append(keys, p.Key)
			}
		}
		first = false
		if !x.deadline.IsZero() && time.Now().After(x.deadline) {
			x.capped = true
			return
		}
		var res *execResult
		mism, same := 0, 0
		for {
			res = x.execute(t, prefix, keys, avoid)
			if res.mismatch != "" {
				x.ndRetries++
				if mism++; mism > 600 {
					x.ndAbandoned++
					break
				}
				continue
			}
			if res.same {
				x.ndSearches++
				if same++; same >= 60 {
					break
				}
				continue
			}
			break
		}
		if res.mismatch != "" {
			if avoid != nil {
				stack[len(stack)-1].NDDone = true
			}
			continue // branch abandoned: next alternative of the deepest point
		}
		if res.same {
			stack[len(stack)-1].NDDone = true // no further outcome shows up
			continue
		}
		if n := len(stack); n > 0 {
			p := &stack[n-1]
			if a := p.Alts[p.Chosen]; a.In != nil && a.In.K == kRA {
				if p.Succ == nil {
					p.Succ = map[string]bool{}
				}
				p.Succ[res.succKey] = true
				p.NDWidth = res.ndWidth
				if len(p.Succ) > 1 {
					x.ndOutcomes++
				}
			}
		}
		if len(res.points) > len(stack) {
			stack = append(stack, res.points[len(stack):]...)
		}
		if len(stack) > x.maxDepth {
			x.maxDepth = len(stack)
		}
		if res.pruned {
			x.pruned++
			continue
		}
		if res.ended && x.report {
			x.account(t, res, prefix)
		}
		for _, f := range res.findings {
			x.vioKeys[f.Key] = true
		}
	}
}

func factorial(n int) int {
	f := 1
	for i := 2; i <= n; i++ {
		f *= i
	}
	return f
}

// account reports one evaluated path.
func (x *explorer) account(t *testing.T, res *execResult, prefix []string) {
	path := res.obs["path"].([]string)
	instrs, devs := 0, 0
	for _, p := range res.points {
		a := p.Alts[p.Chosen]
		if a.In != nil {
			instrs++
		}
		devs += a.Cost
	}
	calls := len(res.obs["daemon_calls"].([]string))
	nontrivial := calls > 0 && (instrs >= 2 || devs >= 1)
	R.Eval(x.sec, res.sig, nontrivial)
	seen := map[string]bool{}
	for _, o := range res.outcomes {
		if !seen[o] {
			seen[o] = true
			R.Outcome(x.sec, o)
		}
	}
	if devs >= 2 && instrs >= 2 {
		R.SampleTagged("path-with-2-deviations", 2, res.obs)
	} else if instrs >= 3 {
		R.SampleTagged("path-default-completion", 1, res.obs)
	}
	for _, f := range res.findings {
		f.Detail["observations"] = res.obs
		f.Detail["found_after"] = f.Detail["path"]
		f.Detail["path"] = path
		x.occurrences[f.Key]++
		if b, ok := x.best[f.Key]; !ok || len(path) < len(b.Detail["path"].([]string)) {
			x.best[f.Key] = f
		}
	}
}

// emit reports, per violation key, the shortest path that showed it, after
// re-executing that path: a finding must reproduce.
func (x *explorer) emit(t *testing.T) {
	for _, k := range sortedFindingKeys(x.best) {
		f := x.best[k]
		path := f.Detail["path"].([]string)
		if !x.reproduces(t, path, k) {
			R.Broken("FLAKY-INTERNAL: %s did not reproduce on re-execution of %v (%s)", k, path, x.cfg.Name)
			continue
		}
		f.Detail["occurrences_in_this_configuration"] = x.occurrences[k]
		R.Violation(k, f.Detail)
	}
}

func sortedFindingKeys(m map[string]finding) []string {
	var s []string
	for k := range m {
		s = append(s, k)
	}
	sort.Strings(s)
	return s
}

// reproduces re-runs a full path (labels only) and looks for the key.
func (x *explorer) reproduces(t *testing.T, path []string, key string) bool {
	for try := 0; try < 20; try++ {
		fs, ok := replayPath(t, x.cfg, path)
		if !ok {
			continue // nondeterministic divergence, try again
		}
		for _, f := range fs {
			if f.Key == key {
				return true
			}
		}
	}
	return false
}

// replayPath executes a complete event path without the explorer.
func replayPath(t *testing.T, cfg config, path []string) (fs []finding, ok bool) {
	x := &explorer{cfg: cfg}
	synctest.Test(t, func(t *testing.T) {
		w := newWorld(cfg)
		defer w.shutdown()
		count := 0
		for _, lab := range path {
			var a *alt
			for _, c := range x.alts(w, count) {
				if c.Label == lab {
					c := c
					a = &c
				}
			}
			if a == nil {
				return
			}
			w.trace = append(w.trace, lab)
			switch {
			case lab == "END":
				w.clause1()
				w.clause2()
				fs, ok = w.findings, true
				return
			case a.In != nil:
				w.issue(*a.In)
				count++
			case strings.HasPrefix(lab, "A:"):
				w.complete(lab[2:], clus.Apply)
			case strings.HasPrefix(lab, "F:"):
				w.complete(lab[2:], clus.Fail)
			case strings.HasPrefix(lab, "E:"):
				w.effect(lab[2:])
			}
		}
	})
	return
}

func sortedKeys(m map[string]bool) []string {
	var s []string
	for k := range m {
		s = append(s, k)
	}
	sort.Strings(s)
	return s
}
