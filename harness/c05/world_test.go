package c05

// The world of one execution: the real stateless.Tracker, a dsstate the
// harness edits (the harness plays consensus), the model IPFS daemon behind the
// IPFSConnector RPC service with parked Pin/Unpin calls, and the bookkeeping
// the oracle needs (last instruction per CID, tolerated unpin failures).
// Everything here runs inside a testing/synctest bubble.

import (
	"context"
	"fmt"
	"reflect"
	"runtime/debug"
	"sort"
	"strings"
	"sync/atomic"
	"testing/synctest"
	"time"
	"unsafe"

	cid "github.com/ipfs/go-cid"
	peer "github.com/libp2p/go-libp2p-core/peer"

	"github.com/ipfs/ipfs-cluster/api"
	"github.com/ipfs/ipfs-cluster/pintracker/optracker"
	"github.com/ipfs/ipfs-cluster/pintracker/stateless"
	"github.com/ipfs/ipfs-cluster/state"

	"verif/harness/lib/clus"
)

// ---------------------------------------------------------------- inputs

type kind string

const (
	kLR kind = "LR" // track, allocated to this peer, recursive
	kLD kind = "LD" // track, allocated to this peer, direct (Mode direct / MaxDepth 0)
	kEV kind = "EV" // track, allocated to everyone (factors -1), recursive
	kRM kind = "RM" // track, allocated to another peer only
	kMT kind = "MT" // track, meta pin
	kUN kind = "UN" // untrack
	kRC kind = "RC" // recover(c)
	kRA kind = "RA" // recoverAll
	kNo kind = "-"  // never instructed
)

var kindName = map[kind]string{kLR: "local-recursive", kLD: "local-direct", kEV: "everywhere", kRM: "remote",
	kMT: "meta", kUN: "untracked", kRC: "recover", kRA: "recoverAll", kNo: "none"}

func (k kind) isTrack() bool { return k == kLR || k == kLD || k == kEV || k == kRM || k == kMT }

type instr struct {
	K kind
	C string // CID label; "" for recoverAll
}

func (i instr) label() string {
	if i.K == kRA {
		return "I:RA"
	}
	return "I:" + string(i.K) + ":" + i.C
}

type config struct {
	Name           string
	ConcurrentPins int
	Queue          int
	Cids           []string // CID labels
	Kinds          []kind   // instruction alphabet (per CID, RA once)
	Passes         []pass
	MaxInstr       int // bounds of the pass being explored
	MaxDev         int
	// RealConn: the tracker talks to the model daemon through the real
	// ipfshttp.Connector (HTTP over in-bubble pipes) instead of the model's
	// own IPFSConnector interface
	RealConn bool
	// FailCanceled: a daemon failure surfaces as context.Canceled, the error
	// the real connector returns when it abandons a stalled pin/add
	FailCanceled bool
	// LateAnswers: the daemon may carry a parked pin/unpin call out at once
	// and deliver its answer later (event E:<call>, then A:<call>), also
	// after the operation that made the call has been superseded
	LateAnswers bool
}

// pass bounds one DFS: instructions per path and deviations per path.
type pass struct{ MaxInstr, MaxDev int }

const unbounded = 99

func (p pass) String() string {
	if p.MaxDev >= unbounded {
		return fmt.Sprintf("<=%d instructions, any number of deviations", p.MaxInstr)
	}
	return fmt.Sprintf("<=%d instructions, <=%d deviations", p.MaxInstr, p.MaxDev)
}

var cidOf = map[string]cid.Cid{}
var labelOf = map[string]string{}

func init() {
	for _, l := range []string{"a", "b", "c"} {
		c := clus.Cid(l)
		cidOf[l] = c
		labelOf[c.String()] = l
	}
}

var self = clus.PID(0)
var other = clus.PID(1)

// mkPin builds the pin the shared pinset records for a track instruction.
// Every pin carries a name and metadata so that "the options recorded in the
// shared pinset" are observable on a re-issued call.
func mkPin(k kind, l string) *api.Pin {
	c := cidOf[l]
	var p *api.Pin
	switch k {
	case kLR:
		p = api.PinWithOpts(c, api.PinOptions{ReplicationFactorMin: 1, ReplicationFactorMax: 1, Name: "lr-" + l,
			Mode: api.PinModeRecursive, Metadata: map[string]string{"k": "v"}})
		p.Allocations = []peer.ID{self}
	case kLD:
		p = api.PinWithOpts(c, api.PinOptions{ReplicationFactorMin: 1, ReplicationFactorMax: 1, Name: "ld-" + l,
			Mode: api.PinModeDirect, Metadata: map[string]string{"k": "v"}})
		p.Allocations = []peer.ID{self}
	case kEV:
		p = api.PinWithOpts(c, api.PinOptions{ReplicationFactorMin: -1, ReplicationFactorMax: -1, Name: "ev-" + l,
			Mode: api.PinModeRecursive, Metadata: map[string]string{"k": "v"}})
	case kRM:
		p = api.PinWithOpts(c, api.PinOptions{ReplicationFactorMin: 1, ReplicationFactorMax: 1, Name: "rm-" + l,
			Mode: api.PinModeRecursive})
		p.Allocations = []peer.ID{other}
	case kMT:
		p = api.PinWithOpts(c, api.PinOptions{ReplicationFactorMin: -1, ReplicationFactorMax: -1, Name: "mt-" + l,
			Mode: api.PinModeRecursive})
		p.Type = api.MetaType
		ref := clus.Cid("ref-" + l)
		p.Reference = &ref
	default:
		panic("mkPin " + string(k))
	}
	return p
}

// ---------------------------------------------------------------- world

type issued struct {
	In   instr
	At   time.Time
	done chan struct{}
	err  error
	pan  string
}

type finding struct {
	Key    string
	Detail map[string]interface{}
}

type world struct {
	cfg       config
	ctx       context.Context
	tr        *stateless.Tracker
	st        state.State
	model     *clus.IPFS
	healthy   atomic.Bool
	closeConn func()

	last    map[string]kind   // last track/untrack instruction per CID label
	tol     map[string]bool   // an unpin call for the CID failed at the daemon since that instruction
	atLast  map[string]string // what the daemon held for the CID when that instruction was issued
	recEver map[string]bool   // a recover(c)/recoverAll instruction was issued while the recorded pin of the CID was this direct-mode pin
	pending []*issued
	nInstr  int
	// operations created or modified by the last recoverAll instruction
	lastRAWidth int

	trace    []string
	findings []finding
	outcomes []string
}

func newWorld(cfg config) *world {
	w := &world{cfg: cfg, ctx: context.Background(), last: map[string]kind{}, tol: map[string]bool{}, atLast: map[string]string{}, recEver: map[string]bool{}}
	sh := clus.NewShared(nil)
	w.st = sh.State
	w.model = clus.NewIPFS()
	w.model.Decide = func(c *clus.Call) clus.Action {
		if w.healthy.Load() {
			return clus.Apply
		}
		if c.Kind == "pin" || c.Kind == "unpin" {
			return clus.Park
		}
		return clus.Apply
	}
	if cfg.FailCanceled {
		w.model.FailErr = context.Canceled
	}
	tc := &stateless.Config{}
	tc.Default()
	tc.ConcurrentPins = cfg.ConcurrentPins
	tc.MaxPinQueueSize = cfg.Queue
	if err := tc.Validate(); err != nil {
		panic(err)
	}
	w.tr = stateless.New(tc, self, "p0", func(context.Context) (state.ReadOnly, error) { return w.st, nil })
	var svc interface{} = &clus.IPFSSvc{M: w.model}
	if cfg.RealConn {
		svc, w.closeConn = clus.RealIPFSService(w.model)
	}
	w.tr.SetClient(clus.LocalRPC(map[string]interface{}{"IPFSConnector": svc}))
	for _, l := range cfg.Cids {
		w.last[l] = kNo
	}
	return w
}

func (w *world) shutdown() {
	// answers still on the way do not listen to cancellation: deliver them
	for _, c := range w.model.Parked() {
		if c.Effected {
			w.model.Complete(c, clus.Apply)
		}
	}
	synctest.Wait()
	w.tr.Shutdown(w.ctx)
	for _, c := range w.model.Parked() {
		if c.Effected {
			w.model.Complete(c, clus.Apply)
		}
	}
	if w.closeConn != nil {
		w.closeConn()
	}
	synctest.Wait()
}

func (w *world) addFinding(key string, detail map[string]interface{}) {
	detail["config"] = w.cfg.Name
	detail["path"] = append([]string{}, w.trace...)
	w.findings = append(w.findings, finding{key, detail})
}

// guard runs one call of the code under test from the goroutine that owns it.
func (is *issued) guard(f func() error) {
	go func() {
		defer close(is.done)
		defer func() {
			if r := recover(); r != nil {
				is.pan = fmt.Sprint(r) + "\n" + string(debug.Stack())
			}
		}()
		is.err = f()
	}()
}

// issue plays consensus for one instruction: the shared pinset is updated
// first, then the tracker is told, exactly like the consensus hooks do. The
// call runs in its own goroutine (Track of a remote pin blocks in IPFS unpin).
func (w *world) issue(in instr) {
	time.Sleep(time.Second) // fake clock: operation timestamps tell instructions apart
	w.nInstr++
	is := &issued{In: in, At: time.Now(), done: make(chan struct{})}
	switch {
	case in.K.isTrack():
		pin := mkPin(in.K, in.C)
		if err := w.st.Add(w.ctx, pin); err != nil {
			panic(err)
		}
		w.last[in.C] = in.K
		w.tol[in.C] = false
		w.atLast[in.C] = ""
		if in.K == kLD {
			w.atLast[in.C] = "not-recursive"
			if w.model.Get(cidOf[in.C]) == api.IPFSPinStatusRecursive {
				w.atLast[in.C] = "recursive"
			}
		}
		is.guard(func() error { return w.tr.Track(w.ctx, pin) })
	case in.K == kUN:
		if err := w.st.Rm(w.ctx, cidOf[in.C]); err != nil {
			panic(err)
		}
		w.last[in.C] = kUN
		w.tol[in.C] = false
		w.atLast[in.C] = ""
		w.recEver[in.C] = false
		is.guard(func() error { return w.tr.Untrack(w.ctx, cidOf[in.C]) })
	case in.K == kRC:
		if w.last[in.C] == kLD {
			w.recEver[in.C] = true
		}
		is.guard(func() error { _, err := w.tr.Recover(w.ctx, cidOf[in.C]); return err })
	case in.K == kRA:
		for _, l := range w.cfg.Cids {
			if w.last[l] == kLD {
				w.recEver[l] = true
			}
		}
		is.guard(func() error { _, err := w.tr.RecoverAll(w.ctx); return err })
	}
	w.pending = append(w.pending, is)
	synctest.Wait()
	w.lastRAWidth = 0
	if in.K == kRA {
		for _, op := range w.rawOps() {
			if !op.Timestamp().Before(is.At) {
				w.lastRAWidth++
			}
		}
	}
	w.reap()
}

func errClass(s string) string {
	switch {
	case s == "":
		return ""
	case s == stateless.ErrFullQueue.Error():
		return "queue-full"
	case strings.Contains(s, clus.ErrIPFS.Error()):
		return "daemon-failure"
	case strings.Contains(s, "context canceled"):
		return "cancelled"
	case strings.Contains(s, "already pinned recursively"):
		return "daemon-refused-direct-over-recursive"
	case strings.Contains(s, "should be pinned but it is not"):
		return "not-pinned"
	}
	return "other:" + s
}

// reap collects instructions that have returned and applies clause 3: an
// instruction the tracker itself recorded as not queueable (error status
// carrying ErrFullQueue, stamped at or after the instruction) must have
// returned an error to its caller.
func (w *world) reap() {
	var still []*issued
	for _, is := range w.pending {
		select {
		case <-is.done:
		default:
			still = append(still, is)
			continue
		}
		if is.pan != "" {
			site := panicSite(is.pan)
			w.addFinding("C05|panic|"+kindName[is.In.K]+"|"+site, map[string]interface{}{"instruction": is.In.label(), "panic": is.pan})
			continue
		}
		if is.err != nil {
			w.outcomes = append(w.outcomes, "instruction-error:"+string(is.In.K)+":"+errClass(is.err.Error()))
			continue
		}
		var check []string
		switch is.In.K {
		case kLR, kLD, kEV, kUN, kRC:
			check = []string{is.In.C}
		case kRA:
			check = w.cfg.Cids
		}
		for _, l := range check {
			pi := w.tr.Status(w.ctx, cidOf[l])
			if pi.Error == stateless.ErrFullQueue.Error() && !pi.TS.Before(is.At) {
				w.addFinding("C05|clause3|"+kindName[is.In.K]+"|returned-nil|status="+pi.Status.String()+":queue-full",
					map[string]interface{}{"instruction": is.In.label(), "cid": l, "returned": nil,
						"status": pi.Status.String(), "status_error": pi.Error,
						"expected": "an instruction that could not be queued returns an error to its caller"})
			}
		}
	}
	w.pending = still
}

func panicSite(s string) string {
	for _, l := range strings.Split(s, "\n") {
		l = strings.TrimSpace(l)
		if strings.HasPrefix(l, "github.com/ipfs/ipfs-cluster") {
			if i := strings.LastIndex(l, "("); i > 0 {
				l = l[:i]
			}
			return strings.TrimPrefix(l, "github.com/ipfs/ipfs-cluster")
		}
	}
	return "unknown"
}

// parked lists the held daemon calls under stable names, sorted: the CID label,
// with "#n" appended for the n-th simultaneous call on the same CID (in arrival
// order). On the unchanged code at most one call per CID is ever held at a
// quiescent point (a newer operation on the same CID cancels the older one's
// context and the model drops a cancelled call); the naming does not rely on it.
func (w *world) parked() (names []string, calls map[string]*clus.Call) {
	calls = map[string]*clus.Call{}
	n := map[string]int{}
	for _, c := range w.model.Parked() {
		l := labelOf[c.Cid]
		n[l]++
		name := l
		if n[l] > 1 {
			name = fmt.Sprintf("%s#%d", l, n[l])
		}
		calls[name] = c
		names = append(names, name)
	}
	sort.Strings(names)
	return
}

func (w *world) effect(name string) {
	_, calls := w.parked()
	c := calls[name]
	if c == nil {
		panic("effect: no parked call named " + name)
	}
	w.model.Effect(c)
	synctest.Wait()
}

func (w *world) complete(name string, act clus.Action) {
	_, calls := w.parked()
	c := calls[name]
	if c == nil {
		panic("complete: no parked call named " + name)
	}
	if act == clus.Fail && c.Kind == "unpin" {
		w.tol[labelOf[c.Cid]] = true
	}
	w.model.Complete(c, act)
	synctest.Wait()
	w.reap()
}

// ---------------------------------------------------------------- canonical state

func depthName(d api.PinDepth) string {
	if d.ToPinMode() == api.PinModeDirect {
		return "direct"
	}
	return "recursive"
}

func daemonName(s api.IPFSPinStatus) string {
	switch s {
	case api.IPFSPinStatusUnpinned:
		return "unpinned"
	case api.IPFSPinStatusDirect:
		return "direct"
	case api.IPFSPinStatusRecursive:
		return "recursive"
	}
	return fmt.Sprintf("ipfs-status-%d", int(s))
}

type opView struct {
	Type, Phase, Err, Depth string
	Cancelled               bool
}

// peek reads the tracker's private operation table and queue occupancy. It is
// only called at quiescent points (every goroutine of the bubble durably
// blocked), so no lock is needed.
func (w *world) rawOps() map[cid.Cid]*optracker.Operation {
	v := reflect.ValueOf(w.tr).Elem()
	ot := v.FieldByName("optracker").Elem().FieldByName("operations")
	return *(*map[cid.Cid]*optracker.Operation)(unsafe.Pointer(ot.UnsafeAddr()))
}

func (w *world) peek() (ops map[string]opView, pinQ, unpinQ int) {
	v := reflect.ValueOf(w.tr).Elem()
	pinQ = v.FieldByName("pinCh").Len()
	unpinQ = v.FieldByName("unpinCh").Len()
	m := w.rawOps()
	ops = map[string]opView{}
	for c, op := range m {
		l, ok := labelOf[c.String()]
		if !ok {
			l = "?" + c.String()
		}
		ops[l] = opView{Type: op.Type().String(), Phase: op.Phase().String(), Err: errClass(op.Error()),
			Depth: depthName(op.Pin().MaxDepth), Cancelled: op.Cancelled()}
	}
	return
}

// canon renders everything that determines future behaviour and the verdict:
// shared pinset entry, daemon pin, current operation, held call and tolerance
// flag per CID, queue occupancy, blocked instruction goroutines.
func (w *world) canon() string {
	ops, pq, uq := w.peek()
	_, calls := w.parked()
	var b strings.Builder
	var extra []string
	for l := range ops {
		if strings.HasPrefix(l, "?") {
			extra = append(extra, l)
		}
	}
	sort.Strings(extra)
	for _, l := range w.cfg.Cids {
		fmt.Fprintf(&b, "%s[want=%s ipfs=%s", l, w.last[l], daemonName(w.model.Get(cidOf[l])))
		if op, ok := ops[l]; ok {
			fmt.Fprintf(&b, " op=%s/%s/%s", op.Type, op.Phase, op.Depth)
			if op.Err != "" {
				fmt.Fprintf(&b, "/%s", op.Err)
			}
			if op.Cancelled {
				b.WriteString("/x")
			}
		}
		for i := 1; ; i++ {
			name := l
			if i > 1 {
				name = fmt.Sprintf("%s#%d", l, i)
			}
			c, ok := calls[name]
			if !ok {
				break
			}
			fmt.Fprintf(&b, " call=%s", c.Kind)
			if c.Pin != nil {
				fmt.Fprintf(&b, "/%s", depthName(c.Pin.MaxDepth))
			}
			if c.Effected {
				b.WriteString("/answer-on-the-way")
			}
		}
		if w.tol[l] {
			b.WriteString(" unpin-failed")
		}
		if w.atLast[l] == "recursive" {
			b.WriteString(" had-recursive")
		}
		if w.recEver[l] {
			b.WriteString(" rec")
		}
		b.WriteString("] ")
	}
	fmt.Fprintf(&b, "pinq=%d unpinq=%d blocked=%d", pq, uq, len(w.pending))
	if len(extra) > 0 {
		fmt.Fprintf(&b, " extra=%v", extra)
	}
	return b.String()
}

// ---------------------------------------------------------------- oracle

var errorStatuses = map[api.TrackerStatus]bool{
	api.TrackerStatusPinError:             true,
	api.TrackerStatusUnpinError:           true,
	api.TrackerStatusClusterError:         true,
	api.TrackerStatusUnexpectedlyUnpinned: true,
}

// matches says whether the daemon holds what the last instruction for the CID
// asks for. silent: the property text does not constrain the daemon (never
// instructed; meta pins).
func (w *world) matches(l string) (match, silent bool, tolerated bool) {
	dm := w.model.Get(cidOf[l])
	switch w.last[l] {
	case kNo, kMT:
		return true, true, false
	case kLR, kEV:
		return dm == api.IPFSPinStatusRecursive, false, false
	case kLD:
		return dm == api.IPFSPinStatusDirect, false, false
	case kUN:
		return dm == api.IPFSPinStatusUnpinned, false, false
	case kRM:
		if dm == api.IPFSPinStatusUnpinned {
			return true, false, false
		}
		return w.tol[l], false, w.tol[l]
	}
	panic("matches")
}

type cidObs struct {
	Cid      string `json:"cid"`
	Last     string `json:"last_instruction"`
	Daemon   string `json:"daemon"`
	Status   string `json:"status"`
	StatusEr string `json:"status_error,omitempty"`
	Verdict  string `json:"verdict"`
}

// clause1 is evaluated at quiescence: no call held, every goroutine blocked.
func (w *world) clause1() []cidObs {
	var out []cidObs
	for _, l := range w.cfg.Cids {
		pi := w.tr.Status(w.ctx, cidOf[l])
		o := cidObs{Cid: l, Last: kindName[w.last[l]], Daemon: daemonName(w.model.Get(cidOf[l])), Status: pi.Status.String(), StatusEr: errClass(pi.Error)}
		match, silent, tol := w.matches(l)
		switch {
		case silent:
			o.Verdict = "silent"
		case tol:
			o.Verdict = "tolerated-unpin-failure"
		case match:
			o.Verdict = "match"
		case errorStatuses[pi.Status]:
			o.Verdict = "error-status"
		default:
			o.Verdict = "VIOLATION"
			w.addFinding(fmt.Sprintf("C05|clause1|last=%s|daemon=%s|status=%s", o.Last, o.Daemon, o.Status),
				map[string]interface{}{"cid": l, "observed": o,
					"expected": "at quiescence the daemon matches the last instruction or the status is an error status"})
		}
		out = append(out, o)
	}
	return out
}

func pinDiff(got, rec *api.Pin) []string {
	var d []string
	if got.Type != rec.Type {
		d = append(d, "Type")
	}
	if got.MaxDepth != rec.MaxDepth {
		d = append(d, "MaxDepth")
	}
	if got.Mode != rec.Mode {
		d = append(d, "Mode")
	}
	if got.Name != rec.Name {
		d = append(d, "Name")
	}
	if got.ReplicationFactorMin != rec.ReplicationFactorMin || got.ReplicationFactorMax != rec.ReplicationFactorMax {
		d = append(d, "ReplicationFactor")
	}
	if fmt.Sprint(got.Allocations) != fmt.Sprint(rec.Allocations) {
		d = append(d, "Allocations")
	}
	if fmt.Sprint(got.Metadata) != fmt.Sprint(rec.Metadata) {
		d = append(d, "Metadata")
	}
	return d
}

// clause2: IPFS healthy, one recover round (RecoverAll, repeated while it
// reports that something could not be queued), quiesce; the daemon must match
// for every CID and every pin call re-issued by the round must carry the pin
// recorded in the shared pinset.
func (w *world) clause2() []cidObs {
	before := map[string]string{}
	for _, l := range w.cfg.Cids {
		before[l] = daemonName(w.model.Get(cidOf[l]))
	}
	w.healthy.Store(true)
	pos := len(w.model.Calls)
	rounds := 0
	var lastErr error
	for rounds < 2+len(w.cfg.Cids) {
		rounds++
		is := &issued{In: instr{K: kRA}, At: time.Now(), done: make(chan struct{})}
		is.guard(func() error { _, err := w.tr.RecoverAll(w.ctx); return err })
		synctest.Wait()
		select {
		case <-is.done:
		default:
			w.addFinding("C05|hang|recoverAll|never-returns-with-healthy-daemon", map[string]interface{}{
				"expected": "RecoverAll returns when the daemon answers every call at once"})
			return nil
		}
		if is.pan != "" {
			w.addFinding("C05|panic|recoverAll|"+panicSite(is.pan), map[string]interface{}{"panic": is.pan})
			break
		}
		lastErr = is.err
		if is.err == nil {
			break
		}
	}
	if lastErr != nil {
		w.outcomes = append(w.outcomes, "recover-round-still-failing:"+errClass(lastErr.Error()))
	}
	reissued := map[string][]*api.Pin{}
	for _, c := range w.model.Calls[pos:] {
		if c.Kind == "pin" {
			reissued[labelOf[c.Cid]] = append(reissued[labelOf[c.Cid]], c.Pin)
		}
	}
	var out []cidObs
	for _, l := range w.cfg.Cids {
		pi := w.tr.Status(w.ctx, cidOf[l])
		o := cidObs{Cid: l, Last: kindName[w.last[l]], Daemon: daemonName(w.model.Get(cidOf[l])), Status: pi.Status.String(), StatusEr: errClass(pi.Error)}
		match, silent, tol := w.matches(l)
		switch {
		case silent:
			o.Verdict = "silent"
		case tol:
			o.Verdict = "tolerated-unpin-failure"
		case match:
			o.Verdict = "match"
		default:
			o.Verdict = "VIOLATION"
			key := fmt.Sprintf("C05|clause2|daemon-mismatch|last=%s|daemon-before-recover-round=%s|daemon-after=%s", o.Last, before[l], o.Daemon)
			if w.last[l] == kLD {
				key = fmt.Sprintf("C05|clause2|daemon-mismatch|last=%s|daemon-at-instruction=%s|recovered-while-direct=%v|daemon-before-recover-round=%s|daemon-after=%s", o.Last, w.atLast[l], w.recEver[l], before[l], o.Daemon)
			}
			w.addFinding(key,
				map[string]interface{}{"cid": l, "observed": o, "daemon_when_last_instruction_was_issued": w.atLast[l], "recover_instruction_issued_while_recorded_pin_direct": w.recEver[l], "daemon_before_recover_round": before[l], "recover_rounds": rounds,
					"expected": "after a recover round with IPFS healthy the daemon matches the last instruction"})
		}
		if k := w.last[l]; k == kLR || k == kLD || k == kEV {
			rec, err := w.st.Get(w.ctx, cidOf[l])
			if err != nil {
				panic(err)
			}
			for _, got := range reissued[l] {
				d := pinDiff(got, rec)
				if w.cfg.RealConn {
					// over HTTP only the CID and how deep to pin reach the daemon
					d = nil
					if got.MaxDepth != rec.MaxDepth {
						d = append(d, "MaxDepth")
					}
				}
				if len(d) > 0 {
					w.addFinding(fmt.Sprintf("C05|clause2|reissued-pin-differs-from-recorded|recorded=%s|lost=%s", o.Last, strings.Join(d, "+")),
						map[string]interface{}{"cid": l, "recorded_pin": rec.String(), "reissued_pin": got.String(), "differing_fields": d,
							"expected": "the pin call re-issued by recover carries the pin recorded in the shared pinset"})
					o.Verdict += "+reissue-differs"
					break
				}
			}
		}
		out = append(out, o)
	}
	return out
}
