package c09

// Alphabet, reference model and oracle of the store/checker/monitor part.
// The reference is written from the property text: per (name, peer) it keeps
// the last arrival and the number of alerts attributed to it.

import (
	"crypto/sha256"
	"fmt"
	"sort"
	"strconv"
	"strings"
	"testing/synctest"
	"time"

	"github.com/ipfs/ipfs-cluster/api"
	peer "github.com/libp2p/go-libp2p-core/peer"

	"verif/harness/lib/clus"
)

var (
	names  = []string{"ping", "n2"}
	pids   [3]peer.ID
	pnames = []string{"p", "q", "r"}
	pidIdx = map[peer.ID]int{}
	ttls   = []time.Duration{-1 * time.Second, 2 * time.Second, 10 * time.Second}
	ttlStr = []string{"expired", "2s", "10s"}
)

func init() {
	for i := range pids {
		pids[i] = clus.PID(10 + i)
		pidIdx[pids[i]] = i
	}
}

func nameIdx(n string) int {
	for i, x := range names {
		if x == n {
			return i
		}
	}
	return -1
}

type evKind uint8

const (
	kArrive evKind = iota
	kAdvance
	kRemove
	kPeerset
	kCheck
	kBurst
)

// event is one letter of the history alphabet.
type event struct {
	K     evKind
	Name  int
	Peer  int
	Valid bool
	TTL   int           // index into ttls
	D     time.Duration // advance
	Set   uint8         // peerset bitmask
	N     int           // burst size
}

func (e event) String() string {
	switch e.K {
	case kArrive:
		v := "valid"
		if !e.Valid {
			v = "invalid"
		}
		return fmt.Sprintf("arrive(%s,%s,%s,ttl=%s)", names[e.Name], pnames[e.Peer], v, ttlStr[e.TTL])
	case kAdvance:
		return fmt.Sprintf("advance(%s)", e.D)
	case kRemove:
		return fmt.Sprintf("removePeer(%s)", pnames[e.Peer])
	case kPeerset:
		s := []string{}
		for i := 0; i < 3; i++ {
			if e.Set&(1<<i) != 0 {
				s = append(s, pnames[i])
			}
		}
		return "peerset:={" + strings.Join(s, ",") + "}"
	case kCheck:
		return "check"
	case kBurst:
		return fmt.Sprintf("burst%d(%s,%s,valid,ttl=2s,1s apart)", e.N, names[e.Name], pnames[e.Peer])
	}
	return "?"
}

// wcfg selects the world a history is replayed on.
type wcfg struct {
	World    string        // "store": metrics.Store+Checker, checks called directly; "monitor": pubsubmon.Monitor, checks by its Watch ticker
	Known    bool          // a peerset is known (CheckPeers + membership filter) or not (CheckAll, no filter)
	Interval time.Duration // monitor check interval
	NPeers   int           // peers in the alphabet
	NNames   int           // names in the alphabet
	Pubsub   bool          // monitor world: arrivals are msgpack messages published on the metrics topic (the receive path of the monitor) instead of LogMetric calls
}

func (c wcfg) kind() string {
	if c.Known {
		return "CheckPeers"
	}
	return "CheckAll"
}

func (c wcfg) String() string {
	ps := "unknown"
	if c.Known {
		ps = "known"
	}
	w := c.World
	if c.Pubsub {
		w += "-via-pubsub"
	}
	return w + "/peerset-" + ps
}

// alphabet lists the events applicable in a world.
func alphabet(c wcfg, bursts bool) []event {
	var evs []event
	for n := 0; n < c.NNames; n++ {
		for p := 0; p < c.NPeers; p++ {
			for _, v := range []bool{true, false} {
				for t := range ttls {
					evs = append(evs, event{K: kArrive, Name: n, Peer: p, Valid: v, TTL: t})
				}
			}
		}
	}
	evs = append(evs, event{K: kAdvance, D: time.Second}, event{K: kAdvance, D: 5 * time.Second})
	if c.World == "store" {
		for p := 0; p < c.NPeers; p++ {
			evs = append(evs, event{K: kRemove, Peer: p})
		}
		evs = append(evs, event{K: kCheck})
	}
	if c.Known {
		for s := 0; s < 1<<c.NPeers; s++ {
			evs = append(evs, event{K: kPeerset, Set: uint8(s)})
		}
	}
	if bursts {
		for n := 0; n < c.NNames; n++ {
			for p := 0; p < c.NPeers; p++ {
				evs = append(evs, event{K: kBurst, Name: n, Peer: p, N: 6}, event{K: kBurst, Name: n, Peer: p, N: 26})
			}
		}
	}
	return evs
}

// ---------------------------------------------------------------- reference

// cell is the reference for one (name, peer): the last arrival and the alerts
// attributed to it (an "episode" lasts from an arrival to the next arrival or
// removal).
type cell struct {
	has          bool
	seq          int
	valid        bool
	expire       time.Time
	alerts       int  // alerts delivered for the current episode
	n            int  // arrivals since the last removal or alerted episode (what a store that forgets after the alert would hold)
	priorAlert   bool // an earlier episode of this cell was alerted
	priorRemoval bool // the cell was emptied by removePeer earlier
}

type ref struct {
	cells   [2][3]cell
	members [3]bool
	seq     int
}

func (c *cell) prior() string {
	switch {
	case c.priorAlert && c.priorRemoval:
		return "prior-alert+removal"
	case c.priorAlert:
		return "prior-alert"
	case c.priorRemoval:
		return "prior-removal"
	}
	return "no-prior-alert"
}

func (c *cell) stored() string {
	switch {
	case c.n <= 2:
		return "stored=" + strconv.Itoa(c.n)
	case c.n <= 5:
		return "stored=3-5"
	}
	return "stored=6+"
}

func (c *cell) validity() string {
	if c.valid {
		return "latest=valid"
	}
	return "latest=invalid"
}

// vio is a violation found in one execution.
type vio struct {
	key    string
	detail map[string]interface{}
}

// ---------------------------------------------------------------- world

// world is the real code under test behind a narrow interface.
type world interface {
	arrive(m *api.Metric)
	removePeer(p peer.ID)
	setPeerset(ps []peer.ID)
	check()  // store world only
	settle() // let the world's own goroutines finish
	latest(name string) []*api.Metric
	peerLatest(name string, p peer.ID) (m *api.Metric, supported bool)
	window(name string, p peer.ID) []*api.Metric // private-state dump, only for the canonical state key
	counter(name string, p peer.ID) int          // checker's alert counter (-1 if unreadable), only for the key
	alerts() <-chan *api.Alert
	close()
}

// ---------------------------------------------------------------- execution

type result struct {
	key        [16]byte
	nontrivial bool
	dup        [3]int8 // dup[j] = lowest i<j whose per-peer block is identical, else -1
	vios       []vio
	outcomes   []string
	evals      int // state-oracle evaluations performed
}

type exec struct {
	cfg   wcfg
	w     world
	r     ref
	hist  []event
	step  int
	start time.Time
	res   *result
	phase string
}

func (x *exec) members() []peer.ID {
	var ps []peer.ID
	for i := 0; i < 3; i++ {
		if x.r.members[i] {
			ps = append(ps, pids[i])
		}
	}
	return ps
}

func (x *exec) violate(key string, extra map[string]interface{}) {
	d := map[string]interface{}{"world": x.cfg.String(), "history": histStrings(x.hist), "at": fmt.Sprintf("%s step %d, t=+%s", x.phase, x.step, time.Since(x.start))}
	for k, v := range extra {
		d[k] = v
	}
	x.res.vios = append(x.res.vios, vio{key, d})
}

func histStrings(h []event) []string {
	s := make([]string, len(h))
	for i, e := range h {
		s[i] = e.String()
	}
	return s
}

func (x *exec) doArrive(name, p int, valid bool, ttl time.Duration) {
	now := time.Now()
	x.r.seq++
	c := &x.r.cells[name][p]
	if c.has && c.alerts > 0 {
		c.priorAlert = true
		c.n = 0
	}
	c.has, c.seq, c.valid, c.expire, c.alerts = true, x.r.seq, valid, now.Add(ttl), 0
	if c.n < 100 {
		c.n++
	}
	m := &api.Metric{Name: names[name], Peer: pids[p], Value: strconv.Itoa(x.r.seq), Valid: valid, Expire: now.Add(ttl).UnixNano()}
	x.w.arrive(m)
}

// observe collects the alerts delivered so far, attributes them, and runs the
// state oracle. now is exact (fake clock).
func (x *exec) observe() {
	x.w.settle()
	now := time.Now()
	var got []*api.Alert
	for {
		select {
		case a := <-x.w.alerts():
			got = append(got, a)
			continue
		default:
		}
		break
	}
	sort.SliceStable(got, func(i, j int) bool {
		if got[i].Name != got[j].Name {
			return got[i].Name < got[j].Name
		}
		return pidIdx[got[i].Peer] < pidIdx[got[j].Peer]
	})
	for _, a := range got {
		ni, pi := nameIdx(a.Name), -1
		if v, ok := pidIdx[a.Peer]; ok {
			pi = v
		}
		if ni < 0 || pi < 0 {
			x.res.outcomes = append(x.res.outcomes, "alert-for-unknown-name-or-peer")
			continue
		}
		c := &x.r.cells[ni][pi]
		switch {
		case !c.has:
			// the text does not speak about peers without any (remaining) metric
			x.res.outcomes = append(x.res.outcomes, "alert-for-cell-without-metric")
		case now.Before(c.expire):
			x.violate("C09|"+x.cfg.kind()+"|alert-while-unexpired|"+c.validity(), map[string]interface{}{
				"cell": names[ni] + "/" + pnames[pi], "expected": "no alert: the latest metric expires in " + c.expire.Sub(now).String(), "observed": "alert delivered"})
		default:
			c.alerts++
			if c.alerts > 1 {
				x.violate("C09|"+x.cfg.kind()+"|alert-repeated|"+c.prior()+"|"+c.stored(), map[string]interface{}{
					"cell": names[ni] + "/" + pnames[pi], "expected": "exactly 1 alert for this unrenewed expiry", "observed": fmt.Sprintf("%d alerts so far", c.alerts)})
			}
		}
	}
	x.stateOracle(now)
}

func (x *exec) stateOracle(now time.Time) {
	x.res.evals++
	ps := "peerset=unknown"
	if x.cfg.Known {
		ps = "peerset=known"
	}
	for ni := 0; ni < len(names); ni++ {
		got := x.w.latest(names[ni])
		seen := [3]int{}
		for _, g := range got {
			pi, ok := pidIdx[g.Peer]
			if !ok || g.Name != names[ni] {
				x.violate("C09|latest|foreign-metric|"+ps, map[string]interface{}{"name": names[ni], "observed": fmt.Sprintf("%+v", *g)})
				continue
			}
			seen[pi]++
			c := &x.r.cells[ni][pi]
			cellS := names[ni] + "/" + pnames[pi]
			obs := fmt.Sprintf("value=%s valid=%v expires in %s", g.Value, g.Valid, time.Unix(0, g.Expire).Sub(now))
			switch {
			case !c.has:
				x.violate("C09|latest|returned-after-removal|"+ps, map[string]interface{}{"cell": cellS, "observed": obs})
			case g.Value != strconv.Itoa(c.seq):
				x.violate("C09|latest|not-most-recent|"+ps+"|"+c.stored(), map[string]interface{}{"cell": cellS, "expected": "arrival #" + strconv.Itoa(c.seq), "observed": obs})
			default:
				if !c.valid {
					x.violate("C09|latest|invalid-returned|"+ps, map[string]interface{}{"cell": cellS, "observed": obs})
				}
				if now.After(c.expire) {
					x.violate("C09|latest|expired-returned|"+ps, map[string]interface{}{"cell": cellS, "observed": obs})
				}
				if x.cfg.Known && !x.r.members[pi] {
					x.violate("C09|latest|non-member-returned|"+ps, map[string]interface{}{"cell": cellS, "peerset": x.memberNames(), "observed": obs})
				}
			}
		}
		for pi := 0; pi < 3; pi++ {
			c := &x.r.cells[ni][pi]
			cellS := names[ni] + "/" + pnames[pi]
			if seen[pi] > 1 {
				x.violate("C09|latest|more-than-one-per-peer|"+ps, map[string]interface{}{"cell": cellS, "observed": seen[pi]})
			}
			if seen[pi] == 0 && c.has && c.valid && now.Before(c.expire) && (!x.cfg.Known || x.r.members[pi]) {
				x.violate("C09|latest|fresh-member-metric-not-reported|"+ps+"|"+c.prior()+"|"+c.stored(), map[string]interface{}{
					"cell": cellS, "expected": "arrival #" + strconv.Itoa(c.seq) + " (valid, expires in " + c.expire.Sub(now).String() + ")", "observed": "no metric for this peer"})
			}
		}
	}
}

func (x *exec) memberNames() []string {
	s := []string{}
	for i := 0; i < 3; i++ {
		if x.r.members[i] {
			s = append(s, pnames[i])
		}
	}
	return s
}

func (x *exec) sleep(d time.Duration) {
	if x.cfg.World == "monitor" {
		// the monitor's ticker acts while time passes: observe at every second
		for ; d > 0; d -= time.Second {
			time.Sleep(time.Second)
			x.observe()
		}
		return
	}
	time.Sleep(d)
}

func (x *exec) apply(e event) {
	switch e.K {
	case kArrive:
		x.doArrive(e.Name, e.Peer, e.Valid, ttls[e.TTL])
	case kAdvance:
		x.sleep(e.D)
	case kRemove:
		x.w.removePeer(pids[e.Peer])
		for ni := range names {
			c := &x.r.cells[ni][e.Peer]
			if c.has {
				if c.alerts > 0 {
					c.priorAlert = true
				}
				c.priorRemoval = true
				c.has, c.n, c.alerts = false, 0, 0
			}
		}
	case kPeerset:
		for i := 0; i < 3; i++ {
			x.r.members[i] = e.Set&(1<<i) != 0
		}
		x.w.setPeerset(x.members())
	case kCheck:
		x.w.check()
	case kBurst:
		for i := 0; i < e.N; i++ {
			if i > 0 {
				x.observe()
				x.sleep(time.Second)
			}
			x.doArrive(e.Name, e.Peer, true, 2*time.Second)
		}
	}
	x.observe()
}

// drain brings the execution to quiescence: far beyond every TTL, with three
// more checks, then evaluates the exactly-once clauses.
func (x *exec) drain() {
	x.phase = "drain"
	x.step = 0
	if x.cfg.World == "monitor" {
		x.sleep(12 * time.Second) // every TTL of the alphabet has strictly passed; observed second by second
		time.Sleep(10 * time.Minute)
		x.observe()
		time.Sleep(3 * x.cfg.Interval)
		x.observe()
	} else {
		time.Sleep(10 * time.Minute)
		for i := 0; i < 3; i++ {
			x.step++
			x.w.check()
			x.observe()
		}
	}
	for ni := range names {
		for pi := 0; pi < 3; pi++ {
			c := &x.r.cells[ni][pi]
			if !c.has || (x.cfg.Known && !x.r.members[pi]) {
				continue // removed, never seen, or not examined by the checks (text silent)
			}
			cellS := names[ni] + "/" + pnames[pi]
			if c.alerts == 0 {
				x.violate("C09|"+x.cfg.kind()+"|alert-missing|"+c.prior()+"|"+c.stored()+"|"+c.validity(), map[string]interface{}{
					"cell": cellS, "expected": "exactly 1 alert: the latest metric (arrival #" + strconv.Itoa(c.seq) + ") expired and was not renewed; 3 checks ran more than 10 min after its expiry",
					"observed": "0 alerts"})
				continue
			}
			if m, ok := x.w.peerLatest(names[ni], pids[pi]); ok && m != nil {
				x.violate("C09|"+x.cfg.kind()+"|stale-not-forgotten|"+c.prior()+"|"+c.stored()+"|"+c.validity(), map[string]interface{}{
					"cell": cellS, "expected": "PeerLatest returns nothing after the alert", "observed": fmt.Sprintf("value=%s", m.Value)})
			}
		}
	}
}

// stateKey computes the canonical state and the per-peer duplicate table.
func (x *exec) stateKey() {
	now := time.Now()
	var blocks [3]string
	any := false
	for pi := 0; pi < 3; pi++ {
		var b strings.Builder
		if x.r.members[pi] {
			b.WriteString("M")
		} else {
			b.WriteString("-")
		}
		for ni := range names {
			c := &x.r.cells[ni][pi]
			b.WriteString("|")
			for _, m := range x.w.window(names[ni], pids[pi]) {
				any = true
				rem := time.Unix(0, m.Expire).Sub(now)
				rs := "x"
				if rem >= 0 {
					rs = strconv.FormatInt(int64(rem/time.Millisecond), 10)
				}
				v := "i"
				if m.Valid {
					v = "v"
				}
				fmt.Fprintf(&b, "%s%s@%d,", v, rs, int64(time.Unix(0, m.ReceivedAt).Sub(now)/time.Millisecond))
			}
			al := c.alerts
			if al > 2 {
				al = 2
			}
			n := c.n
			if n > 6 {
				n = 6
			}
			fmt.Fprintf(&b, ";c%d;h%v,a%d,n%d,%v,%v", x.w.counter(names[ni], pids[pi]), c.has, al, n, c.priorAlert, c.priorRemoval)
		}
		blocks[pi] = b.String()
	}
	for j := 0; j < 3; j++ {
		x.res.dup[j] = -1
		for i := 0; i < j; i++ {
			if blocks[i] == blocks[j] {
				x.res.dup[j] = int8(i)
				break
			}
		}
	}
	sorted := append([]string{}, blocks[:]...)
	sort.Strings(sorted)
	phase := ""
	if x.cfg.World == "monitor" {
		phase = fmt.Sprintf("phase=%d", int64(time.Since(x.start)%x.cfg.Interval/time.Millisecond))
	}
	h := sha256.Sum256([]byte(x.cfg.String() + "#" + strings.Join(sorted, "#") + "#" + phase))
	copy(x.res.key[:], h[:16])
	x.res.nontrivial = any
}

// run replays hist on a fresh world (must be called inside a bubble).
func run(cfg wcfg, env *bubbleEnv, hist []event) (res result) {
	x := &exec{cfg: cfg, hist: hist, res: &res, start: time.Now(), phase: "history"}
	defer func() {
		if p := recover(); p != nil {
			x.violate("C09|panic|"+x.cfg.World+"|"+panicClass(p), map[string]interface{}{"panic": fmt.Sprint(p)})
		}
	}()
	x.w = newWorld(cfg, env)
	defer x.w.close()
	x.start = time.Now()
	if cfg.Known {
		for i := 0; i < cfg.NPeers; i++ {
			x.r.members[i] = true
		}
		x.w.setPeerset(x.members())
	}
	synctest.Wait()
	x.observe()
	for i, e := range hist {
		x.step = i + 1
		x.apply(e)
	}
	x.stateKey()
	x.drain()
	return res
}

func panicClass(p interface{}) string {
	s := fmt.Sprint(p)
	if i := strings.IndexAny(s, "[0123456789"); i > 0 {
		s = s[:i]
	}
	return strings.TrimSpace(s)
}
