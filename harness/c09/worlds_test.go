package c09

// The two real worlds behind the `world` interface.

import (
	"errors"
	"bytes"
	"context"
	gocodec "github.com/ugorji/go/codec"
	"reflect"
	"sync"
	"testing/synctest"
	"time"
	"unsafe"

	"github.com/ipfs/ipfs-cluster/api"
	"github.com/ipfs/ipfs-cluster/monitor/metrics"
	"github.com/ipfs/ipfs-cluster/monitor/pubsubmon"
	host "github.com/libp2p/go-libp2p-core/host"
	peer "github.com/libp2p/go-libp2p-core/peer"
	pubsub "github.com/libp2p/go-libp2p-pubsub"

	"verif/harness/lib/clus"
)

// bubbleEnv is what executions sharing one bubble reuse: a mocknet host
// (creating one costs more than a whole execution). Each execution still gets
// its own pubsub instance and its own Monitor.
type bubbleEnv struct {
	cancel func()
	h      host.Host
}

func newBubbleEnv(c wcfg) *bubbleEnv {
	e := &bubbleEnv{}
	if c.World == "monitor" {
		ctx, cancel := context.WithCancel(context.Background())
		_, hosts := clus.NewMocknet(ctx, 0, 1)
		e.cancel, e.h = cancel, hosts[0]
	}
	return e
}

func (e *bubbleEnv) close() {
	if e.h != nil {
		e.h.Close()
		e.cancel()
		synctest.Wait()
	}
}

func newWorld(c wcfg, env *bubbleEnv) world {
	if c.World == "monitor" {
		return newMonWorld(c, env)
	}
	return newStoreWorld(c)
}

// private reads an unexported field (only used to build canonical state keys).
func private(obj interface{}, field string) (v reflect.Value, ok bool) {
	defer func() {
		if recover() != nil {
			ok = false
		}
	}()
	e := reflect.ValueOf(obj).Elem()
	f := e.FieldByName(field)
	if !f.IsValid() {
		return reflect.Value{}, false
	}
	return reflect.NewAt(f.Type(), unsafe.Pointer(f.UnsafeAddr())).Elem(), true
}

func readCounter(ch *metrics.Checker, name string, p peer.ID) int {
	if ch == nil {
		return -1
	}
	mu, ok1 := private(ch, "failedPeersMu")
	f, ok2 := private(ch, "failedPeers")
	if !ok1 || !ok2 {
		return -1
	}
	l, ok := mu.Addr().Interface().(*sync.Mutex)
	m, ok3 := f.Interface().(map[peer.ID]map[string]int)
	if !ok || !ok3 {
		return -1
	}
	l.Lock()
	defer l.Unlock()
	return m[p][name]
}

// ---------------------------------------------------------------- store + checker

type storeWorld struct {
	cfg     wcfg
	store   *metrics.Store
	checker *metrics.Checker
	peers   []peer.ID
}

func newStoreWorld(c wcfg) *storeWorld {
	s := metrics.NewStore()
	return &storeWorld{cfg: c, store: s, checker: metrics.NewChecker(context.Background(), s, pubsubmon.DefaultFailureThreshold)}
}

func (w *storeWorld) arrive(m *api.Metric)    { w.store.Add(m) }
func (w *storeWorld) removePeer(p peer.ID)    { w.store.RemovePeer(p) }
func (w *storeWorld) setPeerset(ps []peer.ID) { w.peers = ps }
func (w *storeWorld) settle()                 {}
func (w *storeWorld) close()                  {}
func (w *storeWorld) check() {
	if w.cfg.Known {
		w.checker.CheckPeers(w.peers)
	} else {
		w.checker.CheckAll()
	}
}
func (w *storeWorld) latest(name string) []*api.Metric {
	l := w.store.LatestValid(name)
	if w.cfg.Known {
		return metrics.PeersetFilter(l, w.peers)
	}
	return l
}
func (w *storeWorld) peerLatest(name string, p peer.ID) (*api.Metric, bool) {
	return w.store.PeerLatest(name, p), true
}
func (w *storeWorld) window(name string, p peer.ID) []*api.Metric {
	return w.store.PeerMetricAll(name, p)
}
func (w *storeWorld) counter(name string, p peer.ID) int { return readCounter(w.checker, name, p) }
func (w *storeWorld) alerts() <-chan *api.Alert          { return w.checker.Alerts() }

// ---------------------------------------------------------------- pubsubmon.Monitor

type monWorld struct {
	cfg    wcfg
	ctx    context.Context
	cancel func()
	h      host.Host
	mon    *pubsubmon.Monitor
	psub   *pubsub.PubSub
	store  *metrics.Store   // the monitor's private store (key only)
	chk    *metrics.Checker // the monitor's private checker (key only)
	mu     sync.Mutex
	peers  []peer.ID
	nPeers int // calls of the peers function
	// failCall: the calls of the peers function (1-based) that fail
	failCall map[int]bool
}

func init() {
	// nothing in this check publishes over pubsub; keep the router quiet
	pubsub.GossipSubHeartbeatInterval = time.Hour
	pubsub.GossipSubHeartbeatInitialDelay = time.Millisecond // slept through before the monitor is created
}

func newMonWorld(c wcfg, env *bubbleEnv) *monWorld {
	w := &monWorld{cfg: c, h: env.h}
	w.ctx, w.cancel = context.WithCancel(context.Background())
	psub, err := pubsub.NewGossipSub(w.ctx, w.h)
	if err != nil {
		panic("harness: gossipsub: " + err.Error())
	}
	time.Sleep(pubsub.GossipSubHeartbeatInitialDelay)
	synctest.Wait()
	var pf pubsubmon.PeersFunc
	if c.Known {
		pf = func(context.Context) ([]peer.ID, error) {
			w.mu.Lock()
			defer w.mu.Unlock()
			w.nPeers++
			if w.failCall[w.nPeers] {
				return nil, errors.New("model consensus: cannot retrieve the list of peers right now")
			}
			return append([]peer.ID{}, w.peers...), nil
		}
	}
	mon, err := pubsubmon.New(w.ctx, &pubsubmon.Config{CheckInterval: c.Interval, FailureThreshold: pubsubmon.DefaultFailureThreshold}, psub, pf)
	if err != nil {
		panic("harness: pubsubmon.New: " + err.Error())
	}
	w.mon = mon
	w.psub = psub
	mon.SetClient(nil) // starts the subscription reader and the Watch loop
	if v, ok := private(mon, "metrics"); ok {
		w.store, _ = v.Interface().(*metrics.Store)
	}
	if v, ok := private(mon, "checker"); ok {
		w.chk, _ = v.Interface().(*metrics.Checker)
	}
	synctest.Wait()
	return w
}

func (w *monWorld) arrive(m *api.Metric) {
	if w.cfg.Pubsub {
		// the wire form pubsubmon itself publishes (msgpack), published on the
		// monitor's topic through this host's own pubsub: it reaches the
		// monitor through its subscription like a message of any peer. Any
		// validity flag and expiry can arrive this way (PublishMetric's
		// refusal to send invalid metrics binds only well-behaved senders).
		var b bytes.Buffer
		if err := gocodec.NewEncoder(&b, &gocodec.MsgpackHandle{}).Encode(m); err != nil {
			panic("harness: encode: " + err.Error())
		}
		if err := w.psub.Publish(pubsubmon.PubsubTopic, b.Bytes()); err != nil {
			panic("harness: publish: " + err.Error())
		}
		synctest.Wait()
		return
	}
	if err := w.mon.LogMetric(w.ctx, m); err != nil {
		panic("harness: LogMetric: " + err.Error())
	}
}
func (w *monWorld) removePeer(peer.ID) {
	panic("harness: removePeer is not an event of the monitor world")
}
func (w *monWorld) check() { panic("harness: check is not an event of the monitor world") }
func (w *monWorld) setPeerset(ps []peer.ID) {
	w.mu.Lock()
	w.peers = ps
	w.mu.Unlock()
}
func (w *monWorld) settle() { synctest.Wait() }
func (w *monWorld) close() {
	w.mon.Shutdown(context.Background())
	w.cancel()
	synctest.Wait()
}
func (w *monWorld) latest(name string) []*api.Metric { return w.mon.LatestMetrics(w.ctx, name) }
func (w *monWorld) peerLatest(name string, p peer.ID) (*api.Metric, bool) {
	return nil, false // the monitor exposes no PeerLatest
}
func (w *monWorld) window(name string, p peer.ID) []*api.Metric {
	if w.store == nil {
		return nil
	}
	return w.store.PeerMetricAll(name, p)
}
func (w *monWorld) counter(name string, p peer.ID) int { return readCounter(w.chk, name, p) }
func (w *monWorld) alerts() <-chan *api.Alert          { return w.mon.Alerts() }
