package c09

// Part 2: publish cadence of a real Cluster peer under a fake clock.

import (
	"context"
	"errors"
	"fmt"
	"strings"
	"testing"
	"testing/synctest"
	"time"

	ipfscluster "github.com/ipfs/ipfs-cluster"
	"github.com/ipfs/ipfs-cluster/api"

	"verif/harness/lib/clus"
	"verif/harness/lib/ev"
)

type pubRec struct {
	Name   string
	At     time.Duration // since start of the run
	Expire time.Duration // expiry instant since start of the run
	Failed bool
}

func scriptFails(script string, k int) bool {
	if strings.HasPrefix(script, "mask:") {
		m := script[len("mask:"):]
		return k < len(m) && m[k] == '1'
	}
	switch script {
	case "first":
		return k == 0
	case "every-other(2nd,4th,..)":
		return k%2 == 1
	case "every-other(1st,3rd,..)":
		return k%2 == 0
	}
	return false
}

func TestCadence(t *testing.T) {
	only(t, "cadence")
	sec := R.Sec("publish-cadence")
	taus := []time.Duration{2 * time.Second, 30 * time.Second}
	pings := []time.Duration{time.Second, 15 * time.Second}
	scripts := []string{"never", "first", "every-other(2nd,4th,..)", "every-other(1st,3rd,..)"}
	// every pattern of publish errors over the first maskLen attempts of each
	// metric name (consecutive errors included), none afterwards
	maskLen := 5
	if ev.Thorough() {
		maskLen = 7
	}
	for m := 1; m < 1<<maskLen; m++ {
		b := []byte(strings.Repeat("0", maskLen))
		for k := 0; k < maskLen; k++ {
			if m&(1<<k) != 0 {
				b[k] = '1'
			}
		}
		scripts = append(scripts, "mask:"+string(b))
	}
	sec.Bounds["informer_ttl"] = []string{"2s", "30s"}
	sec.Bounds["monitor_ping_interval"] = []string{"1s", "15s"}
	sec.Bounds["publish_error_script(per metric name)"] = fmt.Sprintf("never, first, every other (two phases), and every error pattern over the first %d publish attempts (%d scripts)", maskLen, len(scripts))
	sec.Bounds["oracle"] = "after a success the next success comes strictly before its expiry when at most one attempt in between failed (the retry the code is built for); after a longer burst of errors the next attempt must still come within the retry interval (informer: TTL/4, ping: the ping interval) of the last failed one; the last success of the run must not have expired"
	sec.Bounds["fake_time_run"] = "max(10 x informer TTL, (mask length + 4) x ping interval)"
	for _, tau := range taus {
		for _, pi := range pings {
			for _, script := range scripts {
				var recs []pubRec
				var runFor time.Duration
				var crash interface{}
				synctest.Test(t, func(t *testing.T) {
					defer func() { crash = recover() }()
					ctx, cancel := context.WithCancel(context.Background())
					defer cancel()
					_, hosts := clus.NewMocknet(ctx, 0, 1)
					mon := clus.NewMon()
					counts := map[string]int{}
					var start time.Time
					mon.PublishErr = func(n int, m *api.Metric) error {
						k := counts[m.Name]
						counts[m.Name]++
						fail := scriptFails(script, k)
						recs = append(recs, pubRec{m.Name, time.Since(start), time.Unix(0, m.Expire).Sub(start), fail})
						if fail {
							return errors.New("scripted publish error")
						}
						return nil
					}
					start = time.Now()
					p, err := clus.NewPeer(ctx, &clus.PeerParts{Host: hosts[0], Monitor: mon,
						Informers: []ipfscluster.Informer{&clus.Inf{MetricName: "inf", TTL: tau}},
						Cfg:       func(c *ipfscluster.Config) { c.MonitorPingInterval = pi }})
					if err != nil {
						t.Fatal(err)
					}
					<-p.C.Ready()
					horizon := 10 * tau
					if h := time.Duration(maskLen+4) * pi; h > horizon {
						horizon = h // every scripted ping error and the recovery after it
					}
					time.Sleep(horizon)
					synctest.Wait()
					runFor = time.Since(start)
					mon.PublishErr = nil
					p.Stop()
					hosts[0].Close()
				})
				caseS := fmt.Sprintf("informerTTL=%s ping=%s errors=%s", tau, pi, script)
				if crash != nil {
					R.Violation("C09|cadence|panic|"+panicClass(crash), map[string]interface{}{"case": caseS, "panic": fmt.Sprint(crash)})
					continue
				}
				verdict := "held"
				for _, name := range []string{"inf", "ping"} {
					kind := "informer"
					if name == "ping" {
						kind = "ping"
					}
					var prev, lastErr *pubRec
					nOK, burst := 0, 0
					retry := tau / 4
					if name == "ping" {
						retry = pi
					}
					for i := range recs {
						r := &recs[i]
						if r.Name != name {
							continue
						}
						if lastErr != nil && r.At-lastErr.At > retry {
							verdict = "violated"
							R.Violation("C09|cadence|"+kind+"|errors="+script+"|retry-late", map[string]interface{}{
								"case": caseS, "metric": name, "failed_publish": fmt.Sprintf("t=+%s", lastErr.At), "next_attempt": fmt.Sprintf("t=+%s", r.At),
								"expected": "next attempt within " + retry.String() + " of the failed one", "publishes": recsOf(recs, name, 12)})
						}
						if r.Failed {
							lastErr = r
							burst++
							continue
						}
						lastErr = nil
						b := burst
						burst = 0
						nOK++
						if prev != nil && b <= 1 && r.At >= prev.Expire {
							how := "after-expiry"
							if r.At == prev.Expire {
								how = "at-expiry-instant"
							}
							verdict = "violated"
							R.Violation("C09|cadence|"+kind+"|errors="+script+"|republished-"+how, map[string]interface{}{
								"case": caseS, "metric": name, "previous_publish": fmt.Sprintf("t=+%s, expires t=+%s", prev.At, prev.Expire),
								"next_successful_publish": fmt.Sprintf("t=+%s", r.At), "expected": "next successful publish strictly before the previous one expires",
								"publishes": recsOf(recs, name, 12)})
						}
						prev = r
					}
					if nOK == 0 {
						if len(recsOf(recs, name, 1)) == 0 {
							R.Broken("cadence %s: no publish attempt of %s at all in %s", caseS, name, runFor)
						} else {
							// the scripted errors end after maskLen attempts and the run is
							// longer than that: the peer stopped trying
							verdict = "violated"
							R.Violation("C09|cadence|"+kind+"|errors="+script+"|never-published", map[string]interface{}{
								"case": caseS, "metric": name, "run_ended": runFor.String(), "publishes": recsOf(recs, name, 12)})
						}
					}
					if lastErr != nil && runFor-lastErr.At > retry {
						verdict = "violated"
						R.Violation("C09|cadence|"+kind+"|errors="+script+"|retry-missing", map[string]interface{}{
							"case": caseS, "metric": name, "failed_publish": fmt.Sprintf("t=+%s", lastErr.At), "run_ended": runFor.String(),
							"expected": "another attempt within " + retry.String(), "publishes": recsOf(recs, name, 12)})
					}
					if prev != nil && prev.Expire <= runFor {
						verdict = "violated"
						R.Violation("C09|cadence|"+kind+"|errors="+script+"|not-republished-before-expiry", map[string]interface{}{
							"case": caseS, "metric": name, "last_publish": fmt.Sprintf("t=+%s, expires t=+%s", prev.At, prev.Expire), "run_ended": runFor.String()})
					}
				}
				R.Eval(sec, caseS+" => "+verdict, true)
				R.Outcome(sec, verdict)
				if script == "first" && tau == 2*time.Second && pi == time.Second {
					R.SampleTagged("cadence", 1, map[string]interface{}{"case": caseS, "verdict": verdict, "inf": recsOf(recs, "inf", 6), "ping": recsOf(recs, "ping", 6)})
				}
			}
		}
	}
}

func recsOf(recs []pubRec, name string, max int) []string {
	var out []string
	for _, r := range recs {
		if r.Name != name {
			continue
		}
		s := fmt.Sprintf("t=+%s ttl=%s", r.At, r.Expire-r.At)
		if r.Failed {
			s += " PUBLISH-ERROR"
		}
		out = append(out, s)
		if len(out) == max {
			break
		}
	}
	return out
}
