package c09

// The explored sub-spaces. Each is exhaustive within its stated bounds (or
// says so when a wall cap cuts it short). The full alphabet (2 names x 3 peers)
// is explored to a smaller depth than the one-cell and two-cell alphabets,
// where the alert-once logic lives: state counts grow ~25x per level with the
// full alphabet and ~8x with one cell.

import (
	"os"
	"testing"
	"time"

	"verif/harness/lib/ev"
)

func only(t *testing.T, tag string) {
	if o := os.Getenv("C09_ONLY"); o != "" && o != tag {
		t.Skip()
	}
}

func tier(quick, thorough int) int {
	if d := envInt("C09_DEPTH", 0); d > 0 {
		return d
	}
	if ev.Thorough() {
		return thorough
	}
	return quick
}

func wallCap() time.Duration {
	if ev.Thorough() {
		return 12 * time.Minute
	}
	return 40 * time.Second
}

const monInterval = 3 * time.Second

var workers = envInt("C09_WORKERS", 4)

func TestStoreFull(t *testing.T) {
	only(t, "store")
	d := tier(3, 4)
	for _, known := range []bool{true, false} {
		cfg := wcfg{World: "store", Known: known, NPeers: 3, NNames: 2}
		explore(t, space{sec: "store+checker/full-alphabet/" + psName(known), cfg: cfg, bursts: true, depth: d, wallCap: wallCap(), chunk: 500, workers: workers,
			describe: "real metrics.Store + metrics.Checker; check = CheckPeers(peerset) when a peerset is known, CheckAll otherwise; LatestMetrics = LatestValid (+PeersetFilter)"})
	}
}

func TestStoreOneCell(t *testing.T) {
	only(t, "one")
	d := tier(5, 7)
	for _, known := range []bool{true, false} {
		cfg := wcfg{World: "store", Known: known, NPeers: 1, NNames: 1}
		explore(t, space{sec: "store+checker/one-cell/" + psName(known), cfg: cfg, bursts: true, depth: d, wallCap: wallCap(), chunk: 500, workers: workers,
			describe: "alphabet restricted to (ping, p): all validity x TTL arrivals, advances, removePeer, check, peerset in {{},{p}}, burst6, burst26"})
	}
}

func TestStoreTwoCells(t *testing.T) {
	only(t, "two")
	d := tier(4, 5)
	explore(t, space{sec: "store+checker/two-names-one-peer/peerset-known", cfg: wcfg{World: "store", Known: true, NPeers: 1, NNames: 2}, bursts: true,
		depth: d, wallCap: wallCap(), chunk: 500, workers: workers, describe: "alphabet restricted to (ping|n2, p): the checker's per-peer counter map is shared by both names"})
	explore(t, space{sec: "store+checker/one-name-two-peers/peerset-known", cfg: wcfg{World: "store", Known: true, NPeers: 2, NNames: 1}, bursts: true,
		depth: d, wallCap: wallCap(), chunk: 500, workers: workers, describe: "alphabet restricted to (ping, p|q): membership filter and one-per-peer over two peers"})
	explore(t, space{sec: "store+checker/one-name-two-peers/peerset-unknown", cfg: wcfg{World: "store", Known: false, NPeers: 2, NNames: 1}, bursts: true,
		depth: d, wallCap: wallCap(), chunk: 500, workers: workers, describe: "alphabet restricted to (ping, p|q), no peerset: CheckAll"})
}

func TestMonitor(t *testing.T) {
	only(t, "mon")
	desc := "real pubsubmon.Monitor on a mocknet host (go-libp2p-pubsub gossipsub), metrics enter through LogMetric, harness PeersFunc; no check event: the monitor's own Watch ticker (interval 3s) runs CheckPeers/CheckAll as the fake clock advances; observed every fake second"
	explore(t, space{sec: "monitor/full-alphabet/peerset-known", cfg: wcfg{World: "monitor", Known: true, Interval: monInterval, NPeers: 3, NNames: 2}, bursts: true,
		depth: tier(2, 3), wallCap: wallCap(), chunk: 100, workers: workers, describe: desc})
	for _, known := range []bool{true, false} {
		explore(t, space{sec: "monitor/one-cell/" + psName(known), cfg: wcfg{World: "monitor", Known: known, Interval: monInterval, NPeers: 1, NNames: 1}, bursts: true,
			depth: tier(4, 6), wallCap: wallCap(), chunk: 100, workers: workers, describe: desc + "; alphabet restricted to (ping, p)"})
	}
}

// TestMonitorViaPubsub: the same monitor spaces with every arrival delivered
// as a message on the metrics topic (decode path of the monitor).
func TestMonitorViaPubsub(t *testing.T) {
	only(t, "mon")
	desc := "real pubsubmon.Monitor on a mocknet host; every arrival is the msgpack wire form published on the 'monitor.metrics' topic and received through the monitor's own subscription; Watch ticker as in monitor/*"
	explore(t, space{sec: "monitor-via-pubsub/full-alphabet/peerset-known", cfg: wcfg{World: "monitor", Known: true, Interval: monInterval, NPeers: 3, NNames: 2, Pubsub: true}, bursts: true,
		depth: tier(2, 3), wallCap: wallCap(), chunk: 100, workers: workers, describe: desc})
	for _, known := range []bool{true, false} {
		explore(t, space{sec: "monitor-via-pubsub/one-cell/" + psName(known), cfg: wcfg{World: "monitor", Known: known, Interval: monInterval, NPeers: 1, NNames: 1, Pubsub: true}, bursts: true,
			depth: tier(4, 6), wallCap: wallCap(), chunk: 100, workers: workers, describe: desc + "; alphabet restricted to (ping, p)"})
	}
}

func psName(known bool) string {
	if known {
		return "peerset-known"
	}
	return "peerset-unknown"
}
