package c09

// C09 — Only fresh metrics from members are used; an expired peer alerts once.
//
// Part 1 (explore_test.go, model_test.go, worlds_test.go): explicit-state
// exploration over event histories (metric arrivals, clock advances, peer
// removals, peerset changes, failure checks, bursts) applied to
//   - the real metrics.Store + metrics.Checker (checks called directly), and
//   - a real pubsubmon.Monitor on a mocknet host (checks run by the monitor's
//     own Watch ticker as the fake clock advances),
// inside testing/synctest bubbles. A ~100 line reference (the last arrival per
// (name, peer) and the alerts attributed to it) gives the oracle, which is the
// property text.
//
// Part 2 (cadence_test.go): one real ipfscluster.Cluster with a recording
// monitor: every successful publish of a metric must happen before the
// previously published one expires.
//
// repro_test.go holds the minimal direct reproductions of the defects found.

import (
	"testing"

	logging "github.com/ipfs/go-log/v2"

	"verif/harness/lib/ev"
)

var R *ev.Run

func TestMain(m *testing.M) {
	logging.SetLogLevel("*", "fatal")
	R = ev.New("C09", "model_checking")
	R.Rule("a state is reached by an event history (arrive(name,peer,valid,ttl) | advance(1s|5s) | removePeer | peerset:=S | check | burst6 | burst26) replayed on fresh real objects under a fake clock; " +
		"every event of the alphabet is applied from every distinct reached state up to the depth bound; states are deduplicated on a canonical key " +
		"(per (name,peer): retained window as (valid, remaining life, age), checker alert counter, reference episode facts; peerset; tick phase), peers being interchangeable; " +
		"after every event the state oracle runs, and every execution ends with a drain (10 min of fake time + 3 checks) after which the exactly-once oracle runs. " +
		"distinct non-trivial = canonical state in which at least one metric is stored; cadence cases = (informer TTL, ping interval, publish error script)")
	R.Assume("testing/synctest fake clock: time only moves in advance events, so 'now' at every observation is exact")
	R.Assume("peer identities are interchangeable for the purposes of state deduplication (per-peer blocks are sorted in the canonical key); this affects coverage accounting only, never a verdict")
	R.Assume("a metric whose expiry instant equals now is neither required to be reported nor forbidden (boundary: the text says 'unexpired'/'expired', the oracle is silent at equality)")
	R.Assume("'reported once' is evaluated at quiescence: after the history the clock is advanced far beyond every TTL and three more failure checks run; the text does not bound how soon an expiry must be reported (the accrual detector may delay it)")
	ev.Main(m.Run, R)
}
