package c09

import (
	"context"
	"fmt"
	"testing"
	"testing/synctest"
	"time"

	"github.com/ipfs/ipfs-cluster/api"
	peer "github.com/libp2p/go-libp2p-core/peer"
)

// TestWatchPeersetErrors: the monitor's Watch loop asks the consensus
// component for the peerset in every round; that lookup can fail for a while
// (no leader, peer starting or stopping). For every window of failing rounds
// (first failing round k, m rounds long) and every position of the member's
// metric expiry relative to it: the expired member is reported exactly once,
// by the first round that works after the expiry; a member kept fresh is not
// reported at all.
func TestWatchPeersetErrors(t *testing.T) {
	only(t, "mon")
	sec := R.Sec("monitor/peerset-lookup-fails-for-some-rounds")
	const rounds = 8
	n := 0
	for k := 1; k <= 4; k++ {
		for m := 1; m <= 3; m++ {
			for _, expRound := range []int{0, k - 1, k, k + m - 1, k + m} { // the metric expires just after this round
				for _, fresh := range []bool{false, true} {
					if expRound < 0 {
						continue
					}
					var alerts []int // round index after which each alert was seen
					var crash interface{}
					synctest.Test(t, func(t *testing.T) {
						defer func() {
							if r := recover(); r != nil {
								crash = r
							}
						}()
						cfg := wcfg{World: "monitor", Known: true, Interval: monInterval, NPeers: 1, NNames: 1}
						env := newBubbleEnv(cfg)
						defer env.close()
						w := newMonWorld(cfg, env)
						defer w.close()
						w.failCall = map[int]bool{}
						for i := 0; i < m; i++ {
							w.failCall[k+i] = true
						}
						w.setPeerset([]peer.ID{pids[0]})
						ttl := time.Duration(expRound)*monInterval + monInterval/2
						mk := func(d time.Duration) *api.Metric {
							x := &api.Metric{Name: names[0], Peer: pids[0], Value: "1", Valid: true}
							x.SetTTL(d)
							return x
						}
						if fresh {
							ttl = time.Hour
						}
						if err := w.mon.LogMetric(context.Background(), mk(ttl)); err != nil {
							panic(err)
						}
						for r := 1; r <= rounds; r++ {
							time.Sleep(monInterval)
							synctest.Wait()
							for {
								select {
								case <-w.alerts():
									alerts = append(alerts, r)
									continue
								default:
								}
								break
							}
						}
					})
					n++
					// first round >= expRound+1 whose lookup works
					due := expRound + 1
					for due >= k && due < k+m {
						due++
					}
					outcome := fmt.Sprintf("alerts-after-rounds=%v", alerts)
					R.Eval(sec, fmt.Sprintf("fail-rounds=%d..%d|expires-after-round=%d|kept-fresh=%v|%s", k, k+m-1, expRound, fresh, outcome), true)
					key := ""
					switch {
					case crash != nil:
						key = "panic"
					case fresh && len(alerts) > 0:
						key = "alert-while-unexpired"
					case !fresh && len(alerts) == 0:
						key = "expired-member-never-reported"
					case !fresh && len(alerts) > 1:
						key = "expired-member-reported-more-than-once"
					case !fresh && alerts[0] > due+1:
						key = "expired-member-reported-late"
					}
					if key != "" {
						R.Violation("C09|Watch|peerset-lookup-fails|"+key, map[string]interface{}{
							"failing_rounds": fmt.Sprintf("%d..%d", k, k+m-1), "metric_expires_after_round": expRound, "kept_fresh": fresh,
							"alerts_seen_after_rounds": alerts, "first_working_round_after_expiry": due, "check_interval": monInterval.String(), "panic": fmt.Sprint(crash)})
					}
				}
			}
		}
	}
	sec.Bounds["cases"] = fmt.Sprintf("%d: first failing round 1..4 x 1..3 failing rounds x expiry before/at the start of/inside/at the end of/after the window x member kept fresh or not; %d rounds each", n, rounds)
}
