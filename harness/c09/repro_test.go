package c09

// Minimal direct reproductions, on the real metrics.Store / metrics.Checker,
// of the defects the exploration found. Each is a handful of calls under the
// fake clock and reports with the same key as the explorer.

import (
	"context"
	"fmt"
	"strconv"
	"testing"
	"testing/synctest"
	"time"

	"github.com/ipfs/ipfs-cluster/api"
	"github.com/ipfs/ipfs-cluster/monitor/metrics"
	peer "github.com/libp2p/go-libp2p-core/peer"
)

func mkMetric(name string, p peer.ID, valid bool, ttl time.Duration, v int) *api.Metric {
	m := &api.Metric{Name: name, Peer: p, Valid: valid, Value: strconv.Itoa(v)}
	m.SetTTL(ttl)
	return m
}

func drainAlerts(c *metrics.Checker) int {
	n := 0
	for {
		select {
		case <-c.Alerts():
			n++
			continue
		default:
		}
		return n
	}
}

// DESIGN §6 candidate: CheckPeers calls alert() once per STORED metric of the
// window, so one expired peer is alerted ceil(n/2) times by a single check.
func TestReproCheckPeersAlertsPerStoredMetric(t *testing.T) {
	only(t, "repro")
	sec := R.Sec("repro/CheckPeers-alerts-per-stored-metric")
	var series []int
	for n := 1; n <= 7; n++ {
		synctest.Test(t, func(t *testing.T) {
			st := metrics.NewStore()
			ch := metrics.NewChecker(context.Background(), st, 3.0)
			for i := 0; i < n; i++ {
				st.Add(mkMetric("ping", pids[0], true, 2*time.Second, i))
			}
			time.Sleep(3 * time.Second) // the latest metric expired 1s ago, no renewal
			ch.CheckPeers([]peer.ID{pids[0]})
			series = append(series, drainAlerts(ch))
		})
	}
	sec.Bounds["stored_metrics"] = "1..7"
	R.Note("repro_alerts_from_one_CheckPeers_for_1..7_stored_metrics", series)
	for i, a := range series {
		n := i + 1
		R.Eval(sec, fmt.Sprintf("stored=%d alerts=%d", n, a), true)
		if a != 1 {
			c := cell{n: n}
			sym := "alert-repeated"
			if a == 0 {
				sym = "alert-missing"
			}
			key := "C09|CheckPeers|" + sym + "|no-prior-alert|" + c.stored()
			if a == 0 {
				key += "|latest=valid"
			}
			R.Violation(key, map[string]interface{}{
				"repro":    fmt.Sprintf("Store.Add x%d (ping,p,valid,ttl 2s); sleep 3s; Checker.CheckPeers([p]) once", n),
				"expected": "1 alert", "observed": a, "alerts_for_1..7_stored": series})
		}
	}
}

// The checker's per-(peer,metric) counter is only cleared by the check AFTER
// the alert. A peer that comes back (new metric) between those two checks and
// fails again is forgotten silently: its second failure is never reported.
func TestReproRenewalBetweenAlertAndForget(t *testing.T) {
	only(t, "repro")
	sec := R.Sec("repro/renewal-between-alert-and-forget")
	var first, whileFresh, second int
	var forgotten bool
	synctest.Test(t, func(t *testing.T) {
		st := metrics.NewStore()
		ch := metrics.NewChecker(context.Background(), st, 3.0)
		st.Add(mkMetric("ping", pids[0], true, 2*time.Second, 1))
		time.Sleep(3 * time.Second)
		ch.CheckAll()
		first = drainAlerts(ch) // 1: first failure reported
		st.Add(mkMetric("ping", pids[0], true, 2*time.Second, 2))
		ch.CheckAll()
		whileFresh = drainAlerts(ch) // 0: peer is back
		time.Sleep(3 * time.Second)  // fails again
		for i := 0; i < 3; i++ {
			ch.CheckAll()
		}
		second = drainAlerts(ch)
		forgotten = st.PeerLatest("ping", pids[0]) == nil
	})
	R.Eval(sec, fmt.Sprintf("first=%d fresh=%d second=%d forgotten=%v", first, whileFresh, second, forgotten), true)
	if first == 1 && whileFresh == 0 && second != 1 {
		sym := "alert-missing"
		if second > 1 {
			sym = "alert-repeated"
		}
		R.Violation("C09|CheckAll|"+sym+"|prior-alert|stored=1|latest=valid", map[string]interface{}{
			"repro":    "Add(m1 ttl 2s); sleep 3s; CheckAll -> 1 alert; Add(m2 ttl 2s); CheckAll -> 0 alerts; sleep 3s; CheckAll x3",
			"expected": "1 alert for the second unrenewed expiry", "observed": second, "metric_forgotten_without_alert": forgotten})
	}
}

// CheckAll (used when the monitor has no peerset function) walks
// Store.AllMetrics(), which skips metrics with Valid=false: a peer whose latest
// metric is invalid and expired is never reported (CheckPeers reports it).
func TestReproCheckAllSkipsInvalid(t *testing.T) {
	only(t, "repro")
	sec := R.Sec("repro/CheckAll-skips-invalid-latest")
	var all, peers int
	synctest.Test(t, func(t *testing.T) {
		for _, mode := range []string{"all", "peers"} {
			st := metrics.NewStore()
			ch := metrics.NewChecker(context.Background(), st, 3.0)
			st.Add(mkMetric("ping", pids[0], false, 2*time.Second, 1))
			time.Sleep(3 * time.Second)
			for i := 0; i < 3; i++ {
				if mode == "all" {
					ch.CheckAll()
				} else {
					ch.CheckPeers([]peer.ID{pids[0]})
				}
			}
			if mode == "all" {
				all = drainAlerts(ch)
			} else {
				peers = drainAlerts(ch)
			}
		}
	})
	R.Eval(sec, fmt.Sprintf("CheckAll=%d CheckPeers=%d", all, peers), true)
	if all != 1 {
		R.Violation("C09|CheckAll|alert-missing|no-prior-alert|stored=1|latest=invalid", map[string]interface{}{
			"repro":    "Add(ping,p,valid=false,ttl 2s); sleep 3s; CheckAll x3",
			"expected": "1 alert", "observed": all, "same_history_with_CheckPeers": peers})
	}
}
