package c09

// Breadth-first exploration: every event of the alphabet is applied from every
// distinct reached state (replay of the shortest history on fresh objects plus
// one event), level by level up to the depth bound.

import (
	"encoding/hex"
	"fmt"
	"os"
	"strconv"
	"sync"
	"testing"
	"testing/synctest"
	"time"

	"verif/harness/lib/ev"
)

type node struct {
	hist []uint16
	dup  [3]int8
}

type space struct {
	sec      string
	cfg      wcfg
	bursts   bool
	depth    int
	wallCap  time.Duration
	chunk    int
	workers  int
	describe string
}

func envInt(k string, d int) int {
	if v, err := strconv.Atoi(os.Getenv(k)); err == nil {
		return v
	}
	return d
}

func explore(t *testing.T, sp space) {
	sec := R.Sec(sp.sec)
	alpha := alphabet(sp.cfg, sp.bursts)
	sec.Bounds["world"] = sp.cfg.String()
	sec.Bounds["max_history_length"] = sp.depth
	sec.Bounds["alphabet_events"] = len(alpha)
	sec.Bounds["names"] = names[:sp.cfg.NNames]
	sec.Bounds["peers"] = pnames[:sp.cfg.NPeers]
	sec.Bounds["valid"] = []bool{true, false}
	sec.Bounds["ttl"] = ttlStr
	sec.Bounds["advance"] = []string{"1s", "5s"}
	sec.Bounds["bursts"] = sp.bursts
	if sp.cfg.World == "monitor" {
		sec.Bounds["check_interval"] = sp.cfg.Interval.String()
	}
	sec.Bounds["note"] = sp.describe
	startWall := time.Now()
	seen := map[[16]byte]struct{}{}
	frontier := []node{{dup: [3]int8{-1, -1, -1}}}
	capped := false

	// root state
	var root result
	synctest.Test(t, func(t *testing.T) {
		env := newBubbleEnv(sp.cfg)
		defer env.close()
		root = run(sp.cfg, env, nil)
	})
	seen[root.key] = struct{}{}
	frontier[0].dup = root.dup
	R.States(sec, 1)
	report(sec, sp, nil, root, true)

	type task struct {
		parent int
		ev     uint16
	}
	perLevel := []int{1}
	for depth := 1; depth <= sp.depth && len(frontier) > 0 && !capped; depth++ {
		var tasks []task
		for pi, n := range frontier {
			for ei, e := range alpha {
				if (e.K == kArrive || e.K == kRemove || e.K == kBurst) && n.dup[e.Peer] >= 0 {
					continue // a peer with an identical block and lower index gets the same event: symmetric successor
				}
				tasks = append(tasks, task{pi, uint16(ei)})
			}
		}
		results := make([]result, len(tasks))
		done := make([]bool, len(tasks))
		var next int
		var mu sync.Mutex
		var wg sync.WaitGroup
		for w := 0; w < sp.workers; w++ {
			wg.Add(1)
			go func() {
				defer wg.Done()
				for {
					mu.Lock()
					lo := next
					if lo >= len(tasks) || time.Since(startWall) > sp.wallCap {
						mu.Unlock()
						return
					}
					hi := lo + sp.chunk
					if hi > len(tasks) {
						hi = len(tasks)
					}
					next = hi
					mu.Unlock()
					synctest.Test(t, func(t *testing.T) {
						env := newBubbleEnv(sp.cfg)
						defer env.close()
						for i := lo; i < hi; i++ {
							tk := tasks[i]
							results[i] = run(sp.cfg, env, histOf(alpha, frontier[tk.parent].hist, tk.ev))
							done[i] = true
						}
					})
				}
			}()
		}
		wg.Wait()
		var nextFrontier []node
		newStates := 0
		for i, tk := range tasks {
			if !done[i] {
				capped = true
				continue
			}
			res := results[i]
			R.Transitions(1)
			_, dupState := seen[res.key]
			if !dupState {
				seen[res.key] = struct{}{}
				newStates++
				h := append(append([]uint16{}, frontier[tk.parent].hist...), tk.ev)
				nextFrontier = append(nextFrontier, node{h, res.dup})
			}
			report(sec, sp, histOf(alpha, frontier[tk.parent].hist, tk.ev), res, !dupState)
		}
		R.States(sec, int64(newStates))
		perLevel = append(perLevel, newStates)
		frontier = nextFrontier
	}
	sec.Bounds["new_states_per_history_length"] = perLevel
	if capped {
		sec.Exhaustive = false
		sec.CapHit = fmt.Sprintf("wall cap %s reached; completed levels: %v", sp.wallCap, perLevel)
		R.NotExhaustive(sp.sec + ": " + sec.CapHit)
	}
	fmt.Printf("E2 %s: states per level %v, wall %.1fs capped=%v\n", sp.sec, perLevel, time.Since(startWall).Seconds(), capped)
}

func histOf(alpha []event, h []uint16, e uint16) []event {
	out := make([]event, 0, len(h)+1)
	for _, i := range h {
		out = append(out, alpha[i])
	}
	return append(out, alpha[e])
}

func report(sec *ev.Section, sp space, hist []event, res result, newState bool) {
	if newState {
		R.Eval(sec, hex.EncodeToString(res.key[:8]), res.nontrivial)
	} else {
		R.Eval(sec, "", false)
	}
	for _, o := range res.outcomes {
		R.Outcome(sec, o)
	}
	if len(res.vios) == 0 {
		R.Outcome(sec, "held")
		if newState && len(hist) >= 3 {
			R.SampleTagged(sp.sec, 2, map[string]interface{}{"history": histStrings(hist), "verdict": "held", "oracle_evaluations": res.evals})
		}
		return
	}
	R.Outcome(sec, "violated")
	for _, v := range res.vios {
		R.Violation(v.key, v.detail)
	}
}
