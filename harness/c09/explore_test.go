package c09

// Breadth-first exploration: every event of the alphabet is applied from every
// distinct reached state (replay of the shortest history on fresh objects plus
// one event), level by level up to the depth bound.

import (
	"encoding/hex"
	"fmt"
	"os"
	"strconv"
	"sync"
	"testing"
	"testing/synctest"
	"time"

	"verif/harness/lib/ev"
)

type node struct {
	hist []uint16
	dup  [3]int8
}

type space struct {
	sec      string
	cfg      wcfg
	bursts   bool
	depth    int
	wallCap  time.Duration
	chunk    int
	workers  int
	describe string
}

func envInt(k string, d int) int {
	if v, err := strconv.Atoi(os.Getenv(k)); err == nil {
		return v
	}
	return d
}

func explore(t *testing.T, sp space) {
	sec := R.Sec(sp.sec)
	alpha := alphabet(sp.cfg, sp.bursts)
	sec.Bounds["world"] = sp.cfg.String()
	sec.Bounds["max_history_length"] = sp.depth
	sec.Bounds["alphabet_events"] = len(alpha)
	sec.Bounds["names"] = names[:sp.cfg.NNames]
	sec.Bounds["peers"] = pnames[:sp.cfg.NPeers]
	sec.Bounds["valid"] = []bool{true, false}
	sec.Bounds["ttl"] = ttlStr
	sec.Bounds["advance"] = []string{"1s", "5s"}
	sec.Bounds["bursts"] = sp.bursts
	if sp.cfg.World == "monitor" {
		sec.Bounds["check_interval"] = sp.cfg.Interval.String()
	}
	sec.Bounds["note"] = sp.describe
	startWall := time.Now()
	seen := map[[16]byte]struct{}{}
	frontier := []node{{dup: [3]int8{-1, -1, -1}}}
	capped := false

	// root state
	var root result
	synctest.Test(t, func(t *testing.T) {
		env := newBubbleEnv(sp.cfg)
		defer env.close()
		root = run(sp.cfg, env, nil)
		// the canonical key reads two private structures (window contents, checker counters)
		w := newWorld(sp.cfg, env)
		if w.counter(names[0], pids[0]) < 0 {
			R.Note("state_key_degraded", "checker counters / monitor store not readable by reflection: states are merged on the reference facts and window contents only")
		}
		w.close()
	})
	seen[root.key] = struct{}{}
	frontier[0].dup = root.dup
	R.States(sec, 1)
	report(sec, sp, nil, root, true)

	type task struct {
		parent int
		ev     uint16
	}
	perLevel := []int{1}
	for depth := 1; depth <= sp.depth && len(frontier) > 0 && !capped; depth++ {
		var tasks []task
		for pi, n := range frontier {
			for ei, e := range alpha {
				if (e.K == kArrive || e.K == kRemove || e.K == kBurst) && n.dup[e.Peer] >= 0 {
					continue // a peer with an identical block and lower index gets the same event: symmetric successor
				}
				tasks = append(tasks, task{pi, uint16(ei)})
			}
		}
		var nextFrontier []node
		newStates := 0
		const batch = 200000
		for b0 := 0; b0 < len(tasks) && !capped; b0 += batch {
			b1 := b0 + batch
			if b1 > len(tasks) {
				b1 = len(tasks)
			}
			results := make([]result, b1-b0)
			done := make([]bool, b1-b0)
			next := b0
			var mu sync.Mutex
			var wg sync.WaitGroup
			for w := 0; w < sp.workers; w++ {
				wg.Add(1)
				go func() {
					defer wg.Done()
					for {
						mu.Lock()
						lo := next
						if lo >= b1 || time.Since(startWall) > sp.wallCap {
							mu.Unlock()
							return
						}
						hi := lo + sp.chunk
						if hi > b1 {
							hi = b1
						}
						next = hi
						mu.Unlock()
						// one bubble per chunk: executions run one after the other on the same fake clock
						synctest.Test(t, func(t *testing.T) {
							env := newBubbleEnv(sp.cfg)
							defer env.close()
							for i := lo; i < hi; i++ {
								tk := tasks[i]
								results[i-b0] = run(sp.cfg, env, histOf(alpha, frontier[tk.parent].hist, tk.ev))
								done[i-b0] = true
							}
						})
					}
				}()
			}
			wg.Wait()
			// merge in task order: deterministic choice of the representative history
			for i := b0; i < b1; i++ {
				if !done[i-b0] {
					capped = true
					continue
				}
				tk := tasks[i]
				res := results[i-b0]
				R.Transitions(1)
				_, dupState := seen[res.key]
				if !dupState {
					seen[res.key] = struct{}{}
					newStates++
					if depth < sp.depth {
						h := append(append([]uint16{}, frontier[tk.parent].hist...), tk.ev)
						nextFrontier = append(nextFrontier, node{h, res.dup})
					}
				}
				report(sec, sp, histOf(alpha, frontier[tk.parent].hist, tk.ev), res, !dupState)
			}
		}
		R.States(sec, int64(newStates))
		perLevel = append(perLevel, newStates)
		frontier = nextFrontier
	}
	sec.Bounds["new_states_per_history_length"] = perLevel
	if capped {
		sec.Exhaustive = false
		sec.CapHit = fmt.Sprintf("wall cap %s reached; completed levels: %v", sp.wallCap, perLevel)
		R.NotExhaustive(sp.sec + ": " + sec.CapHit)
	}
	fmt.Printf("E2 %s: states per level %v, wall %.1fs capped=%v\n", sp.sec, perLevel, time.Since(startWall).Seconds(), capped)
}

func histOf(alpha []event, h []uint16, e uint16) []event {
	out := make([]event, 0, len(h)+1)
	for _, i := range h {
		out = append(out, alpha[i])
	}
	return append(out, alpha[e])
}

func report(sec *ev.Section, sp space, hist []event, res result, newState bool) {
	if newState {
		R.Eval(sec, hex.EncodeToString(res.key[:8]), res.nontrivial)
	} else {
		R.Eval(sec, "", false)
	}
	for _, o := range res.outcomes {
		R.Outcome(sec, o)
	}
	if len(res.vios) == 0 {
		R.Outcome(sec, "held")
		if newState && len(hist) >= 3 {
			R.SampleTagged(sp.sec, 2, map[string]interface{}{"history": histStrings(hist), "verdict": "held", "oracle_evaluations": res.evals})
		}
		return
	}
	R.Outcome(sec, "violated")
	for _, v := range res.vios {
		R.Violation(v.key, v.detail)
	}
}
