package c13

// Minimal direct reproductions of the three findings of FINDINGS.md, written
// the way the repo's own adder tests are written (one in-process gorpc server
// with host == nil, no mocknet, none of this harness' machinery).
//
//   cd /verif/harness && C13_REPRO=1 GOFLAGS=-mod=mod GOPROXY=off GOSUMDB=off \
//     GOTOOLCHAIN=local go1.26 test -vet=off -count=1 -run TestRepro -v ./c13/
//
// They are skipped in normal check runs.

import (
	"context"
	"errors"
	"fmt"
	"os"
	"sync"
	"testing"

	files "github.com/ipfs/go-ipfs-files"
	"github.com/ipfs/ipfs-cluster/adder"
	"github.com/ipfs/ipfs-cluster/adder/sharding"
	"github.com/ipfs/ipfs-cluster/adder/single"
	"github.com/ipfs/ipfs-cluster/api"
	peer "github.com/libp2p/go-libp2p-core/peer"
	rpc "github.com/libp2p/go-libp2p-gorpc"
)

type reproRPC struct {
	mu       sync.Mutex
	puts     int
	failPut  int // ordinal of the BlockPut that fails (-1: none)
	blocks   map[string]int
	pins     []*api.Pin
	tooLarge int
}

func (r *reproRPC) BlockPut(ctx context.Context, in *api.NodeWithMeta, out *struct{}) error {
	r.mu.Lock()
	defer r.mu.Unlock()
	n := r.puts
	r.puts++
	if n == r.failPut {
		return errors.New("ipfs block/put failed")
	}
	r.blocks[in.Cid.String()] = len(in.Data)
	return nil
}
func (r *reproRPC) Pin(ctx context.Context, in *api.Pin, out *api.Pin) error {
	r.mu.Lock()
	defer r.mu.Unlock()
	cp := *in
	r.pins = append(r.pins, &cp)
	*out = *in
	return nil
}
func (r *reproRPC) BlockAllocate(ctx context.Context, in *api.Pin, out *[]peer.ID) error {
	*out = []peer.ID{"QmPeer"} // host == nil: every call is local anyway
	return nil
}

func reproClient(t *testing.T, failPut int) (*rpc.Client, *reproRPC) {
	r := &reproRPC{failPut: failPut, blocks: map[string]int{}}
	s := rpc.NewServer(nil, "repro")
	if err := s.RegisterName("Cluster", r); err != nil {
		t.Fatal(err)
	}
	if err := s.RegisterName("IPFSConnector", r); err != nil {
		t.Fatal(err)
	}
	return rpc.NewClientWithServer(nil, "repro", s), r
}

func oneFile(b []byte) files.Directory {
	return files.NewSliceDirectory([]files.DirEntry{files.FileEntry("f", files.NewBytesFile(b))})
}

// Finding 1: the first block of a 2-chunk file cannot be put anywhere, the add
// "succeeds" and the root is pinned.
func TestReproSwallowedFirstBlockError(t *testing.T) {
	if os.Getenv("C13_REPRO") == "" {
		t.Skip()
	}
	c, r := reproClient(t, 0)
	p := api.DefaultAddParams()
	p.Chunker = "size-16"
	p.ReplicationFactorMin, p.ReplicationFactorMax = 1, 1
	root, err := adder.New(single.New(c, p.PinOptions, false), p, nil).FromFiles(context.Background(), oneFile(gen(5, 17)))
	fmt.Printf("single: root=%s err=%v puts=%d stored=%d pins=%d\n", root, err, r.puts, len(r.blocks), len(r.pins))
	if err == nil && len(r.pins) == 1 && len(r.blocks) < r.puts {
		fmt.Println("REPRODUCED: BlockPut #0 failed on its only destination, FromFiles returned nil error and the root was pinned")
	}
}

// Finding 2: one shard with more than sharding.MaxLinks links is pinned with
// MaxDepth 1 although its DAG is root -> leaf shard nodes -> blocks.
func TestReproIndirectShardDepth(t *testing.T) {
	if os.Getenv("C13_REPRO") == "" {
		t.Skip()
	}
	c, r := reproClient(t, -1)
	p := api.DefaultAddParams()
	p.Chunker = "size-2"
	p.Shard = true
	p.ShardSize = 1 << 40
	p.ReplicationFactorMin, p.ReplicationFactorMax = 1, 1
	root, err := adder.New(sharding.New(c, p.PinOptions, nil), p, nil).FromFiles(context.Background(), oneFile(counter(6100)))
	fmt.Printf("sharded: root=%s err=%v blocks=%d\n", root, err, len(r.blocks))
	for _, pin := range r.pins {
		if pin.Type == api.ShardType {
			fmt.Printf("shard pin %s MaxDepth=%d (links in shard: %d > MaxLinks=%d => indirect shard DAG of depth 2)\n", pin.Cid, pin.MaxDepth, len(r.blocks)-4, sharding.MaxLinks)
			if pin.MaxDepth == 1 {
				fmt.Println("REPRODUCED: indirect shard DAG pinned with MaxDepth 1: the data blocks (depth 2) are not covered")
			}
		}
	}
}

// Finding 3: cid-version 0 (the API default) with a non sha2-256 hash panics.
func TestReproCidV0HashPanic(t *testing.T) {
	if os.Getenv("C13_REPRO") == "" {
		t.Skip()
	}
	defer func() {
		if r := recover(); r != nil {
			fmt.Println("REPRODUCED: FromFiles panicked:", r)
		}
	}()
	c, _ := reproClient(t, -1)
	p := api.DefaultAddParams() // CidVersion 0
	p.HashFun = "blake2b-256"
	root, err := adder.New(single.New(c, p.PinOptions, false), p, nil).FromFiles(context.Background(), oneFile(nil))
	fmt.Printf("root=%s err=%v (no panic)\n", root, err)
}
