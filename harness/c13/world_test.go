package c13

// The seam: a 3-peer in-process libp2p mocknet. Peer 0 runs the adder; its
// gorpc server carries the recording "Cluster" service (BlockAllocate, Pin)
// and a recording "IPFSConnector" (BlockPut); peers 1 and 2 carry a recording
// IPFSConnector each. The adder's *rpc.Client is the real gorpc client of
// peer 0, so BlockAdder's MultiCall reaches every destination's own service
// and every block put is attributed to the destination daemon it was sent to.
//
// Fault injection is by (destination, attempt ordinal on that destination):
//   - kind "ipfs": the destination's BlockPut returns an error (what a failed
//     `block/put` on the daemon looks like: a non-RPC error);
//   - kind "rpc": the destination's gorpc server refuses the call through its
//     authorization hook (an RPC-class error, what an unreachable or
//     misbehaving cluster peer looks like). Only possible for remote
//     destinations (local calls bypass authorization): for the local peer
//     the "ipfs" kind is used instead.

import (
	"context"
	"errors"
	"fmt"
	"sort"
	"sync"

	cid "github.com/ipfs/go-cid"
	"github.com/ipfs/ipfs-cluster/api"
	crypto "github.com/libp2p/go-libp2p-core/crypto"
	peer "github.com/libp2p/go-libp2p-core/peer"
	rpc "github.com/libp2p/go-libp2p-gorpc"
	mocknet "github.com/libp2p/go-libp2p/p2p/net/mock"
	ma "github.com/multiformats/go-multiaddr"
)

const nPeers = 3

const rpcProto = "/c13/rpc/1"

// fault describes one injected block-put failure.
type fault struct {
	At      map[int]int // peer index -> attempt ordinal on that peer
	Kind    string      // "ipfs" | "rpc"
	Persist bool        // fail every attempt from the ordinal on (else only that one)
}

func (f *fault) hits(p, i int) bool {
	if f == nil {
		return false
	}
	at, ok := f.At[p]
	if !ok {
		return false
	}
	return i == at || (f.Persist && i > at)
}

// batch is one BlockAdder.Add fan-out as seen in a fault-free run.
type batch struct {
	Cid   cid.Cid
	Peers []int
	Size  int
}

type pinRec struct {
	Pin *api.Pin
	Seq int // global event sequence number
}

// runRec is everything observed during one add.
type runRec struct {
	attempts  [nPeers]int
	cur       [nPeers]int
	failed    [nPeers]bool               // an injected failure hit this peer
	delivered [nPeers]map[cid.Cid][]byte // blocks stored by the peer's daemon
	attempted [nPeers]map[cid.Cid]bool   // blocks sent to the peer (stored or failed; rpc-denied calls carry no cid)
	sentTo    [nPeers]bool               // at least one BlockPut was addressed to the peer
	order     []cid.Cid                  // first-delivery order of distinct blocks
	sizes     map[cid.Cid]int            // raw size of each block
	batches   []batch                    // fan-outs (meaningful in fault-free runs)
	pins      []pinRec                   // Cluster.Pin calls, in order
	allocs    [][]int                    // answers of Cluster.BlockAllocate, in order
	allocOpts []api.PinOptions           // options BlockAllocate was asked with
	seq       int
	injected  int // number of failures actually injected

	fault    *fault
	rplMin   int
	rplMax   int
	rot      int
	allocErr bool
}

func newRunRec() *runRec {
	r := &runRec{sizes: map[cid.Cid]int{}}
	for i := 0; i < nPeers; i++ {
		r.delivered[i] = map[cid.Cid][]byte{}
		r.attempted[i] = map[cid.Cid]bool{}
	}
	return r
}

// union returns the union of the blocks delivered to all daemons.
func (r *runRec) union() map[cid.Cid][]byte {
	u := map[cid.Cid][]byte{}
	for i := 0; i < nPeers; i++ {
		for c, d := range r.delivered[i] {
			u[c] = d
		}
	}
	return u
}

type world struct {
	mu     sync.Mutex
	ids    []peer.ID
	idx    map[peer.ID]int
	client *rpc.Client
	mn     mocknet.Mocknet
	cancel context.CancelFunc
	run    *runRec

	confirmed map[string]bool // violation keys already re-executed 5x by this worker
}

type ipfsSvc struct {
	w *world
	p int
}

type clusterSvc struct{ w *world }

func newWorld() (*world, error) {
	ctx, cancel := context.WithCancel(context.Background())
	w := &world{idx: map[peer.ID]int{}, cancel: cancel}
	w.mn = mocknet.New(ctx)
	for i := 0; i < nPeers; i++ {
		// real keys (mocknet's GenPeer hands out bogus ones)
		priv, _, err := crypto.GenerateEd25519Key(nil)
		if err != nil {
			return nil, err
		}
		a, _ := ma.NewMultiaddr(fmt.Sprintf("/ip4/10.13.0.%d/tcp/9096", i+1))
		h, err := w.mn.AddPeer(priv, a)
		if err != nil {
			return nil, err
		}
		w.ids = append(w.ids, h.ID())
		w.idx[h.ID()] = i
		p := i
		srv := rpc.NewServer(h, rpcProto, rpc.WithAuthorizeFunc(func(pid peer.ID, svc, method string) bool {
			return w.authorize(p, svc, method)
		}))
		if err := srv.RegisterName("IPFSConnector", &ipfsSvc{w, p}); err != nil {
			return nil, err
		}
		if i == 0 {
			if err := srv.RegisterName("Cluster", &clusterSvc{w}); err != nil {
				return nil, err
			}
			w.client = rpc.NewClientWithServer(h, rpcProto, srv)
		}
	}
	if err := w.mn.LinkAll(); err != nil {
		return nil, err
	}
	if err := w.mn.ConnectAllButSelf(); err != nil {
		return nil, err
	}
	return w, nil
}

func (w *world) close() { w.cancel() }

// authorize runs for REMOTE calls only, before the argument is decoded.
func (w *world) authorize(p int, svc, method string) bool {
	if svc != "IPFSConnector" || method != "BlockPut" {
		return true
	}
	w.mu.Lock()
	defer w.mu.Unlock()
	r := w.run
	i := r.attempts[p]
	r.attempts[p]++
	r.cur[p] = i
	r.sentTo[p] = true
	if r.fault != nil && r.fault.Kind == "rpc" && r.fault.hits(p, i) {
		r.failed[p] = true
		r.injected++
		r.seq++
		return false
	}
	return true
}

var errInjected = errors.New("injected: ipfs block/put failed")

// BlockPut is the recording IPFSConnector.BlockPut of destination s.p.
func (s *ipfsSvc) BlockPut(ctx context.Context, in *api.NodeWithMeta, out *struct{}) error {
	w := s.w
	sender, _ := ctx.Value(rpc.ContextKeyRequestSender).(peer.ID)
	local := sender == w.ids[s.p]
	w.mu.Lock()
	defer w.mu.Unlock()
	r := w.run
	var i int
	if local {
		i = r.attempts[s.p]
		r.attempts[s.p]++
		r.sentTo[s.p] = true
	} else {
		i = r.cur[s.p]
	}
	r.seq++
	r.attempted[s.p][in.Cid] = true
	if r.fault.hits(s.p, i) && (r.fault.Kind == "ipfs" || local) {
		r.failed[s.p] = true
		r.injected++
		return errInjected
	}
	if _, ok := r.sizes[in.Cid]; !ok {
		r.sizes[in.Cid] = len(in.Data)
		r.order = append(r.order, in.Cid)
	}
	r.delivered[s.p][in.Cid] = in.Data
	// fan-out detection (adds are sequential; one fan-out is in flight at a time)
	nb := len(r.batches)
	newBatch := nb == 0 || !r.batches[nb-1].Cid.Equals(in.Cid)
	if !newBatch {
		for _, q := range r.batches[nb-1].Peers {
			if q == s.p {
				newBatch = true
			}
		}
	}
	if newBatch {
		r.batches = append(r.batches, batch{Cid: in.Cid, Size: len(in.Data)})
		nb++
	}
	b := &r.batches[nb-1]
	b.Peers = append(b.Peers, s.p)
	sort.Ints(b.Peers)
	return nil
}

// BlockAllocate answers with the scripted allocation for the requested
// replication factors, rotating through the peers on every call so that
// consecutive shards get different destinations.
func (s *clusterSvc) BlockAllocate(ctx context.Context, in *api.Pin, out *[]peer.ID) error {
	w := s.w
	w.mu.Lock()
	defer w.mu.Unlock()
	r := w.run
	r.seq++
	n := len(r.allocs)
	var a []int
	switch {
	case in.ReplicationFactorMin < 0:
		a = []int{0, 1, 2}
	default:
		k := in.ReplicationFactorMax
		if k == 0 {
			k = 2 // factor 0 = "the cluster's configured default" (here 2)
		}
		if k > nPeers {
			k = nPeers
		}
		for j := 0; j < k; j++ {
			a = append(a, (r.rot+n+j)%nPeers)
		}
	}
	r.allocs = append(r.allocs, a)
	r.allocOpts = append(r.allocOpts, in.PinOptions)
	ids := make([]peer.ID, len(a))
	for j, p := range a {
		ids[j] = w.ids[p]
	}
	*out = ids
	return nil
}

// Pin is the recording Cluster.Pin.
func (s *clusterSvc) Pin(ctx context.Context, in *api.Pin, out *api.Pin) error {
	w := s.w
	w.mu.Lock()
	defer w.mu.Unlock()
	r := w.run
	r.seq++
	cp := *in
	cp.Allocations = append([]peer.ID(nil), in.Allocations...)
	cp.UserAllocations = append([]peer.ID(nil), in.UserAllocations...)
	if in.Metadata != nil {
		cp.Metadata = map[string]string{}
		for k, v := range in.Metadata {
			cp.Metadata[k] = v
		}
	}
	if in.Reference != nil {
		c := *in.Reference
		cp.Reference = &c
	}
	r.pins = append(r.pins, pinRec{Pin: &cp, Seq: r.seq})
	*out = *in
	return nil
}

func (w *world) peerIdxs(ids []peer.ID) ([]int, bool) {
	var out []int
	ok := true
	for _, id := range ids {
		i, known := w.idx[id]
		if !known {
			ok = false
			continue
		}
		out = append(out, i)
	}
	sort.Ints(out)
	return out, ok
}
