package c13

// The bounded file-tree grammar, the parameter alphabets and the covering
// array generator.

import (
	"fmt"
	"sort"
)

// gen gives deterministic, position-dependent bytes: every 2-byte and larger
// aligned chunk is distinct with overwhelming probability (xorshift32).
func gen(seed uint32, n int) []byte {
	b := make([]byte, n)
	x := seed*2654435761 + 0x9e3779b9
	if x == 0 {
		x = 1
	}
	for i := range b {
		x ^= x << 13
		x ^= x >> 17
		x ^= x << 5
		b[i] = byte(x >> 11)
	}
	return b
}

// counter gives n big-endian uint16 counters: with a size-2 chunker every
// chunk is distinct (up to 65536 chunks).
func counter(n int) []byte {
	b := make([]byte, 2*n)
	for i := 0; i < n; i++ {
		b[2*i] = byte(i >> 8)
		b[2*i+1] = byte(i)
	}
	return b
}

func file(name string, seed uint32, n int) *tnode {
	return &tnode{Name: name, Data: gen(seed, n)}
}
func zeros(name string, n int) *tnode { return &tnode{Name: name, Data: make([]byte, n)} }
func dir(name string, kids ...*tnode) *tnode {
	sort.Slice(kids, func(i, j int) bool { return kids[i].Name < kids[j].Name })
	return &tnode{Name: name, Dir: true, Kids: kids}
}

type treeCase struct {
	Name     string
	Top      []*tnode
	WrapOnly bool   // several top-level entries: only meaningful with wrap
	Gen      string // how to rebuild it: "grammar:<chunker spec>" | "counter:<n>" | "" (not replayable)
}

func (t *treeCase) describe() interface{} {
	var l []interface{}
	for _, n := range t.Top {
		l = append(l, n.describe())
	}
	return l
}

type chunkerSpec struct {
	Spec string
	C    int  // nominal chunk size (boundary the sizes are placed around)
	Max  int  // maximum chunk size (to force a second level: 174*Max+1 bytes)
	Lite bool // huge chunks: only a reduced tree list
}

var chunkers = []chunkerSpec{
	{Spec: "size-16", C: 16, Max: 16},
	{Spec: "size-256", C: 256, Max: 256},
	{Spec: "rabin-16-32-64", C: 32, Max: 64},
	{Spec: "", C: 262144, Max: 262144, Lite: true}, // the default chunker
}

// treesFor instantiates the grammar for a chunker.
func treesFor(ch chunkerSpec) []*treeCase {
	ts := treesFor0(ch)
	for _, t := range ts {
		t.Gen = "grammar:" + ch.Spec
	}
	return ts
}

func treesFor0(ch chunkerSpec) []*treeCase {
	C := ch.C
	one := func(name string, n *tnode) *treeCase { return &treeCase{Name: name, Top: []*tnode{n}} }
	if ch.Lite {
		return []*treeCase{
			one("file:0", file("f", 1, 0)),
			one("file:1", file("f", 2, 1)),
			one("file:C+1", file("f", 3, C+1)),
			one("dir:3files", dir("d", file("a", 4, 10), file("b", 5, 0), file("c", 6, 300))),
			{Name: "top:2files(wrap)", Top: []*tnode{file("a", 7, 5), file("b", 8, 1)}, WrapOnly: true},
		}
	}
	var many []*tnode
	for i := 0; i < 20; i++ {
		many = append(many, file(fmt.Sprintf("f%02d", i), uint32(100+i), i*3))
	}
	return []*treeCase{
		one("file:0", file("f", 1, 0)),
		one("file:1", file("f", 2, 1)),
		one("file:C-1", file("f", 3, C-1)),
		one("file:C", file("f", 4, C)),
		one("file:C+1", file("f", 5, C+1)),
		one("file:2C", file("f", 6, 2*C)),
		one("file:174*Cmax+1", file("f", 7, 174*ch.Max+1)),
		one("file:zeros:4C", zeros("f", 4*C)),
		one("dir:0files", dir("d")),
		one("dir:1file", dir("d", file("a", 8, C+1))),
		one("dir:3files", dir("d", file("a", 9, C+1), file("b", 10, 0), file("c", 11, 2*C))),
		one("dir:nested", dir("d",
			file("x", 12, 1),
			dir("empty"),
			dir("sub", file("y", 13, C), file("z", 14, C-1),
				dir("deep", file("w", 15, C+1))))),
		one("dir:20small", dir("d", many...)),
		one("dir:duplicates", dir("d", zeros("z1", 3*C), zeros("z2", 3*C), file("r1", 16, C), file("r2", 16, C))),
		{Name: "top:2files(wrap)", Top: []*tnode{file("a", 17, C+1), file("b", 18, 1)}, WrapOnly: true},
	}
}

// variant = everything that does not change the DAG.
type variant struct {
	Shard  string // "" (single) | "1blk" | "3blk" | "huge" | "sum2" | "toosmall"
	Local  bool
	RplMin int
	RplMax int
	Rot    int
	Opts   int // 0 plain, 1 rich options
}

func (v variant) mode() string {
	if v.Shard != "" {
		return "sharded"
	}
	return "single"
}

func (v variant) String() string {
	return fmt.Sprintf("shard=%q local=%v rpl=%d/%d rot=%d opts=%d", v.Shard, v.Local, v.RplMin, v.RplMax, v.Rot, v.Opts)
}

// dimension alphabets (index -> value)
var (
	dimLayout = []bool{false, true}
	dimBool   = []bool{false, true}
	dimCidV   = []int{0, 1}
	dimHash   = []string{"sha2-256", "blake2b-256"}
	dimMode   = []struct {
		Shard string
		Local bool
	}{{"", false}, {"", true}, {"1blk", false}, {"3blk", false}, {"huge", false}, {"sum2", false}, {"toosmall", false}}
	dimRpl = [][2]int{{-1, -1}, {1, 2}, {1, 1}, {2, 3}}
	dimRot = []int{0, 1, 2}
	dimOpt = []int{0, 1}
)

// levels of the parameter dimensions, in the order used by rowToCase.
func paramLevels() []int {
	return []int{len(chunkers), len(dimLayout), len(dimBool), len(dimCidV), len(dimHash), len(dimBool),
		len(dimMode), len(dimRpl), len(dimRot), len(dimOpt)}
}

var dimNames = []string{"chunker", "layout", "raw-leaves", "cid-version", "hash", "wrap", "mode/shard-size", "replication", "alloc-rotation", "options"}

func rowToCase(row []int) (chunkerSpec, coreParams, variant) {
	ch := chunkers[row[0]]
	c := coreParams{Chunker: ch.Spec, Trickle: dimLayout[row[1]], RawLeaves: dimBool[row[2]], CidV: dimCidV[row[3]],
		Hash: dimHash[row[4]], Wrap: dimBool[row[5]]}
	m := dimMode[row[6]]
	v := variant{Shard: m.Shard, Local: m.Local, RplMin: dimRpl[row[7]][0], RplMax: dimRpl[row[7]][1], Rot: dimRot[row[8]], Opts: dimOpt[row[9]]}
	return ch, c, v
}

// fullProduct enumerates every row.
func fullProduct(levels []int) [][]int {
	n := 1
	for _, l := range levels {
		n *= l
	}
	rows := make([][]int, 0, n)
	row := make([]int, len(levels))
	var rec func(d int)
	rec = func(d int) {
		if d == len(levels) {
			rows = append(rows, append([]int(nil), row...))
			return
		}
		for v := 0; v < levels[d]; v++ {
			row[d] = v
			rec(d + 1)
		}
	}
	rec(0)
	return rows
}

// covering returns a deterministic strength-t covering array over the levels:
// every combination of values of every t dimensions appears in some row
// (greedy selection from the full product).
func covering(levels []int, t int) [][]int {
	nd := len(levels)
	// all t-subsets of dimensions
	var subsets [][]int
	var sub func(start int, cur []int)
	sub = func(start int, cur []int) {
		if len(cur) == t {
			subsets = append(subsets, append([]int(nil), cur...))
			return
		}
		for d := start; d < nd; d++ {
			sub(d+1, append(cur, d))
		}
	}
	sub(0, nil)
	offs := make([]int, len(subsets)+1)
	for i, s := range subsets {
		n := 1
		for _, d := range s {
			n *= levels[d]
		}
		offs[i+1] = offs[i] + n
	}
	covered := make([]bool, offs[len(subsets)])
	remaining := len(covered)
	idx := func(si int, row []int) int {
		k := 0
		for _, d := range subsets[si] {
			k = k*levels[d] + row[d]
		}
		return offs[si] + k
	}
	cands := fullProduct(levels)
	var out [][]int
	for remaining > 0 {
		best, bestN := -1, 0
		for ci, row := range cands {
			n := 0
			for si := range subsets {
				if !covered[idx(si, row)] {
					n++
				}
			}
			if n > bestN {
				best, bestN = ci, n
				if n == len(subsets) {
					break
				}
			}
		}
		row := cands[best]
		for si := range subsets {
			k := idx(si, row)
			if !covered[k] {
				covered[k] = true
				remaining--
			}
		}
		out = append(out, row)
	}
	return out
}

// permuteRow relabels levels per tree so that different trees meet different
// concrete combinations while each tree still sees a full covering array.
func permuteRow(row []int, levels []int, shift int) []int {
	out := make([]int, len(row))
	for d, v := range row {
		out[d] = (v + shift*(d+1)) % levels[d]
	}
	return out
}

func counterTree(n int) *treeCase {
	return &treeCase{Name: fmt.Sprintf("file:%d distinct 2-byte chunks", n), Top: []*tnode{{Name: "f", Data: counter(n)}}, Gen: fmt.Sprintf("counter:%d", n)}
}

// rebuildTree is the inverse of treeCase.Gen + Name (for --replay).
func rebuildTree(gen, name string) *treeCase {
	var n int
	if _, err := fmt.Sscanf(gen, "counter:%d", &n); err == nil {
		return counterTree(n)
	}
	if len(gen) >= 8 && gen[:8] == "grammar:" {
		for _, ch := range chunkers {
			if ch.Spec == gen[8:] {
				for _, t := range treesFor(ch) {
					if t.Name == name {
						return t
					}
				}
			}
		}
	}
	return nil
}
