package c13

import (
	"bytes"
	"context"
	"fmt"
	"io"
	"mime/multipart"
	"testing"

	files "github.com/ipfs/go-ipfs-files"
	"github.com/ipfs/ipfs-cluster/adder"
	"github.com/ipfs/ipfs-cluster/adder/sharding"
	"github.com/ipfs/ipfs-cluster/adder/single"
	"github.com/ipfs/ipfs-cluster/api"
)

// addBody runs the adder over a raw multipart body (what the REST /add
// handler and the proxy hand to it).
func (w *world) addBody(body []byte, boundary string, p *api.AddParams, v variant) (res *result) {
	rec := newRunRec()
	rec.rot = v.Rot
	w.mu.Lock()
	w.run = rec
	w.mu.Unlock()
	res = &result{rec: rec, req: p.PinOptions}
	defer func() {
		if r := recover(); r != nil {
			res.panicked = fmt.Sprint(r)
		}
	}()
	var dgs adder.ClusterDAGService
	if p.Shard {
		dgs = sharding.New(w.client, p.PinOptions, nil)
	} else {
		dgs = single.New(w.client, p.PinOptions, p.Local)
	}
	a := adder.New(dgs, p, nil)
	r := multipart.NewReader(bytes.NewReader(body), boundary)
	res.root, res.err = a.FromMultipart(context.Background(), r)
	return res
}

// streamError walks a multipart body with go-ipfs-files alone (every entry of
// every directory, every file read to its end) and tells whether that layer
// reports the stream as broken at the level the adder looks at: the directory
// iterators. (mime/multipart reports an end of input inside a part's header
// block as a plain end of the stream: such a body is, to every reader, a
// complete upload of fewer files, and a short file read is taken by
// go-ipfs-chunker for a short last chunk; neither is the adder's to notice.)
func streamError(body []byte, boundary string) bool {
	d, err := files.NewFileFromPartReader(multipart.NewReader(bytes.NewReader(body), boundary), "multipart/form-data")
	if err != nil {
		return true
	}
	var walk func(dir files.Directory) bool
	walk = func(dir files.Directory) bool {
		it := dir.Entries()
		for it.Next() {
			switch n := it.Node().(type) {
			case files.Directory:
				if walk(n) {
					return true
				}
			case files.File:
				io.Copy(io.Discard, n)
			}
		}
		return it.Err() != nil
	}
	return walk(d)
}

// TestTruncatedUpload: the upload stream ends early. For every prefix of the
// multipart body of a few small trees: either the add fails and the root is
// not pinned, or it succeeds with the root of the whole input (a prefix long
// enough to hold everything), or - where the multipart layer itself presents
// the prefix as a complete, shorter upload - whatever it is. Judged: a stream
// the files layer reports as broken must make the add fail, root not pinned.
func TestTruncatedUpload(t *testing.T) {
	if replayMode() {
		t.Skip()
	}
	sec := R.Sec("truncated-upload")
	w, err := newWorld()
	if err != nil {
		t.Fatal(err)
	}
	defer w.close()
	ch := chunkers[0]
	C := ch.C
	one := func(name string, n *tnode) *treeCase { return &treeCase{Name: name, Top: []*tnode{n}} }
	trs := []*treeCase{
		one("file:C+1", file("f", 41, C+1)),
		one("file:3C", file("f", 42, 3*C)),
		one("dir:2files", dir("d", file("a", 43, C+1), file("b", 44, 2*C))),
		{Name: "top:2files(wrap)", Top: []*tnode{file("a", 45, C+1), file("b", 46, 2*C)}, WrapOnly: true},
		{Name: "top:file+dir(wrap)", Top: []*tnode{file("a", 47, C+1), dir("d", file("b", 48, 2*C))}, WrapOnly: true},
	}
	n, cuts := 0, 0
	for _, tr := range trs {
		for _, wrap := range []bool{false, true} {
			if tr.WrapOnly && !wrap {
				continue
			}
			core := coreParams{Chunker: ch.Spec, Hash: "sha2-256", Wrap: wrap}
			for _, v := range []variant{{RplMin: 1, RplMax: 2}, {Shard: "huge", RplMin: 1, RplMax: 2}} {
				params := w.buildParams(core, v, 1<<40)
				mfr := files.NewMultiFileReader(toFilesTop(tr.Top), true)
				body, err := io.ReadAll(mfr)
				if err != nil {
					t.Fatal(err)
				}
				full := w.addBody(body, mfr.Boundary(), params, v)
				if full.err != nil || full.panicked != nil {
					R.Broken("truncated-upload: the complete body of %s does not add: %v %s", tr.Name, full.err, full.panicked)
					return
				}
				n++
				for cut := 0; cut < len(body); cut++ {
					res := w.addBody(body[:cut], mfr.Boundary(), params, v)
					cuts++
					broken := streamError(body[:cut], mfr.Boundary())
					rootPinned := false
					for _, pr := range res.rec.pins {
						if pr.Pin.Type == api.DataType || pr.Pin.Type == api.MetaType {
							rootPinned = true
						}
					}
					outcome := "refused"
					key := ""
					switch {
					case res.panicked != nil:
						outcome, key = "panic", "panic"
					case res.err == nil && res.root == full.root:
						outcome = "complete-anyway"
					case res.err == nil && broken:
						outcome, key = "success-with-another-root", "broken-stream-added-as-if-complete"
					case res.err == nil:
						outcome = "looks-like-a-shorter-upload(end-of-input-in-a-part-header)"
					case rootPinned:
						outcome, key = "failure-but-root-pinned", "failure-but-root-pinned"
					}
					R.Eval(sec, fmt.Sprintf("%s|wrap=%v|%s|cut=%d|%s", tr.Name, wrap, v.mode(), cut, outcome), true)
					R.Outcome(sec, v.mode()+":"+outcome)
					if key != "" {
						R.Violation(fmt.Sprintf("C13|truncated-upload|%s|wrap=%v|%s|%s", v.mode(), wrap, tr.Name, key), map[string]interface{}{
							"tree": tr.describe(), "wrap": wrap, "mode": v.mode(), "body_bytes": len(body), "cut_after_bytes": cut,
							"error": fmt.Sprint(res.err), "root": res.root.String(), "root_of_the_whole_input": full.root.String(),
							"pins_recorded": len(res.rec.pins), "panic": fmt.Sprint(res.panicked)})
					}
				}
			}
		}
	}
	sec.Bounds["adds"] = fmt.Sprintf("%d bodies (5 trees x wrap x {single, sharded}), every proper prefix of each: %d truncated adds", n, cuts)
}
