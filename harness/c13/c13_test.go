package c13

import (
	"crypto/sha256"
	"encoding/json"
	"fmt"
	"os"
	"path/filepath"
	"sort"
	"strings"
	"sync"
	"testing"

	cid "github.com/ipfs/go-cid"
	files "github.com/ipfs/go-ipfs-files"
	logging "github.com/ipfs/go-log/v2"
	mh "github.com/multiformats/go-multihash"

	"verif/harness/lib/ev"
)

var R *ev.Run

const workers = 4

func TestMain(m *testing.M) {
	logging.SetAllLoggers(logging.LevelFatal)
	R = ev.New("C13", "fault_enumeration")
	if replayMode() {
		// a --replay run must not overwrite the evidence of the real run:
		// known findings were loaded above, artefacts of the replay go to scratch
		if d := os.Getenv("VERIF_SCRATCH"); d != "" {
			ev.Root = d
		} else {
			ev.Root = os.TempDir()
		}
	}
	R.Rule("every case is one run of the real adder.Adder (real single/sharding DAG service, real BlockAdder over the real gorpc client on a 3-peer mocknet) " +
		"for a tuple (file tree from the bounded grammar, chunker, layout, raw-leaves, cid-version, hash, wrap, single|local|shard+shard-size, replication, allocation rotation, pin options, block-put fault); " +
		"the full oracle of the property text is evaluated on every run. A case is distinct by that tuple plus its outcome class; it is non-trivial when at least 2 distinct blocks were put or a fault was injected.")
	R.Assume("the upstream libraries go-ipfs-chunker, go-unixfs (importer/balanced, importer/trickle, io), go-mfs and go-merkledag ARE the standard IPFS importer (the reference is assembled from them, cross-checked against three well-known go-ipfs CIDs and an independent sha256 computation)")
	R.Assume("a destination daemon is modelled by a recording IPFSConnector.BlockPut that stores what it is given; the allocator and the pinset by recording Cluster.BlockAllocate / Cluster.Pin services")
	R.Assume("'the allocations the blocks were sent to' is read as: the set of peers that BlockPut calls for the content were addressed to; for replication factor -1 an empty allocation list (= every peer) is accepted; for local adds (blocks go to the local daemon only) the text does not fix the allocations and only 'allocations come from the allocator' is required")
	R.Assume("block-put faults are deterministic per (destination, ordinal): kind 'ipfs' = the daemon's BlockPut returns an error, kind 'rpc' = the destination's gorpc server refuses the call; one fault position per run, transient or persistent from that position on")
	ev.Main(m.Run, R)
}

// ---- work distribution -----------------------------------------------------------

type caseOut struct {
	sig        string
	nontrivial bool
	outcome    string
	vios       []vio
	sample     interface{}
	flaky      string
}

type group struct {
	Tree   *treeCase
	Core   coreParams
	Vars   []variant
	Faults int  // 0: none; else K (fault positions 0..K-1 plus the last 3)
	Via    bool // go through FromMultipart
	NoBase bool // do not count the baseline run as a case (it is counted in another group)
}

func emit(sec *ev.Section, outs [][]caseOut) {
	for _, g := range outs {
		for _, o := range g {
			R.Eval(sec, o.sig, o.nontrivial)
			R.Outcome(sec, o.outcome)
			if o.flaky != "" {
				R.Broken("FLAKY-INTERNAL: %s", o.flaky)
				continue
			}
			for _, v := range o.vios {
				R.Violation(v.Key, v.Detail)
			}
			if o.sample != nil {
				R.SampleTagged(sec.Name, 3, o.sample)
			}
		}
	}
}

func runGroups(t *testing.T, groups []*group) [][]caseOut {
	outs := make([][]caseOut, len(groups))
	var wg sync.WaitGroup
	next := 0
	var mu sync.Mutex
	errs := make(chan error, workers)
	for wk := 0; wk < workers; wk++ {
		wg.Add(1)
		go func() {
			defer wg.Done()
			w, err := newWorld()
			if err != nil {
				errs <- err
				return
			}
			defer w.close()
			for {
				mu.Lock()
				i := next
				next++
				mu.Unlock()
				if i >= len(groups) {
					return
				}
				outs[i] = w.runGroup(groups[i])
			}
		}()
	}
	wg.Wait()
	select {
	case err := <-errs:
		t.Fatal(err)
	default:
	}
	return outs
}

func shardSizeFor(kind string, base *runRec) (uint64, int) {
	max := 0
	for _, s := range base.sizes {
		if s > max {
			max = s
		}
	}
	if max == 0 {
		max = 1
	}
	switch kind {
	case "1blk":
		return uint64(max + 1), max
	case "3blk":
		return uint64(3*max + 1), max
	case "huge":
		return 1 << 40, max
	case "toosmall":
		return uint64(max), max
	case "sum2":
		if len(base.order) >= 2 {
			s := base.sizes[base.order[0]] + base.sizes[base.order[1]]
			if s > max {
				return uint64(s), max
			}
		}
		return uint64(2 * max), max
	}
	return 0, max
}

type fspec struct {
	f    *fault
	cls  string
	desc string
}

// faultsFor lists the faults for a fault-free trace: block-put failure at
// fan-out k on one destination (first / last of the fan-out) or on all of them.
func faultsFor(trace []batch, K int) []fspec {
	var out []fspec
	counts := [nPeers]int{}
	n := len(trace)
	for k, b := range trace {
		at := counts // per-peer ordinal of this fan-out
		for _, p := range b.Peers {
			counts[p]++
		}
		if !(k < K || k >= n-3) {
			continue
		}
		ones := []int{b.Peers[0]}
		if len(b.Peers) > 1 {
			ones = append(ones, b.Peers[len(b.Peers)-1])
		}
		remote := false
		for _, p := range b.Peers {
			if p != 0 {
				remote = true
			}
		}
		for _, kind := range []string{"ipfs", "rpc"} {
			if len(b.Peers) > 1 {
				for oi, q := range ones {
					if kind == "rpc" && q == 0 {
						continue
					}
					which := "first-dest"
					if oi == 1 {
						which = "last-dest"
					}
					for _, persist := range []bool{false, true} {
						m := "once"
						if persist {
							m = "persist"
						}
						out = append(out, fspec{
							f:    &fault{At: map[int]int{q: at[q]}, Kind: kind, Persist: persist},
							cls:  kind + "/one/" + m,
							desc: fmt.Sprintf("%s/one(%s=peer%d)/%s@block%d", kind, which, q, m, k),
						})
					}
				}
			}
			if kind == "rpc" && !remote {
				continue
			}
			all := map[int]int{}
			for _, p := range b.Peers {
				all[p] = at[p]
			}
			out = append(out, fspec{
				f:    &fault{At: all, Kind: kind},
				cls:  kind + "/all/once",
				desc: fmt.Sprintf("%s/all%v/once@block%d", kind, b.Peers, k),
			})
		}
	}
	return out
}

func (w *world) runGroup(g *group) []caseOut {
	var outs []caseOut
	refRoot, _, spine, refErr := refImport(g.Tree.Top, g.Core)
	altRoot := cid.Undef
	if refErr != nil && g.Core.CidV == 0 {
		alt := g.Core
		alt.CidV = -1 // "unset" for go-ipfs
		if r, _, sp, err := refImport(g.Tree.Top, alt); err == nil {
			altRoot, spine = r, sp
		}
	}
	via := ""
	if g.Via {
		via = "multipart"
	}
	one := func(v variant, shardSize uint64, maxBlock int, baseRoot cid.Cid, fs *fspec) *result {
		ci := &caseInfo{Tree: g.Tree, Core: g.Core, V: v, ShardSize: shardSize, MaxBlock: maxBlock, RefRoot: refRoot, RefErr: refErr, AltRoot: altRoot, Spine: spine, BaseRoot: baseRoot, Via: via}
		var f *fault
		if fs != nil {
			f = fs.f
			ci.FaultCls = fs.cls
			ci.FaultDesc = fs.desc
			ci.Fault = fs.f
		}
		p := w.buildParams(g.Core, v, shardSize)
		res := w.add(toFilesTop(g.Tree.Top), p, v, f, g.Via)
		vs, outcome := w.check(ci, res)
		nb := len(res.rec.sizes)
		vs, flaky := w.confirm(ci, vs, func() *result {
			return w.add(toFilesTop(g.Tree.Top), w.buildParams(g.Core, v, shardSize), v, f, g.Via)
		})
		o := caseOut{flaky: flaky, sig: sig(ci, outcome, nb), nontrivial: nb >= 2 || res.rec.injected > 0, outcome: v.mode() + ":" + outcome, vios: vs}
		if fs == nil || strings.Contains(outcome, "survived") {
			o.sample = map[string]interface{}{"input": ci.input(), "outcome": outcome, "blocks": nb, "pins": len(res.rec.pins)}
		}
		outs = append(outs, o)
		return res
	}
	// unsharded fault-free baseline of this (tree, core)
	bv := variant{RplMin: 1, RplMax: 2}
	base := one(bv, 0, 0, cid.Undef, nil)
	if g.NoBase {
		outs = outs[:0]
	}
	baseRoot := cid.Undef
	if base.err == nil && base.panicked == nil {
		baseRoot = base.root
	}
	for _, v := range g.Vars {
		ss, max := shardSizeFor(v.Shard, base.rec)
		res := one(v, ss, max, baseRoot, nil)
		if g.Faults > 0 && res.panicked == nil {
			for _, fs := range faultsFor(res.rec.batches, g.Faults) {
				fs := fs
				one(v, ss, max, baseRoot, &fs)
			}
		}
	}
	return outs
}

// ---- sections --------------------------------------------------------------------

// The reference importer is itself checked first: against well-known go-ipfs
// CIDs, against an independent sha256 computation, and its two directory
// assemblies (go-unixfs/io bottom-up vs go-mfs path based) against each other.
func TestReferenceSelfCheck(t *testing.T) {
	if replayMode() {
		t.Skip()
	}
	sec := R.Sec("reference-selfcheck")
	v0 := coreParams{Chunker: "", Hash: "sha2-256"}
	known := []struct {
		top  []*tnode
		c    coreParams
		want string
	}{
		{[]*tnode{{Name: "f", Data: nil}}, v0, "QmbFMke1KXqnYyBBWxB74N4c5SBnJMVAiMNRcGu6x1AwQH"},
		{[]*tnode{{Name: "d", Dir: true}}, v0, "QmUNLLsPACCz1vLxQVkXqqLX5R1X345qqfHbsf67hvA3Nn"},
		{[]*tnode{{Name: "f", Data: []byte("hello world\n")}}, v0, "QmT78zSuBmuS4z925WZfrqQ1qHaJ56DQaTfyMUF7F8ff5o"},
	}
	for _, k := range known {
		got, _, _, err := refImport(k.top, k.c)
		if err != nil || got.String() != k.want {
			R.Broken("reference importer disagrees with go-ipfs on a well-known CID: want %s got %s err %v", k.want, got, err)
		}
		R.Eval(sec, "known:"+k.want, false)
	}
	// raw single-chunk file, CIDv1: the CID is sha256 of the bytes, computed here directly
	data := gen(99, 100)
	h := sha256.Sum256(data)
	mhash, _ := mh.Encode(h[:], mh.SHA2_256)
	want := cid.NewCidV1(cid.Raw, mhash)
	got, _, _, err := refImport([]*tnode{{Name: "f", Data: data}}, coreParams{Chunker: "size-256", RawLeaves: true, CidV: 1, Hash: "sha2-256"})
	if err != nil || !got.Equals(want) {
		R.Broken("reference importer: raw leaf CID %s != sha256-derived %s (%v)", got, want, err)
	}
	R.Eval(sec, "raw-leaf-sha256", false)
	n := 0
	for _, ch := range chunkers {
		for _, tr := range treesFor(ch) {
			for _, wrap := range []bool{false, true} {
				if tr.WrapOnly && !wrap {
					continue
				}
				for _, cv := range []int{0, 1} {
					c := coreParams{Chunker: ch.Spec, CidV: cv, Hash: "sha2-256", Wrap: wrap, RawLeaves: cv == 1, Trickle: cv == 1}
					a, _, _, err1 := refImport(tr.Top, c)
					b, err2 := refImportMFS(tr.Top, c)
					if err1 != nil || err2 != nil || !a.Equals(b) {
						R.Broken("reference importer: io-directory and mfs assemblies disagree on %s %s: %s vs %s (%v, %v)", tr.Name, c, a, b, err1, err2)
					}
					R.Eval(sec, "mfs-vs-io:"+tr.Name+c.String(), false)
					n++
				}
			}
		}
	}
	sec.Bounds["well_known_cids"] = len(known)
	sec.Bounds["mfs_vs_io_directory_assemblies_compared"] = n
}

// Fault-free parameter space: trees x covering array (quick: strength 3;
// thorough: the full product).
func TestParameterSpace(t *testing.T) {
	if replayMode() {
		t.Skip()
	}
	sec := R.Sec("parameter-space(no-fault)")
	levels := paramLevels()
	var rows [][]int
	strength := 3
	if ev.Thorough() {
		rows = fullProduct(levels)
		strength = len(levels)
		sec.Bounds["parameter_rows"] = "full product of all parameter dimensions for every tree"
	} else {
		rows = covering(levels, strength)
		sec.Bounds["parameter_rows"] = fmt.Sprintf("covering array of strength %d (every combination of values of every %d parameter dimensions occurs), relabelled per tree; NOT the full product (that is the thorough tier)", strength, strength)
		sec.Exhaustive = false
		sec.CapHit = "quick tier uses a strength-3 covering array instead of the full product of the parameter dimensions"
		R.NotExhaustive("parameter-space section in the quick tier: strength-3 covering array over the 10 parameter dimensions per tree instead of the full product (trees, fault positions and the other sections are complete within their bounds)")
	}
	sec.Bounds["rows_per_tree"] = len(rows)
	sec.Bounds["dimensions"] = dimNames
	sec.Bounds["levels"] = levels
	sec.Bounds["chunkers"] = []string{"size-16", "size-256", "rabin-16-32-64", "default(262144; reduced tree list)"}
	sec.Bounds["shard_sizes"] = "maxblock+1 (one block per shard at least), 3*maxblock+1, 2^40, size(block0)+size(block1) (exact boundary), maxblock (cannot hold the largest block: add must fail cleanly)"
	sec.Bounds["replication"] = "(-1,-1) (1,2) (1,1) (2,3) over 3 peers, allocator answer rotated by 0/1/2 (local peer in or out of the destinations) and per shard"
	var names []string
	for _, tr := range treesFor(chunkers[0]) {
		names = append(names, tr.Name)
	}
	sec.Bounds["trees"] = names

	// group rows by (tree slot, chunker, core)
	type gkey struct {
		slot int
		core coreParams
	}
	gm := map[gkey]*group{}
	var order []gkey
	slots := len(treesFor(chunkers[0]))
	skipped := 0
	for slot := 0; slot < slots; slot++ {
		for _, r0 := range rows {
			row := r0
			if !ev.Thorough() {
				row = permuteRow(r0, levels, slot)
			}
			ch, core, v := rowToCase(row)
			trees := treesFor(ch)
			var tr *treeCase
			want := names[slot]
			for _, x := range trees {
				if x.Name == want {
					tr = x
				}
			}
			if tr == nil {
				skipped++
				continue
			}
			if tr.WrapOnly {
				core.Wrap = true
			}
			k := gkey{slot, core}
			g, ok := gm[k]
			if !ok {
				g = &group{Tree: tr, Core: core}
				gm[k] = g
				order = append(order, k)
			}
			dup := false
			for _, x := range g.Vars {
				if x == v {
					dup = true
				}
			}
			if !dup {
				g.Vars = append(g.Vars, v)
			}
		}
	}
	sec.Bounds["rows_skipped_tree_not_in_reduced_list_of_default_chunker"] = skipped
	var groups []*group
	for _, k := range order {
		groups = append(groups, gm[k])
	}
	emit(sec, runGroups(t, groups))
}

// Block-put fault enumeration.
func TestBlockPutFaults(t *testing.T) {
	if replayMode() {
		t.Skip()
	}
	sec := R.Sec("block-put-faults")
	type cc struct {
		ch   chunkerSpec
		core coreParams
		big  bool // also used for the large two-level file
		few  bool // only a subset of the variants (quick tier budget)
	}
	mk := func(ch chunkerSpec, c coreParams, big bool) cc { c.Chunker = ch.Spec; return cc{ch, c, big, false} }
	K := 24
	ccs := []cc{
		mk(chunkers[0], coreParams{Hash: "sha2-256"}, false),
		mk(chunkers[0], coreParams{Hash: "sha2-256", Trickle: true, RawLeaves: true, CidV: 1, Wrap: true}, false),
		mk(chunkers[1], coreParams{Hash: "blake2b-256", RawLeaves: true, CidV: 1}, false),
	}
	ccs[2].few = true
	vars := []variant{
		{RplMin: 1, RplMax: 2, Rot: 0},                   // local peer + one remote
		{RplMin: 1, RplMax: 2, Rot: 1, Opts: 1},          // two remotes
		{RplMin: -1, RplMax: -1},                         // everywhere
		{RplMin: 1, RplMax: 1, Rot: 1},                   // a single (remote) destination
		{RplMin: 1, RplMax: 2, Rot: 1, Local: true},      // local add
		{Shard: "1blk", RplMin: 1, RplMax: 2, Rot: 0},    // many shards, rotating pairs
		{Shard: "3blk", RplMin: 1, RplMax: 1, Rot: 0},    // single destination per shard
		{Shard: "huge", RplMin: -1, RplMax: -1, Opts: 1}, // one shard everywhere
		{Shard: "sum2", RplMin: 2, RplMax: 3, Rot: 2},    // three destinations
		{RplMin: 0, RplMax: 0, Rot: 1},                   // factors left to the cluster default
		{Shard: "3blk", RplMin: 0, RplMax: 0, Rot: 0},    // the same, sharded
	}
	bigVars := []variant{vars[1], vars[6]}
	fewVars := []variant{vars[1], vars[3], vars[5], vars[8]}
	const bigTree = "file:174*Cmax+1"
	if ev.Thorough() {
		K = 400
		ccs = nil
		for i, ch := range []chunkerSpec{chunkers[0], chunkers[1], chunkers[2]} {
			ccs = append(ccs,
				mk(ch, coreParams{Hash: "sha2-256"}, i == 0),
				mk(ch, coreParams{Hash: "sha2-256", Trickle: true, RawLeaves: true, CidV: 1, Wrap: true}, i == 0),
				mk(ch, coreParams{Hash: "blake2b-256", RawLeaves: true, CidV: 1}, false),
				mk(ch, coreParams{Hash: "sha2-256", Trickle: true, Wrap: true}, false))
		}
	}
	var groups []*group
	names := map[string]bool{}
	var coreNames []string
	for _, x := range ccs {
		coreNames = append(coreNames, x.core.String())
		for _, tr := range treesFor(x.ch) {
			vs := vars
			if x.few {
				vs = fewVars
			}
			if tr.Name == bigTree {
				if !x.big {
					continue
				}
				vs = bigVars
			}
			names[tr.Name] = true
			c := x.core
			if tr.WrapOnly {
				c.Wrap = true
			}
			for _, v := range vs {
				groups = append(groups, &group{Tree: tr, Core: c, Vars: []variant{v}, Faults: K, NoBase: true})
			}
		}
	}
	var tn []string
	for n := range names {
		tn = append(tn, n)
	}
	sort.Strings(tn)
	sec.Bounds["K"] = fmt.Sprintf("failure at block-put fan-out k for every k < %d and for the last 3 fan-outs of the add (which include shard-DAG and cluster-DAG nodes)", K)
	sec.Bounds["fault_shapes"] = "kind {ipfs error, rpc refusal} x {one destination (first / last of the fan-out): transient | persistent from k on; all destinations of the fan-out}"
	sec.Bounds["trees"] = tn
	sec.Bounds["large_two_level_file"] = "thorough tier only (every fan-out position, 2 parameter sets x 2 variants); not in the quick tier"
	sec.Bounds["core_parameter_sets"] = coreNames
	if !ev.Thorough() {
		sec.Bounds["quick_tier_note"] = "the third parameter set (size-256, blake2b-256, raw leaves, CIDv1) runs with 4 of the 9 variants only"
	}
	var vn []string
	for _, v := range vars {
		vn = append(vn, v.String())
	}
	sec.Bounds["variants"] = vn
	emit(sec, runGroups(t, groups))
}

// More links in one shard than fit one shard-DAG node (5984): the indirect
// shard DAG.
func TestIndirectShardDAG(t *testing.T) {
	if replayMode() {
		t.Skip()
	}
	sec := R.Sec("indirect-shard-dag")
	ns := []int{6100}
	cs := []coreParams{{Chunker: "size-2", Hash: "sha2-256"}}
	if ev.Thorough() {
		ns = []int{5944, 5945, 5946, 5947, 5948, 5949, 5950, 5951, 5952, 6100, 11897, 11898, 11899}
		cs = append(cs, coreParams{Chunker: "size-2", Hash: "sha2-256", RawLeaves: true, CidV: 1, Trickle: true, Wrap: true})
	}
	var groups []*group
	for _, n := range ns {
		tr := counterTree(n)
		for _, c := range cs {
			groups = append(groups, &group{Tree: tr, Core: c, Vars: []variant{{Shard: "huge", RplMin: 1, RplMax: 1, Rot: 1}}})
		}
	}
	sec.Bounds["files"] = fmt.Sprintf("one file of n distinct 2-byte chunks (chunker size-2), n in %v, one shard (size 2^40): n leaves + intermediate nodes links in one shard; sharding.MaxLinks=5984", ns)
	sec.Bounds["core_parameter_sets"] = len(cs)
	emit(sec, runGroups(t, groups))
}

// The REST path: the tree travels as multipart (files.MultiFileReader ->
// adder.FromMultipart); hidden files are filtered (or not) by the client-side
// serial-file walk exactly as api/rest/client does it.
func TestMultipartAndHidden(t *testing.T) {
	if replayMode() {
		t.Skip()
	}
	sec := R.Sec("multipart+hidden")
	ch := chunkers[0]
	var groups []*group
	vars := []variant{{RplMin: 1, RplMax: 2, Rot: 1}, {Shard: "3blk", RplMin: 1, RplMax: 2, Rot: 0, Opts: 1}}
	for _, tr := range treesFor(ch) {
		for _, wrap := range []bool{false, true} {
			if tr.WrapOnly && !wrap {
				continue
			}
			groups = append(groups, &group{Tree: tr, Core: coreParams{Chunker: ch.Spec, Hash: "sha2-256", Wrap: wrap}, Vars: vars, Via: true})
		}
	}
	outs := runGroups(t, groups)
	emit(sec, outs)
	sec.Bounds["multipart"] = fmt.Sprintf("%d trees x wrap {F,T} x {single, sharded 3blk} through multipart", len(treesFor(ch)))

	// hidden: on-disk tree with dot files and a dot directory
	scratch := os.Getenv("VERIF_SCRATCH")
	if scratch == "" {
		scratch = t.TempDir()
	}
	rootDir := filepath.Join(scratch, "c13-hidden")
	os.RemoveAll(rootDir)
	defer os.RemoveAll(rootDir)
	model := dir("d",
		file(".hid", 31, 17),
		file("vis", 32, 3),
		dir(".hdir", file("x", 33, 5)),
		dir("sub", file(".h2", 34, 1), file("y", 35, 33)))
	var write func(p string, n *tnode) error
	write = func(p string, n *tnode) error {
		if !n.Dir {
			return os.WriteFile(p, n.Data, 0o644)
		}
		if err := os.MkdirAll(p, 0o755); err != nil {
			return err
		}
		for _, k := range n.Kids {
			if err := write(filepath.Join(p, k.Name), k); err != nil {
				return err
			}
		}
		return nil
	}
	if err := write(filepath.Join(rootDir, "d"), model); err != nil {
		t.Fatal(err)
	}
	var filter func(n *tnode) *tnode
	filter = func(n *tnode) *tnode {
		c := &tnode{Name: n.Name, Dir: n.Dir, Data: n.Data}
		for _, k := range n.Kids {
			if strings.HasPrefix(k.Name, ".") {
				continue
			}
			c.Kids = append(c.Kids, filter(k))
		}
		return c
	}
	w, err := newWorld()
	if err != nil {
		t.Fatal(err)
	}
	defer w.close()
	n := 0
	for _, hidden := range []bool{false, true} {
		exp := model
		if !hidden {
			exp = filter(model)
		}
		tr := &treeCase{Name: fmt.Sprintf("on-disk:dotfiles(hidden=%v)", hidden), Top: []*tnode{exp}}
		for _, wrap := range []bool{false, true} {
			core := coreParams{Chunker: ch.Spec, Hash: "sha2-256", Wrap: wrap}
			refRoot, _, spine, refErr := refImport(tr.Top, core)
			for _, v := range []variant{{RplMin: 1, RplMax: 2}, {Shard: "huge", RplMin: 1, RplMax: 2}} {
				p := filepath.Join(rootDir, "d")
				st, err := os.Lstat(p)
				if err != nil {
					t.Fatal(err)
				}
				sf, err := files.NewSerialFile(p, hidden, st)
				if err != nil {
					t.Fatal(err)
				}
				top := files.NewSliceDirectory([]files.DirEntry{files.FileEntry("d", sf)})
				params := w.buildParams(core, v, 1<<40)
				params.Hidden = hidden
				params.Recursive = true
				res := w.add(top, params, v, nil, true)
				ci := &caseInfo{Tree: tr, Core: core, V: v, ShardSize: 1 << 40, RefRoot: refRoot, RefErr: refErr, Spine: spine, Via: "serial-file(hidden)->multipart"}
				vs, outcome := w.check(ci, res)
				R.Eval(sec, sig(ci, outcome, len(res.rec.sizes)), true)
				R.Outcome(sec, v.mode()+":"+outcome)
				for _, x := range vs {
					R.Violation(x.Key, x.Detail)
				}
				n++
			}
		}
	}
	sec.Bounds["hidden"] = fmt.Sprintf("%d adds of an on-disk tree with dot files / dot directory: hidden {F,T} x wrap {F,T} x {single, sharded}", n)
}

// confirm re-executes a violating case 4 more times (the first time each key is
// seen by this worker); a violation that does not reproduce 5/5 is a broken
// check, never a verdict.
// confirm re-executes a case whose violations include a key not seen before
// and keeps the violations whose key shows up in every execution. A key that
// only shows up sometimes (which of several blocks is affected can depend on
// map iteration order inside the code under test) is dropped and noted; when
// nothing reproduces the check itself is at fault (reported as broken).
func (w *world) confirm(ci *caseInfo, vs []vio, rerun func() *result) ([]vio, string) {
	if len(vs) == 0 {
		return vs, ""
	}
	if w.confirmed == nil {
		w.confirmed = map[string]bool{}
	}
	fresh := false
	for _, v := range vs {
		if !w.confirmed[v.Key] {
			fresh = true
			w.confirmed[v.Key] = true
		}
	}
	if !fresh {
		return vs, ""
	}
	every := map[string]bool{}
	for _, v := range vs {
		every[v.Key] = true
	}
	for i := 0; i < 4; i++ {
		vs2, _ := w.check(ci, rerun())
		got := map[string]bool{}
		for _, v := range vs2 {
			got[v.Key] = true
		}
		for k := range every {
			if !got[k] {
				delete(every, k)
			}
		}
	}
	var kept []vio
	var dropped []string
	for _, v := range vs {
		if every[v.Key] {
			kept = append(kept, v)
		} else {
			dropped = append(dropped, v.Key)
			w.confirmed[v.Key] = false
		}
	}
	if len(kept) == 0 {
		return nil, fmt.Sprintf("no violation of this case reproduced on 4 re-executions: %v (input %v)", dropped, ci.input())
	}
	if len(dropped) > 0 {
		R.NotExhaustive(fmt.Sprintf("symptoms that did not show up in every execution of a violating case were dropped: %v", dropped))
	}
	return kept, ""
}

func replayMode() bool { return os.Getenv("VERIF_REPLAY") != "" }

// TestReplay re-runs the single case recorded in a replay artefact
// (`vcheck C13 quick --replay /verif/replays/C13/<hash>.json`).
func TestReplay(t *testing.T) {
	if !replayMode() {
		t.Skip()
	}
	sec := R.Sec("replay")
	b, err := os.ReadFile(os.Getenv("VERIF_REPLAY"))
	if err != nil {
		t.Fatal(err)
	}
	var art struct {
		Key    string
		Detail struct {
			Input struct {
				Replay replaySpec
			}
		}
	}
	if err := json.Unmarshal(b, &art); err != nil {
		t.Fatal(err)
	}
	rs := art.Detail.Input.Replay
	tr := rebuildTree(rs.TreeGen, rs.TreeName)
	if tr == nil {
		t.Fatalf("this artefact's tree (%q %q) cannot be rebuilt (on-disk hidden-file cases are not replayable)", rs.TreeGen, rs.TreeName)
	}
	w, err := newWorld()
	if err != nil {
		t.Fatal(err)
	}
	defer w.close()
	refRoot, _, spine, refErr := refImport(tr.Top, rs.Core)
	altRoot := cid.Undef
	if refErr != nil && rs.Core.CidV == 0 {
		alt := rs.Core
		alt.CidV = -1
		if r, _, sp, err := refImport(tr.Top, alt); err == nil {
			altRoot, spine = r, sp
		}
	}
	bv := variant{RplMin: 1, RplMax: 2}
	base := w.add(toFilesTop(tr.Top), w.buildParams(rs.Core, bv, 0), bv, nil, rs.Multipart)
	baseRoot := cid.Undef
	if base.err == nil && base.panicked == nil {
		baseRoot = base.root
	}
	via := ""
	if rs.Multipart {
		via = "multipart"
	}
	ci := &caseInfo{Tree: tr, Core: rs.Core, V: rs.V, ShardSize: rs.ShardSize, MaxBlock: rs.MaxBlock, FaultDesc: rs.FaultDesc, FaultCls: rs.FaultCls, Fault: rs.Fault,
		RefRoot: refRoot, RefErr: refErr, AltRoot: altRoot, Spine: spine, BaseRoot: baseRoot, Via: via}
	res := w.add(toFilesTop(tr.Top), w.buildParams(rs.Core, rs.V, rs.ShardSize), rs.V, rs.Fault, rs.Multipart)
	vs, outcome := w.check(ci, res)
	R.Eval(sec, sig(ci, outcome, len(res.rec.sizes)), true)
	R.Outcome(sec, outcome)
	fmt.Printf("REPLAY %s: outcome=%s root=%s err=%v violations=%d (recorded key: %s)\n", os.Getenv("VERIF_REPLAY"), outcome, res.root, res.err, len(vs), art.Key)
	for _, v := range vs {
		fmt.Println("  reproduced key:", v.Key)
		R.Violation(v.Key, v.Detail)
	}
}

// The REST path with every combination of the importer parameters: the
// client writes them into the query string, the server reads them back, the
// adder imports; the root must be what the standard importer computes for
// the parameters as REQUESTED (cid-version x raw-leaves x layout x wrap, both
// explicit values of every flag, so that a flag equal to its Go zero value
// still has to travel).
func TestRestPathParameterCombinations(t *testing.T) {
	if replayMode() {
		t.Skip()
	}
	sec := R.Sec("rest-path-parameter-combinations")
	w, err := newWorld()
	if err != nil {
		t.Fatal(err)
	}
	defer w.close()
	ch := chunkers[0]
	trs := treesFor(ch)
	if len(trs) > 3 && !ev.Thorough() {
		trs = trs[:3]
	}
	n := 0
	for _, tr := range trs {
		for _, cv := range []int{0, 1} {
			for _, raw := range []bool{false, true} {
				for _, trickle := range []bool{false, true} {
					for _, wrap := range []bool{false, true} {
						if tr.WrapOnly && !wrap {
							continue
						}
						core := coreParams{Chunker: ch.Spec, CidV: cv, RawLeaves: raw, Trickle: trickle, Hash: "sha2-256", Wrap: wrap}
						refRoot, _, spine, refErr := refImport(tr.Top, core)
						for _, v := range []variant{{RplMin: 1, RplMax: 2}, {Shard: "huge", RplMin: 1, RplMax: 2}} {
							params := w.buildParams(core, v, 1<<40)
							res := w.add(toFilesTop(tr.Top), params, v, nil, true)
							ci := &caseInfo{Tree: tr, Core: core, V: v, ShardSize: 1 << 40, RefRoot: refRoot, RefErr: refErr, Spine: spine, Via: "query-string->multipart"}
							vs, outcome := w.check(ci, res)
							R.Eval(sec, sig(ci, outcome, len(res.rec.sizes)), true)
							R.Outcome(sec, v.mode()+":"+outcome)
							for _, x := range vs {
								R.Violation(x.Key, x.Detail)
							}
							n++
						}
					}
				}
			}
		}
	}
	sec.Bounds["adds"] = fmt.Sprintf("%d: %d trees x cid-version {0,1} x raw-leaves {F,T} x layout {balanced,trickle} x wrap {F,T} x {single, sharded}, parameters through ToQueryString/AddParamsFromQuery, tree through multipart", n, len(trs))
}
