package c13

// Independent reference importer ("what the standard IPFS importer computes")
// assembled from the upstream libraries only: go-ipfs-chunker for splitting,
// go-unixfs/importer/{balanced,trickle} for file layout, go-unixfs/io
// directory builder for directories (the same builder go-mfs uses underneath),
// with the CID prefix derived exactly the way go-ipfs' coreapi does it
// (interface-go-ipfs-core/options.UnixfsAddOptions). Nothing from the repo's
// adder/ipfsadd copy is used. A second, go-mfs based assembly of directories
// is used by the self check to cross-validate the directory part.
//
// Also: block-level helpers (closure walk, DAG-reader read back).

import (
	"bytes"
	"context"
	"fmt"
	"io"
	"sort"
	"strings"

	blocks "github.com/ipfs/go-block-format"
	cid "github.com/ipfs/go-cid"
	chunker "github.com/ipfs/go-ipfs-chunker"
	cbor "github.com/ipfs/go-ipld-cbor"
	ipld "github.com/ipfs/go-ipld-format"
	merkledag "github.com/ipfs/go-merkledag"
	mfs "github.com/ipfs/go-mfs"
	unixfs "github.com/ipfs/go-unixfs"
	balanced "github.com/ipfs/go-unixfs/importer/balanced"
	ihelper "github.com/ipfs/go-unixfs/importer/helpers"
	trickle "github.com/ipfs/go-unixfs/importer/trickle"
	uio "github.com/ipfs/go-unixfs/io"
	coreopts "github.com/ipfs/interface-go-ipfs-core/options"
	multihash "github.com/multiformats/go-multihash"
)

func init() {
	ipld.Register(cid.DagProtobuf, merkledag.DecodeProtobufBlock)
	ipld.Register(cid.Raw, merkledag.DecodeRawBlock)
	ipld.Register(cid.DagCBOR, cbor.DecodeBlock)
}

// memDAG is a trivial in-memory ipld.DAGService.
type memDAG struct {
	m map[cid.Cid]ipld.Node
}

func newMemDAG() *memDAG { return &memDAG{m: map[cid.Cid]ipld.Node{}} }

func (d *memDAG) Add(ctx context.Context, n ipld.Node) error { d.m[n.Cid()] = n; return nil }
func (d *memDAG) AddMany(ctx context.Context, ns []ipld.Node) error {
	for _, n := range ns {
		d.m[n.Cid()] = n
	}
	return nil
}
func (d *memDAG) Get(ctx context.Context, c cid.Cid) (ipld.Node, error) {
	n, ok := d.m[c]
	if !ok {
		return nil, ipld.ErrNotFound
	}
	return n, nil
}
func (d *memDAG) GetMany(ctx context.Context, cs []cid.Cid) <-chan *ipld.NodeOption {
	out := make(chan *ipld.NodeOption, len(cs))
	for _, c := range cs {
		n, err := d.Get(ctx, c)
		out <- &ipld.NodeOption{Node: n, Err: err}
	}
	close(out)
	return out
}
func (d *memDAG) Remove(ctx context.Context, c cid.Cid) error { delete(d.m, c); return nil }
func (d *memDAG) RemoveMany(ctx context.Context, cs []cid.Cid) error {
	for _, c := range cs {
		delete(d.m, c)
	}
	return nil
}

// blockGetter is an ipld.NodeGetter over raw delivered blocks.
type blockGetter map[cid.Cid][]byte

func (g blockGetter) Get(ctx context.Context, c cid.Cid) (ipld.Node, error) {
	d, ok := g[c]
	if !ok {
		return nil, ipld.ErrNotFound
	}
	b, err := blocks.NewBlockWithCid(d, c)
	if err != nil {
		return nil, err
	}
	return ipld.Decode(b)
}
func (g blockGetter) GetMany(ctx context.Context, cs []cid.Cid) <-chan *ipld.NodeOption {
	out := make(chan *ipld.NodeOption, len(cs))
	for _, c := range cs {
		n, err := g.Get(ctx, c)
		out <- &ipld.NodeOption{Node: n, Err: err}
	}
	close(out)
	return out
}

// ---- the file-tree model --------------------------------------------------

type tnode struct {
	Name string
	Dir  bool
	Data []byte
	Kids []*tnode
}

func (n *tnode) describe() interface{} {
	if !n.Dir {
		return map[string]interface{}{"file": n.Name, "size": len(n.Data), "fill": fillOf(n.Data)}
	}
	var k []interface{}
	for _, c := range n.Kids {
		k = append(k, c.describe())
	}
	return map[string]interface{}{"dir": n.Name, "entries": k}
}

func fillOf(b []byte) string {
	if len(b) == 0 {
		return "-"
	}
	z := true
	for _, x := range b {
		if x != 0 {
			z = false
			break
		}
	}
	if z {
		return "zeros"
	}
	return "prng/counter (see gen in trees_test.go)"
}

// coreParams are the parameters that determine the DAG.
type coreParams struct {
	Chunker   string
	Trickle   bool
	RawLeaves bool
	CidV      int
	Hash      string
	Wrap      bool
}

func (c coreParams) String() string {
	l := "balanced"
	if c.Trickle {
		l = "trickle"
	}
	return fmt.Sprintf("chunker=%s layout=%s raw=%v cidv=%d hash=%s wrap=%v", c.Chunker, l, c.RawLeaves, c.CidV, c.Hash, c.Wrap)
}

// refPrefix derives the CID prefix with go-ipfs' own option resolution
// (interface-go-ipfs-core/options.UnixfsAddOptions, what `ipfs add` runs):
// it rejects an explicit cid-version 0 with a hash other than sha2-256.
func refPrefix(c coreParams) (cid.Builder, error) {
	code, ok := multihash.Names[strings.ToLower(c.Hash)]
	if !ok {
		return nil, fmt.Errorf("unknown hash %s", c.Hash)
	}
	settings, prefix, err := coreopts.UnixfsAddOptions(
		coreopts.Unixfs.CidVersion(c.CidV),
		coreopts.Unixfs.Hash(code),
		coreopts.Unixfs.RawLeaves(c.RawLeaves),
	)
	if err != nil {
		return nil, err
	}
	if settings.RawLeaves != c.RawLeaves || (c.CidV >= 0 && settings.CidVersion != c.CidV) {
		return nil, fmt.Errorf("go-ipfs option resolution changed explicit parameters")
	}
	return &prefix, nil
}

type refImporter struct {
	ds     *memDAG
	c      coreParams
	prefix cid.Builder
	// spine: for balanced files, the blocks on the leftmost path below each
	// file root (first leaf, first depth-1 node, ...). Only used to label
	// violations (which block went missing), never to decide one.
	spine map[cid.Cid]bool
}

func (ri *refImporter) file(data []byte) (ipld.Node, error) {
	spl, err := chunker.FromString(bytes.NewReader(data), ri.c.Chunker)
	if err != nil {
		return nil, err
	}
	dbp := ihelper.DagBuilderParams{
		Dagserv:    ri.ds,
		RawLeaves:  ri.c.RawLeaves,
		Maxlinks:   ihelper.DefaultLinksPerBlock,
		CidBuilder: ri.prefix,
	}
	db, err := dbp.New(spl)
	if err != nil {
		return nil, err
	}
	if ri.c.Trickle {
		return trickle.Layout(db)
	}
	root, err := balanced.Layout(db)
	if err == nil {
		for n := root; len(n.Links()) > 0; {
			c := n.Links()[0].Cid
			ri.spine[c] = true
			n = ri.ds.m[c]
			if n == nil {
				break
			}
		}
	}
	return root, err
}

func (ri *refImporter) node(n *tnode) (ipld.Node, error) {
	if !n.Dir {
		return ri.file(n.Data)
	}
	return ri.dir(n.Kids)
}

func (ri *refImporter) dir(kids []*tnode) (ipld.Node, error) {
	d := uio.NewDirectory(ri.ds)
	d.SetCidBuilder(ri.prefix)
	for _, k := range kids {
		kn, err := ri.node(k)
		if err != nil {
			return nil, err
		}
		if err := d.AddChild(context.Background(), k.Name, kn); err != nil {
			return nil, err
		}
	}
	nd, err := d.GetNode()
	if err != nil {
		return nil, err
	}
	if err := ri.ds.Add(context.Background(), nd); err != nil {
		return nil, err
	}
	return nd, nil
}

// refImport computes the root the standard importer gives for the top-level
// entries `top` (exactly one entry unless wrap) and the parameters c.
func refImport(top []*tnode, c coreParams) (root cid.Cid, blks map[cid.Cid][]byte, spine map[cid.Cid]bool, err error) {
	defer func() {
		if r := recover(); r != nil {
			err = fmt.Errorf("reference importer panicked: %v", r)
		}
	}()
	prefix, err := refPrefix(c)
	if err != nil {
		return cid.Undef, nil, nil, err
	}
	ri := &refImporter{ds: newMemDAG(), c: c, prefix: prefix, spine: map[cid.Cid]bool{}}
	var nd ipld.Node
	if c.Wrap {
		nd, err = ri.dir(top)
	} else {
		if len(top) != 1 {
			return cid.Undef, nil, nil, fmt.Errorf("unwrapped add of %d entries has no single root", len(top))
		}
		nd, err = ri.node(top[0])
	}
	if err != nil {
		return cid.Undef, nil, nil, err
	}
	blks = map[cid.Cid][]byte{}
	for k, n := range ri.ds.m {
		blks[k] = n.RawData()
	}
	return nd.Cid(), blks, ri.spine, nil
}

// refImportMFS builds the same thing with go-mfs (Mkdir/PutNode/Flush), the
// way go-ipfs' own adder assembles directories. Only used by the self check.
func refImportMFS(top []*tnode, c coreParams) (cid.Cid, error) {
	prefix, err := refPrefix(c)
	if err != nil {
		return cid.Undef, err
	}
	ri := &refImporter{ds: newMemDAG(), c: c, prefix: prefix, spine: map[cid.Cid]bool{}}
	rnode := unixfs.EmptyDirNode()
	rnode.SetCidBuilder(prefix)
	mr, err := mfs.NewRoot(context.Background(), ri.ds, rnode, nil)
	if err != nil {
		return cid.Undef, err
	}
	var put func(path string, n *tnode) error
	put = func(path string, n *tnode) error {
		if n.Dir {
			if err := mfs.Mkdir(mr, path, mfs.MkdirOpts{Mkparents: true, CidBuilder: prefix}); err != nil {
				return err
			}
			for _, k := range n.Kids {
				if err := put(path+"/"+k.Name, k); err != nil {
					return err
				}
			}
			return nil
		}
		fn, err := ri.file(n.Data)
		if err != nil {
			return err
		}
		return mfs.PutNode(mr, path, fn)
	}
	if !c.Wrap && len(top) == 1 && !top[0].Dir {
		fn, err := ri.file(top[0].Data)
		if err != nil {
			return cid.Undef, err
		}
		return fn.Cid(), nil
	}
	if c.Wrap {
		for _, k := range top {
			if err := put("/"+k.Name, k); err != nil {
				return cid.Undef, err
			}
		}
	} else {
		for _, k := range top[0].Kids {
			if err := put("/"+k.Name, k); err != nil {
				return cid.Undef, err
			}
		}
	}
	if err := mr.GetDirectory().Flush(); err != nil {
		return cid.Undef, err
	}
	nd, err := mr.GetDirectory().GetNode()
	if err != nil {
		return cid.Undef, err
	}
	return nd.Cid(), nil
}

// ---- block-level helpers --------------------------------------------------

// closure walks links from root over blks; returns the reachable set and the
// first missing / undecodable block (cid.Undef if closed).
func closure(root cid.Cid, blks map[cid.Cid][]byte) (reach map[cid.Cid]bool, missing cid.Cid, err error) {
	reach = map[cid.Cid]bool{}
	g := blockGetter(blks)
	stack := []cid.Cid{root}
	for len(stack) > 0 {
		c := stack[len(stack)-1]
		stack = stack[:len(stack)-1]
		if reach[c] {
			continue
		}
		nd, e := g.Get(context.Background(), c)
		if e != nil {
			if e == ipld.ErrNotFound {
				return reach, c, nil
			}
			return reach, c, e
		}
		reach[c] = true
		for _, l := range nd.Links() {
			stack = append(stack, l.Cid)
		}
	}
	return reach, cid.Undef, nil
}

// verifyHashes checks that every delivered block hashes to its CID.
func verifyHashes(blks map[cid.Cid][]byte) (bad cid.Cid, ok bool) {
	keys := sortedCids(blks)
	for _, c := range keys {
		c2, err := c.Prefix().Sum(blks[c])
		if err != nil || !c2.Equals(c) {
			return c, false
		}
	}
	return cid.Undef, true
}

func sortedCids(m map[cid.Cid][]byte) []cid.Cid {
	keys := make([]cid.Cid, 0, len(m))
	for c := range m {
		keys = append(keys, c)
	}
	sort.Slice(keys, func(i, j int) bool { return keys[i].KeyString() < keys[j].KeyString() })
	return keys
}

// readBack reads the expected tree under root through a unixfs DAG reader over
// blks. It returns "" if every file's bytes equal the input, else a
// description of the first difference.
func readBack(root cid.Cid, blks map[cid.Cid][]byte, top []*tnode, wrap bool) string {
	g := blockGetter(blks)
	ctx := context.Background()
	var readNode func(path string, c cid.Cid, n *tnode) string
	readDir := func(path string, c cid.Cid, kids []*tnode) string {
		nd, err := g.Get(ctx, c)
		if err != nil {
			return fmt.Sprintf("%s: directory node %s: %v", path, c, err)
		}
		pn, ok := nd.(*merkledag.ProtoNode)
		if !ok {
			return fmt.Sprintf("%s: directory node is not dag-pb", path)
		}
		fsn, err := unixfs.FSNodeFromBytes(pn.Data())
		if err != nil || !fsn.IsDir() {
			return fmt.Sprintf("%s: not a unixfs directory (err=%v)", path, err)
		}
		links := map[string]cid.Cid{}
		for _, l := range nd.Links() {
			links[l.Name] = l.Cid
		}
		for _, k := range kids {
			lc, ok := links[k.Name]
			if !ok {
				return fmt.Sprintf("%s: entry %q missing from directory", path, k.Name)
			}
			if d := readNode(path+"/"+k.Name, lc, k); d != "" {
				return d
			}
		}
		if len(links) != len(kids) {
			return fmt.Sprintf("%s: directory has %d entries, input has %d", path, len(links), len(kids))
		}
		return ""
	}
	readNode = func(path string, c cid.Cid, n *tnode) string {
		if n.Dir {
			return readDir(path, c, n.Kids)
		}
		nd, err := g.Get(ctx, c)
		if err != nil {
			return fmt.Sprintf("%s: file root %s: %v", path, c, err)
		}
		dr, err := uio.NewDagReader(ctx, nd, g)
		if err != nil {
			return fmt.Sprintf("%s: dag reader: %v", path, err)
		}
		got, err := io.ReadAll(dr)
		if err != nil {
			return fmt.Sprintf("%s: read: %v", path, err)
		}
		if !bytes.Equal(got, n.Data) {
			return fmt.Sprintf("%s: read back %d bytes, input %d bytes, contents differ", path, len(got), len(n.Data))
		}
		return ""
	}
	if wrap {
		return readDir("", root, top)
	}
	return readNode("/"+top[0].Name, root, top[0])
}
