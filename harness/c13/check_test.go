package c13

// Runner (one real adder.Adder run over the recording world) and the oracle,
// written clause by clause from the property text.

import (
	"context"
	"fmt"
	"mime/multipart"
	"net/url"
	"runtime/debug"
	"sort"
	"strings"
	"time"

	cid "github.com/ipfs/go-cid"
	files "github.com/ipfs/go-ipfs-files"
	"github.com/ipfs/ipfs-cluster/adder"
	"github.com/ipfs/ipfs-cluster/adder/sharding"
	"github.com/ipfs/ipfs-cluster/adder/single"
	"github.com/ipfs/ipfs-cluster/api"
	peer "github.com/libp2p/go-libp2p-core/peer"
	ma "github.com/multiformats/go-multiaddr"
)

var fixedExpire = time.Date(2031, 5, 6, 7, 8, 9, 0, time.UTC)

func toFilesNode(n *tnode) files.Node {
	if !n.Dir {
		return files.NewBytesFile(n.Data)
	}
	var es []files.DirEntry
	for _, k := range n.Kids {
		es = append(es, files.FileEntry(k.Name, toFilesNode(k)))
	}
	return files.NewSliceDirectory(es)
}

func toFilesTop(top []*tnode) files.Directory {
	var es []files.DirEntry
	for _, k := range top {
		es = append(es, files.FileEntry(k.Name, toFilesNode(k)))
	}
	return files.NewSliceDirectory(es)
}

func (w *world) buildParams(c coreParams, v variant, shardSize uint64) *api.AddParams {
	p := api.DefaultAddParams()
	p.Chunker = c.Chunker
	if c.Trickle {
		p.Layout = "trickle"
	} else if v.Opts == 1 {
		p.Layout = "balanced"
	}
	p.RawLeaves = c.RawLeaves
	p.CidVersion = c.CidV
	p.HashFun = c.Hash
	p.Wrap = c.Wrap
	p.Shard = v.Shard != ""
	p.Local = v.Local
	p.ReplicationFactorMin = v.RplMin
	p.ReplicationFactorMax = v.RplMax
	if p.Shard {
		p.ShardSize = shardSize
	}
	if v.Opts == 1 {
		p.Name = "c13-name"
		p.Metadata = map[string]string{"k": "v", "empty": ""}
		p.ExpireAt = fixedExpire
		p.UserAllocations = []peer.ID{w.ids[2]}
		a, _ := ma.NewMultiaddr("/ip4/192.0.2.7/tcp/4001/p2p/" + w.ids[1].String())
		p.Origins = []ma.Multiaddr{a}
	}
	return p
}

type result struct {
	root     cid.Cid
	err      error
	panicked interface{}
	stack    []string
	rec      *runRec
	req      api.PinOptions // the options as requested (private copy)
}

// add performs one add with the real adder and DAG services.
func (w *world) add(top files.Directory, p *api.AddParams, v variant, f *fault, viaMultipart bool) (res *result) {
	rec := newRunRec()
	rec.fault = f
	rec.rot = v.Rot
	w.mu.Lock()
	w.run = rec
	w.mu.Unlock()
	res = &result{rec: rec, req: p.PinOptions}
	res.req.Metadata = map[string]string{}
	for k, x := range p.Metadata {
		res.req.Metadata[k] = x
	}
	res.req.UserAllocations = append([]peer.ID(nil), p.UserAllocations...)
	defer func() {
		if r := recover(); r != nil {
			res.panicked = fmt.Sprint(r)
			res.stack = trimStack(string(debug.Stack()))
		}
	}()
	if viaMultipart {
		// the REST path: the client library writes the parameters into the
		// query string (ToQueryString), the server reads them back
		// (AddParamsFromQuery). What the adder gets is the server's reading.
		qs, err := p.ToQueryString()
		if err != nil {
			res.err = fmt.Errorf("parameters do not survive the query string: %v", err)
			return res
		}
		q, err := url.ParseQuery(qs)
		if err != nil {
			res.err = fmt.Errorf("parameters do not survive the query string: %v", err)
			return res
		}
		if v.Opts == 1 {
			// a legal pin option that means nothing for an add
			q.Set("pin-update", pinUpdateCid.String())
		}
		p2, err := api.AddParamsFromQuery(q)
		if err != nil {
			res.err = fmt.Errorf("parameters do not survive the query string: %v", err)
			return res
		}
		p = p2
	}
	var dgs adder.ClusterDAGService
	if p.Shard {
		dgs = sharding.New(w.client, p.PinOptions, nil)
	} else {
		dgs = single.New(w.client, p.PinOptions, p.Local)
	}
	a := adder.New(dgs, p, nil)
	ctx := context.Background()
	if viaMultipart {
		mfr := files.NewMultiFileReader(top, true)
		r := multipart.NewReader(mfr, mfr.Boundary())
		res.root, res.err = a.FromMultipart(ctx, r)
	} else {
		res.root, res.err = a.FromFiles(ctx, top)
	}
	return res
}

var pinUpdateCid, _ = cid.Decode("QmUNLLsPACCz1vLxQVkXqqLX5R1X345qqfHbsf67hvA3Nn")

// ---- oracle -----------------------------------------------------------------

type vio struct {
	Key    string
	Detail map[string]interface{}
}

type caseInfo struct {
	Tree      *treeCase
	Core      coreParams
	V         variant
	ShardSize uint64
	MaxBlock  int
	FaultDesc string // "" if none; e.g. "ipfs/one/once@3"
	FaultCls  string // e.g. "ipfs/one/once"
	Fault     *fault
	RefRoot   cid.Cid
	RefErr    error
	AltRoot   cid.Cid          // root for cid-version "unset" when RefErr is the explicit-v0 rejection
	Spine     map[cid.Cid]bool // labels only: leftmost-path blocks of balanced files
	BaseRoot  cid.Cid          // root of the unsharded fault-free run of the same core (Undef if n/a)
	Via       string
}

func (ci *caseInfo) input() map[string]interface{} {
	m := map[string]interface{}{
		"tree":    ci.Tree.Name,
		"entries": ci.Tree.describe(),
		"core":    ci.Core.String(),
		"variant": ci.V.String(),
	}
	if ci.V.Shard != "" {
		m["shard_size"] = ci.ShardSize
		m["max_block"] = ci.MaxBlock
	}
	if ci.FaultDesc != "" {
		m["fault"] = ci.FaultDesc
	}
	if ci.Via != "" {
		m["via"] = ci.Via
	}
	// machine-readable form for `vcheck C13 --replay <this file>`
	m["replay"] = replaySpec{TreeGen: ci.Tree.Gen, TreeName: ci.Tree.Name, Core: ci.Core, V: ci.V, ShardSize: ci.ShardSize,
		MaxBlock: ci.MaxBlock, Fault: ci.Fault, FaultCls: ci.FaultCls, FaultDesc: ci.FaultDesc, Multipart: ci.Via == "multipart"}
	return m
}

type replaySpec struct {
	TreeGen   string
	TreeName  string
	Core      coreParams
	V         variant
	ShardSize uint64
	MaxBlock  int
	Fault     *fault
	FaultCls  string
	FaultDesc string
	Multipart bool
}

func setOf(xs []int) map[int]bool {
	m := map[int]bool{}
	for _, x := range xs {
		m[x] = true
	}
	return m
}

func setEq(a, b map[int]bool) bool {
	if len(a) != len(b) {
		return false
	}
	for k := range a {
		if !b[k] {
			return false
		}
	}
	return true
}

func subset(a, b map[int]bool) bool {
	for k := range a {
		if !b[k] {
			return false
		}
	}
	return true
}

func setList(a map[int]bool) []int {
	var l []int
	for k := range a {
		l = append(l, k)
	}
	sort.Ints(l)
	return l
}

// optionDiffs lists the requested options that the recorded pin does not carry.
func optionDiffs(req, got api.PinOptions, checkName bool) []string {
	var d []string
	if req.ReplicationFactorMin != got.ReplicationFactorMin {
		d = append(d, "replication_factor_min")
	}
	if req.ReplicationFactorMax != got.ReplicationFactorMax {
		d = append(d, "replication_factor_max")
	}
	if checkName && req.Name != got.Name {
		d = append(d, "name")
	}
	if !req.ExpireAt.Equal(got.ExpireAt) {
		d = append(d, "expire_at")
	}
	if len(req.Metadata) != len(got.Metadata) {
		d = append(d, "metadata")
	} else {
		for k, v := range req.Metadata {
			if gv, ok := got.Metadata[k]; !ok || gv != v {
				d = append(d, "metadata")
				break
			}
		}
	}
	if len(req.UserAllocations) != len(got.UserAllocations) {
		d = append(d, "user_allocations")
	} else {
		for i := range req.UserAllocations {
			if req.UserAllocations[i] != got.UserAllocations[i] {
				d = append(d, "user_allocations")
				break
			}
		}
	}
	if len(req.Origins) != len(got.Origins) {
		d = append(d, "origins")
	} else {
		for i := range req.Origins {
			if !req.Origins[i].Equal(got.Origins[i]) {
				d = append(d, "origins")
				break
			}
		}
	}
	if got.Mode != api.PinModeRecursive {
		d = append(d, "mode")
	}
	if got.PinUpdate.Defined() {
		// added content is a new pin of its own: a pin-update option that a
		// request carried has no meaning for it and must not reach the pin
		// (it would turn the pin into an update of another one)
		d = append(d, "pin_update")
	}
	return d
}

func pinSummary(w *world, p *api.Pin) map[string]interface{} {
	al, _ := w.peerIdxs(p.Allocations)
	m := map[string]interface{}{"cid": p.Cid.String(), "type": p.Type.String(), "allocations(peer idx)": al,
		"max_depth": int(p.MaxDepth), "name": p.Name, "rpl": fmt.Sprintf("%d/%d", p.ReplicationFactorMin, p.ReplicationFactorMax),
		"shard_size": p.ShardSize}
	if p.Reference != nil {
		m["reference"] = p.Reference.String()
	}
	return m
}

// walkShard descends from a shard (or cluster-DAG) root through dag-cbor
// nodes; returns the cbor nodes, the non-cbor leaves (the data blocks the
// shard links) and the depth at which the deepest leaf sits.
func walkShard(root cid.Cid, blks map[cid.Cid][]byte) (nodes []cid.Cid, leaves []cid.Cid, depth int, missing cid.Cid, err error) {
	g := blockGetter(blks)
	type item struct {
		c cid.Cid
		d int
	}
	q := []item{{root, 0}}
	seen := map[cid.Cid]bool{}
	for len(q) > 0 {
		it := q[0]
		q = q[1:]
		if seen[it.c] {
			continue
		}
		seen[it.c] = true
		nd, e := g.Get(context.Background(), it.c)
		if e != nil {
			return nodes, leaves, depth, it.c, e
		}
		nodes = append(nodes, it.c)
		for _, l := range nd.Links() {
			if l.Cid.Type() == cid.DagCBOR {
				q = append(q, item{l.Cid, it.d + 1})
			} else {
				leaves = append(leaves, l.Cid)
				if it.d+1 > depth {
					depth = it.d + 1
				}
			}
		}
	}
	return nodes, leaves, depth, cid.Undef, nil
}

// check evaluates the property on one run. It returns the violations and an
// outcome class.
func (w *world) check(ci *caseInfo, res *result) (vs []vio, outcome string) {
	mode := ci.V.mode()
	rec := res.rec
	add := func(clause string, extra map[string]interface{}) {
		d := map[string]interface{}{"input": ci.input()}
		for k, v := range extra {
			d[k] = v
		}
		if res.err != nil {
			d["add_error"] = res.err.Error()
		} else {
			d["returned_root"] = res.root.String()
		}
		if ci.RefRoot.Defined() {
			d["reference_root"] = ci.RefRoot.String()
		}
		vs = append(vs, vio{Key: "C13|" + mode + "|" + clause, Detail: d})
	}
	faultTag := "|no-fault"
	if ci.FaultCls != "" {
		faultTag = "|fault=" + ci.FaultCls
	}

	if res.panicked != nil {
		msg := fmt.Sprint(res.panicked)
		if i := strings.LastIndex(msg, ": "); i >= 0 {
			msg = msg[i+2:]
		}
		if len(msg) > 48 {
			msg = msg[:48]
		}
		add("panic|"+msg, map[string]interface{}{"panic": res.panicked, "stack": res.stack})
		return vs, "panic"
	}

	// ---- failure: "on failure the root is not pinned" -----------------------
	if res.err != nil {
		for _, pr := range rec.pins {
			p := pr.Pin
			if (p.Type == api.DataType || p.Type == api.MetaType) && (!ci.RefRoot.Defined() || p.Cid.Equals(ci.RefRoot)) {
				add("failure-but-root-pinned"+faultTag, map[string]interface{}{"pin": pinSummary(w, p)})
			}
		}
		tooSmall := ci.V.Shard != "" && ci.ShardSize <= uint64(ci.MaxBlock)
		switch {
		case rec.injected > 0:
			return vs, "failed:injected-fault"
		case ci.RefErr != nil:
			return vs, "failed:parameters-rejected-by-standard-importer-too"
		case tooSmall:
			return vs, "failed:shard-size-cannot-hold-largest-block"
		default:
			add("unexpected-error", map[string]interface{}{"note": "no fault injected, parameters accepted by the standard importer"})
			return vs, "failed:unexpected"
		}
	}

	// ---- success -------------------------------------------------------------
	outcome = "ok"
	refRoot := ci.RefRoot
	if rec.injected > 0 {
		outcome = "ok:survived-fault"
	}
	if ci.RefErr != nil {
		// go-ipfs rejects an explicit cid-version 0 with a non-sha2-256 hash but
		// upgrades an unset version to 1; the cluster API cannot tell the two
		// apart (0 is its default), so a clean error and the upgraded root are
		// both accepted.
		if !ci.AltRoot.Defined() {
			add("add-succeeded-but-standard-importer-rejects-parameters", map[string]interface{}{"reference_error": ci.RefErr.Error()})
			return vs, "ok:reference-rejected"
		}
		refRoot = ci.AltRoot
		outcome = "ok:cid-version-upgraded-like-ipfs-default"
	}
	root := res.root
	if !root.Equals(refRoot) {
		add("root!=standard-importer", nil)
	}
	if mode == "sharded" && ci.BaseRoot.Defined() && !root.Equals(ci.BaseRoot) {
		add("root-sharded!=root-unsharded", map[string]interface{}{"unsharded_root": ci.BaseRoot.String()})
	}

	union := rec.union()
	if bad, ok := verifyHashes(union); !ok {
		add("delivered-block-data-does-not-hash-to-its-cid", map[string]interface{}{"block": bad.String()})
	}
	reach, missing, cerr := closure(root, union)
	closed := !missing.Defined() && cerr == nil
	if !closed {
		ex := map[string]interface{}{"missing_or_undecodable_block": missing.String()}
		if cerr != nil {
			ex["error"] = cerr.Error()
		}
		role := "other-block"
		if ci.Spine[missing] {
			role = "leftmost-path-block-of-balanced-file"
		}
		add("success-but-block-delivered-nowhere|"+role+faultTag, ex)
	} else if d := readBack(root, union, ci.Tree.Top, ci.Core.Wrap); d != "" {
		add("readback|bytes-differ-from-input", map[string]interface{}{"difference": d})
	}

	sentTo := map[int]bool{}
	for p := 0; p < nPeers; p++ {
		if rec.sentTo[p] {
			sentTo[p] = true
		}
	}

	if mode == "single" {
		// every destination daemon that never failed holds the whole closed set
		for _, p := range setList(sentTo) {
			if rec.failed[p] {
				continue
			}
			_, miss, e := closure(root, rec.delivered[p])
			if miss.Defined() || e != nil {
				add("closure|never-failed-destination-misses-a-block", map[string]interface{}{"destination(peer idx)": p, "block": miss.String()})
				break
			}
		}
		// exactly the root is pinned...
		if len(rec.pins) != 1 {
			var l []interface{}
			for _, pr := range rec.pins {
				l = append(l, pinSummary(w, pr.Pin))
			}
			add("pin|count!=1", map[string]interface{}{"pins": l})
			return vs, outcome
		}
		p := rec.pins[0].Pin
		if !p.Cid.Equals(root) {
			add("pin|cid!=root", map[string]interface{}{"pin": pinSummary(w, p)})
		}
		if p.Type != api.DataType {
			add("pin|type!=data", map[string]interface{}{"pin": pinSummary(w, p)})
		}
		if p.MaxDepth != -1 {
			add("pin|root-not-pinned-recursively", map[string]interface{}{"pin": pinSummary(w, p)})
		}
		// ...with the requested options...
		for _, f := range optionDiffs(res.req, p.PinOptions, true) {
			add("pin|option-not-as-requested:"+f, map[string]interface{}{"pin": pinSummary(w, p)})
		}
		// ...and the allocations the blocks were sent to
		al, known := w.peerIdxs(p.Allocations)
		als := setOf(al)
		ex := map[string]interface{}{"pin": pinSummary(w, p), "blocks_sent_to(peer idx)": setList(sentTo), "allocator_answer(peer idx)": rec.allocs}
		switch {
		case !known:
			add("pin|allocations-unknown-peer", ex)
		case ci.V.Local:
			// blocks go to the local daemon only; the property text does not say
			// what the allocations are then. Only require them to come from the
			// allocator (or be the local peer).
			allowed := map[int]bool{0: true}
			if len(rec.allocs) > 0 {
				for _, a := range rec.allocs[0] {
					allowed[a] = true
				}
			}
			if !subset(als, allowed) || (ci.V.RplMin > 0 && len(als) == 0) {
				add("pin|local|allocations-not-from-allocator", ex)
			}
		case ci.V.RplMin < 0 && len(als) == 0:
			// replicate-everywhere: empty allocations mean "all peers"
		default:
			if !setEq(als, sentTo) {
				add("pin|allocations!=block-destinations", ex)
			}
		}
		return vs, outcome
	}

	// ---- sharded -------------------------------------------------------------
	var metas, cdags, shards []*api.Pin
	for _, pr := range rec.pins {
		switch pr.Pin.Type {
		case api.MetaType:
			metas = append(metas, pr.Pin)
		case api.ClusterDAGType:
			cdags = append(cdags, pr.Pin)
		case api.ShardType:
			shards = append(shards, pr.Pin)
		default:
			add("pin|unexpected-entry-type", map[string]interface{}{"pin": pinSummary(w, pr.Pin)})
		}
	}
	if len(metas) != 1 {
		add("meta-entry|count!=1", map[string]interface{}{"count": len(metas)})
	} else {
		m := metas[0]
		if !m.Cid.Equals(root) {
			add("meta-entry|cid!=root", map[string]interface{}{"pin": pinSummary(w, m)})
		}
		for _, f := range optionDiffs(res.req, m.PinOptions, true) {
			add("meta-entry|option-not-as-requested:"+f, map[string]interface{}{"pin": pinSummary(w, m)})
		}
	}
	if len(shards) == 0 {
		add("shard-entries|none", nil)
	}
	shardCids := map[cid.Cid]bool{}
	for _, s := range shards {
		shardCids[s.Cid] = true
	}
	meta := map[cid.Cid]bool{} // shard-DAG and cluster-DAG nodes (not data blocks)
	if len(cdags) != 1 {
		add("cluster-dag-entry|count!=1", map[string]interface{}{"count": len(cdags)})
	} else {
		cd := cdags[0]
		g := blockGetter(union)
		nd, err := g.Get(context.Background(), cd.Cid)
		if err != nil {
			add("cluster-dag-entry|block-undelivered", map[string]interface{}{"pin": pinSummary(w, cd), "error": err.Error()})
		} else {
			meta[cd.Cid] = true
			got := map[cid.Cid]bool{}
			for _, l := range nd.Links() {
				got[l.Cid] = true
			}
			same := len(got) == len(shardCids)
			for c := range got {
				if !shardCids[c] {
					same = false
				}
			}
			if !same {
				add("cluster-dag-entry|links!=shard-entries", map[string]interface{}{"links": len(got), "shard_entries": len(shardCids)})
			}
		}
	}
	inShard := map[cid.Cid]int{}
	for si, s := range shards {
		nodes, leaves, depth, miss, err := walkShard(s.Cid, union)
		if err != nil {
			add("shard-entry|shard-dag-node-undelivered", map[string]interface{}{"pin": pinSummary(w, s), "block": miss.String(), "error": err.Error()})
			continue
		}
		for _, n := range nodes {
			meta[n] = true
		}
		// deep enough to cover its links
		if s.MaxDepth >= 0 && int(s.MaxDepth) < depth {
			cl := "shard-entry|max-depth-below-depth-of-its-link-dag"
			if depth >= 2 {
				cl += "|indirect-shard-dag"
			}
			add(cl, map[string]interface{}{"pin": pinSummary(w, s), "shard_dag_nodes": len(nodes), "links": len(leaves), "depth_needed": depth})
		}
		// under the size limit
		size := uint64(0)
		for _, l := range leaves {
			size += uint64(len(union[l]))
		}
		if size >= ci.ShardSize {
			add("shard-entry|size-not-under-limit", map[string]interface{}{"pin": pinSummary(w, s), "cumulative_block_bytes": size, "limit": ci.ShardSize})
		}
		if s.ReplicationFactorMin != res.req.ReplicationFactorMin || s.ReplicationFactorMax != res.req.ReplicationFactorMax {
			add("shard-entry|option-not-as-requested:replication", map[string]interface{}{"pin": pinSummary(w, s)})
		}
		// links partition the blocks
		for _, l := range leaves {
			if prev, dup := inShard[l]; dup {
				add("shard-entries|block-linked-twice", map[string]interface{}{"block": l.String(), "shards": []int{prev, si}})
				break
			}
			inShard[l] = si
		}
		// allocations = where this shard's blocks were sent
		sent := map[int]bool{}
		for _, l := range leaves {
			for p := 0; p < nPeers; p++ {
				if rec.attempted[p][l] {
					sent[p] = true
				}
			}
		}
		al, known := w.peerIdxs(s.Allocations)
		als := setOf(al)
		ex := map[string]interface{}{"pin": pinSummary(w, s), "shard_blocks_sent_to(peer idx)": setList(sent), "allocator_answers(peer idx)": rec.allocs}
		upper := map[int]bool{}
		for p := range sent {
			upper[p] = true
		}
		for p := 0; p < nPeers; p++ {
			if rec.failed[p] { // an rpc-refused put carries no cid: the peer may have been a destination
				upper[p] = true
			}
		}
		switch {
		case !known:
			add("shard-entry|allocations-unknown-peer", ex)
		case ci.V.RplMin < 0 && len(als) == 0:
			als = sent
		case !subset(sent, als) || !subset(als, upper):
			add("shard-entry|allocations!=block-destinations", ex)
		}
		// every never-failed allocation holds the shard DAG and its blocks
	dests:
		for _, p := range setList(als) {
			if rec.failed[p] {
				continue
			}
			for _, c := range append(append([]cid.Cid{}, nodes...), leaves...) {
				if _, ok := rec.delivered[p][c]; !ok {
					add("shard-entry|never-failed-destination-misses-a-block", map[string]interface{}{"pin": pinSummary(w, s), "destination(peer idx)": p, "block": c.String()})
					break dests
				}
			}
		}
	}
	if closed {
		for _, c := range sortedCids(union) {
			_, tracked := inShard[c]
			if reach[c] && !tracked {
				add("shard-entries|dag-block-in-no-shard", map[string]interface{}{"block": c.String()})
				break
			}
			if !tracked && !meta[c] {
				add("shard-entries|delivered-block-in-no-shard", map[string]interface{}{"block": c.String()})
				break
			}
		}
	}
	return vs, outcome
}

func sig(ci *caseInfo, outcome string, nblocks int) string {
	return strings.Join([]string{ci.Tree.Name, ci.Core.String(), ci.V.String(), fmt.Sprint(ci.ShardSize), ci.FaultDesc, ci.Via, outcome, fmt.Sprint(nblocks)}, "|")
}

// trimStack keeps the function names of the frames between the panic and the
// harness (stable across runs: no addresses, no goroutine ids).
func trimStack(st string) []string {
	var out []string
	started := false
	for _, l := range strings.Split(st, "\n") {
		if strings.HasPrefix(l, "\t") || strings.HasPrefix(l, "goroutine ") || l == "" {
			continue
		}
		if i := strings.LastIndex(l, "("); i > 0 {
			l = l[:i]
		}
		if !started {
			// frames above the panic call belong to the recover helper
			if l == "panic" {
				started = true
			}
			continue
		}
		if strings.HasSuffix(l, "c13.(*world).add") || len(out) > 24 {
			break
		}
		out = append(out, l)
	}
	return out
}
