// Package c07 decides C07 (untrusted peers cannot alter the pinset, drive IPFS
// or read closed endpoints): every RPC endpoint registered by a real Cluster
// peer (discovered by reflection) x caller class (self, trusted remote,
// untrusted remote) x trust configuration (Raft; CRDT with explicit list,
// empty list, trust-all; after Trust / Distrust), probed over a libp2p mocknet;
// plus pinset updates published by an untrusted CRDT replica.
package c07

import (
	"context"
	"encoding/json"
	"fmt"
	"os"
	"reflect"
	"sort"
	"strings"
	"testing"
	"testing/synctest"
	"time"

	ipfscluster "github.com/ipfs/ipfs-cluster"
	"github.com/ipfs/ipfs-cluster/api"
	"github.com/ipfs/ipfs-cluster/consensus/crdt"
	"github.com/ipfs/ipfs-cluster/consensus/raft"
	"github.com/ipfs/ipfs-cluster/datastore/inmem"
	"github.com/ipfs/ipfs-cluster/version"

	host "github.com/libp2p/go-libp2p-core/host"
	peer "github.com/libp2p/go-libp2p-core/peer"
	rpc "github.com/libp2p/go-libp2p-gorpc"
	dual "github.com/libp2p/go-libp2p-kad-dht/dual"
	pubsub "github.com/libp2p/go-libp2p-pubsub"
	ma "github.com/multiformats/go-multiaddr"

	"verif/harness/lib/clus"
	"verif/harness/lib/ev"
)

var R *ev.Run

func TestMain(m *testing.M) {
	R = ev.New("C07", "exploration")
	R.Rule("one evaluation = one probe (endpoint, caller class, trust configuration) against the real RPC server of a real Cluster peer, observation = authorization error or not; plus one evaluation per (publisher trust, receiver) pair in the CRDT pubsub scenario; distinct_nontrivial = distinct (endpoint, caller, configuration, observation) tuples")
	R.Assume("gorpc authorizes a remote call before decoding its argument (server.go handle()): probes carry a deliberately undecodable argument, so an authorized probe fails later with a non-authorization error and the method body does not run (except for argument-less endpoints, which are harmless on the model cluster)")
	R.Assume("endpoint classes are written down from the property text and the remote call sites of the code base, not from the shipped policy table")
	ev.Main(m.Run, R)
}

// ---- specification table (from the property text + remote call sites) ----

// open: identity, version and the join handshake.
var open = set("Cluster.ID", "Cluster.Version", "Cluster.PeerAdd")

// remoteTrusted: endpoints that peers call on each other (broadcasts,
// leader redirects, adding content, graph, gc): a trusted caller must get in.
var remoteTrusted = set(
	"Cluster.Peers", "Cluster.RepoGCLocal",
	"PinTracker.Status", "PinTracker.StatusAll", "PinTracker.Recover",
	"IPFSConnector.BlockPut", "IPFSConnector.RepoStat", "IPFSConnector.SwarmPeers",
	"Consensus.LogPin", "Consensus.LogUnpin", "Consensus.AddPeer", "Consensus.RmPeer",
)

// localOnly: used by the peer's own components only; refused to every remote.
var localOnly = set(
	"Cluster.Pin", "Cluster.Unpin", "Cluster.PinPath", "Cluster.UnpinPath", "Cluster.Pins", "Cluster.PinGet",
	"Cluster.Status", "Cluster.StatusAll", "Cluster.StatusLocal", "Cluster.StatusAllLocal",
	"Cluster.Recover", "Cluster.RecoverAll", "Cluster.RepoGC", "Cluster.BlockAllocate", "Cluster.ConnectGraph",
	"Cluster.Join", "Cluster.SendInformerMetric", "Cluster.SendInformersMetrics", "Cluster.Alerts",
	"PinTracker.Track", "PinTracker.Untrack", "PinTracker.RecoverAll",
	"IPFSConnector.Pin", "IPFSConnector.Unpin", "IPFSConnector.PinLs", "IPFSConnector.PinLsCid",
	"IPFSConnector.ConfigKey", "IPFSConnector.BlockGet", "IPFSConnector.Resolve",
	"Consensus.Peers", "PeerMonitor.LatestMetrics", "PeerMonitor.MetricNames",
)

// everything else (Cluster.PeerRemove, Cluster.RecoverLocal, Cluster.RecoverAllLocal,
// endpoints added later): only "refused to untrusted callers" is demanded.

func set(l ...string) map[string]bool {
	m := map[string]bool{}
	for _, x := range l {
		m[x] = true
	}
	return m
}

type endpoint struct {
	Svc, Method string
	ArgKind     reflect.Kind
	NoArg       bool
}

func (e endpoint) name() string { return e.Svc + "." + e.Method }

func endpoints() []endpoint {
	var out []endpoint
	for svc, t := range map[string]reflect.Type{
		"Cluster":       reflect.TypeOf(&ipfscluster.ClusterRPCAPI{}),
		"PinTracker":    reflect.TypeOf(&ipfscluster.PinTrackerRPCAPI{}),
		"IPFSConnector": reflect.TypeOf(&ipfscluster.IPFSConnectorRPCAPI{}),
		"Consensus":     reflect.TypeOf(&ipfscluster.ConsensusRPCAPI{}),
		"PeerMonitor":   reflect.TypeOf(&ipfscluster.PeerMonitorRPCAPI{}),
	} {
		for i := 0; i < t.NumMethod(); i++ {
			m := t.Method(i)
			if m.Type.NumIn() != 4 { // receiver, ctx, in, out
				continue
			}
			at := m.Type.In(2)
			e := endpoint{Svc: svc, Method: m.Name, ArgKind: at.Kind()}
			if at.Kind() == reflect.Struct && at.NumField() == 0 {
				e.NoArg = true
			}
			if at.Kind() == reflect.Ptr {
				e.ArgKind = at.Elem().Kind()
			}
			out = append(out, e)
		}
	}
	sort.Slice(out, func(i, j int) bool { return out[i].name() < out[j].name() })
	return out
}

// probeArg: something the endpoint's argument type cannot be decoded from.
func probeArg(e endpoint) interface{} {
	if e.NoArg {
		return struct{}{}
	}
	switch e.ArgKind {
	case reflect.String, reflect.Slice, reflect.Array:
		return map[string]int{"x": 1}
	default:
		return "not-a-valid-argument"
	}
}

// ---- trust configurations ----

type trustCfg struct {
	Name     string
	Raft     bool
	TrustAll bool
	List     func(t, u peer.ID) []peer.ID
	After    func(ctx context.Context, c ipfscluster.Consensus, t, u peer.ID) // Trust/Distrust calls before probing
	TrustedT bool
	TrustedU bool
	Tracing  bool // cluster "enable tracing" option: the RPC server is built with a stats handler
	// Closed: endpoints this peer's configuration closes on top of the shipped
	// policy (Config.RPCPolicy is the peer's policy; ipfs-cluster-follow closes
	// Cluster.RepoGCLocal this way). They are local-only endpoints of this peer.
	Closed []string
}

var trustCfgs = []trustCfg{
	{Name: "raft", Raft: true, TrustedT: true, TrustedU: true},
	{Name: "raft+follower-policy", Raft: true, TrustedT: true, TrustedU: true, Closed: []string{"Cluster.RepoGCLocal"}},
	{Name: "crdt-list[T]+policy-closing-more", List: func(t, u peer.ID) []peer.ID { return []peer.ID{t} }, TrustedT: true,
		Closed: []string{"Cluster.RepoGCLocal", "Cluster.Pin", "Cluster.ID", "PinTracker.Track", "IPFSConnector.Pin", "Consensus.LogPin"}},
	{Name: "crdt-list[T]", List: func(t, u peer.ID) []peer.ID { return []peer.ID{t} }, TrustedT: true},
	{Name: "crdt-empty-list", List: func(t, u peer.ID) []peer.ID { return nil }},
	{Name: "crdt-trust-all", TrustAll: true, TrustedT: true, TrustedU: true},
	{Name: "crdt-list[T]-then-Trust(U)", List: func(t, u peer.ID) []peer.ID { return []peer.ID{t} },
		After: func(ctx context.Context, c ipfscluster.Consensus, t, u peer.ID) { c.Trust(ctx, u) }, TrustedT: true, TrustedU: true},
	{Name: "crdt-list[T]-then-Distrust(T)", List: func(t, u peer.ID) []peer.ID { return []peer.ID{t} },
		After: func(ctx context.Context, c ipfscluster.Consensus, t, u peer.ID) { c.Distrust(ctx, t) }},
	{Name: "crdt-list[T]+tracing", List: func(t, u peer.ID) []peer.ID { return []peer.ID{t} }, TrustedT: true, Tracing: true},
	{Name: "crdt-empty-list+tracing", List: func(t, u peer.ID) []peer.ID { return nil }, Tracing: true},
	// the join handshake (open endpoint Cluster.PeerAdd -> Consensus.AddPeer) gives no trust
	{Name: "crdt-list[T]-then-AddPeer(U)", List: func(t, u peer.ID) []peer.ID { return []peer.ID{t} },
		After: func(ctx context.Context, c ipfscluster.Consensus, t, u peer.ID) { c.AddPeer(ctx, u) }, TrustedT: true},
	{Name: "crdt-empty-list-then-AddPeer(U)", List: func(t, u peer.ID) []peer.ID { return nil },
		After: func(ctx context.Context, c ipfscluster.Consensus, t, u peer.ID) { c.AddPeer(ctx, u) }},
	{Name: "crdt-list[T,U]-then-Distrust(U)", List: func(t, u peer.ID) []peer.ID { return []peer.ID{t, u} },
		After: func(ctx context.Context, c ipfscluster.Consensus, t, u peer.ID) { c.Distrust(ctx, u) }, TrustedT: true},
}

func buildServer(ctx context.Context, t *testing.T, h host.Host, tc trustCfg, tp, up peer.ID) (*clus.Peer, func()) {
	dht, err := dual.New(ctx, h)
	if err != nil {
		t.Fatal(err)
	}
	var cons ipfscluster.Consensus
	cleanup := func() {}
	if tc.Raft {
		dir, _ := os.MkdirTemp(os.Getenv("VERIF_SCRATCH"), "c07raft")
		cfg := &raft.Config{}
		cfg.Default()
		cfg.DataFolder = dir
		cfg.InitPeerset = []peer.ID{h.ID()}
		rc, err := raft.NewConsensus(h, cfg, inmem.New(), false)
		if err != nil {
			t.Fatal(err)
		}
		cons = rc
		cleanup = func() { os.RemoveAll(dir) }
	} else {
		ps, err := pubsub.NewFloodSub(ctx, h, pubsub.WithMessageSigning(true), pubsub.WithStrictSignatureVerification(true))
		if err != nil {
			t.Fatal(err)
		}
		// the configuration takes the way it takes in the daemon: the crdt
		// section of service.json is loaded, then the environment is applied
		// (config.Manager.LoadJSONFileAndEnv does exactly these two steps)
		tps := []string{}
		if tc.TrustAll {
			tps = []string{"*"}
		} else if tc.List != nil {
			for _, p := range tc.List(tp, up) {
				tps = append(tps, peer.Encode(p))
			}
		}
		raw, _ := json.Marshal(map[string]interface{}{"cluster_name": "verif", "trusted_peers": tps})
		cfg := &crdt.Config{}
		if err := cfg.LoadJSON(raw); err != nil {
			t.Fatal(err)
		}
		if err := cfg.ApplyEnvVars(); err != nil {
			t.Fatal(err)
		}
		cc, err := crdt.New(h, dht, ps, cfg, inmem.New())
		if err != nil {
			t.Fatal(err)
		}
		cons = cc
	}
	p, err := clus.NewPeer(ctx, &clus.PeerParts{Host: h, Consensus: cons, DHT: dht,
		Cfg: func(c *ipfscluster.Config) {
			c.Tracing = tc.Tracing
			if len(tc.Closed) > 0 {
				// a policy of its own for this peer (the package-level table is
				// left alone: other configurations run in this process)
				pol := make(map[string]ipfscluster.RPCEndpointType, len(c.RPCPolicy))
				for k, v := range c.RPCPolicy {
					pol[k] = v
				}
				for _, k := range tc.Closed {
					pol[k] = ipfscluster.RPCClosed
				}
				c.RPCPolicy = pol
			}
		}})
	if err != nil {
		t.Fatal(err)
	}
	return p, cleanup
}

func TestRPCMatrix(t *testing.T) {
	eps := endpoints()
	sec := R.Sec("rpc-matrix")
	sec.Bounds["endpoints_discovered"] = len(eps)
	sec.Bounds["trust_configurations"] = len(trustCfgs)
	sec.Bounds["caller_classes"] = 3
	known := 0
	for _, e := range eps {
		if open[e.name()] || remoteTrusted[e.name()] || localOnly[e.name()] {
			known++
		}
	}
	sec.Bounds["endpoints_with_a_specified_class"] = known
	if len(eps) < 40 {
		R.Broken("only %d RPC endpoints discovered by reflection", len(eps))
		return
	}
	for _, tc := range trustCfgs {
		tc := tc
		clus.Bubble(t, func(t *testing.T) {
			ctx := context.Background()
			_, hosts := clus.NewMocknetUnconnected(ctx, 0, 3)
			sh, th, uh := hosts[0], hosts[1], hosts[2]
			srv, cleanup := buildServer(ctx, t, sh, tc, th.ID(), uh.ID())
			defer func() {
				srv.Stop()
				cleanup()
				for _, h := range hosts {
					h.Close()
				}
			}()
			select {
			case <-srv.C.Ready():
			case <-time.After(2 * time.Minute):
				R.Broken("server peer not ready in configuration %s", tc.Name)
				return
			}
			if tc.After != nil {
				tc.After(ctx, srv.Parts.Consensus, th.ID(), uh.ID())
			}
			// sanity: the configuration yields the trust the property describes
			if got := srv.Parts.Consensus.IsTrustedPeer(ctx, th.ID()); got != tc.TrustedT {
				R.Violation("C07|trust-config|"+tc.Name+"|T-trusted="+fmt.Sprint(got), map[string]interface{}{"config": tc.Name, "peer": "T", "expected_trusted": tc.TrustedT, "got": got})
			}
			if got := srv.Parts.Consensus.IsTrustedPeer(ctx, uh.ID()); got != tc.TrustedU {
				R.Violation("C07|trust-config|"+tc.Name+"|U-trusted="+fmt.Sprint(got), map[string]interface{}{"config": tc.Name, "peer": "U", "expected_trusted": tc.TrustedU, "got": got})
			}
			type caller struct {
				name    string
				client  *rpc.Client
				dest    peer.ID
				trusted bool
				self    bool
			}
			tcl := rpc.NewClient(th, version.RPCProtocol)
			ucl := rpc.NewClient(uh, version.RPCProtocol)
			callers := []caller{
				{"self", srv.API.Client, "", true, true},
				{"trusted-remote", tcl, sh.ID(), tc.TrustedT, false},
				{"untrusted-remote", ucl, sh.ID(), tc.TrustedU, false},
			}
			for _, c := range callers {
				for _, e := range eps {
					if c.self && !e.NoArg {
						// gorpc dispatches local calls without decoding (a wrongly
						// typed probe would panic inside gorpc) and without any
						// authorization hook: self is probed on the argument-less
						// endpoints only
						continue
					}
					cctx, cancel := context.WithTimeout(ctx, 30*time.Second)
					var out interface{}
					done := make(chan error, 1)
					go func() { done <- c.client.CallContext(cctx, c.dest, e.Svc, e.Method, probeArg(e), &out) }()
					var err error
					select {
					case err = <-done:
					case <-time.After(40 * time.Second):
						err = fmt.Errorf("probe did not return")
					}
					cancel()
					denied := err != nil && rpc.IsAuthorizationError(err)
					obs := "authorized"
					if denied {
						obs = "refused"
					}
					R.Eval(sec, fmt.Sprintf("%s|%s|%s|%s", tc.Name, c.name, e.name(), obs), true)
					R.Outcome(sec, c.name+":"+obs)
					detail := map[string]interface{}{"config": tc.Name, "caller": c.name, "caller_trusted_by_config": c.trusted, "endpoint": e.name(), "observed": obs, "error": fmt.Sprint(err)}
					key := func(sym string) string {
						return fmt.Sprintf("C07|%s|%s|%s|%s", e.name(), c.name, tc.Name, sym)
					}
					closedHere := false
					for _, k := range tc.Closed {
						closedHere = closedHere || k == e.name()
					}
					switch {
					case c.self:
						if denied {
							R.Violation(key("self-refused"), detail)
						}
					case closedHere:
						if !denied {
							R.Violation(key("endpoint-closed-by-configuration-open-to-remote"), detail)
						}
					case localOnly[e.name()]:
						if !denied {
							R.Violation(key("local-only-endpoint-open-to-remote"), detail)
						}
					case open[e.name()]:
						if denied {
							R.Violation(key("open-endpoint-refused"), detail)
						}
					case remoteTrusted[e.name()]:
						if c.trusted && denied {
							R.Violation(key("trusted-caller-refused"), detail)
						}
						if !c.trusted && !denied {
							R.Violation(key("untrusted-caller-authorized"), detail)
						}
					default: // unspecified / new endpoint: default deny for untrusted callers
						if !c.trusted && !denied {
							R.Violation(key("untrusted-caller-authorized"), detail)
						}
					}
				}
			}
			synctest.Wait()
		})
	}
	R.SampleTagged("probe", 1, map[string]string{"endpoint": "Consensus.LogPin", "caller": "untrusted-remote", "config": "crdt-list[T]", "expected": "refused"})
	R.SampleTagged("probe", 2, map[string]string{"endpoint": "Cluster.ID", "caller": "untrusted-remote", "config": "crdt-empty-list", "expected": "authorized"})
}

// ---- CRDT: updates published by an untrusted replica are ignored ----

func pinsOf(ctx context.Context, p *clus.CRDTPeer) map[string]bool {
	st, err := p.Cons.State(ctx)
	m := map[string]bool{}
	if err != nil {
		return m
	}
	l, _ := st.List(ctx)
	for _, x := range l {
		m[x.Cid.String()] = true
	}
	return m
}

// TestRelayedUntrustedPublisher: U - B - A in a line (no link between A and U).
// A trusts only B; B trusts A and U, so B accepts U's broadcast and the pubsub
// router relays it to A. The message A receives is signed by U (untrusted) but
// delivered by B (trusted): A must ignore it. Rebroadcast is set to 1h so that
// B's own head broadcasts (the known transitive-trust finding) cannot
// interfere within the observation window.
func TestRelayedUntrustedPublisher(t *testing.T) {
	sec := R.Sec("crdt-untrusted-publisher-relayed")
	for _, gossip := range []bool{true, false} {
		gossip := gossip
		clus.Bubble(t, func(t *testing.T) {
			ctx := context.Background()
			mn, hosts := clus.NewMocknetUnconnected(ctx, 0, 3)
			ids := []peer.ID{hosts[0].ID(), hosts[1].ID(), hosts[2].ID()}
			a, b, u := 0, 1, 2
			mn.UnlinkPeers(ids[a], ids[u])
			var ps []*clus.CRDTPeer
			for i, h := range hosts {
				i := i
				p, err := clus.NewCRDTPeer(ctx, h, clus.NewFaultStore(), gossip, func(c *crdt.Config) {
					c.RebroadcastInterval = time.Hour
					c.TrustAll = false
					switch i {
					case a:
						c.TrustedPeers = []peer.ID{ids[b]}
					case b:
						c.TrustedPeers = []peer.ID{ids[a], ids[u]}
					case u:
						c.TrustAll = true
					}
				})
				if err != nil {
					t.Fatal(err)
				}
				ps = append(ps, p)
			}
			defer func() {
				for _, p := range ps {
					p.Stop()
					p.Host.Close()
				}
			}()
			for _, p := range ps {
				<-p.Cons.Ready(ctx)
			}
			mn.ConnectPeers(ids[u], ids[b])
			mn.ConnectPeers(ids[b], ids[a])
			time.Sleep(5 * time.Second) // subscriptions exchanged, gossipsub mesh grafted
			synctest.Wait()
			pin := api.PinCid(clus.Cid("relayed-from-U"))
			pin.ReplicationFactorMin, pin.ReplicationFactorMax = -1, -1
			ps[u].Cons.LogPin(ctx, pin)
			time.Sleep(20 * time.Second)
			synctest.Wait()
			atB := pinsOf(ctx, ps[b])[pin.Cid.String()]
			atA := pinsOf(ctx, ps[a])[pin.Cid.String()]
			direct := len(hosts[a].Network().ConnsToPeer(ids[u]))
			R.Eval(sec, fmt.Sprintf("gossip=%v|relay-accepted-U=%v|A-applied=%v|direct-conns=%d", gossip, atB, atA, direct), true)
			if atA {
				R.Violation("C07|crdt-pubsub|relayed-by-trusted-peer|A|update-from-untrusted-publisher-accepted", map[string]interface{}{
					"gossip": gossip, "topology": "U - B - A (no A-U link)", "A_trusts": "B", "B_trusts": "A,U", "relay_B_has_the_pin": atB,
					"A_has_the_pin": atA, "direct_A_U_connections": direct})
			}
		})
	}
}

func TestUntrustedPublisher(t *testing.T) {
	sec := R.Sec("crdt-untrusted-publisher")
	for _, gossip := range []bool{false, true} {
		gossip := gossip
		if gossip && !ev.Thorough() {
			continue
		}
		clus.Bubble(t, func(t *testing.T) {
			ctx := context.Background()
			mn, hosts := clus.NewMocknetUnconnected(ctx, 0, 3)
			ids := []peer.ID{hosts[0].ID(), hosts[1].ID(), hosts[2].ID()}
			var ps []*clus.CRDTPeer
			for i, h := range hosts {
				i := i
				p, err := clus.NewCRDTPeer(ctx, h, clus.NewFaultStore(), gossip, func(c *crdt.Config) {
					c.TrustAll = i == 2 // U trusts everyone, A and B trust each other only
					if i < 2 {
						c.TrustedPeers = []peer.ID{ids[0], ids[1]}
					}
				})
				if err != nil {
					t.Fatal(err)
				}
				ps = append(ps, p)
			}
			defer func() {
				for _, p := range ps {
					p.Stop()
					p.Host.Close()
				}
			}()
			for _, p := range ps {
				<-p.Cons.Ready(ctx)
			}
			mn.ConnectAllButSelf()
			time.Sleep(2 * time.Second)
			synctest.Wait()
			A, B, U := ps[0], ps[1], ps[2]
			mk := func(s string) *api.Pin {
				p := api.PinCid(clus.Cid(s))
				p.ReplicationFactorMin, p.ReplicationFactorMax = -1, -1
				return p
			}
			settle := func() {
				for i := 0; i < 6; i++ {
					time.Sleep(11 * time.Second)
					synctest.Wait()
				}
			}
			U.Cons.LogPin(ctx, mk("from-U-1"))
			B.Cons.LogPin(ctx, mk("from-B-1"))
			settle()
			judge := func(phase string, who string, p *clus.CRDTPeer, c string, want bool) {
				got := pinsOf(ctx, p)[clus.Cid(c).String()]
				R.Eval(sec, fmt.Sprintf("gossip=%v|%s|%s|%s|%v", gossip, phase, who, c, got), true)
				if got != want {
					sym := "update-from-untrusted-publisher-accepted"
					if want {
						sym = "update-from-trusted-publisher-missing"
					}
					R.Violation(fmt.Sprintf("C07|crdt-pubsub|%s|%s|%s", phase, who, sym), map[string]interface{}{"gossip": gossip, "phase": phase, "replica": who, "pin": c, "present": got, "expected_present": want})
				}
			}
			judge("initial", "A", A, "from-U-1", false)
			judge("initial", "B", B, "from-U-1", false)
			judge("initial", "A", A, "from-B-1", true)
			// trust follows later Trust calls
			A.Cons.Trust(ctx, ids[2])
			U.Cons.LogPin(ctx, mk("from-U-2"))
			settle()
			judge("after-A-trusts-U", "A", A, "from-U-2", true)
			judge("after-A-trusts-U", "B", B, "from-U-2", false)
			// ... and later Distrust calls
			A.Cons.Distrust(ctx, ids[2])
			U.Cons.LogPin(ctx, mk("from-U-3"))
			settle()
			judge("after-A-distrusts-U", "A", A, "from-U-3", false)
			judge("after-A-distrusts-U", "B", B, "from-U-3", false)
		})
	}
	_ = strings.Join
}

// TestUntrustedPublisherDuringStartup: an update published by an untrusted
// peer while the receiving replica is still starting (already subscribed to
// the cluster topic, its CRDT store not yet running: the replica's datastore
// holds the first query of go-ds-crdt) must be ignored like any other.
func TestUntrustedPublisherDuringStartup(t *testing.T) {
	sec := R.Sec("crdt-untrusted-publisher-while-the-receiver-starts")
	for _, gossip := range []bool{false, true} {
		gossip := gossip
		clus.Bubble(t, func(t *testing.T) {
			ctx := context.Background()
			mn, hosts := clus.NewMocknetUnconnected(ctx, 0, 2)
			v, u := 0, 1
			U, err := clus.NewCRDTPeer(ctx, hosts[u], clus.NewFaultStore(), gossip, func(c *crdt.Config) { c.TrustAll = true })
			if err != nil {
				t.Fatal(err)
			}
			<-U.Cons.Ready(ctx)
			store := clus.NewFaultStore()
			store.HoldQueries(true)
			V, err := clus.NewCRDTPeer(ctx, hosts[v], store, gossip, func(c *crdt.Config) {
				c.TrustAll = false
				c.TrustedPeers = []peer.ID{clus.PID(7)} // somebody else
			})
			if err != nil {
				t.Fatal(err)
			}
			defer func() {
				store.HoldQueries(false)
				U.Stop()
				V.Stop()
				hosts[0].Close()
				hosts[1].Close()
			}()
			mn.ConnectPeers(hosts[u].ID(), hosts[v].ID())
			time.Sleep(5 * time.Second)
			synctest.Wait()
			held := store.QueriesHeld()
			pin := api.PinCid(clus.Cid("published-while-V-starts"))
			pin.ReplicationFactorMin, pin.ReplicationFactorMax = -1, -1
			U.Cons.LogPin(ctx, pin)
			time.Sleep(3 * time.Second)
			synctest.Wait()
			store.HoldQueries(false)
			ready := false
			select {
			case <-V.Cons.Ready(ctx):
				ready = true
			case <-time.After(2 * time.Minute):
			}
			for i := 0; i < 6; i++ {
				time.Sleep(11 * time.Second)
				synctest.Wait()
			}
			got := pinsOf(ctx, V)[pin.Cid.String()]
			R.Eval(sec, fmt.Sprintf("gossip=%v|held-at-first-query=%v|ready-after-release=%v|applied=%v", gossip, held > 0, ready, got), true)
			if held == 0 || !ready {
				R.Broken("startup-window section: the receiving replica was not held at its first query (held=%d) or did not become ready (%v)", held, ready)
				return
			}
			if got {
				R.Violation("C07|crdt-pubsub|while-the-receiver-starts|V|update-from-untrusted-publisher-accepted", map[string]interface{}{
					"gossip": gossip, "V_trusts": "another peer only", "published": "while V was subscribed to the topic and its CRDT store had not started (first datastore query held)", "V_has_the_pin": got})
			}
		})
	}
}

// TestTrustListFromAddresses: "the listed peers" of a CRDT trust list are
// derived by the daemon (init --peers, daemon --bootstrap) from the addresses
// the operator lists, through ipfscluster.PeersFromMultiaddrs. For every
// subset (<= 3) of an alphabet of address shapes - plain ip4/dns4/ip6, two
// addresses of one peer, a relayed (circuit) address naming relay and target,
// an address naming no peer - the derived list is exactly the peers the
// addresses are addresses OF, and a replica configured with it trusts those
// and nobody else (in particular not a relay on the way).
func TestTrustListFromAddresses(t *testing.T) {
	sec := R.Sec("trust-list-from-listed-addresses")
	P := func(i int) peer.ID { return clus.PID(60 + i) }
	type shape struct {
		name   string
		addr   string
		target int // -1: names no peer
		others []int
	}
	relay := 9
	shapes := []shape{
		{"ip4", "/ip4/10.0.0.1/tcp/9096/p2p/" + peer.Encode(P(1)), 1, nil},
		{"dns4", "/dns4/cluster.example.org/tcp/9096/p2p/" + peer.Encode(P(2)), 2, nil},
		{"ip6", "/ip6/fd00::3/tcp/9096/p2p/" + peer.Encode(P(3)), 3, nil},
		{"second-address-of-1", "/ip4/192.168.1.1/tcp/9097/p2p/" + peer.Encode(P(1)), 1, nil},
		{"circuit-via-relay", "/ip4/10.0.0.9/tcp/4001/p2p/" + peer.Encode(P(relay)) + "/p2p-circuit/p2p/" + peer.Encode(P(4)), 4, []int{relay}},
		{"circuit-via-relay-to-2", "/dns4/relay.example.org/tcp/4001/p2p/" + peer.Encode(P(relay)) + "/p2p-circuit/p2p/" + peer.Encode(P(2)), 2, []int{relay}},
		{"no-peer", "/ip4/10.0.0.7/tcp/9096", -1, nil},
	}
	n := 0
	var rec func(start int, cur []int)
	run := func(cur []int) {
		var addrs []ma.Multiaddr
		want := map[peer.ID]bool{}
		notWanted := map[peer.ID]bool{}
		var names []string
		for _, i := range cur {
			a, err := ma.NewMultiaddr(shapes[i].addr)
			if err != nil {
				t.Fatalf("harness: %s: %v", shapes[i].addr, err)
			}
			addrs = append(addrs, a)
			names = append(names, shapes[i].name)
			if shapes[i].target >= 0 {
				want[P(shapes[i].target)] = true
			}
			for _, o := range shapes[i].others {
				notWanted[P(o)] = true
			}
		}
		for p := range want {
			delete(notWanted, p)
		}
		got := ipfscluster.PeersFromMultiaddrs(addrs)
		gm := map[peer.ID]bool{}
		dup := false
		for _, g := range got {
			if gm[g] {
				dup = true
			}
			gm[g] = true
		}
		ok := !dup && len(gm) == len(want)
		for p := range want {
			if !gm[p] {
				ok = false
			}
		}
		// a replica configured with the derived list
		trustedWrong := ""
		clus.Bubble(t, func(t *testing.T) {
			ctx := context.Background()
			_, hosts := clus.NewMocknetUnconnected(ctx, 0, 1)
			defer hosts[0].Close()
			rep, err := clus.NewCRDTPeer(ctx, hosts[0], clus.NewFaultStore(), false, func(c *crdt.Config) {
				c.TrustAll = false
				c.TrustedPeers = got
			})
			if err != nil {
				t.Fatal(err)
			}
			defer rep.Stop()
			<-rep.Cons.Ready(ctx)
			for p := range want {
				if !rep.Cons.IsTrustedPeer(ctx, p) {
					trustedWrong = "listed peer " + p.String() + " is not trusted"
				}
			}
			for p := range notWanted {
				if rep.Cons.IsTrustedPeer(ctx, p) {
					trustedWrong = "peer " + p.String() + " (a relay on the way, never listed as a peer) is trusted"
				}
			}
		})
		n++
		R.Eval(sec, fmt.Sprintf("%s|derived-ok=%v|trust=%s", strings.Join(names, "+"), ok, trustedWrong), true)
		if !ok || trustedWrong != "" {
			var gs, ws []string
			for _, g := range got {
				gs = append(gs, g.String())
			}
			for p := range want {
				ws = append(ws, p.String())
			}
			sort.Strings(ws)
			R.Violation("C07|trust-list-from-addresses|"+strings.Join(names, "+"), map[string]interface{}{
				"listed_addresses": names, "derived_trust_list": gs, "peers_the_addresses_belong_to": ws, "trust_problem": trustedWrong})
		}
	}
	rec = func(start int, cur []int) {
		if len(cur) > 0 {
			run(cur)
		}
		if len(cur) == 3 {
			return
		}
		for i := start; i < len(shapes); i++ {
			rec(i+1, append(append([]int{}, cur...), i))
		}
	}
	rec(0, nil)
	sec.Bounds["address_sets"] = fmt.Sprintf("%d: every subset of 1..3 of %d address shapes", n, len(shapes))
}
