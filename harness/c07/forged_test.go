package c07

import (
	"context"
	"fmt"
	"testing"
	"time"

	ipfscluster "github.com/ipfs/ipfs-cluster"
	"github.com/ipfs/ipfs-cluster/api"
	"github.com/ipfs/ipfs-cluster/config"
	"github.com/ipfs/ipfs-cluster/consensus/crdt"
	"github.com/ipfs/ipfs-cluster/datastore/inmem"

	libp2p "github.com/libp2p/go-libp2p"
	host "github.com/libp2p/go-libp2p-core/host"
	peer "github.com/libp2p/go-libp2p-core/peer"
	peerstore "github.com/libp2p/go-libp2p-core/peerstore"
	rpc "github.com/libp2p/go-libp2p-gorpc"
	dual "github.com/libp2p/go-libp2p-kad-dht/dual"
	noise "github.com/libp2p/go-libp2p-noise"
	pubsub "github.com/libp2p/go-libp2p-pubsub"
	ma "github.com/multiformats/go-multiaddr"

	"verif/harness/lib/clus"
)

// The other pubsub sections build the replicas' pubsub in the harness (strict
// signing). This one takes the victim's host, DHT and pubsub from
// ipfscluster.NewClusterHost - the constructor the daemon uses - so that what
// the production pubsub accepts from the wire is part of what is checked. It
// needs real sockets (loopback TCP), so it runs outside a synctest bubble and
// on the real clock; the oracle is one-sided (an intruder's pin present at the
// victim is a violation whenever it is seen; waiting longer can only find more).

func forgedSecret() []byte {
	s := make([]byte, 32)
	for i := range s {
		s[i] = byte(3*i + 11)
	}
	return s
}

type plainPeer struct {
	h    host.Host
	cons *crdt.Consensus
	dht  *dual.DHT
}

func (p *plainPeer) stop() {
	if p.cons != nil {
		p.cons.Shutdown(context.Background())
	}
	if p.dht != nil {
		p.dht.Close()
	}
	p.h.Close()
}

func forgedCons(h host.Host, ps *pubsub.PubSub, d *dual.DHT, trusted []peer.ID) (*crdt.Consensus, error) {
	cfg := &crdt.Config{}
	cfg.Default()
	cfg.ClusterName = "verif-forged"
	cfg.RebroadcastInterval = time.Second
	cfg.TrustAll = trusted == nil
	cfg.TrustedPeers = trusted
	cons, err := crdt.New(h, d, ps, cfg, inmem.New())
	if err != nil {
		return nil, err
	}
	srv := rpc.NewServer(h, clus.RPCProto)
	srv.RegisterName("PinTracker", &clus.TrackerRec{Rec: clus.NewRecorder()})
	srv.RegisterName("PeerMonitor", &clus.MonSvc{})
	cons.SetClient(rpc.NewClientWithServer(h, clus.RPCProto, srv))
	select {
	case <-cons.Ready(context.Background()):
	case <-time.After(2 * time.Minute):
		return nil, fmt.Errorf("consensus not ready")
	}
	return cons, nil
}

func plainHost(ctx context.Context) (host.Host, error) {
	return libp2p.New(ctx,
		libp2p.ListenAddrStrings("/ip4/127.0.0.1/tcp/0"),
		libp2p.PrivateNetwork(forgedSecret()),
		libp2p.Security(noise.ID, noise.New),
		libp2p.DefaultTransports,
	)
}

func hasPin(c *crdt.Consensus, p *api.Pin) bool {
	ctx, cancel := context.WithTimeout(context.Background(), 10*time.Second)
	defer cancel()
	st, err := c.State(ctx)
	if err != nil {
		return false
	}
	ok, _ := st.Has(ctx, p.Cid)
	return ok
}

// intruderKinds: what a swarm member the victim does not trust can put on the
// wire. Each is a pubsub option set for the intruder's own router.
type intruderKind struct {
	name string
	opts func(trustedAuthor peer.ID) []pubsub.Option
}

func intruderKinds() []intruderKind {
	return []intruderKind{
		{"signed-as-itself", func(peer.ID) []pubsub.Option {
			return []pubsub.Option{pubsub.WithMessageSigning(true), pubsub.WithStrictSignatureVerification(true)}
		}},
		{"unsigned-naming-itself", func(peer.ID) []pubsub.Option {
			return []pubsub.Option{pubsub.WithMessageSignaturePolicy(pubsub.LaxNoSign)}
		}},
		{"unsigned-naming-the-trusted-peer", func(a peer.ID) []pubsub.Option {
			return []pubsub.Option{pubsub.WithMessageSignaturePolicy(pubsub.LaxNoSign), pubsub.WithMessageAuthor(a)}
		}},
		{"unsigned-anonymous", func(peer.ID) []pubsub.Option {
			return []pubsub.Option{pubsub.WithMessageSignaturePolicy(pubsub.StrictNoSign)}
		}},
	}
}

func TestProductionPubsubForgedAuthor(t *testing.T) {
	sec := R.Sec("crdt-production-pubsub-forged-author")
	for _, kind := range intruderKinds() {
		kind := kind
		func() {
			ctx, cancel := context.WithCancel(context.Background())
			defer cancel()

			// the victim: production host, DHT and pubsub
			ident, err := config.NewIdentity()
			if err != nil {
				R.Broken("identity: %v", err)
				return
			}
			ccfg := &ipfscluster.Config{}
			if err := ccfg.Default(); err != nil {
				R.Broken("cluster config: %v", err)
				return
			}
			ccfg.Secret = forgedSecret()
			la, _ := ma.NewMultiaddr("/ip4/127.0.0.1/tcp/0")
			ccfg.ListenAddr = []ma.Multiaddr{la}
			vh, vps, vdht, err := ipfscluster.NewClusterHost(ctx, ident, ccfg, inmem.New())
			if err != nil {
				R.Broken("NewClusterHost: %v", err)
				return
			}
			victim := &plainPeer{h: vh, dht: vdht}
			defer victim.stop()

			mkPlain := func(opts []pubsub.Option) (*plainPeer, *pubsub.PubSub) {
				h, err := plainHost(ctx)
				if err != nil {
					R.Broken("host: %v", err)
					return nil, nil
				}
				d, err := dual.New(ctx, h)
				if err != nil {
					h.Close()
					R.Broken("dht: %v", err)
					return nil, nil
				}
				ps, err := pubsub.NewGossipSub(ctx, h, opts...)
				if err != nil {
					h.Close()
					R.Broken("pubsub: %v", err)
					return nil, nil
				}
				return &plainPeer{h: h, dht: d}, ps
			}
			publisher, pps := mkPlain([]pubsub.Option{pubsub.WithMessageSigning(true), pubsub.WithStrictSignatureVerification(true)})
			if publisher == nil {
				return
			}
			defer publisher.stop()
			intruder, ips := mkPlain(kind.opts(publisher.h.ID()))
			if intruder == nil {
				return
			}
			defer intruder.stop()

			// victim trusts the publisher only; the publisher trusts the victim
			// only (so nothing of the intruder's can arrive through it); the
			// intruder trusts everybody.
			if victim.cons, err = forgedCons(vh, vps, vdht, []peer.ID{publisher.h.ID()}); err != nil {
				R.Broken("victim consensus: %v", err)
				return
			}
			if publisher.cons, err = forgedCons(publisher.h, pps, publisher.dht, []peer.ID{vh.ID()}); err != nil {
				R.Broken("publisher consensus: %v", err)
				return
			}
			if intruder.cons, err = forgedCons(intruder.h, ips, intruder.dht, nil); err != nil {
				R.Broken("intruder consensus: %v", err)
				return
			}
			if victim.cons.IsTrustedPeer(ctx, intruder.h.ID()) || !victim.cons.IsTrustedPeer(ctx, publisher.h.ID()) {
				R.Broken("trust set-up is not what the section assumes")
				return
			}
			for _, p := range []*plainPeer{publisher, intruder} {
				p.h.Peerstore().AddAddrs(vh.ID(), vh.Addrs(), peerstore.PermanentAddrTTL)
				if _, err := p.h.Network().DialPeer(ctx, vh.ID()); err != nil {
					R.Broken("dial: %v", err)
					return
				}
			}
			time.Sleep(2 * time.Second) // subscriptions exchanged

			mk := func(s string) *api.Pin {
				p := api.PinCid(clus.Cid(s))
				p.ReplicationFactorMin, p.ReplicationFactorMax = -1, -1
				return p
			}
			forged := mk("forged-" + kind.name)
			control := mk("control-" + kind.name)
			// the intruder goes first and rebroadcasts every second, so by the
			// time the control has arrived its message has had every chance too
			if err := intruder.cons.LogPin(ctx, forged); err != nil {
				R.Broken("intruder LogPin: %v", err)
				return
			}
			time.Sleep(time.Second)
			if err := publisher.cons.LogPin(ctx, control); err != nil {
				R.Broken("publisher LogPin: %v", err)
				return
			}
			deadline := time.Now().Add(3 * time.Minute)
			arrived := false
			for time.Now().Before(deadline) {
				if hasPin(victim.cons, control) {
					arrived = true
					break
				}
				time.Sleep(200 * time.Millisecond)
			}
			if !arrived {
				// without the control nothing is known about this kind; not a
				// statement about the code
				R.NotExhaustive("production-pubsub section: the trusted publisher's pin did not arrive within 3 minutes for intruder kind " + kind.name + "; kind not decided")
				return
			}
			got := false
			for i := 0; i < 40 && !got; i++ { // 8 more rebroadcasts of the intruder
				got = hasPin(victim.cons, forged)
				time.Sleep(200 * time.Millisecond)
			}
			R.Eval(sec, fmt.Sprintf("intruder=%s|control-arrived=true|victim-applied-intruder-pin=%v", kind.name, got), true)
			if got {
				R.Violation("C07|crdt-pubsub|production-pubsub|"+kind.name+"|update-from-untrusted-publisher-accepted", map[string]interface{}{
					"victim": "host, DHT and pubsub from NewClusterHost; trusted_peers=[publisher]", "intruder": kind.name,
					"pin": forged.Cid.String(), "control_pin_from_trusted_publisher_arrived": true})
			}
		}()
	}
}
